-- Root of the `Pithos` library: models, specs and property theorems.
import Pithos.Util.Proto
import Pithos.Model.Streams
import Pithos.Props.C36
