/-
C12 (concurrent half) — AppendObject does not lose concurrent appends.

Theorems about `Pithos.MetaFine`, the statement-level model of the optimistic-lock protocol (reads
and the guarded commit of every writer are separate atomic steps; schedules are arbitrary lists of
thread indices, so every interleaving of any number of writers is covered — no bound). Proofs:
`Pithos.Lemmas.MetaFine` (invariants by induction over schedules).

On SQLite none of these interleavings occurs (every storage call is one serialised write
transaction — `Pithos.C07.sqlite_write_transactions_serialised`, and the recorded concurrent
histories are checked for linearizability, signatures `C07.append.*`); the theorems say what the
version compare-and-swap guarantees on a database that runs write transactions concurrently.
-/
import Pithos.Model.MetaFine
import Pithos.Lemmas.MetaFine
import Pithos.Gen.CondPaths

namespace Pithos.C12Concurrent
open Pithos.MetaFine

/-- **append_commit_exact.** Appenders (with or without write offset) racing with each other and
with putters/completers of non-empty objects (conditional or not), ARBITRARY interleavings: an
acknowledged append extended exactly the row that was current at its commit by exactly its own
part, the offset it reports is the size of that row, and a write offset it named equals that size. -/
theorem append_commit_exact (sz : PartId → Nat) (row : Option Cell) (nextId : Nat) (progs : List Prog) (sched : List Nat)
    (hid : ∀ c, row = some c → c.id < nextId) (hp : ∀ p ∈ progs, AppendOrPut p) (hf : Fresh row progs) :
    ∀ cm ∈ (exec sz (init row nextId progs) sched).log, ∀ new off, progs[cm.tid]? = some (.append new off) →
      partsOf cm.after = partsOf cm.before ++ [new] ∧
      (∃ t, (exec sz (init row nextId progs) sched).threads[cm.tid]? = some t ∧
        t.loc = .done (.okAt (sizeOf sz (partsOf cm.before)))) ∧
      (∀ n, off = some n → n = sizeOf sz (partsOf cm.before)) :=
  MetaFine.append_commit_exact sz row nextId progs sched hid hp hf

/-- **no_lost_append.** Any number of concurrent appenders, ARBITRARY interleavings of their reads
and compare-and-swap commits: the final content is the initial content followed by the acknowledged
appends in commit order; every acknowledged append occurs exactly once, at the offset it was
accepted for; an append that was not acknowledged does not occur at all. -/
theorem no_lost_append (sz : PartId → Nat) (row : Option Cell) (nextId : Nat) (progs : List Prog) (sched : List Nat)
    (hid : ∀ c, row = some c → c.id < nextId) (ha : ∀ p ∈ progs, ∃ new off, p = .append new off) (hf : Fresh row progs) :
    let s := exec sz (init row nextId progs) sched
    partsOf s.db.row = partsOf row ++ (s.log.flatMap fun cm => (progs[cm.tid]?.map Prog.news).getD []) ∧
    (∀ (i : Nat) (t : Thread) new off o, s.threads[i]? = some t → t.prog = .append new off → t.loc = .done (.okAt o) →
        (partsOf s.db.row).count new = 1 ∧ ∃ pre post, partsOf s.db.row = pre ++ new :: post ∧ sizeOf sz pre = o) ∧
    (∀ (i : Nat) (t : Thread) new off, s.threads[i]? = some t → t.prog = .append new off →
        (∀ o, t.loc ≠ .done (.okAt o)) → new ∉ partsOf s.db.row) :=
  MetaFine.no_lost_append sz row nextId progs sched hid ha hf

/-- The history of the row is the chain of the logged commits (nothing changes the row silently),
and every writer commits at most once. -/
theorem row_history_is_the_log (sz : PartId → Nat) (row : Option Cell) (nextId : Nat) (progs : List Prog) (sched : List Nat) :
    Chain row (exec sz (init row nextId progs) sched).log (exec sz (init row nextId progs) sched).db.row ∧
    ((exec sz (init row nextId progs) sched).log.map (·.tid)).Nodup :=
  ⟨MetaFine.log_chain sz row nextId progs sched, MetaFine.commit_once sz row nextId progs sched⟩

/-- Negation witness — why `append_commit_exact` excludes deleters (the protocol as it is, OFF
SQLite only): between the storage layer's read and the metadata store's read of an appender the
object is deleted; the appender finds no row, inserts a new one holding the OLD part list plus its
own part and is acknowledged at the old size — it re-creates deleted content (whose parts the
delete has released). The metadata store's own read is not compared with the storage layer's. -/
theorem append_resurrects_deleted_object :
    let s := exec (fun _ => 1) (init (some ⟨0, 1, [1]⟩) 1 [.append 2 none, .del none]) [0, 1, 1, 0, 0]
    s.db.row = some ⟨1, 1, [1, 2]⟩ ∧ s.threads.map (·.loc) = [.done (.okAt 1), .done .ok] :=
  MetaFine.append_resurrects_deleted_object

/-- … and the same hole with an upload without parts completed in between (an object with an empty
part list is a prefix of every list): the append is acknowledged at offset 1 although the object
it extended at its commit was empty. -/
theorem append_over_empty_replacement :
    let s := exec (fun _ => 1) (init (some ⟨0, 1, [1]⟩) 1 [.append 2 none, .put [] .none]) [0, 1, 1, 0, 0, 0]
    s.db.row = some ⟨0, 4, [1, 2]⟩ ∧ s.threads.map (·.loc) = [.done (.okAt 1), .done .ok] := by
  decide

/-- The append path WITHOUT the prefix check (what the metadata store would do if the comparison of
the existing part rows with the supplied list were skipped or made to depend on a request option):
read 3 records the part rows but accepts any list. -/
def stepThreadNoPrefix (sz : PartId → Nat) (tid : Nat) (d : Db) (t : Thread) : Db × Loc × Option Commit :=
  match t.prog, t.loc with
  | .append _ _, .r2 c1 (some sc) =>
    let p3 := match d.row with
      | some r => if r.id == sc.id then r.parts else []
      | none => []
    (d, .r3 c1 sc p3, none)
  | _, _ => stepThread sz tid d t

def stepNoPrefix (sz : PartId → Nat) (s : State) (i : Nat) : State :=
  match s.threads[i]? with
  | none => s
  | some t =>
    let (d', l', c) := stepThreadNoPrefix sz i s.db t
    { db := d', threads := setThread s.threads i l', log := s.log ++ c.toList }

def execNoPrefix (sz : PartId → Nat) (s : State) (sched : List Nat) : State := sched.foldl (stepNoPrefix sz) s

/-- Negation witness — why the prefix check must be UNCONDITIONAL (T1 obligation
`Pithos.C07.extracted_append_path_locks_the_row_it_read`): appender 0 takes its storage-layer snapshot
[1]; appender 1 appends 3 and commits; appender 0 re-reads the row (fresh version, so the
compare-and-swap will pass), skips the prefix check and commits the list built from its stale
snapshot: both appends are acknowledged at offset 1 and part 2 is nowhere. With the check (the model
as it is) appender 0 is refused on the same schedule. -/
theorem append_without_prefix_check_is_lost :
    let progs : List Prog := [.append 2 none, .append 3 none]
    let sched := [0, 1, 1, 1, 1, 0, 0, 0]
    (execNoPrefix (fun _ => 1) (init (some ⟨0, 1, [1]⟩) 1 progs) sched).db.row = some ⟨0, 3, [1, 3]⟩ ∧
    (execNoPrefix (fun _ => 1) (init (some ⟨0, 1, [1]⟩) 1 progs) sched).threads.map (·.loc)
      = [.done (.okAt 1), .done (.okAt 1)] ∧
    (exec (fun _ => 1) (init (some ⟨0, 1, [1]⟩) 1 progs) sched).db.row = some ⟨0, 2, [1, 3]⟩ ∧
    (exec (fun _ => 1) (init (some ⟨0, 1, [1]⟩) 1 progs) sched).threads.map (·.loc)
      = [.done .internal, .done (.okAt 1)] := by
  decide

/-- T1 (regenerated by the `condpaths` extractor): the metadata store's AppendObject takes its
guarded update with the version of the very row whose part rows it read, compares those part rows
with the supplied list as a prefix, and NOTHING else (no request option) decides whether that
comparison applies. -/
theorem append_path_prefix_check_is_unconditional :
    ∃ p ∈ Gen.CondPaths.condPaths, p.fn = "AppendObject" ∧ p.kind = "append" ∧
      p.lockVersionGen.isSome = true ∧ p.lockVersionGen = p.partsReadGen ∧ p.lockEntityGen = p.lockVersionGen ∧
      p.prefixChecked = true ∧ p.prefixCheckUnconditional = true := by
  decide

/-- Non-vacuity: two appenders that meet every hypothesis; one wins, the other loses the version
race (InvalidWriteOffset) and leaves no trace. -/
example :
    (∀ p ∈ [Prog.append 2 none, .append 3 none], AppendOrPut p) ∧
    Fresh (some ⟨0, 1, [1]⟩) [.append 2 none, .append 3 none] ∧
    (exec (fun _ => 1) (init (some ⟨0, 1, [1]⟩) 1 [.append 2 none, .append 3 none]) [0, 0, 0, 1, 1, 1, 0, 1]).db.row
      = some ⟨0, 2, [1, 2]⟩ ∧
    (exec (fun _ => 1) (init (some ⟨0, 1, [1]⟩) 1 [.append 2 none, .append 3 none]) [0, 0, 0, 1, 1, 1, 0, 1]).threads.map (·.loc)
      = [.done (.okAt 1), .done .invalidOffset] := by
  refine ⟨by simp [AppendOrPut], ⟨by decide, by decide⟩, by decide, by decide⟩

end Pithos.C12Concurrent
