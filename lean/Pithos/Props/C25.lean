/-
C25 — lifecycle rules never act early or on the wrong data.

Property theorems about the reconciler model `Pithos.Lifecycle` (tied to
lifecyclereconciler.go / bucketlifecycle.go by the differential harness c25*.go), stated against
the S3 predicates of `Pithos.LifecycleS3`. Every theorem is for ALL rule lists, ALL listings and
ALL clocks; none carries a size bound. `WF rules` is the filter shape that
`ValidateBucketLifecycleConfiguration` enforces (a rule has either a legacy prefix or a filter; a
filter has at most one predicate, combinations go through `And`).

Reading guide
* `created ≤ o.lm` / `since ≤ u.lm`: the S3 predicate speaks of true creation instants; a listing
  reports `LastModified`, which is never earlier (S3: equal; the SQL metadata store: the last row
  update). Every "only when due" theorem holds for every true instant not later than the reported one.
* The noncurrent sweeps work on one key's listed versions sorted by LastModified, newest first
  (`group vs k`). The theorems locate the acted-on version `v` in that list, `u` directly before
  it and `pre` before `u`. Under S3's reading of a listing (LastModified = creation instant, so
  this order IS the version order) `u` is `v`'s successor and `pre.length` is the number of
  noncurrent versions newer than `v`; `keeps_newer_noncurrent_partial` is therefore stated on that
  order, and `lastmodified_order_breaks_retention` shows what happens when the order is perturbed.
-/
import Pithos.Lemmas.Lifecycle

namespace Pithos.C25
open Pithos.Lifecycle Pithos.LifecycleS3

/-! ## day arithmetic -/

/-- **nextMidnight_spec.** `lifecycleNextMidnightUTC t` is the first midnight strictly after `t`:
a whole number of days, later than `t`, at most one day later. -/
theorem nextMidnight_spec (t : Int) :
    nextMidnight t % dayNs = 0 ∧ t < nextMidnight t ∧ nextMidnight t ≤ t + dayNs :=
  ⟨nextMidnight_mod t, nextMidnight_gt t, nextMidnight_le t⟩

/-- the code's day-based due instant is the spec's ("midnight UTC following creation + n days") -/
theorem due_days_is_s3 (t n : Int) : dueDays t n = s3Due t n := dueDays_eq_s3Due t n

/-- **matcher_is_s3_filter.** On every rule the validator accepts, `LifecycleRuleMatchesObject`
selects exactly the objects S3's filter semantics select (prefix ∧ every tag ∧ size bounds). -/
theorem matcher_is_s3_filter (r : Rule) (key : Bytes) (size : Int) (tags : Tags)
    (h : filterWellFormed r = true) : ruleMatches r key size tags = selects r key size tags :=
  ruleMatches_eq_selects r key size tags h

/-- **tag_filter_requires_presence.** A rule with a tag predicate `(k, v)` — for EVERY `v`, the empty
value included — never selects an object that does not carry the key `k` at all (in particular an
untagged object): an absent tag is not a tag with the empty value. -/
theorem tag_filter_requires_presence (r : Rule) (f : Filter) (key : Bytes) (size : Int) (tags : Tags)
    (t : Bytes × Bytes) (hf : r.filter = some f) (ht : t ∈ filterTags f) (habsent : tagLookup tags t.1 = none) :
    ruleMatches r key size tags = false := by
  unfold ruleMatches
  split
  · rfl
  · simp only [hf]
    have hall : (filterTags f).all (hasTag tags) = false := by
      rw [List.all_eq_false]
      exact ⟨t, ht, by simp [hasTag, habsent]⟩
    simp [hall]

/-- … and it selects an object that carries `k` only with exactly the value `v` -/
theorem tag_filter_requires_value (r : Rule) (f : Filter) (key : Bytes) (size : Int) (tags : Tags)
    (t : Bytes × Bytes) (hf : r.filter = some f) (ht : t ∈ filterTags f)
    (hm : ruleMatches r key size tags = true) : tagLookup tags t.1 = some t.2 := by
  unfold ruleMatches at hm
  split at hm
  · simp at hm
  · simp only [hf, Bool.and_eq_true, List.all_eq_true] at hm
    have := hm.2 t ht
    simpa [hasTag] using this

/-- non-vacuity: the empty-valued predicate against an untagged object, an object with the empty
value, an object with another value -/
example :
    let r : Rule := { enabled := true, pfx := none,
                      filter := some { pfx := none, tag := some ([97], []), gt := none, lt := none, and := none },
                      expiration := none, abort := none, transitions := [], ncExpiration := none, ncTransitions := [] }
    ruleMatches r [1] 5 [] = false ∧ ruleMatches r [1] 5 [([97], [])] = true ∧ ruleMatches r [1] 5 [([97], [120])] = false := by
  decide

/-! ## acts_only_when_due -/

/-- current-version expiration -/
theorem expire_only_when_due (rules : List Rule) (hwf : WF rules) (now : Int) (objs : List Obj) (c : Call)
    (hc : c ∈ expirePhase rules now objs) :
    ∃ o ∈ objs, c = .del o.key none (some o.etag) ∧
      ∀ created, created ≤ o.lm → expireJustified rules now o.key o.size o.tags created = true := by
  unfold expirePhase at hc
  rw [List.mem_filterMap] at hc
  obtain ⟨o, ho, hsome⟩ := hc
  obtain ⟨hshape, r, hr, hen, hdue, hmatch⟩ := expireObj_some hsome
  refine ⟨o, ho, hshape, ?_⟩
  intro created hcr
  unfold expireJustified
  rw [List.any_eq_true]
  refine ⟨r, hr, ?_⟩
  rw [← ruleMatches_eq_selects r _ _ _ (hwf r hr)]
  simp [hen, hmatch, expirationDueBy_of_isDue hcr hdue]

/-- current-version transition -/
theorem transition_only_when_due (rules : List Rule) (hwf : WF rules) (now : Int) (objs : List Obj) (c : Call)
    (hc : c ∈ transitionPhase rules now objs) :
    ∃ o ∈ objs, ∃ target, c = .trans o.key target none (some o.etag) ∧ target ≠ o.cls ∧
      ∀ created, created ≤ o.lm → transitionJustified rules now o.key o.size o.tags created target = true := by
  unfold transitionPhase at hc
  rw [List.mem_filterMap] at hc
  obtain ⟨o, ho, hsome⟩ := hc
  obtain ⟨target, hshape, r, hr, hen, hmatch, t, ht, hcls, hne, d, hd, hle⟩ := transitionObj_some hsome
  refine ⟨o, ho, target, hshape, by rw [← hcls]; exact hne, ?_⟩
  intro created hcr
  unfold transitionJustified
  rw [List.any_eq_true]
  refine ⟨r, hr, ?_⟩
  rw [← ruleMatches_eq_selects r _ _ _ (hwf r hr)]
  have : (r.transitions.any fun t => t.cls == target && transitionDueBy t now created) = true := by
    rw [List.any_eq_true]
    exact ⟨t, ht, by simp [hcls, transitionDueBy_of_due hcr hd hle]⟩
  simp [hen, hmatch, this]

/-- noncurrent-version expiration: the deleted version `v` sits directly after `u` in the key's
LastModified-sorted listing, is neither latest nor a delete marker, and an enabled matching rule is
due for every `since ≤ u.lm` and every count of newer versions `≥ pre.length`. -/
theorem nc_expire_only_when_due (g : Bool) (rules : List Rule) (hwf : WF rules) (now : Int) (vs : List Ver) (c : Call)
    (hc : c ∈ ncExpirePhase g rules now vs) :
    ∃ k pre u v post, group vs k = pre ++ u :: v :: post ∧ v ∈ vs ∧ v.latest = false ∧ v.dm = false ∧
      c = .del v.key (some v.vid) (if g then v.etag else none) ∧
      ∀ since newer, since ≤ u.lm → pre.length ≤ newer →
        ncExpireJustified rules now v.key v.size v.stags since newer = true := by
  unfold ncExpirePhase at hc
  rw [List.mem_flatMap] at hc
  obtain ⟨k, _, hw⟩ := hc
  obtain ⟨pre, u, v, post, cnt, hsplit, hl, hdm, hf, hcnt⟩ :=
    ncWalk_sound (ncExpireVer g rules now) (group vs k) [] none 0 rfl (by simp) c hw
  simp only [List.nil_append] at hsplit
  obtain ⟨hshape, r, hr, hen, e, he, hdue, hret, hmatch⟩ := ncExpireVer_some hf
  have hv : v ∈ group vs k := by rw [hsplit]; simp
  refine ⟨k, pre, u, v, post, hsplit, (mem_group hv).1, hl, hdm, hshape, ?_⟩
  intro since newer hs hn
  unfold ncExpireJustified
  rw [List.any_eq_true]
  refine ⟨r, hr, ?_⟩
  rw [← ruleMatches_eq_selects r _ _ _ (hwf r hr)]
  simp [hen, hmatch, ncExpirationDueBy_of he hdue hret hs (Nat.le_trans hcnt hn)]

/-- noncurrent-version transition -/
theorem nc_transition_only_when_due (rules : List Rule) (hwf : WF rules) (now : Int) (vs : List Ver) (c : Call)
    (hc : c ∈ ncTransitionPhase rules now vs) :
    ∃ k pre u v post target, group vs k = pre ++ u :: v :: post ∧ v ∈ vs ∧ v.latest = false ∧ v.dm = false ∧
      c = .trans v.key target (some v.vid) v.etag ∧ target ≠ v.cls ∧
      ∀ since newer, since ≤ u.lm → pre.length ≤ newer →
        ncTransitionJustified rules now v.key v.size v.stags since newer target = true := by
  unfold ncTransitionPhase at hc
  rw [List.mem_flatMap] at hc
  obtain ⟨k, _, hw⟩ := hc
  obtain ⟨pre, u, v, post, cnt, hsplit, hl, hdm, hf, hcnt⟩ :=
    ncWalk_sound (ncTransitionVer rules now) (group vs k) [] none 0 rfl (by simp) c hw
  simp only [List.nil_append] at hsplit
  obtain ⟨target, hshape, r, hr, hen, hmatch, t, ht, hcls, hne, hret, d, hd, hle⟩ := ncTransitionVer_some hf
  have hv : v ∈ group vs k := by rw [hsplit]; simp
  refine ⟨k, pre, u, v, post, target, hsplit, (mem_group hv).1, hl, hdm, hshape, by rw [← hcls]; exact hne, ?_⟩
  intro since newer hs hn
  unfold ncTransitionJustified
  rw [List.any_eq_true]
  refine ⟨r, hr, ?_⟩
  rw [← ruleMatches_eq_selects r _ _ _ (hwf r hr)]
  have : (r.ncTransitions.any fun t => t.cls == target && ncTransitionDueBy t now since newer) = true := by
    rw [List.any_eq_true]
    exact ⟨t, ht, by simp [hcls, ncTransitionDueBy_of hd hle hret hs (Nat.le_trans hcnt hn)]⟩
  simp [hen, hmatch, this]

/-- expired object delete marker: the removed version is a listed current delete marker of a key
none of whose listed versions "blocks" (as it is: is an object version; `strictDm`: is anything but
a current delete marker), and an enabled ExpiredObjectDeleteMarker rule selects the key. -/
theorem dm_only_when_expired (s : Bool) (rules : List Rule) (hwf : WF rules) (vs : List Ver) (c : Call)
    (hc : c ∈ dmPhase s rules vs) :
    ∃ d ∈ vs, d.latest = true ∧ d.dm = true ∧ c = .del d.key (some d.vid) none ∧
      (∀ v ∈ vs, v.key = d.key → blocksDm s v = false) ∧ dmJustified rules d.key = true := by
  unfold dmPhase at hc
  rw [List.mem_filterMap] at hc
  obtain ⟨k, _, hsome⟩ := hc
  obtain ⟨d, hd, hl, hdm, hall, hshape, r, hr, hrule, hmatch⟩ := dmKey_some hsome
  rw [List.mem_filter] at hd
  have hk : d.key = k := by simpa using hd.2
  refine ⟨d, hd.1, hl, hdm, hshape, ?_, ?_⟩
  · intro v hv hvk
    exact hall v (List.mem_filter.2 ⟨hv, by simp [hvk, hk]⟩)
  · obtain ⟨hen, e, he, hdmflag⟩ := isDmRule_spec hrule
    unfold dmJustified
    rw [List.any_eq_true]
    refine ⟨r, hr, ?_⟩
    have hsel : selects r d.key d.size [] = true := by
      rw [← ruleMatches_eq_selects r _ _ _ (hwf r hr)]; exact hmatch
    have hp : prefixSelects r d.key = true := by
      unfold selects at hsel
      simp only [Bool.and_eq_true] at hsel
      exact hsel.1.1.1
    simp [hen, hp, he, hdmflag]

/-- abort of incomplete multipart uploads -/
theorem abort_only_when_due (rules : List Rule) (hwf : WF rules) (now : Int) (us : List Upl) (c : Call)
    (hc : c ∈ abortPhase rules now us) :
    ∃ u ∈ us, c = .abort u.key u.uploadId ∧
      ∀ initiated, initiated ≤ u.initiated → abortJustified rules now u.key initiated = true := by
  unfold abortPhase at hc
  rw [List.mem_filterMap] at hc
  obtain ⟨u, hu, hsome⟩ := hc
  obtain ⟨hshape, r, hr, hen, hmatch, hdue⟩ := abortUpl_some hsome
  refine ⟨u, hu, hshape, ?_⟩
  intro initiated hi
  unfold abortJustified
  rw [List.any_eq_true]
  refine ⟨r, hr, ?_⟩
  have hsel : selects r u.key 0 [] = true := by
    rw [← ruleMatches_eq_selects r _ _ _ (hwf r hr)]; exact hmatch
  have hp : prefixSelects r u.key = true := by
    unfold selects at hsel
    simp only [Bool.and_eq_true] at hsel
    exact hsel.1.1.1
  unfold abortDue at hdue
  split at hdue
  · rename_i n hn
    have h1 := isDue_some.1 hdue
    rw [dueDays_eq_s3Due] at h1
    have h2 := s3Due_mono n hi
    have : s3Due initiated n ≤ now := by omega
    simp [hen, hp, hn, this]
  · simp [isDue] at hdue

/-- **acts_only_when_due.** Whatever call any sweep of the reconciler issues at clock `now` — for
all rule sets, listings and clocks — is a delete / transition / abort of a LISTED entry that an
enabled, matching rule makes due under S3 semantics (shape and justification: the six theorems
above, collected). In particular no disabled rule, no non-matching rule and no rule whose due
instant lies after `now` ever causes a call. -/
theorem acts_only_when_due (rules : List Rule) (hwf : WF rules) (now : Int) :
    (∀ objs c, c ∈ expirePhase rules now objs →
      ∃ o ∈ objs, c = .del o.key none (some o.etag) ∧
        ∀ created, created ≤ o.lm → expireJustified rules now o.key o.size o.tags created = true) ∧
    (∀ objs c, c ∈ transitionPhase rules now objs →
      ∃ o ∈ objs, ∃ target, c = .trans o.key target none (some o.etag) ∧ target ≠ o.cls ∧
        ∀ created, created ≤ o.lm → transitionJustified rules now o.key o.size o.tags created target = true) ∧
    (∀ g vs c, c ∈ ncExpirePhase g rules now vs →
      ∃ k pre u v post, group vs k = pre ++ u :: v :: post ∧ v ∈ vs ∧ v.latest = false ∧ v.dm = false ∧
        c = .del v.key (some v.vid) (if g then v.etag else none) ∧
        ∀ since newer, since ≤ u.lm → pre.length ≤ newer →
          ncExpireJustified rules now v.key v.size v.stags since newer = true) ∧
    (∀ vs c, c ∈ ncTransitionPhase rules now vs →
      ∃ k pre u v post target, group vs k = pre ++ u :: v :: post ∧ v ∈ vs ∧ v.latest = false ∧ v.dm = false ∧
        c = .trans v.key target (some v.vid) v.etag ∧ target ≠ v.cls ∧
        ∀ since newer, since ≤ u.lm → pre.length ≤ newer →
          ncTransitionJustified rules now v.key v.size v.stags since newer target = true) ∧
    (∀ s vs c, c ∈ dmPhase s rules vs →
      ∃ d ∈ vs, d.latest = true ∧ d.dm = true ∧ c = .del d.key (some d.vid) none ∧
        (∀ v ∈ vs, v.key = d.key → blocksDm s v = false) ∧ dmJustified rules d.key = true) ∧
    (∀ us c, c ∈ abortPhase rules now us →
      ∃ u ∈ us, c = .abort u.key u.uploadId ∧
        ∀ initiated, initiated ≤ u.initiated → abortJustified rules now u.key initiated = true) :=
  ⟨fun objs c h => expire_only_when_due rules hwf now objs c h,
   fun objs c h => transition_only_when_due rules hwf now objs c h,
   fun g vs c h => nc_expire_only_when_due g rules hwf now vs c h,
   fun vs c h => nc_transition_only_when_due rules hwf now vs c h,
   fun s vs c h => dm_only_when_expired s rules hwf vs c h,
   fun us c h => abort_only_when_due rules hwf now us c h⟩

/-! ## keeps_newer_noncurrent -/

/-- **keeps_newer_noncurrent_partial.** If every enabled NoncurrentVersionExpiration rule retains at
least `N` newer noncurrent versions, then every deleted version has MORE than `N` listed entries
before its predecessor in the key's LastModified-sorted listing — i.e. at least `N + 1` entries lie
between the head of the list (the current version) and it. Under S3's reading of a listing
(LastModified order = version order) these are newer noncurrent versions, so the `N` most recent
noncurrent versions are never deleted (the code even keeps `N + 1`).
Partial: the order is the LastModified order; see `lastmodified_order_breaks_retention`. -/
theorem keeps_newer_noncurrent_partial (g : Bool) (rules : List Rule) (now : Int) (vs : List Ver) (N : Nat)
    (hN : ∀ r ∈ rules, isNcExpirationRule r = true →
      ∀ e, r.ncExpiration = some e → ∃ k, e.newer = some k ∧ (N : Int) ≤ k)
    (c : Call) (hc : c ∈ ncExpirePhase g rules now vs) :
    ∃ k pre u v post, group vs k = pre ++ u :: v :: post ∧
      c = .del v.key (some v.vid) (if g then v.etag else none) ∧ N < pre.length := by
  unfold ncExpirePhase at hc
  rw [List.mem_flatMap] at hc
  obtain ⟨k, _, hw⟩ := hc
  obtain ⟨pre, u, v, post, cnt, hsplit, _, _, hf, hcnt⟩ :=
    ncWalk_sound (ncExpireVer g rules now) (group vs k) [] none 0 rfl (by simp) c hw
  simp only [List.nil_append] at hsplit
  obtain ⟨hshape, r, hr, hen, e, he, _, hret, _⟩ := ncExpireVer_some hf
  refine ⟨k, pre, u, v, post, hsplit, hshape, ?_⟩
  have hrule : isNcExpirationRule r = true := by simp [isNcExpirationRule, hen, he]
  obtain ⟨kk, hk, hNk⟩ := hN r hr hrule e he
  simp only [retained, hk] at hret
  have : ¬ ((cnt : Int) ≤ kk) := by simpa using hret
  omega

/-- the same for NoncurrentVersionTransition: a version is transitioned only if more than the
rule's NewerNoncurrentVersions entries precede its predecessor in the sorted listing -/
theorem nc_transition_respects_retention (rules : List Rule) (now : Int) (vs : List Ver) (N : Nat)
    (hN : ∀ r ∈ rules, ∀ t ∈ r.ncTransitions, ∃ k, t.newer = some k ∧ (N : Int) ≤ k)
    (c : Call) (hc : c ∈ ncTransitionPhase rules now vs) :
    ∃ k pre u v post target, group vs k = pre ++ u :: v :: post ∧
      c = .trans v.key target (some v.vid) v.etag ∧ N < pre.length := by
  unfold ncTransitionPhase at hc
  rw [List.mem_flatMap] at hc
  obtain ⟨k, _, hw⟩ := hc
  obtain ⟨pre, u, v, post, cnt, hsplit, _, _, hf, hcnt⟩ :=
    ncWalk_sound (ncTransitionVer rules now) (group vs k) [] none 0 rfl (by simp) c hw
  simp only [List.nil_append] at hsplit
  obtain ⟨target, hshape, r, hr, _, _, t, ht, _, _, hret, _⟩ := ncTransitionVer_some hf
  refine ⟨k, pre, u, v, post, target, hsplit, hshape, ?_⟩
  obtain ⟨kk, hk, hNk⟩ := hN r hr t ht
  simp only [retained, hk] at hret
  have : ¬ ((cnt : Int) ≤ kk) := by simpa using hret
  omega

/-! ### negation witness: LastModified order is not version order -/

private def b (n : Nat) : Bytes := [UInt8.ofNat n]

/-- One key, five versions written in the order 1 … 5 (5 is current); the SQL store reports as
LastModified the last row update, and versions 1–3 were tagged later (LastModified 101–103). -/
def bumpedListing : List Ver :=
  [ { key := b 0, vid := b 5, dm := false, latest := true,  lm := 50,  size := 1, etag := some (b 5), cls := [], stags := [] },
    { key := b 0, vid := b 4, dm := false, latest := false, lm := 49,  size := 1, etag := some (b 4), cls := [], stags := [] },
    { key := b 0, vid := b 3, dm := false, latest := false, lm := 103, size := 1, etag := some (b 3), cls := [], stags := [] },
    { key := b 0, vid := b 2, dm := false, latest := false, lm := 102, size := 1, etag := some (b 2), cls := [], stags := [] },
    { key := b 0, vid := b 1, dm := false, latest := false, lm := 101, size := 1, etag := some (b 1), cls := [], stags := [] } ]

def keepOneRule : Rule :=
  { enabled := true, pfx := none, filter := some { pfx := some [], tag := none, gt := none, lt := none, and := none },
    expiration := none, abort := none, transitions := [],
    ncExpiration := some { days := some 1, newer := some 1 }, ncTransitions := [] }

/-- **lastmodified_order_breaks_retention.** With NewerNoncurrentVersions = 1 the sweep deletes
version 4 — the MOST RECENT noncurrent version, which S3 retains — because versions 2 and 3 are
counted as "newer" by their LastModified. (Replayed on the real storage: harness scenario
"retention count after the three oldest versions were re-tagged".) -/
theorem lastmodified_order_breaks_retention :
    ncExpirePhase false [keepOneRule] (10 * dayNs) bumpedListing = [.del (b 0) (some (b 4)) none] := by
  decide

/-- non-vacuity of `keeps_newer_noncurrent_partial`: on the same history with LastModified =
creation instant, version 4 and version 3 are kept and only 2 and 1 go. -/
example :
    ncExpirePhase false [keepOneRule] (10 * dayNs)
      (bumpedListing.map fun v => { v with lm := if v.lm > 100 then v.lm - 100 + 44 else v.lm })
    = [.del (b 0) (some (b 2)) none, .del (b 0) (some (b 1)) none] := by
  decide

/-! ## expiration_beats_transition -/

/-- **expiration_beats_transition.** In one pass over the current versions (expiration sweep, then
a fresh listing, then the transition sweep) an object for which an expiration call is issued is
never transitioned — for all rules, clocks and listings. -/
theorem expiration_beats_transition (rules : List Rule) (now : Int) (objs : List Obj) (o : Obj)
    (ho : o ∈ objs) (hexp : (expireObj rules now o).isSome = true) :
    ∀ c ∈ (currentPass rules now objs).2, ∀ target vid, c ≠ .trans o.key target vid (some o.etag) := by
  intro c hc target vid heq
  unfold currentPass at hc
  simp only at hc
  split at hc
  · rename_i htr
    -- the expiration sweep ran and issued the guarded delete of o
    obtain ⟨c0, hc0⟩ := Option.isSome_iff_exists.1 hexp
    obtain ⟨hshape, r, hr, hen, hdue, hmatch⟩ := expireObj_some hc0
    have hany : rules.any isExpirationRule = true := by
      rw [List.any_eq_true]
      refine ⟨r, hr, ?_⟩
      unfold isExpirationRule
      unfold expirationDue at hdue
      cases he : r.expiration with
      | none => simp [he, isDue] at hdue
      | some e =>
        simp only [he] at hdue
        cases hd : e.date with
        | some d => simp [hen, hd]
        | none =>
          cases hn : e.days with
          | none => simp [hd, hn, isDue] at hdue
          | some n => simp [hen, hn]
    simp only [hany, if_true] at hc
    have hin : Call.del o.key none (some o.etag) ∈ expirePhase rules now objs := by
      unfold expirePhase
      rw [List.mem_filterMap]
      exact ⟨o, ho, by rw [hc0, hshape]⟩
    unfold transitionPhase at hc
    rw [List.mem_filterMap] at hc
    obtain ⟨o', ho', hsome⟩ := hc
    obtain ⟨t', hshape', _⟩ := transitionObj_some hsome
    have hrem := foldl_applyCall_removed _ objs o.key o.etag hin o' ho'
    rw [hshape'] at heq
    simp only [Call.trans.injEq, Option.some.injEq] at heq
    exact hrem ⟨heq.1, heq.2.2.2⟩
  · simp at hc

/-! ## if_match_guard -/

/-- **if_match_guard.** Every mutating call on an object (version) carries the ETag the listing
showed for exactly that entry, so the storage's precondition rejects the call if the entry was
replaced in between: for the current-version sweeps and the noncurrent transition as the code is,
for the noncurrent expiration in the repaired variant (`guardVersioned = true`). -/
theorem if_match_guard (rules : List Rule) (now : Int) :
    (∀ objs c, c ∈ expirePhase rules now objs → ∃ o ∈ objs, c = .del o.key none (some o.etag)) ∧
    (∀ objs c, c ∈ transitionPhase rules now objs → ∃ o ∈ objs, ∃ t, c = .trans o.key t none (some o.etag)) ∧
    (∀ vs c, c ∈ ncTransitionPhase rules now vs → ∃ v ∈ vs, ∃ t, c = .trans v.key t (some v.vid) v.etag) ∧
    (∀ vs c, c ∈ ncExpirePhase true rules now vs → ∃ v ∈ vs, c = .del v.key (some v.vid) v.etag) := by
  refine ⟨?_, ?_, ?_, ?_⟩
  · intro objs c hc
    unfold expirePhase at hc
    rw [List.mem_filterMap] at hc
    obtain ⟨o, ho, hsome⟩ := hc
    exact ⟨o, ho, (expireObj_some hsome).1⟩
  · intro objs c hc
    unfold transitionPhase at hc
    rw [List.mem_filterMap] at hc
    obtain ⟨o, ho, hsome⟩ := hc
    obtain ⟨t, hshape, _⟩ := transitionObj_some hsome
    exact ⟨o, ho, t, hshape⟩
  · intro vs c hc
    unfold ncTransitionPhase at hc
    rw [List.mem_flatMap] at hc
    obtain ⟨k, _, hw⟩ := hc
    obtain ⟨pre, u, v, post, cnt, hsplit, _, _, hf, _⟩ :=
      ncWalk_sound (ncTransitionVer rules now) (group vs k) [] none 0 rfl (by simp) c hw
    simp only [List.nil_append] at hsplit
    obtain ⟨t, hshape, _⟩ := ncTransitionVer_some hf
    have hv : v ∈ group vs k := by rw [hsplit]; simp
    exact ⟨v, (mem_group hv).1, t, hshape⟩
  · intro vs c hc
    unfold ncExpirePhase at hc
    rw [List.mem_flatMap] at hc
    obtain ⟨k, _, hw⟩ := hc
    obtain ⟨pre, u, v, post, cnt, hsplit, _, _, hf, _⟩ :=
      ncWalk_sound (ncExpireVer true rules now) (group vs k) [] none 0 rfl (by simp) c hw
    simp only [List.nil_append] at hsplit
    have hv : v ∈ group vs k := by rw [hsplit]; simp
    exact ⟨v, (mem_group hv).1, by simpa using (ncExpireVer_some hf).1⟩

/-- negation witness for the code as it is: the noncurrent-version expiration addresses the
version by id only. A version id is not unique over time for the `null` version, which a write to
a versioning-suspended bucket replaces in place (replayed on the real storage: harness scenario
"a noncurrent null version is replaced … between listing and its delete"). -/
theorem unguarded_noncurrent_delete_witness :
    ncExpirePhase false [keepOneRule] (10 * dayNs)
      [ { key := b 0, vid := b 9, dm := false, latest := true,  lm := 50, size := 1, etag := some (b 9), cls := [], stags := [] },
        { key := b 0, vid := b 8, dm := false, latest := false, lm := 40, size := 1, etag := some (b 8), cls := [], stags := [] },
        { key := b 0, vid := b 7, dm := false, latest := false, lm := 30, size := 1, etag := some (b 7), cls := [], stags := [] },
        { key := b 0, vid := b 6, dm := false, latest := false, lm := 20, size := 1, etag := some (b 6), cls := [], stags := [] } ]
    = [.del (b 0) (some (b 6)) none] := by
  decide

/-! ## expired object delete markers: as it is vs. S3 -/

/-- repaired variant: the removed marker's key has no listed version other than current delete
markers, i.e. S3's "delete marker with zero noncurrent versions" -/
theorem dm_strict_sole_version (rules : List Rule) (hwf : WF rules) (vs : List Ver) (c : Call)
    (hc : c ∈ dmPhase true rules vs) :
    ∃ d ∈ vs, c = .del d.key (some d.vid) none ∧ ∀ v ∈ vs, v.key = d.key → v.latest = true ∧ v.dm = true := by
  obtain ⟨d, hd, _, _, hshape, hall, _⟩ := dm_only_when_expired true rules hwf vs c hc
  refine ⟨d, hd, hshape, ?_⟩
  intro v hv hk
  have := hall v hv hk
  simp only [blocksDm, if_true, Bool.not_eq_false', Bool.and_eq_true] at this
  exact this

/-- negation witness for the code as it is: two stacked delete markers and no object version — the
current marker is removed although a noncurrent version (the older marker) remains. -/
theorem dm_stack_witness :
    dmPhase false
      [{ enabled := true, pfx := none, filter := some { pfx := some [], tag := none, gt := none, lt := none, and := none },
         expiration := some { days := none, date := none, dm := some true }, abort := none, transitions := [],
         ncExpiration := none, ncTransitions := [] }]
      [ { key := b 0, vid := b 2, dm := true, latest := true,  lm := 50, size := 0, etag := none, cls := [], stags := [] },
        { key := b 0, vid := b 1, dm := true, latest := false, lm := 40, size := 0, etag := none, cls := [], stags := [] } ]
    = [.del (b 0) (some (b 2)) none] := by
  decide

/-! ## non-vacuity of the hypotheses -/

/-- `WF` holds of a non-trivial rule list, and the "only when due" theorems are about runs that do
issue calls: a Days = 3 rule at the first instant it is due (object created 10:30 → due at the
fourth midnight after) deletes, one nanosecond earlier it does not. -/
example : WF [keepOneRule] := by
  intro r hr
  simp at hr
  subst hr
  decide

example :
    let r : Rule := { enabled := true, pfx := some [], filter := none,
                      expiration := some { days := some 3, date := none, dm := none }, abort := none,
                      transitions := [], ncExpiration := none, ncTransitions := [] }
    let o : Obj := { key := b 1, lm := 10 * 3600 * 1000000000 + 30 * 60 * 1000000000, etag := b 7, size := 5, cls := [], ltags := [], stags := [] }
    expirePhase [r] (4 * dayNs) [o] = [.del (b 1) none (some (b 7))] ∧ expirePhase [r] (4 * dayNs - 1) [o] = [] := by
  decide

end Pithos.C25
