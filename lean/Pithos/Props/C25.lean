import Pithos.Model.Lifecycle
import Pithos.Spec.LifecycleS3
namespace Pithos.C25
end Pithos.C25
