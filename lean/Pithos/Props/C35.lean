/-
C35 — checksum arithmetic is exact.

Property theorems only; model in `Pithos.Model.Checksum`, the proof chain in
`Pithos.Lemmas.Checksum` (both core Lean; nothing here uses `bv_decide`/`native_decide`).
All statements are for *every* byte string / every write chunking — no bound on lengths.

* `combine_correct` — for every width `n`, reflected polynomial, init and xorOut, and all byte
  strings `a b`: the Go `combine` (matrix algorithm, as written) applied to `crc a`, `crc b`,
  `|b|` is `crc (a ++ b)`.
* `combineCrc32_correct`, `combineCrc32c_correct`, `combineCrc64Nvme_correct` — the exported
  functions on the big-endian `Sum` bytes, including `createCombineFunction`'s `bitrev` of the
  normal-form polynomial, the `len2 == 0` shortcut and `encode_to_bytes`.
* `dispatch_concat`, `dispatch_blocks_shape`, `streaming_eq_oneshot` — the block dispatcher hands
  every hash exactly the written bytes, in order, in non-empty blocks of at most the block size;
  so for ANY incremental hash (uninterpreted `upd`) streaming = one-shot.
-/
import Pithos.Lemmas.Checksum
import Pithos.Gen.ChecksumFacts

namespace Pithos.C35
open Pithos.Checksum

/-! ## the chain, link by link (each is a named obligation) -/

/-- (1) One zero bit through the CRC register is GF(2)-linear, for every width and polynomial. -/
theorem zero_bit_step_linear {n : Nat} (P x y : BitVec n) :
    shift1 P (x ^^^ y) = shift1 P x ^^^ shift1 P y := shift1_lin P x y

/-- (1') `crc (a ++ b) = Z^{8|b|} (crc a ⊕ init ⊕ xorOut) ⊕ crc b` with the init/xorOut
conventions explicit. -/
theorem crc_append_zeros {n : Nat} (p : Params n) (a b : List UInt8) :
    crc p (a ++ b)
      = iter (shift1 p.poly) (8 * b.length) (crc p a ^^^ (p.init ^^^ p.xorOut)) ^^^ crc p b :=
  crc_append p a b

/-- (2) `gf2_matrix_times` computes the linear map its matrix represents. -/
theorem matrix_times_is_linear_map {n : Nat} (f : BitVec n → BitVec n) (mat : List (BitVec n))
    (hf : Lin f) (h : Rep mat f) (v : BitVec n) : gf2MatrixTimes mat v = f v := times_rep hf h v

/-- (3) `gf2_matrix_square` squares the operator (doubles the number of zero bits applied). -/
theorem matrix_square_doubles {n : Nat} (P : BitVec n) (k : Nat) (mat : List (BitVec n))
    (h : Rep mat (iter (shift1 P) k)) : Rep (gf2MatrixSquare mat) (iter (shift1 P) (2 * k)) := by
  have h2 := square_rep (iter_lin (shift1_lin P) k) h
  have e : (fun x => iter (shift1 P) k (iter (shift1 P) k x)) = iter (shift1 P) (2 * k) := by
    funext x; rw [← iter_add]; congr 1; omega
  rw [e] at h2; exact h2

/-- (4) The loop over the bits of `len2`: `combine` applies `8·len2` zero bits to
`crc1 ⊕ init ⊕ xorOut` and xors `crc2`. -/
theorem combine_applies_zero_bytes {n : Nat} (hn : 0 < n) (P I X c1 c2 : BitVec n) (len2 : Nat)
    (h : len2 ≠ 0) :
    combine P I X c1 c2 len2 = iter (shift1 P) (8 * len2) (c1 ^^^ (I ^^^ X)) ^^^ c2 := by
  rw [combine_eq hn, if_neg h]

/-! ## the property -/

/-- **combine_correct.** For every width, polynomial, init, xorOut and ALL byte strings `a`, `b`
(any lengths, including empty): the matrix algorithm of checksumutils.go combines `crc a`,
`crc b` and `|b|` into `crc (a ++ b)`. -/
theorem combine_correct {n : Nat} (p : Params n) (a b : List UInt8) :
    combine p.poly p.init p.xorOut (crc p a) (crc p b) b.length = crc p (a ++ b) :=
  combine_crc p a b

theorem combine_correct_crc32 (a b : List UInt8) :
    combine crc32IEEE.poly crc32IEEE.init crc32IEEE.xorOut (crc crc32IEEE a) (crc crc32IEEE b) b.length
      = crc crc32IEEE (a ++ b) := combine_crc _ a b

theorem combine_correct_crc32c (a b : List UInt8) :
    combine crc32C.poly crc32C.init crc32C.xorOut (crc crc32C a) (crc crc32C b) b.length
      = crc crc32C (a ++ b) := combine_crc _ a b

theorem combine_correct_crc64nvme (a b : List UInt8) :
    combine crc64NVME.poly crc64NVME.init crc64NVME.xorOut (crc crc64NVME a) (crc crc64NVME b) b.length
      = crc crc64NVME (a ++ b) := combine_crc _ a b

/-- **CombineCrc32** as exported (bytes in, bytes out; `bitrev`, decode, `combine`, encode). -/
theorem combineCrc32_correct (a b : List UInt8) :
    combineCrc32 (sumBE crc32IEEE a) (sumBE crc32IEEE b) b.length = some (sumBE crc32IEEE (a ++ b)) :=
  combineCrc32_sumBE a b

/-- **CombineCrc32c** as exported. -/
theorem combineCrc32c_correct (a b : List UInt8) :
    combineCrc32c (sumBE crc32C a) (sumBE crc32C b) b.length = some (sumBE crc32C (a ++ b)) :=
  combineCrc32c_sumBE a b

/-- **CombineCrc64Nvme** as exported. -/
theorem combineCrc64Nvme_correct (a b : List UInt8) :
    combineCrc64Nvme (sumBE crc64NVME a) (sumBE crc64NVME b) b.length
      = some (sumBE crc64NVME (a ++ b)) :=
  combineCrc64Nvme_sumBE a b

/-! ## streaming = one-shot -/

/-- **dispatch_concat.** For every block size `B > 0` and every sequence of `Write` calls (any
chunking, including empty writes), the blocks handed to each hash — including the tail handed
over by `Flush` — concatenate to exactly the bytes written, in order. -/
theorem dispatch_concat (B : Nat) (hB : 0 < B) (writes : List (List UInt8)) :
    (dispatched B writes).flatten = writes.flatten := by
  unfold dispatched
  rw [Phw.flush_out_flatten]
  have h := Phw.foldl_write_spec B writes {} ⟨hB, by intro blk hb; cases hb⟩
  rw [h.1]; simp [Phw.content]

/-- **dispatch_blocks_shape.** Every dispatched block is non-empty and at most one block long
(so no hash is ever handed more than the buffer holds, and never an empty write). -/
theorem dispatch_blocks_shape (B : Nat) (hB : 0 < B) (writes : List (List UInt8)) :
    ∀ blk ∈ dispatched B writes, 0 < blk.length ∧ blk.length ≤ B := by
  have h := (Phw.foldl_write_spec B writes {} ⟨hB, by intro blk hb; cases hb⟩).2
  intro blk hb
  unfold dispatched Phw.flush Phw.dispatchActive at hb
  split at hb
  · have := h.2 blk hb; omega
  · next hne =>
    simp at hb
    rcases hb with hb | hb
    · have := h.2 blk hb; omega
    · subst hb
      refine ⟨?_, Nat.le_of_lt h.1⟩
      cases hf : (List.foldl (Phw.write B) {} writes).fill with
      | nil => simp [hf] at hne
      | cons _ _ => simp

/-- **streaming_eq_oneshot.** For ANY incremental hash — an arbitrary state type, an arbitrary
per-byte update `upd` and start state — feeding it the dispatched blocks one `Write` per block
leaves it in the same state as one `Write` of the whole input. Hence `Sum` agrees, whatever the
hash is (MD5, SHA-1, SHA-256 and the CRCs are instances). -/
theorem streaming_eq_oneshot {σ : Type} (upd : σ → UInt8 → σ) (s0 : σ) (B : Nat) (hB : 0 < B)
    (writes : List (List UInt8)) :
    (dispatched B writes).foldl (fun s blk => blk.foldl upd s) s0 = writes.flatten.foldl upd s0 := by
  rw [← dispatch_concat B hB writes, List.foldl_flatten]

/-- The real block size is positive, so the three theorems above apply to it. -/
theorem hashBlockSize_pos : 0 < hashBlockSize := by decide

/-! ## T1: facts regenerated from checksumutils.go on every run (`Pithos.Gen.ChecksumFacts`) -/

/-- **combine_scratch_is_call_local** (re-entrancy by construction). `combine_correct` is about a
pure function; the implementation is one only if nothing mutable outlives a call. In the current
source, nothing reachable from `CombineCrc32/32c/64Nvme` touches a package-level variable (other
than once-initialised function values, whose initialisers are followed), no reachable function
literal captures a slice / array / map / pointer / value of unrecognised type, and none assigns to
a captured variable: the operator matrices are allocated inside each call. A change that shares
scratch state between callers changes the generated lists and breaks this obligation. -/
theorem combine_scratch_is_call_local :
    Gen.ChecksumFacts.combineSharedVars = [] ∧ Gen.ChecksumFacts.combineCapturedNonScalars = [] ∧
    Gen.ChecksumFacts.combineCapturedWritten = [] := by decide

/-- The literals the source hands to `createCombineFunction` are the ones the model (and hence
`combineCrc32_correct` …) is about, and the block size is the model's. -/
theorem extracted_constants_are_the_models :
    Gen.ChecksumFacts.combineEntries =
      [("CombineCrc32", 0x104C11DB7, 32, 0xFFFFFFFF), ("CombineCrc32c", 0x1EDC6F41, 32, 0xFFFFFFFF),
       ("CombineCrc64Nvme", 0xAD93D23594C93659, 64, 0xFFFFFFFFFFFFFFFF)] ∧
    (∀ a b n, combineCrc32 a b n = createCombine 0x104C11DB7 32 0xFFFFFFFF a b n) ∧
    (∀ a b n, combineCrc32c a b n = createCombine 0x1EDC6F41 32 0xFFFFFFFF a b n) ∧
    (∀ a b n, combineCrc64Nvme a b n = createCombine 0xAD93D23594C93659 64 0xFFFFFFFFFFFFFFFF a b n) ∧
    Gen.ChecksumFacts.hashBlockSize = hashBlockSize := by
  refine ⟨by decide, fun _ _ _ => rfl, fun _ _ _ => rfl, fun _ _ _ => rfl, by decide⟩

/-! ## non-vacuity / anchoring examples -/

/-- The model CRC-32 is the standard one: check value of "123456789" is `cbf43926`. -/
example : sumBE crc32IEEE [0x31, 0x32, 0x33, 0x34, 0x35, 0x36, 0x37, 0x38, 0x39]
    = [0xcb, 0xf4, 0x39, 0x26] := by decide +kernel

/-- CRC-32C check value `e3069283`. -/
example : sumBE crc32C [0x31, 0x32, 0x33, 0x34, 0x35, 0x36, 0x37, 0x38, 0x39]
    = [0xe3, 0x06, 0x92, 0x83] := by decide +kernel

/-- CRC-64/NVME check value `ae8b14860a799888`. -/
example : sumBE crc64NVME [0x31, 0x32, 0x33, 0x34, 0x35, 0x36, 0x37, 0x38, 0x39]
    = [0xae, 0x8b, 0x14, 0x86, 0x0a, 0x79, 0x98, 0x88] := by decide +kernel

/-- The matrix algorithm really runs (not only the `len2 = 0` shortcut): a concrete instance. -/
example : combineCrc32 (sumBE crc32IEEE [0x31, 0x32, 0x33, 0x34]) (sumBE crc32IEEE [0x35, 0x36, 0x37, 0x38, 0x39]) 5
    = some [0xcb, 0xf4, 0x39, 0x26] := by decide +kernel

/-- A chunking that straddles the block size: blocks of 4 out of writes of 3, 0, 6, 1 bytes. -/
example : dispatched 4 [[1, 2, 3], [], [4, 5, 6, 7, 8, 9], [10]]
    = [[1, 2, 3, 4], [5, 6, 7, 8], [9, 10]] := by decide

/-- `Lin`/`Rep` are inhabited by the operator `combine` starts from (so (2), (3) are not vacuous). -/
example : Rep (crc32IEEE.poly :: mkRows 31 1#32) (shift1 crc32IEEE.poly) ∧ Lin (shift1 crc32IEEE.poly) :=
  ⟨odd0_rep (by decide) _, shift1_lin _⟩

end Pithos.C35
