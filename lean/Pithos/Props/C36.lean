/-
C36 — streaming reads hold their transaction exactly as long as needed.

Property theorems only (model in `Pithos.Model.Streams`). They are stated for every number of
readers `n` and every finite word over {read i, close i} — no bound on either.
-/
import Pithos.Model.Streams

namespace Pithos.C36
open Pithos.Streams

/-- Bookkeeping invariant of the guarded counter. -/
structure Inv (s : St) : Prop where
  rem  : s.remaining = (openCount s : Int)
  done : s.txDone = (openCount s == 0)
  rb   : s.rollbacks = if s.txDone then 1 else 0

theorem openCount_replicate (n : Nat) :
    ((List.replicate n false).filter (fun b => !b)).length = n := by
  induction n with
  | zero => rfl
  | succ k ih => simp [List.replicate_succ, ih]

theorem inv_init (n : Nat) : Inv (init n) := by
  refine ⟨?_, ?_, ?_⟩
  · simp [init, openCount, openCount_replicate]
  · simp [init, openCount, openCount_replicate]
  · cases n <;> simp [init]

theorem filter_set_true (l : List Bool) (i : Nat) (h : l.getD i true = false) :
    ((l.set i true).filter (fun b => !b)).length + 1 = (l.filter (fun b => !b)).length := by
  induction l generalizing i with
  | nil => simp at h
  | cons a t ih =>
    cases i with
    | zero =>
      simp at h
      subst h
      simp
    | succ j =>
      simp at h
      have := ih j (by simpa using h)
      cases a <;> simp [List.set] <;> omega

theorem filter_set_true_closed (l : List Bool) (i : Nat) (h : l.getD i true = true) :
    l.set i true = l := by
  induction l generalizing i with
  | nil => simp
  | cons a t ih =>
    cases i with
    | zero => simp at h; subst h; simp
    | succ j => simp at h; simp [List.set, ih j (by simpa using h)]

theorem step_read (g : Bool) (s : St) (i : Nat) : (step g s (.read i)).1 = s := by
  simp only [step]; split <;> try rfl
  split <;> rfl

theorem step_close_oob (g : Bool) (s : St) (i : Nat) (h : ¬ i < s.closed.length) :
    (step g s (.close i)).1 = s := by
  simp [step, h]

theorem step_close_again (s : St) (i : Nat) (hi : i < s.closed.length) (hc : isClosed s i = true) :
    (step true s (.close i)).1 = s := by
  have hget : s.closed.getD i true = true := by simpa [isClosed] using hc
  simp [step, hi, hc, filter_set_true_closed s.closed i hget]

theorem step_close_first (g : Bool) (s : St) (i : Nat) (hi : i < s.closed.length)
    (hc : isClosed s i = false) :
    (step g s (.close i)).1 = fireHook { s with closed := s.closed.set i true } := by
  simp [step, hi, hc]

theorem inv_fire (s : St) (i : Nat) (h : Inv s) (hc : isClosed s i = false) :
    Inv (fireHook { s with closed := s.closed.set i true }) := by
  have hget : s.closed.getD i true = false := by simpa [isClosed] using hc
  have hcnt := filter_set_true s.closed i hget
  obtain ⟨hr, hd, hb⟩ := h
  simp only [openCount] at hr hd hb
  generalize hN : ((s.closed.set i true).filter (fun b => !b)).length = N at hcnt
  generalize hM : (s.closed.filter (fun b => !b)).length = M at hcnt hr hd
  by_cases hz : s.remaining - 1 = 0
  · have hN0 : N = 0 := by omega
    have hdone : s.txDone = false := by rw [hd]; simp; omega
    refine ⟨?_, ?_, ?_⟩
    · simp [fireHook, hz, openCount, hN, hN0]
    · simp [fireHook, hz, openCount, hN, hN0]
    · simp [fireHook, hz, hdone]; simpa [hdone] using hb
  · have hN0 : N ≠ 0 := by omega
    have hdone : s.txDone = false := by rw [hd]; simp; omega
    refine ⟨?_, ?_, ?_⟩
    · simp [fireHook, hz, openCount, hN]; omega
    · simp [fireHook, hz, openCount, hN, hN0, hdone]
    · simp [fireHook, hz, hdone]; simpa [hdone] using hb

theorem inv_step (s : St) (op : Op) (h : Inv s) : Inv (step true s op).1 := by
  cases op with
  | read i => rw [step_read]; exact h
  | close i =>
    by_cases hi : i < s.closed.length
    · cases hc : isClosed s i
      · rw [step_close_first true s i hi hc]; exact inv_fire s i h hc
      · rw [step_close_again s i hi hc]; exact h
    · rw [step_close_oob true s i hi]; exact h

theorem inv_run (s : St) (ops : List Op) (h : Inv s) : Inv (final true s ops) := by
  induction ops generalizing s with
  | nil => exact h
  | cons op ops ih =>
    have := ih (step true s op).1 (inv_step s op h)
    simpa [final, run] using this

theorem openCount_zero_iff (s : St) : openCount s = 0 ↔ allClosed s = true := by
  unfold openCount allClosed
  induction s.closed with
  | nil => simp
  | cons a t ih => cases a <;> simp [ih]

/-- **released_iff_all_closed.** After any word of reads/closes/repeated closes over any number of
readers, the transaction has been released exactly when every reader has been closed. -/
theorem released_iff_all_closed (n : Nat) (ops : List Op) :
    (final true (init n) ops).txDone = true ↔ allClosed (final true (init n) ops) = true := by
  have h := inv_run (init n) ops (inv_init n)
  rw [h.done, ← openCount_zero_iff]
  simp

/-- **released_once.** The release (rollback hooks) never runs more than once, and has run exactly
once precisely when the transaction is done. -/
theorem released_once (n : Nat) (ops : List Op) :
    (final true (init n) ops).rollbacks ≤ 1 ∧
    ((final true (init n) ops).rollbacks = 1 ↔ (final true (init n) ops).txDone = true) := by
  have h := inv_run (init n) ops (inv_init n)
  rw [h.rb]
  cases (final true (init n) ops).txDone <;> simp

/-- One-step form used for every prefix: a read of a reader that has not itself been closed
succeeds, whatever happened to the other readers. -/
theorem read_open_ok (s : St) (i : Nat) (h : Inv s) (hi : i < s.closed.length)
    (ho : isClosed s i = false) : (step true s (.read i)).2 = .ok := by
  have hopen : openCount s ≠ 0 := by
    intro hz
    have hall := (openCount_zero_iff s).1 hz
    unfold allClosed at hall
    have hmem : s.closed[i] ∈ s.closed := List.getElem_mem hi
    have hv := List.all_eq_true.1 hall _ hmem
    simp [isClosed, List.getD, hi] at ho
    simp [ho] at hv
  have hdone : s.txDone = false := by
    rw [h.done]; simpa using hopen
  simp [step, hi, ho, hdone]

/-- **no_reader_fails_because_other_closed.** In every history, every read of a still-open reader
answers `ok`: split the history at that read; the state before it is reachable, hence satisfies
the invariant. -/
theorem no_reader_fails_because_other_closed (n : Nat) (pre : List Op) (i : Nat)
    (hi : i < n) (ho : isClosed (final true (init n) pre) i = false) :
    (step true (final true (init n) pre) (.read i)).2 = .ok := by
  have h := inv_run (init n) pre (inv_init n)
  refine read_open_ok _ i h ?_ ho
  -- the number of readers never changes
  have hlen : ∀ (s : St) (ops : List Op), (final true s ops).closed.length = s.closed.length := by
    intro s ops
    induction ops generalizing s with
    | nil => rfl
    | cons op ops ih =>
      have h1 : (step true s op).1.closed.length = s.closed.length := by
        cases op with
        | read j => rw [step_read]
        | close j =>
          by_cases hj : j < s.closed.length
          · cases hc : isClosed s j
            · rw [step_close_first true s j hj hc]
              simp only [fireHook]; split <;> simp
            · rw [step_close_again s j hj hc]
          · rw [step_close_oob true s j hj]
      have := ih (step true s op).1
      simpa [final, run, h1] using this
  rw [hlen]; simpa [init] using hi

/-- Negation witness for the code *before* the fix (`guarded = false`): with two readers, closing
reader 0 twice releases the transaction while reader 1 is still open, and the next read of
reader 1 fails. This is the history replayed on the implementation (see known-findings.json). -/
theorem unguarded_double_close_breaks :
    (run false (init 2) [.close 0, .close 0, .read 1]).2 = [.ok, .unspecified, .fail] := by
  decide

/-- Non-vacuity: the hypotheses of `no_reader_fails_because_other_closed` are met by a concrete
non-trivial history (three readers, two of them closed — one of them twice). -/
example : isClosed (final true (init 3) [.close 0, .close 0, .close 2, .read 1]) 1 = false ∧ 1 < 3 := by
  decide

end Pithos.C36
