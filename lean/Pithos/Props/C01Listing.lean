/-
C01/C02/C06 at the storage-model level: listings agree with reads.
-/
import Pithos.Lemmas.S3List
import Pithos.Props.C02

namespace Pithos.C01
open Pithos.S3

/-- the keys of a listing answer -/
def listingKeys : Out → List String
  | .listing l => l.map (·.1)
  | _ => []

/-- **list_iff_get.** In every state satisfying the invariant (hence every reachable state), a key is
shown by ListObjects exactly when a plain GET of it succeeds: the listing loses no object and
shows no deleted one (delete markers, non-current versions and pending uploads are not listed). -/
theorem list_iff_get (q : Quirks) (s : State) (hinv : Inv s) (b k : String) (bk : Bucket) (hfb : findBucket s b = some bk) :
    k ∈ listingKeys (step q s (.list b)).2 ↔ ∃ v, (step q s (.get b k none)).2 = .obj v := by
  rw [list_out hfb]
  simp only [listingKeys, List.map_map]
  have hfb' : findBucket { s with clock := s.clock + 1 } b = some bk := hfb
  have hb := hinv bk (findBucket_mem hfb)
  constructor
  · intro h
    obtain ⟨r, hr, hrk⟩ := List.mem_map.1 h
    rw [mem_sortBy] at hr
    have hr' := List.mem_filter.1 hr
    simp only [Bool.and_eq_true, Bool.not_eq_true'] at hr'
    have hk : r.key = k := hrk
    have hl : latestRow bk k = some r := latestRow_eq_of_unique (hb.one k) hr'.1 hk hr'.2.1
    exact ⟨viewOf r, (get_current (q := q) hfb hl hr'.2.2).1⟩
  · intro ⟨v, hv⟩
    simp only [step, stepT, hfb', resolve] at hv
    cases hl : latestRow bk k with
    | none => simp [hl] at hv
    | some r =>
      simp only [hl] at hv
      by_cases hd : r.dm = true
      · simp [hd] at hv
      · obtain ⟨hr, hrk, hrl⟩ := latestRow_some hl
        refine List.mem_map.2 ⟨r, ?_, hrk⟩
        rw [mem_sortBy]
        exact List.mem_filter.2 ⟨hr, by simp [hrl, hd]⟩

/-- **list_no_duplicates.** A listing never shows a key twice. -/
theorem list_no_duplicates (q : Quirks) (s : State) (hinv : Inv s) (b : String) :
    (listingKeys (step q s (.list b)).2).Nodup := by
  cases hfb : findBucket s b with
  | none =>
    have hfb' : findBucket { s with clock := s.clock + 1 } b = none := hfb
    simp [step, stepT, hfb', listingKeys]
  | some bk =>
    rw [list_out hfb]
    simp only [listingKeys, List.map_map]
    have hperm := (sortBy_perm (fun a b : Row => a.key < b.key) (listed bk)).map (fun r => r.key)
    have hnd := listed_keys_nodup (hinv bk (findBucket_mem hfb))
    exact (hperm.nodup_iff).2 hnd

/-- the (key, version id) pairs of a version-listing answer -/
def versionPairs : Out → List (String × Option Nat)
  | .versions l => l.map fun v => (v.key, v.vid)
  | _ => []

/-- **versions_listing_exact.** In every reachable state (append behaviour since /repo 8a5dc41)
ListObjectVersions shows every stored version and delete marker exactly once: the listed
(key, version id) pairs are a permutation of the stored ones and pairwise distinct. -/
theorem versions_listing_exact (q : Quirks) (hq : q.appendLatestInPlace = false) (ops : List Op) (b : String) (bk : Bucket)
    (hfb : findBucket (run q {} ops).1 b = some bk) :
    (versionPairs (step q (run q {} ops).1 (.listVersions b)).2).Perm (bk.rows.map kv) ∧
    (versionPairs (step q (run q {} ops).1 (.listVersions b)).2).Nodup := by
  have hfb' : findBucket { (run q {} ops).1 with clock := (run q {} ops).1.clock + 1 } b = some bk := hfb
  obtain ⟨_, hv⟩ := C02.reachable_vinv q hq ops
  have hvr := hv bk (findBucket_mem hfb)
  simp only [step, stepT, hfb', versionPairs, List.map_map]
  have hperm := (sortBy_perm (fun (a b : Row) => a.key < b.key || (a.key == b.key && (match a.vid, b.vid with
        | some x, some y => decide (x > y)
        | some _, none => true
        | none, _ => false))) bk.rows).map kv
  refine ⟨?_, ?_⟩
  · exact hperm
  · exact (hperm.nodup_iff).2 hvr.nodup

end Pithos.C01
