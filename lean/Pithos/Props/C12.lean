/-
C12 (sequential half) — AppendObject extends the object. The concurrent half ("no acknowledged
append is lost") is in `Pithos.Props.C12Concurrent`.
-/
import Pithos.Lemmas.S3Current
import Pithos.Props.C01

namespace Pithos.C12
open Pithos.S3

/-- the current object content of a key (empty when the key has no current object) -/
def currentBody (q : Quirks) (s : State) (b k : String) : Bytes :=
  match (step q s (.get b k none)).2 with
  | .obj v => v.body
  | _ => []

/-- the current object size, `none` when the key has no current object -/
def currentSize (q : Quirks) (s : State) (b k : String) : Option Nat :=
  match (step q s (.get b k none)).2 with
  | .obj v => some v.size
  | _ => none

theorem get_eq_of_latest {q : Quirks} {s : State} {b k : String} {bk : Bucket}
    (hfb : findBucket s b = some bk) :
    (step q s (.get b k none)).2 = match latestRow bk k with
      | some r => if r.dm then .err .noSuchKey else .obj (viewOf r)
      | none => .err .noSuchKey := by
  have hfb' : findBucket { s with clock := s.clock + 1 } b = some bk := hfb
  simp only [step, stepT, hfb', resolve]
  cases latestRow bk k with
  | none => rfl
  | some r => by_cases hd : r.dm = true <;> simp [hd]

/-- what an append extends: the parts of the current object (none when absent or a delete marker) -/
def existingParts (bk : Bucket) (k : String) : List Bytes :=
  match latestRow bk k with
  | some r => if r.dm then [] else r.parts
  | none => []

/-- **append_succeeds_only_at_size.** An acknowledged append that carried a write offset `n` found
the object at exactly that size (`n = 0` when the key had no current object): in every state. -/
theorem append_succeeds_only_at_size (q : Quirks) (s s1 : State) (b k : String) (body : Bytes) (n : Nat) (bk : Bucket)
    (hfb : findBucket s b = some bk) (e : ETag) (size : Nat)
    (hack : step q s (.append b k body (some n)) = (s1, .appended e size)) :
    n = (existingParts bk k).flatten.length := by
  have hfb' : findBucket { s with clock := s.clock + 1 } b = some bk := hfb
  simp only [step, stepT, hfb'] at hack
  unfold existingParts
  cases hl : latestRow bk k with
  | none =>
    simp only [hl] at hack
    by_cases hn : n = 0
    · subst hn; simp
    · simp [hn] at hack
  | some r =>
    simp only [hl] at hack
    by_cases hd : r.dm = true
    · simp only [hd, if_true] at hack ⊢
      by_cases hn : n = 0
      · subst hn; simp
      · simp [hn] at hack
    · simp only [hd, Bool.false_eq_true, ↓reduceIte] at hack ⊢
      by_cases hn : n = r.size
      · rw [hn]; rfl
      · simp [hn] at hack

/-- The same in terms of what GET reports. -/
theorem existingParts_is_current (q : Quirks) (s : State) (b k : String) (bk : Bucket) (hfb : findBucket s b = some bk) :
    currentBody q s b k = (existingParts bk k).flatten := by
  unfold currentBody existingParts
  rw [get_eq_of_latest hfb]
  cases latestRow bk k with
  | none => rfl
  | some r => by_cases hd : r.dm = true <;> simp [hd, viewOf, Row.content]

theorem ite_err_eq {c : Prop} [Decidable c] {s s1 : State} {x : Err} {y : State × Out} {e : ETag} {n : Nat}
    (h : (if c then (s, Out.err x) else y) = (s1, Out.appended e n)) : y = (s1, Out.appended e n) := by
  split at h
  · simp at h
  · exact h

theorem flatten_snoc (l : List Bytes) (x : Bytes) : (l ++ [x]).flatten = l.flatten ++ x := by simp

/-- A successful write path (`putRow`) of `parts` into (b, k) is read back as their concatenation. -/
theorem get_after_putRow {q : Quirks} {s s' : State} {bk bkx : Bucket} {b k : String} {n : NewObj} {inm : Bool}
    {im : IfMatch} {vid : Option Nat} (hinv : Inv s) (hfb : findBucket s b = some bk)
    (hbx : bkx = bk) (hok : putRow q s bkx k n inm im = .ok (s', vid)) :
    ∃ v, (step q s' (.get b k none)).2 = .obj v ∧ v.body = n.parts.flatten ∧ v.size = n.parts.flatten.length := by
  subst hbx
  obtain ⟨bk', row, hfb', hl, _, hdm, hparts, _⟩ := putRow_current (h := hinv) hfb hok
  obtain ⟨hg, _⟩ := get_current (q := q) hfb' hl hdm
  exact ⟨viewOf row, hg, by simp [viewOf, Row.content, hparts], by simp [viewOf, Row.size, Row.content, hparts]⟩

/-- metadata of what an append extends (defaults when there is no current object) -/
def exMeta (bk : Bucket) (k : String) : Option String × Pairs × Pairs × Option String :=
  match latestRow bk k with
  | some r => if r.dm then (none, [], [], none) else (r.ct, r.md, r.tags, r.cls)
  | none => (none, [], [], none)

/-- What an acknowledged append leaves as the current row of the key. -/
def RowGoal (q : Quirks) (s1 : State) (b k : String) (bk : Bucket) (body : Bytes) (size : Nat) : Prop :=
  ∃ bk' row, findBucket s1 b = some bk' ∧ latestRow bk' k = some row ∧ row.dm = false ∧
    row.parts.flatten = (existingParts bk k).flatten ++ body ∧ size = ((existingParts bk k).flatten ++ body).length ∧
    (q.appendEnabledDropsMeta = false → q.appendLatestInPlace = false →
      (row.ct, row.md, row.tags, row.cls) = exMeta bk k)

/-- Row-level core of `append_extends` (C12) and `append_keeps_metadata` (C11). -/
theorem append_row (q : Quirks) (s s1 : State) (hinv : Inv s) (b k : String) (body : Bytes) (off : Option Nat)
    (bk : Bucket) (hfb : findBucket s b = some bk) (e : ETag) (size : Nat)
    (hack : step q s (.append b k body off) = (s1, .appended e size)) : RowGoal q s1 b k bk body size := by
  have hfb' : findBucket { s with clock := s.clock + 1 } b = some bk := hfb
  have hinv' : Inv { s with clock := s.clock + 1 } := inv_tick hinv
  have hbk := hinv bk (findBucket_mem hfb)
  simp only [step, stepT, hfb'] at hack
  -- the offset test passed
  replace hack := ite_err_eq hack
  have goalOf : ∀ (st : State) (row : Row) (bk2 : Bucket) (parts : List Bytes) (sz : Nat),
      findBucket st b = some bk2 → latestRow bk2 k = some row → row.dm = false → row.parts = parts →
      parts.flatten = (existingParts bk k).flatten ++ body → sz = parts.flatten.length →
      (q.appendEnabledDropsMeta = false → q.appendLatestInPlace = false →
        (row.ct, row.md, row.tags, row.cls) = exMeta bk k) →
      st = s1 → sz = size →
      RowGoal q s1 b k bk body size := by
    intro st row bk2 parts sz hf2 hl2 hdm hp hfl hsz hmeta hst hsize
    subst hst
    exact ⟨bk2, row, hf2, hl2, hdm, by rw [hp, hfl], by rw [← hsize, hsz, hfl], hmeta⟩
  -- every branch that goes through putRow
  have viaPut : ∀ (n : NewObj) (e' : ETag) (sz : Nat), n.parts.flatten = (existingParts bk k).flatten ++ body →
      sz = n.parts.flatten.length →
      (q.appendEnabledDropsMeta = false → q.appendLatestInPlace = false →
        (n.o.ct, n.o.md, n.o.tags, n.o.cls) = exMeta bk k) →
      (match putRow q { s with clock := s.clock + 1 } bk k n false IfMatch.none with
        | .error e => ({ s with clock := s.clock + 1 }, Out.err e)
        | .ok (s', _) => (s', Out.appended e' sz)) = (s1, Out.appended e size) →
      RowGoal q s1 b k bk body size := by
    intro n e' sz hfl hsz hmeta h
    cases hp : putRow q { s with clock := s.clock + 1 } bk k n false IfMatch.none with
    | error err => simp [hp] at h
    | ok x =>
      obtain ⟨s', vid⟩ := x
      simp only [hp, Prod.mk.injEq, Out.appended.injEq] at h
      obtain ⟨hs, _, hsize⟩ := h
      obtain ⟨bk', row, hfb2, hl2, _, hdm, hparts, _, hct, hmd, htags, hcls, _, _⟩ := putRow_current (h := hinv') hfb' hp
      exact goalOf s' row bk' n.parts sz hfb2 hl2 hdm hparts hfl hsz
        (fun h1 h2 => by rw [hct, hmd, htags, hcls]; exact hmeta h1 h2) hs hsize
  -- every branch that re-saves the current row in place
  have inPlace : ∀ (r r' : Row) (e' : ETag) (sz : Nat), latestRow bk k = some r → r'.rowId = r.rowId → r'.key = r.key →
      r'.latest = true → r'.dm = false → r'.parts.flatten = (existingParts bk k).flatten ++ body →
      sz = r'.parts.flatten.length →
      (q.appendEnabledDropsMeta = false → q.appendLatestInPlace = false →
        (r'.ct, r'.md, r'.tags, r'.cls) = exMeta bk k) →
      (setBucket { s with clock := s.clock + 1 } (replaceRow bk r'), Out.appended e' sz) = (s1, Out.appended e size) →
      RowGoal q s1 b k bk body size := by
    intro r r' e' sz hl hid hkey hlat hdm hfl hsz hmeta h
    simp only [Prod.mk.injEq, Out.appended.injEq] at h
    obtain ⟨hs, _, hsize⟩ := h
    have hl' := latestRow_repl_keep hbk hl hid hkey hlat
    have hfb2 : findBucket (setBucket { s with clock := s.clock + 1 } (replaceRow bk r')) b = some (replaceRow bk r') :=
      findBucket_setBucket hfb' (by rw [replaceRow_name]; exact findBucket_some_name hfb)
    exact goalOf _ r' _ r'.parts sz hfb2 hl' hdm rfl hfl hsz hmeta hs hsize
  cases hl : latestRow bk k with
  | none =>
    have hex : existingParts bk k = [] := by unfold existingParts; rw [hl]
    simp only [hl] at hack
    split at hack
    · exact viaPut _ _ _ (by simp [hex]) (by simp) (by intro h1 h2; first | (rw [hq] at h2; exact absurd h2 (by decide)) | simp [exMeta, hl, hdm, h1] | simp [exMeta, hl, h1]) hack
    · cases hq : q.appendLatestInPlace with
      | false =>
        simp only [hq, Bool.false_eq_true, if_false] at hack
        exact viaPut _ _ _ (by simp [hex]) (by simp) (by intro h1 h2; first | (rw [hq] at h2; exact absurd h2 (by decide)) | simp [exMeta, hl, hdm, h1] | simp [exMeta, hl, h1]) hack
      | true =>
        simp only [hq, if_true] at hack
        simp only [Prod.mk.injEq, Out.appended.injEq] at hack
        obtain ⟨hs, _, hsize⟩ := hack
        generalize hrow : ({ rowId := s.nextRow, key := k, vid := none, latest := true, created := s.clock + 1, updated := s.clock + 1, wrote := s.clock + 1, parts := [] ++ [body], etag := multiETag ([] ++ [body]) } : Row) = row at hs
        have hl' : latestRow (addRow bk row) k = some row :=
          latestRow_add (latestRow_none hl) (by rw [← hrow]) (by rw [← hrow])
        have hfb2 : findBucket (setBucket { s with clock := s.clock + 1 } (addRow bk row)) b = some (addRow bk row) :=
          findBucket_setBucket hfb' (by rw [addRow_name]; exact findBucket_some_name hfb)
        have hfb3 : findBucket { (setBucket { s with clock := s.clock + 1 } (addRow bk row)) with nextRow := s.nextRow + 1 } b
            = some (addRow bk row) := hfb2
        exact goalOf _ row _ row.parts _ hfb3 hl' (by rw [← hrow]) rfl (by rw [← hrow]; simp [hex]) (by rw [← hrow]) (by intro _ h2; rw [hq] at h2; exact absurd h2 (by decide)) hs hsize
  | some r0 =>
    simp only [hl] at hack
    by_cases hdm : r0.dm = true
    · have hex : existingParts bk k = [] := by unfold existingParts; rw [hl]; simp [hdm]
      simp only [hdm, if_true] at hack
      split at hack
      · exact viaPut _ _ _ (by simp [hex]) (by simp) (by intro h1 h2; first | (rw [hq] at h2; exact absurd h2 (by decide)) | simp [exMeta, hl, hdm, h1] | simp [exMeta, hl, h1]) hack
      · cases hq : q.appendLatestInPlace with
        | true =>
          simp only [hq, if_true] at hack
          replace hack := ite_err_eq hack
          refine inPlace r0 _ _ _ hl ?_ ?_ ?_ ?_ ?_ ?_ ?_ hack <;> first | rfl | (intro h1 h2; first | (rw [hq] at h2; exact absurd h2 (by decide)) | simp [exMeta, hl, hdm, h1] | simp [exMeta, hl, h1]) | simp [hex]
        | false =>
          simp only [hq, Bool.false_eq_true, if_false] at hack
          exact viaPut _ _ _ (by simp [hex]) (by simp) (by intro h1 h2; first | (rw [hq] at h2; exact absurd h2 (by decide)) | simp [exMeta, hl, hdm, h1] | simp [exMeta, hl, h1]) hack
    · have hex : existingParts bk k = r0.parts := by unfold existingParts; rw [hl]; simp [hdm]
      simp only [hdm, Bool.false_eq_true, if_false] at hack
      split at hack
      · exact viaPut _ _ _ (by simp [hex]) (by simp) (by intro h1 h2; first | (rw [hq] at h2; exact absurd h2 (by decide)) | simp [exMeta, hl, hdm, h1] | simp [exMeta, hl, h1]) hack
      · cases hq : q.appendLatestInPlace with
        | true =>
          simp only [hq, if_true] at hack
          replace hack := ite_err_eq hack
          refine inPlace r0 _ _ _ hl ?_ ?_ ?_ ?_ ?_ ?_ ?_ hack <;> first | rfl | (intro h1 h2; first | (rw [hq] at h2; exact absurd h2 (by decide)) | simp [exMeta, hl, hdm, h1] | simp [exMeta, hl, h1]) | simp [hex]
        | false =>
          simp only [hq, Bool.false_eq_true, if_false] at hack
          by_cases hv0 : r0.vid.isNone = true
          · simp only [hv0, if_true] at hack
            replace hack := ite_err_eq hack
            refine inPlace r0 _ _ _ hl ?_ ?_ ?_ ?_ ?_ ?_ ?_ hack <;> first | rfl | (intro h1 h2; first | (rw [hq] at h2; exact absurd h2 (by decide)) | simp [exMeta, hl, hdm, h1] | simp [exMeta, hl, h1]) | simp [hex]
          · simp only [hv0, Bool.false_eq_true, if_false] at hack
            exact viaPut _ _ _ (by simp [hex]) (by simp) (by intro h1 h2; first | (rw [hq] at h2; exact absurd h2 (by decide)) | simp [exMeta, hl, hdm, h1] | simp [exMeta, hl, h1]) hack


/-- **append_extends.** In every state satisfying the invariant (hence every reachable state) and
for every setting of the switches, an acknowledged AppendObject of `body` makes the next GET of the
key return the previous current content followed by `body` — nothing lost, nothing reordered — and
the acknowledged size is the size of exactly that. A key without a current object (absent, or
hidden by a delete marker) counts as empty. -/
theorem append_extends (q : Quirks) (s s1 : State) (hinv : Inv s) (b k : String) (body : Bytes) (off : Option Nat)
    (bk : Bucket) (hfb : findBucket s b = some bk) (e : ETag) (size : Nat)
    (hack : step q s (.append b k body off) = (s1, .appended e size)) :
    ∃ v, (step q s1 (.get b k none)).2 = .obj v ∧ v.body = (existingParts bk k).flatten ++ body ∧
      v.size = size ∧ size = ((existingParts bk k).flatten ++ body).length := by
  obtain ⟨bk', row, hf2, hl2, hdm, hfl, hsz, _⟩ := append_row q s s1 hinv b k body off bk hfb e size hack
  obtain ⟨hg, _⟩ := get_current (q := q) hf2 hl2 hdm
  exact ⟨viewOf row, hg, by simp [viewOf, Row.content, hfl], by simp [viewOf, Row.size, Row.content, hfl, hsz], hsz⟩

/-- `append_extends` in terms of what GET reported before the append. -/
theorem append_extends_get (q : Quirks) (s s1 : State) (hinv : Inv s) (b k : String) (body : Bytes) (off : Option Nat)
    (e : ETag) (size : Nat) (hack : step q s (.append b k body off) = (s1, .appended e size)) :
    currentBody q s1 b k = currentBody q s b k ++ body ∧ currentSize q s1 b k = some size ∧
      size = (currentBody q s b k ++ body).length := by
  cases hfb : findBucket s b with
  | none =>
    have hfb' : findBucket { s with clock := s.clock + 1 } b = none := hfb
    simp [step, stepT, hfb'] at hack
  | some bk =>
    obtain ⟨v, hg, hb, hs, hsz⟩ := append_extends q s s1 hinv b k body off bk hfb e size hack
    rw [existingParts_is_current q s b k bk hfb]
    refine ⟨?_, ?_, hsz⟩
    · unfold currentBody; rw [hg]; exact hb
    · unfold currentSize; rw [hg]; simp [hs]

/-- Appends compose: two acknowledged appends in a row (any operations not writing the key in
between) leave the key holding old ++ first ++ second. -/
theorem two_appends (q : Quirks) (s s1 s2 : State) (hinv : Inv s) (b k : String) (x y : Bytes) (ox oy : Option Nat)
    (e1 e2 : ETag) (n1 n2 : Nat) (mid : List Op) (hmid : ∀ op ∈ mid, ¬ Writes op b k)
    (h1 : step q s (.append b k x ox) = (s1, .appended e1 n1))
    (h2 : step q (run q s1 mid).1 (.append b k y oy) = (s2, .appended e2 n2)) :
    currentBody q s2 b k = currentBody q s b k ++ x ++ y := by
  have hinv1 : Inv s1 := by have := step_inv q s (.append b k x ox) hinv; rw [h1] at this; exact this
  have hinvm : Inv (run q s1 mid).1 := by
    have gen : ∀ (ops : List Op) (st : State), Inv st → Inv (run q st ops).1 := by
      intro ops
      induction ops with
      | nil => intro st h; exact h
      | cons op ops ih => intro st h; simpa [run] using ih (step q st op).1 (step_inv q st op h)
    exact gen mid s1 hinv1
  obtain ⟨a1, _, _⟩ := append_extends_get q s s1 hinv b k x ox e1 n1 h1
  obtain ⟨a2, _, _⟩ := append_extends_get q _ s2 hinvm b k y oy e2 n2 h2
  -- the operations in between do not change what GET returns
  have hstable : currentBody q (run q s1 mid).1 b k = currentBody q s1 b k := by
    unfold currentBody
    cases hg : (step q s1 (.get b k none)).2 with
    | obj v =>
      obtain ⟨v', hg', hb, _⟩ := Pithos.C01.get_stable q s1 hinv1 b k v hg mid hmid
      rw [hg']; exact hb
    | _ =>
      -- s1 is the state right after an acknowledged append: GET succeeds there
      obtain ⟨bk, hfb⟩ : ∃ bk, findBucket s b = some bk := by
        cases hfb : findBucket s b with
        | none =>
          have hfb' : findBucket { s with clock := s.clock + 1 } b = none := hfb
          simp [step, stepT, hfb'] at h1
        | some bk => exact ⟨bk, rfl⟩
      obtain ⟨v, hgv, _⟩ := append_extends q s s1 hinv b k x ox bk hfb e1 n1 h1
      rw [hgv] at hg; cases hg
  rw [a2, hstable, a1]

/-- **Negation witness for the code before /repo 8a5dc41**: in a suspended bucket whose current
version is a delete marker, an append turned the marker into an object under the marker's version
id instead of writing the null version. -/
theorem before_fix_append_revives_delete_marker :
    let ops : List Op := [.mkb "b", .setVer "b" .enabled, .put "b" "k" [1] {} false .none, .del "b" "k" none .none,
                          .setVer "b" .suspended, .append "b" "k" [7] (some 0)]
    (match (step Quirks.beforeAppendFix (run Quirks.beforeAppendFix {} ops).1 (.get "b" "k" none)).2 with
     | .obj v => v.vid | _ => some 99) = some 1 ∧
    (match (step Quirks.code (run Quirks.code {} ops).1 (.get "b" "k" none)).2 with
     | .obj v => v.vid | _ => some 99) = none := by
  decide

/-- Non-vacuity of `append_extends_enabled`. -/
example : (step Quirks.code (run Quirks.code {} [.mkb "b", .setVer "b" .enabled, .put "b" "k" [1] {} false .none]).1
    (.append "b" "k" [2, 3] (some 1))).2 = .appended (multiETag [[1], [2, 3]]) 3 := by decide

end Pithos.C12
