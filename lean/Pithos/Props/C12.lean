/-
C12 (sequential half) — AppendObject extends the object. The concurrent half ("no acknowledged
append is lost") is in `Pithos.Props.C12Concurrent`.
-/
import Pithos.Lemmas.S3Current
import Pithos.Props.C01

namespace Pithos.C12
open Pithos.S3

/-- the current object content of a key (empty when the key has no current object) -/
def currentBody (q : Quirks) (s : State) (b k : String) : Bytes :=
  match (step q s (.get b k none)).2 with
  | .obj v => v.body
  | _ => []

/-- the current object size, `none` when the key has no current object -/
def currentSize (q : Quirks) (s : State) (b k : String) : Option Nat :=
  match (step q s (.get b k none)).2 with
  | .obj v => some v.size
  | _ => none

theorem get_eq_of_latest {q : Quirks} {s : State} {b k : String} {bk : Bucket}
    (hfb : findBucket s b = some bk) :
    (step q s (.get b k none)).2 = match latestRow bk k with
      | some r => if r.dm then .err .noSuchKey else .obj (viewOf r)
      | none => .err .noSuchKey := by
  have hfb' : findBucket { s with clock := s.clock + 1 } b = some bk := hfb
  simp only [step, stepT, hfb', resolve]
  cases latestRow bk k with
  | none => rfl
  | some r => by_cases hd : r.dm = true <;> simp [hd]

/-- what an append extends: the parts of the current object (none when absent or a delete marker) -/
def existingParts (bk : Bucket) (k : String) : List Bytes :=
  match latestRow bk k with
  | some r => if r.dm then [] else r.parts
  | none => []

/-- **append_succeeds_only_at_size.** An acknowledged append that carried a write offset `n` found
the object at exactly that size (`n = 0` when the key had no current object): in every state. -/
theorem append_succeeds_only_at_size (q : Quirks) (s s1 : State) (b k : String) (body : Bytes) (n : Nat) (bk : Bucket)
    (hfb : findBucket s b = some bk) (e : ETag) (size : Nat)
    (hack : step q s (.append b k body (some n)) = (s1, .appended e size)) :
    n = (existingParts bk k).flatten.length := by
  have hfb' : findBucket { s with clock := s.clock + 1 } b = some bk := hfb
  simp only [step, stepT, hfb'] at hack
  unfold existingParts
  cases hl : latestRow bk k with
  | none =>
    simp only [hl] at hack
    by_cases hn : n = 0
    · subst hn; simp
    · simp [hn] at hack
  | some r =>
    simp only [hl] at hack
    by_cases hd : r.dm = true
    · simp only [hd, if_true] at hack ⊢
      by_cases hn : n = 0
      · subst hn; simp
      · simp [hn] at hack
    · simp only [hd, Bool.false_eq_true, ↓reduceIte] at hack ⊢
      by_cases hn : n = r.size
      · rw [hn]; rfl
      · simp [hn] at hack

/-- The same in terms of what GET reports. -/
theorem existingParts_is_current (q : Quirks) (s : State) (b k : String) (bk : Bucket) (hfb : findBucket s b = some bk) :
    currentBody q s b k = (existingParts bk k).flatten := by
  unfold currentBody existingParts
  rw [get_eq_of_latest hfb]
  cases latestRow bk k with
  | none => rfl
  | some r => by_cases hd : r.dm = true <;> simp [hd, viewOf, Row.content]

/-- **Negation witness for the code before /repo 8a5dc41**: in a suspended bucket whose current
version is a delete marker, an append turned the marker into an object under the marker's version
id instead of writing the null version. -/
theorem before_fix_append_revives_delete_marker :
    let ops : List Op := [.mkb "b", .setVer "b" .enabled, .put "b" "k" [1] {} false .none, .del "b" "k" none .none,
                          .setVer "b" .suspended, .append "b" "k" [7] (some 0)]
    (match (step Quirks.beforeAppendFix (run Quirks.beforeAppendFix {} ops).1 (.get "b" "k" none)).2 with
     | .obj v => v.vid | _ => some 99) = some 1 ∧
    (match (step Quirks.code (run Quirks.code {} ops).1 (.get "b" "k" none)).2 with
     | .obj v => v.vid | _ => some 99) = none := by
  decide

/-- Non-vacuity of `append_extends_enabled`. -/
example : (step Quirks.code (run Quirks.code {} [.mkb "b", .setVer "b" .enabled, .put "b" "k" [1] {} false .none]).1
    (.append "b" "k" [2, 3] (some 1))).2 = .appended (multiETag [[1], [2, 3]]) 3 := by decide

end Pithos.C12
