/-
C39 — the integrity validator flags exactly the corrupted objects.

Model: `Pithos.Model.Integrity` (mirrors internal/storage/integrity/validator.go and the checksum
code it calls). All theorems are for every hash family `H`, every store contents, every object
(any kind, any number of parts, any bytes); the only hypothesis about the hashes is that the
bundle of six checksums the validator recomputes is collision free (`CollisionFree (sumsOf H)`,
implied by collision freedom of any single one of them, e.g. SHA-256).
-/
import Pithos.Model.Integrity

namespace Pithos.C39
open Pithos.Integrity

def CollisionFree {α β : Type} (f : α → β) : Prop := ∀ a b, f a = f b → a = b

/-- The bundle is collision free as soon as one member is (stated for SHA-256 and MD5). -/
theorem bundle_cf_of_sha256 (H : Hashes) (h : CollisionFree H.sha256) : CollisionFree (sumsOf H) := by
  intro a b hab
  apply h
  have := congrArg Sums.sha256 hab
  simpa [sumsOf, plain] using this

theorem bundle_cf_of_md5 (H : Hashes) (h : CollisionFree H.md5) : CollisionFree (sumsOf H) := by
  intro a b hab
  apply h
  have := congrArg Sums.etag hab
  simpa [sumsOf, plain] using this

/-- Stores that represent an empty part faithfully (`GetPart` of an existing empty part succeeds). -/
def Faithful (ss : Stores) : Prop :=
  ss.dflt.emptyIsMissing = false ∧ ∀ n s, ss.named n = some s → s.emptyIsMissing = false

/-- No part of the object is an empty part held by a store that cannot represent one. -/
def NoLossyEmptyPart (ss : Stores) (o : AObj) : Prop :=
  ∀ p ∈ o.parts, p.orig = [] → ∀ s, homeStore ss p = some s → s.emptyIsMissing = false

/-- The object has one part but a `…-1` record (one-part multipart upload, first append). -/
def DashOne (o : AObj) : Prop := o.parts.length = 1 ∧ o.kind ≠ .single

instance (o : AObj) : Decidable (DashOne o) := by unfold DashOne; infer_instance

def AllDefaultStore (o : AObj) : Prop := ∀ p ∈ o.parts, p.store = none

/-! ### Lemmas about the comparison clauses -/

theorem agree_refl (a : Option Tagged) : agree a a = true := by
  cases a <;> simp [agree]

theorem agreeAll_refl (a : Sums) : agreeAll a a = true := by
  simp [agreeAll, agree_refl]

theorem agree_none_left (b : Option Tagged) : agree none b = true := by
  simp [agree]

/-- On two freshly computed bundles the six clauses together are plain equality. -/
theorem agreeAll_sumsOf (H : Hashes) (a b : Bytes) :
    agreeAll (sumsOf H a) (sumsOf H b) = true ↔ sumsOf H a = sumsOf H b := by
  simp only [agreeAll, agree, sumsOf, plain, Bool.and_eq_true, beq_iff_eq, Sums.mk.injEq,
    Option.some.injEq, and_assoc]

theorem verifyPart_iff (H : Hashes) (hcf : CollisionFree (sumsOf H)) (p : APart) (b : Bytes) :
    verifyPart (p.toRow H) (sumsOf H b) = true ↔ b = p.orig := by
  unfold verifyPart APart.toRow
  rw [agreeAll_sumsOf]
  constructor
  · intro h; exact (hcf _ _ h).symm
  · intro h; rw [h]

/-! ### Reading a part -/

theorem getPart_faithful (s : Store) (id : Nat) (b : Bytes) (hs : b = [] → s.emptyIsMissing = false) :
    s.getPart id = some b ↔ s.content id = some b := by
  unfold Store.getPart
  cases hc : s.content id with
  | none => simp
  | some c =>
    cases c with
    | nil =>
      cases hm : s.emptyIsMissing with
      | false => simp
      | true =>
        have hb : ¬ ([] = b) := fun h => by
          have := hs h.symm
          rw [this] at hm; cases hm
        simp [hb]
    | cons x xs => simp

/-- Which store the validator reads a part from, compared with the part's own store. -/
def ReadsHome (l : Locator) (p : APart) : Prop := l = .named ∨ (l = .single ∧ p.store = none)

theorem resolve_home (l : Locator) (ss : Stores) (p : APart) (H : Hashes) (h : ReadsHome l p) :
    resolve l ss (p.toRow H) = homeStore ss p := by
  rcases h with h | ⟨h, hs⟩
  · subst h; rfl
  · subst h; simp [resolve, homeStore, hs, Stores.byName]

/-- One part: the validator's read-and-compare succeeds exactly when the part is not corrupt. -/
theorem part_ok_iff (H : Hashes) (hcf : CollisionFree (sumsOf H)) (l : Locator) (ss : Stores) (p : APart)
    (hr : ReadsHome l p) (he : p.orig = [] → ∀ s, homeStore ss p = some s → s.emptyIsMissing = false) :
    (∃ b, readPart l ss (p.toRow H) = some b ∧ verifyPart (p.toRow H) (sumsOf H b) = true) ↔ ¬ corrupt ss p := by
  unfold readPart corrupt corruptB
  rw [resolve_home l ss p H hr]
  cases hh : homeStore ss p with
  | none => simp
  | some s =>
    simp only [APart.toRow]
    constructor
    · rintro ⟨b, hb, hv⟩
      have hv' := (verifyPart_iff H hcf p b).1 hv
      subst hv'
      have := (getPart_faithful s p.id p.orig (fun h0 => he h0 s hh)).1 hb
      simp [this]
    · intro hc
      have hc' : s.content p.id = some p.orig := by simpa using hc
      refine ⟨p.orig, (getPart_faithful s p.id p.orig (fun h0 => he h0 s hh)).2 hc', ?_⟩
      exact (verifyPart_iff H hcf p p.orig).2 rfl

/-- The per-part loop: it yields the recomputed checksums exactly when no part is corrupt, and then
they are the recorded ones. -/
theorem checkParts_iff (H : Hashes) (hcf : CollisionFree (sumsOf H)) (l : Locator) (ss : Stores)
    (ps : List APart) (hr : ∀ p ∈ ps, ReadsHome l p)
    (he : ∀ p ∈ ps, p.orig = [] → ∀ s, homeStore ss p = some s → s.emptyIsMissing = false) :
    (checkParts H l ss (ps.map (APart.toRow H)) = some (ps.map fun p => sumsOf H p.orig) ∧ ∀ p ∈ ps, ¬ corrupt ss p)
    ∨ (checkParts H l ss (ps.map (APart.toRow H)) = none ∧ ∃ p ∈ ps, corrupt ss p) := by
  induction ps with
  | nil => left; simp [checkParts]
  | cons p ps ih =>
    have hp := part_ok_iff H hcf l ss p (hr p (by simp)) (he p (by simp))
    have ih' := ih (fun q hq => hr q (by simp [hq])) (fun q hq => he q (by simp [hq]))
    by_cases hc : corrupt ss p
    · right
      refine ⟨?_, p, by simp, hc⟩
      simp only [List.map_cons, checkParts]
      cases hrd : readPart l ss (p.toRow H) with
      | none => rfl
      | some b =>
        simp only
        by_cases hv : verifyPart (p.toRow H) (sumsOf H b) = true
        · exact absurd hc (hp.1 ⟨b, hrd, hv⟩)
        · simp [hv]
    · obtain ⟨b, hrd, hv⟩ := hp.2 hc
      have hb : b = p.orig := (verifyPart_iff H hcf p b).1 hv
      subst hb
      rcases ih' with ⟨hok, hall⟩ | ⟨hno, q, hq, hqc⟩
      · left
        refine ⟨?_, ?_⟩
        · simp only [List.map_cons, checkParts, hrd, hv, if_true, hok, Option.map_some]
        · intro q hq
          rcases List.mem_cons.1 hq with rfl | hq
          · exact hc
          · exact hall q hq
      · right
        refine ⟨?_, q, by simp [hq], hqc⟩
        simp only [List.map_cons, checkParts, hrd, hv, if_true, hno, Option.map_none]

/-! ### The object-level comparison on an intact object -/

theorem toRow_parts (H : Hashes) (o : AObj) : (o.toRow H).parts = o.rows H := by
  unfold AObj.toRow; cases o.kind <;> rfl

theorem rows_length (H : Hashes) (o : AObj) : (o.rows H).length = o.parts.length := by
  simp [AObj.rows]

/-- With every part intact, `verifyObjectChecksums` accepts — provided a one-part `…-1` record is
compared the multipart way (`dashAware`) or there is no such record. -/
theorem verifyObject_intact (H : Hashes) (dashAware : Bool) (o : AObj) (hwf : o.WF)
    (hd : dashAware = true ∨ ¬ DashOne o) :
    verifyObject H dashAware (o.toRow H) (o.parts.map fun p => sumsOf H p.orig) = true := by
  unfold verifyObject
  rw [toRow_parts, rows_length]
  cases hk : o.kind with
  | single =>
    have h1 := hwf hk
    match hps : o.parts, h1 with
    | [p], _ =>
      simp [AObj.toRow, hk, AObj.rows, hps, APart.toRow, hasDash, sumsOf, plain, agreeAll_refl]
  | multipart ct =>
    by_cases h1 : o.parts.length = 1
    · have hda : dashAware = true := by
        rcases hd with h | h
        · exact h
        · exact absurd ⟨h1, by simp [hk]⟩ h
      simp [AObj.toRow, hk, hasDash, multipartSums, hda, h1, agreeAll_refl]
      cases ct <;> simp
    · simp [AObj.toRow, hk, h1, agreeAll_refl]
  | appended =>
    have key : agreeAll
        { etag := (multipartSums H (o.rows H) .fullObject).etag, crc32 := none, crc32c := none, crc64 := none,
          sha1 := none, sha256 := none } (multipartSums H (o.rows H) .fullObject) = true := by
      simp [agreeAll, agree_refl, agree_none_left]
    by_cases h1 : o.parts.length = 1
    · have hda : dashAware = true := by
        rcases hd with h | h
        · exact h
        · exact absurd ⟨h1, by simp [hk]⟩ h
      simp only [AObj.toRow, hk, hasDash, multipartSums, hda, h1]
      simpa [multipartSums] using key
    · simp [AObj.toRow, hk, h1]
      simpa using key

/-! ### The property -/

/-- General form, for any located variant of the code: reported ⇔ some part is corrupt, provided the
variant reads every part from its own store, compares one-part `…-1` records the multipart way (or
there is none), and no empty part sits in a store that cannot represent it. -/
theorem reports_iff_corrupt_gen (H : Hashes) (hcf : CollisionFree (sumsOf H)) (cfg : Cfg) (ss : Stores)
    (o : AObj) (hwf : o.WF)
    (hr : ∀ p ∈ o.parts, ReadsHome cfg.locator p)
    (hd : cfg.dashAware = true ∨ ¬ DashOne o)
    (he : NoLossyEmptyPart ss o) :
    reported H cfg ss (o.toRow H) = true ↔ ∃ p ∈ o.parts, corrupt ss p := by
  unfold reported validateObject
  rw [toRow_parts]
  unfold AObj.rows
  rcases checkParts_iff H hcf cfg.locator ss o.parts hr he with ⟨hok, hall⟩ | ⟨hno, hex⟩
  · rw [hok]
    simp only [verifyObject_intact H cfg.dashAware o hwf hd, if_true]
    constructor
    · intro h; simp at h
    · rintro ⟨p, hp, hc⟩; exact absurd hc (hall p hp)
  · rw [hno]
    simp [hex]

/-- **reports_iff_corrupt** (repaired validator, fixes/C39-*.patch; stores that can represent an
empty part). For every object — single-part, multipart with any number of parts including one,
appended, COMPOSITE or FULL_OBJECT, parts in the default or in named stores, parts shared with other
objects — the validator reports it exactly when some part's stored bytes are no longer the bytes
whose checksums were recorded (changed, truncated, extended, or missing). -/
theorem reports_iff_corrupt (H : Hashes) (hcf : CollisionFree (sumsOf H)) (ss : Stores) (hf : Faithful ss)
    (o : AObj) (hwf : o.WF) :
    reported H Cfg.repaired ss (o.toRow H) = true ↔ ∃ p ∈ o.parts, corrupt ss p := by
  apply reports_iff_corrupt_gen H hcf Cfg.repaired ss o hwf
  · intro p _; exact Or.inl rfl
  · exact Or.inl rfl
  · intro p _ _ s hs
    unfold homeStore Stores.byName at hs
    cases hst : p.store with
    | none => rw [hst] at hs; cases hs; exact hf.1
    | some n => rw [hst] at hs; exact hf.2 n s hs

/-- **reports_iff_corrupt_partial** (the code as it is today, reading through the default part
store): the equivalence holds for objects all of whose parts live in the default store, that are not
one-part objects with a `…-1` record, and that have no empty part in a store unable to represent
one. Each excluded trigger has a negation witness below. -/
theorem reports_iff_corrupt_partial (H : Hashes) (hcf : CollisionFree (sumsOf H)) (ss : Stores)
    (o : AObj) (hwf : o.WF) (hs : AllDefaultStore o) (hd : ¬ DashOne o) (he : NoLossyEmptyPart ss o) :
    reported H Cfg.asIsHosted ss (o.toRow H) = true ↔ ∃ p ∈ o.parts, corrupt ss p := by
  apply reports_iff_corrupt_gen H hcf Cfg.asIsHosted ss o hwf
  · intro p hp; exact Or.inr ⟨rfl, hs p hp⟩
  · exact Or.inr hd
  · exact he

/-- The run with `deleteCorrupted` deletes a key only if it reported an object under that key, and
keeps a key only if some object under it was not reported (any located variant). -/
theorem deletes_only_reported (H : Hashes) (cfg : Cfg) (ss : Stores) (objs : List ObjRow)
    (hl : cfg.locator ≠ .notFound) (k : Nat) :
    (k ∈ deleted H cfg ss objs ↔ ∃ o ∈ objs, o.key = k ∧ reported H cfg ss o = true) ∧
    (k ∈ survivors H cfg ss objs ↔ ∃ o ∈ objs, o.key = k ∧ reported H cfg ss o = false) := by
  have hl' : (cfg.locator == Locator.notFound) = false := by
    cases h : cfg.locator <;> simp_all
  unfold deleted survivors
  simp only [hl', Bool.false_eq_true, if_false, List.mem_map, List.mem_filter]
  constructor
  · constructor
    · rintro ⟨o, ⟨ho, hr⟩, hk⟩; exact ⟨o, ho, hk, hr⟩
    · rintro ⟨o, ho, hk, hr⟩; exact ⟨o, ⟨ho, hr⟩, hk⟩
  · constructor
    · rintro ⟨o, ⟨ho, hr⟩, hk⟩; exact ⟨o, ho, hk, by simpa using hr⟩
    · rintro ⟨o, ho, hk, hr⟩; exact ⟨o, ⟨ho, by simp [hr]⟩, hk⟩

/-- **deletes_exactly_corrupt** (repaired validator): with `deleteCorrupted`, an object is deleted
exactly when one of its parts is corrupt, for every set of objects with distinct keys or not. -/
theorem deletes_exactly_corrupt (H : Hashes) (hcf : CollisionFree (sumsOf H)) (ss : Stores) (hf : Faithful ss)
    (objs : List AObj) (hwf : ∀ o ∈ objs, o.WF) (k : Nat) :
    (k ∈ deleted H Cfg.repaired ss (objs.map (AObj.toRow H)) ↔ ∃ o ∈ objs, o.key = k ∧ ∃ p ∈ o.parts, corrupt ss p) ∧
    (k ∈ survivors H Cfg.repaired ss (objs.map (AObj.toRow H)) ↔ ∃ o ∈ objs, o.key = k ∧ ∀ p ∈ o.parts, ¬ corrupt ss p) := by
  have key : ∀ o : AObj, (o.toRow H).key = o.key := by
    intro o; unfold AObj.toRow; cases o.kind <;> rfl
  have hd := deletes_only_reported H Cfg.repaired ss (objs.map (AObj.toRow H)) (by decide) k
  constructor
  · rw [hd.1]
    constructor
    · rintro ⟨r, hr, hk, hrep⟩
      obtain ⟨o, ho, rfl⟩ := List.mem_map.1 hr
      exact ⟨o, ho, (key o) ▸ hk, (reports_iff_corrupt H hcf ss hf o (hwf o ho)).1 hrep⟩
    · rintro ⟨o, ho, hk, hc⟩
      exact ⟨o.toRow H, List.mem_map.2 ⟨o, ho, rfl⟩, (key o).trans hk,
        (reports_iff_corrupt H hcf ss hf o (hwf o ho)).2 hc⟩
  · rw [hd.2]
    constructor
    · rintro ⟨r, hr, hk, hrep⟩
      obtain ⟨o, ho, rfl⟩ := List.mem_map.1 hr
      refine ⟨o, ho, (key o) ▸ hk, ?_⟩
      intro p hp hc
      have := (reports_iff_corrupt H hcf ss hf o (hwf o ho)).2 ⟨p, hp, hc⟩
      rw [this] at hrep; cases hrep
    · rintro ⟨o, ho, hk, hall⟩
      refine ⟨o.toRow H, List.mem_map.2 ⟨o, ho, rfl⟩, (key o).trans hk, ?_⟩
      cases hrep : reported H Cfg.repaired ss (o.toRow H) with
      | false => rfl
      | true =>
        obtain ⟨p, hp, hc⟩ := (reports_iff_corrupt H hcf ss hf o (hwf o ho)).1 hrep
        exact absurd hc (hall p hp)

/-! ### Toy instance: the hypotheses are satisfiable, the witnesses are concrete -/

/-- Every "hash" is the identity: trivially collision free. -/
def toyH : Hashes :=
  { md5 := id, crc32 := id, crc32c := id, crc64 := id, sha1 := id, sha256 := id,
    combine32 := fun a b _ => a ++ b, combine32c := fun a b _ => a ++ b, combine64 := fun a b _ => a ++ b }

theorem toy_cf : CollisionFree (sumsOf toyH) :=
  bundle_cf_of_sha256 toyH (fun _ _ h => h)

def fsStore (f : Nat → Option Bytes) : Store := ⟨f, false⟩
def sqlStore (f : Nat → Option Bytes) : Store := ⟨f, true⟩

/-- Part 1 = [1] and part 2 = [2] in the default store; part 7 = [7] in named store 0. -/
def toyStores : Stores :=
  { dflt := fsStore fun i => if i = 1 then some [1] else if i = 2 then some [2] else none,
    named := fun n => if n = 0 then some (fsStore fun i => if i = 7 then some [7] else none) else none }

/-- Negation witness 1 (the code as it is, run on a `metadataPartStorage`): the run aborts without
a report, although an object's only part is gone. -/
theorem asIs_aborts_without_report :
    validateAll toyH Cfg.asIs toyStores [(AObj.mk 0 .single [⟨9, none, [9]⟩]).toRow toyH] = none
    ∧ corrupt toyStores ⟨9, none, [9]⟩ := by
  constructor
  · rfl
  · decide

/-- Negation witness 2: an intact one-part multipart object (record `…-1`) is reported by the code
as it is; the repaired comparison accepts it. -/
theorem asIs_dash_one_false_positive :
    let o : AObj := ⟨0, .multipart .fullObject, [⟨1, none, [1]⟩]⟩
    reported toyH Cfg.asIsHosted toyStores (o.toRow toyH) = true
    ∧ (∀ p ∈ o.parts, ¬ corrupt toyStores p)
    ∧ reported toyH Cfg.repaired toyStores (o.toRow toyH) = false := by
  decide

/-- … and so is the object created by a first `AppendObject`. -/
theorem asIs_first_append_false_positive :
    let o : AObj := ⟨0, .appended, [⟨2, none, [2]⟩]⟩
    reported toyH Cfg.asIsHosted toyStores (o.toRow toyH) = true
    ∧ (∀ p ∈ o.parts, ¬ corrupt toyStores p) := by
  decide

/-- Negation witness 3: an intact object whose part lives in a named store is reported by the code
as it is (it looks the part up in the default store); the repaired lookup accepts it. -/
theorem asIs_named_store_false_positive :
    let o : AObj := ⟨0, .single, [⟨7, some 0, [7]⟩]⟩
    reported toyH Cfg.asIsHosted toyStores (o.toRow toyH) = true
    ∧ (∀ p ∈ o.parts, ¬ corrupt toyStores p)
    ∧ reported toyH Cfg.repaired toyStores (o.toRow toyH) = false := by
  decide

/-- Why `Faithful` is a hypothesis: an intact empty object held by a store that keeps nothing for
empty content is reported even by the repaired validator, because `GetPart` answers "part not
found". (The SQL part store was such a store until /repo commit 6ff38ea; the harness observes on
every case whether an untouched empty part can be read back.) -/
theorem lossy_store_empty_part_false_positive :
    let ss : Stores := { dflt := sqlStore fun i => if i = 3 then some [] else none, named := fun _ => none }
    let o : AObj := ⟨0, .single, [⟨3, none, []⟩]⟩
    reported toyH Cfg.repaired ss (o.toRow toyH) = true ∧ (∀ p ∈ o.parts, ¬ corrupt ss p) := by
  decide

/-- Non-vacuity: a three-part COMPOSITE object with a shared part and a part in a named store meets
every hypothesis of `reports_iff_corrupt`; it is intact and not reported, and after its named-store
part is altered it is reported. -/
example :
    let o : AObj := ⟨5, .multipart .composite, [⟨1, none, [1]⟩, ⟨7, some 0, [7]⟩, ⟨1, none, [1]⟩]⟩
    o.WF ∧ Faithful toyStores ∧ reported toyH Cfg.repaired toyStores (o.toRow toyH) = false ∧
    reported toyH Cfg.repaired
      { toyStores with named := fun n => if n = 0 then some (fsStore fun i => if i = 7 then some [7, 0] else none) else none }
      (o.toRow toyH) = true := by
  refine ⟨by decide, ⟨rfl, ?_⟩, by decide, by decide⟩
  intro n s h
  unfold toyStores at h
  simp only at h
  split at h
  · cases h; rfl
  · cases h

/-- Non-vacuity of the partial theorem's hypotheses (two-part appended object in the default store). -/
example :
    let o : AObj := ⟨1, .appended, [⟨1, none, [1]⟩, ⟨2, none, [2]⟩]⟩
    o.WF ∧ AllDefaultStore o ∧ ¬ DashOne o ∧ reported toyH Cfg.asIsHosted toyStores (o.toRow toyH) = false := by
  refine ⟨by decide, ?_, by decide, by decide⟩
  intro p hp
  simp at hp
  rcases hp with rfl | rfl <;> rfl

end Pithos.C39
