/-
C05 — range reads return exactly the requested slice.

Property theorems only. Model: `Pithos.Model.Range` (the Go code, switchable between the code as it
is, `Cfg.asIs`, and the two proposed repairs, `Cfg.repaired`); spec: `Pithos.Spec.Rfc7233`; helper
lemmas: `Pithos.Lemmas.Range`. Everything is stated for all object contents, ALL part splittings
(`parts : List (List α)`), all header values and all object sizes that fit an int64 — no bound.
"`hdr` is a syntactically valid Range header" is `Rfc7233.parseHeader hdr = some specs`.
-/
import Pithos.Lemmas.Range

namespace Pithos.C05
open Pithos.Range Pithos.Rfc7233

/-! ## what the code as it is needs in addition (the excluded triggers, decidable) -/

instance : DecidablePred bounded := fun s => by
  cases s <;> simp only [bounded] <;> exact inferInstance

/-- The inputs on which the unrepaired code is correct: every numeral fits an int64 and no
last-byte-pos is 2^63-1 (else `end+1` wraps / ParseInt fails), and a multi-range list is either
entirely satisfiable or entirely unsatisfiable (else the one unsatisfiable member turns the whole
request into 416). -/
def NoTrigger (size : Nat) (specs : List RangeSpec) : Prop :=
  (∀ s ∈ specs, bounded s) ∧
  (2 ≤ specs.length →
    (∀ s ∈ specs, satisfiable size s = true) ∨ (∀ s ∈ specs, satisfiable size s = false))

instance (size : Nat) (specs : List RangeSpec) : Decidable (NoTrigger size specs) := by
  unfold NoTrigger; exact inferInstance

/-! ## the response -/

/-- General form, for every combination of the two repairs: a repair that is absent is replaced by
the corresponding half of `NoTrigger`. -/
theorem range_response_correct_cfg {α : Type} (cfg : Cfg) (sepLen : Int) (parts : List (List α))
    (hdr : List Char) (specs : List RangeSpec)
    (hsize : (totalLen parts : Int) ≤ maxI64) (hvalid : parseHeader hdr = some specs)
    (hnum : cfg.sat = false → ∀ s ∈ specs, bounded s)
    (hmulti : cfg.dropUnsat = false → 2 ≤ specs.length →
      (∀ s ∈ specs, satisfiable (totalLen parts) s = true) ∨ (∀ s ∈ specs, satisfiable (totalLen parts) s = false)) :
    httpGet cfg sepLen hdr parts = ofSpec sepLen (eval specs parts.flatten) := by
  obtain ⟨hp, hne, hwf⟩ := parse_agree cfg hdr specs hvalid hnum
  exact httpGet_of_parse cfg sepLen hdr parts specs hp hne hwf hsize hmulti

/-- **range_response_correct** (repaired code, full strength). For every object content, every
splitting of it into parts, and every syntactically valid Range header, the GET answers exactly what
RFC 7233 prescribes: 416 iff no range is satisfiable, otherwise 206 with the satisfiable ranges in
request order — last-byte-pos clamped to the end, suffix ranges counted from the end, positions of
any magnitude — each with the Content-Range that describes its bytes, and Content-Length = length of
the body (single part: stated here; multipart: `multi_content_length_matches_body`). -/
theorem range_response_correct {α : Type} (sepLen : Int) (parts : List (List α)) (hdr : List Char)
    (specs : List RangeSpec) (hsize : (totalLen parts : Int) ≤ maxI64)
    (hvalid : parseHeader hdr = some specs) :
    httpGet Cfg.repaired sepLen hdr parts = ofSpec sepLen (eval specs parts.flatten) :=
  range_response_correct_cfg Cfg.repaired sepLen parts hdr specs hsize hvalid
    (fun h => by simp [Cfg.repaired] at h) (fun h => by simp [Cfg.repaired] at h)

/-- **range_response_correct_partial** (the code as it is): the same conclusion on the inputs
without a trigger. -/
theorem range_response_correct_partial {α : Type} (sepLen : Int) (parts : List (List α)) (hdr : List Char)
    (specs : List RangeSpec) (hsize : (totalLen parts : Int) ≤ maxI64)
    (hvalid : parseHeader hdr = some specs) (hno : NoTrigger (totalLen parts) specs) :
    httpGet Cfg.asIs sepLen hdr parts = ofSpec sepLen (eval specs parts.flatten) :=
  range_response_correct_cfg Cfg.asIs sepLen parts hdr specs hsize hvalid (fun _ => hno.1) (fun _ => hno.2)

theorem ofSpec_eq_416_iff {α : Type} (sepLen : Int) (specs : List RangeSpec) (content : List α) :
    ofSpec sepLen (eval specs content) = .status 416 ↔ ∀ s ∈ specs, satisfiable content.length s = false := by
  rw [eval_of_filter]
  by_cases hk : (specs.filter (satisfiable content.length)).isEmpty = true
  · rw [if_pos hk]
    have : specs.filter (satisfiable content.length) = [] := by simpa using hk
    simp only [ofSpec, true_iff]
    intro s hs
    have := List.filter_eq_nil_iff.1 this s hs
    simpa using this
  · rw [if_neg hk]
    constructor
    · intro h
      exfalso
      match hf : specs.filter (satisfiable content.length), hk with
      | [], hk => simp at hk
      | [_], _ => rw [hf] at h; simp [ofSpec] at h
      | _ :: _ :: _, _ => rw [hf] at h; simp [ofSpec] at h
    · intro h
      exfalso
      apply hk
      have : specs.filter (satisfiable content.length) = [] :=
        List.filter_eq_nil_iff.2 (fun s hs => by simp [h s hs])
      simp [this]

/-- **status416_iff_none_satisfiable** (repaired code): 416 is answered exactly when no requested
range is satisfiable. -/
theorem status416_iff_none_satisfiable {α : Type} (sepLen : Int) (parts : List (List α)) (hdr : List Char)
    (specs : List RangeSpec) (hsize : (totalLen parts : Int) ≤ maxI64)
    (hvalid : parseHeader hdr = some specs) :
    httpGet Cfg.repaired sepLen hdr parts = .status 416 ↔ ∀ s ∈ specs, satisfiable (totalLen parts) s = false := by
  rw [range_response_correct sepLen parts hdr specs hsize hvalid, ofSpec_eq_416_iff,
    ← totalLen_eq_length_flatten]

theorem status416_iff_none_satisfiable_partial {α : Type} (sepLen : Int) (parts : List (List α))
    (hdr : List Char) (specs : List RangeSpec) (hsize : (totalLen parts : Int) ≤ maxI64)
    (hvalid : parseHeader hdr = some specs) (hno : NoTrigger (totalLen parts) specs) :
    httpGet Cfg.asIs sepLen hdr parts = .status 416 ↔ ∀ s ∈ specs, satisfiable (totalLen parts) s = false := by
  rw [range_response_correct_partial sepLen parts hdr specs hsize hvalid hno, ofSpec_eq_416_iff,
    ← totalLen_eq_length_flatten]

/-! ## Content-Range / Content-Length describe the body -/

/-- Every part RFC 7233 prescribes is self-describing: `first ≤ last < total = size`, the body is
exactly the bytes `first … last` of the content and has `last - first + 1` bytes (so the
Content-Range and, for a single part, the Content-Length of `range_response_correct` match the
body). -/
theorem content_range_describes_body {α : Type} (specs : List RangeSpec) (content : List α)
    (hwf : ∀ s ∈ specs, wf s) (ps : List (Part α)) (h : eval specs content = .partialContent ps) :
    ∀ p ∈ ps, p.first ≤ p.last ∧ p.last < content.length ∧ p.total = content.length ∧
      p.body = slice content p.first p.last ∧ p.body.length = p.last + 1 - p.first := by
  rw [eval_of_filter] at h
  split at h
  · cases h
  · simp only [Response.partialContent.injEq] at h
    subst h
    intro p hp
    obtain ⟨s, hs, rfl⟩ := List.mem_map.1 hp
    obtain ⟨hs1, hs2⟩ := List.mem_filter.1 hs
    have hb := resolve_bounds content.length s (hwf s hs1) hs2
    exact ⟨hb.1, hb.2, rfl, rfl, length_slice content _ _ hb.2⟩

/-- **multi_content_length_matches_body.** The Content-Length the handler declares for a
multipart/byteranges response (`multiContentLength`, used by `ofSpec`) is the length of the body it
writes, for every boundary, every number (≥ 1) of parts and all part bodies. -/
theorem multi_content_length_matches_body {α : Type} (enc : Char → α) (sep : List Char)
    (p : CR × List α) (ps : List (CR × List α)) :
    ((renderMulti enc sep true (p :: ps)).length : Int) =
      multiContentLength sep.length ((p :: ps).map fun q => (q.1, (q.2.length : Int))) :=
  renderMulti_length_first enc sep p ps

/-! ## the per-part arithmetic, for every part splitting -/

/-- **range_reader_eq_slice.** `createRangeReader` (skip/limit per part, lazily concatenated) on a
non-empty window `[s, e)` delivers `drop s |> take (e - s)` of the concatenation of the parts — by
induction over the part list, for every splitting (empty parts included). -/
theorem range_reader_eq_slice {α : Type} (parts : List (List α)) (s e : Nat) (h : s < e) :
    createRangeReader parts ⟨some (s : Int), some (e : Int)⟩ = .ok ((parts.flatten.drop s).take (e - s)) :=
  createRangeReader_window parts _ s e rfl rfl h

/-- Two splittings of the same content are indistinguishable through range reads. -/
theorem splitting_irrelevant {α : Type} (parts parts' : List (List α)) (hsame : parts.flatten = parts'.flatten)
    (s e : Nat) (h : s < e) :
    createRangeReader parts ⟨some (s : Int), some (e : Int)⟩ = createRangeReader parts' ⟨some (s : Int), some (e : Int)⟩ := by
  rw [range_reader_eq_slice parts s e h, range_reader_eq_slice parts' s e h, hsame]

/-- **storage_ranges_correct.** `storage.GetObject` with the storage ranges of well-formed
range-specs: all satisfiable ⇒ one reader per range delivering the RFC slice; otherwise
InvalidRange (the whole call). -/
theorem storage_ranges_correct {α : Type} (parts : List (List α)) (specs : List RangeSpec) (hne : specs ≠ [])
    (hwf : ∀ s ∈ specs, wf s) (hsize : (totalLen parts : Int) ≤ maxI64) :
    getObject parts (specs.map toBR) =
      if specs.all (satisfiable (totalLen parts)) then .ok (specs.map (sliceOf parts.flatten))
      else .error .invalidRange := by
  by_cases hall : specs.all (satisfiable (totalLen parts)) = true
  · rw [if_pos hall]
    exact getObject_all_sat parts specs hne hwf (by simpa using hall) hsize
  · rw [if_neg hall]
    apply getObject_some_unsat parts specs hwf _ hsize
    apply Classical.byContradiction
    intro hno
    apply hall
    rw [List.all_eq_true]
    intro s hs
    cases hq : satisfiable (totalLen parts) s
    · exact absurd ⟨s, hs, hq⟩ hno
    · rfl

/-! ## negation witnesses for the code as it is (the replayed known findings) -/

def ten : List (List Nat) := [[1, 2, 3, 4, 5, 6, 7, 8, 9, 10]]

def hdrMaxEnd : List Char := ['b', 'y', 't', 'e', 's', '=', '0', '-', '9', '2', '2', '3', '3', '7', '2', '0', '3', '6', '8', '5', '4', '7', '7', '5', '8', '0', '7']
def hdrBigEnd : List Char := ['b', 'y', 't', 'e', 's', '=', '0', '-', '9', '9', '9', '9', '9', '9', '9', '9', '9', '9', '9', '9', '9', '9', '9', '9', '9', '9', '9', '9']
def hdrBigSuffix : List Char := ['b', 'y', 't', 'e', 's', '=', '-', '9', '9', '9', '9', '9', '9', '9', '9', '9', '9', '9', '9', '9', '9', '9', '9', '9', '9', '9', '9']
def hdrOneUnsat : List Char := ['b', 'y', 't', 'e', 's', '=', '0', '-', '1', ',', '5', '0', '0', '-', '6', '0', '0']

/-- `bytes=0-9223372036854775807` on 10 bytes: valid, satisfiable (RFC: the whole object), but the
code as it is answers 416 (`end+1` wraps to -2^63). -/
theorem asIs_end_maxint64_416 :
    parseHeader hdrMaxEnd = some [.fromTo 0 9223372036854775807] ∧
    eval [.fromTo 0 9223372036854775807] ten.flatten = .partialContent [⟨0, 9, 10, [1, 2, 3, 4, 5, 6, 7, 8, 9, 10]⟩] ∧
    httpGet Cfg.asIs 26 hdrMaxEnd ten = .status 416 := by decide

/-- `bytes=0-99999999999999999999` and `bytes=-99999999999999999999`: valid (positions are
unbounded `1*DIGIT`), satisfiable, answered 416 (ParseInt: value out of range). -/
theorem asIs_numeral_exceeds_int64_416 :
    parseHeader hdrBigEnd = some [.fromTo 0 99999999999999999999] ∧
    parseHeader hdrBigSuffix = some [.suffix 99999999999999999999] ∧
    eval [.fromTo 0 99999999999999999999] ten.flatten = .partialContent [⟨0, 9, 10, [1, 2, 3, 4, 5, 6, 7, 8, 9, 10]⟩] ∧
    eval [.suffix 99999999999999999999] ten.flatten = .partialContent [⟨0, 9, 10, [1, 2, 3, 4, 5, 6, 7, 8, 9, 10]⟩] ∧
    httpGet Cfg.asIs 26 hdrBigEnd ten = .status 416 ∧
    httpGet Cfg.asIs 26 hdrBigSuffix ten = .status 416 := by decide

/-- `bytes=0-1,500-600` on 10 bytes: the first member is satisfiable (RFC: 206 with bytes 0-1), the
code as it is answers 416. -/
theorem asIs_multi_range_one_unsatisfiable_416 :
    parseHeader hdrOneUnsat = some [.fromTo 0 1, .fromTo 500 600] ∧
    eval [.fromTo 0 1, .fromTo 500 600] ten.flatten = .partialContent [⟨0, 1, 10, [1, 2]⟩] ∧
    httpGet Cfg.asIs 26 hdrOneUnsat ten = .status 416 := by decide

/-- Hence the full-strength statement is FALSE for the code as it is … -/
theorem asIs_violates_range_response_correct :
    ¬ (∀ (sepLen : Int) (parts : List (List Nat)) (hdr : List Char) (specs : List RangeSpec),
        (totalLen parts : Int) ≤ maxI64 → parseHeader hdr = some specs →
        httpGet Cfg.asIs sepLen hdr parts = ofSpec sepLen (eval specs parts.flatten)) := by
  intro h
  have h1 := h 26 ten hdrMaxEnd _ (by decide) asIs_end_maxint64_416.1
  rw [asIs_end_maxint64_416.2.2, asIs_end_maxint64_416.2.1] at h1
  simp [ofSpec] at h1

/-- … while each repair removes its witnesses (same inputs, repaired model). -/
theorem repaired_on_the_witnesses :
    httpGet Cfg.repaired 26 hdrMaxEnd ten = .single ⟨0, 9, 10⟩ 10 [1, 2, 3, 4, 5, 6, 7, 8, 9, 10] ∧
    httpGet Cfg.repaired 26 hdrBigEnd ten = .single ⟨0, 9, 10⟩ 10 [1, 2, 3, 4, 5, 6, 7, 8, 9, 10] ∧
    httpGet Cfg.repaired 26 hdrBigSuffix ten = .single ⟨0, 9, 10⟩ 10 [1, 2, 3, 4, 5, 6, 7, 8, 9, 10] ∧
    httpGet Cfg.repaired 26 hdrOneUnsat ten = .single ⟨0, 1, 10⟩ 2 [1, 2] := by decide

/-! ## non-vacuity -/

def fifteen : List (List Nat) := [[1, 2, 3, 4, 5], [6, 7, 8, 9, 10], [11, 12, 13, 14, 15]]
def hdrThree : List Char := ['b', 'y', 't', 'e', 's', '=', '4', '-', '5', ',', ' ', '9', '-', '1', '0', ',', '-', '1']

/-- The hypotheses of `range_response_correct` / `_partial` are met by a non-trivial input: a
three-part object and a three-member list with OWS, a range crossing a part boundary and a suffix
range; and the conclusion is the expected multipart response. -/
example : (totalLen fifteen : Int) ≤ maxI64 ∧
    parseHeader hdrThree = some [.fromTo 4 5, .fromTo 9 10, .suffix 1] ∧
    NoTrigger (totalLen fifteen) [.fromTo 4 5, .fromTo 9 10, .suffix 1] ∧
    eval [.fromTo 4 5, .fromTo 9 10, .suffix 1] fifteen.flatten =
      .partialContent [⟨4, 5, 15, [5, 6]⟩, ⟨9, 10, 15, [10, 11]⟩, ⟨14, 14, 15, [15]⟩] := by decide

example : httpGet Cfg.asIs 26 hdrThree fifteen =
    .multi 229 [(⟨4, 5, 15⟩, [5, 6]), (⟨9, 10, 15⟩, [10, 11]), (⟨14, 14, 15⟩, [15])] := by decide +kernel

/-- `NoTrigger` is not vacuous for multi-range lists that are entirely unsatisfiable either. -/
example : NoTrigger 10 [.from_ 10, .suffix 0] ∧ ¬ NoTrigger 10 [.fromTo 0 1, .fromTo 500 600] ∧
    ¬ NoTrigger 10 [.fromTo 0 9223372036854775807] := by decide

end Pithos.C05
