import Pithos.Model.Range
import Pithos.Spec.Rfc7233
namespace Pithos.C05
theorem placeholder : True := trivial
end Pithos.C05
