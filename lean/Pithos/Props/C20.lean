/-
C20 — the object-cache middleware is transparent.

Model: `Pithos.Model.ObjectCache` (hand-written, tied to the code by the lock-step differential of
harness/cmd/verifharness/c20.go). Table: `Pithos.Gen.ObjectCache` (regenerated from /repo on every run).

Sequential statement, for EVERY inner storage satisfying `InnerOK`, every history (including arbitrary
evictions at arbitrary moments) and every cache state reachable from the empty cache:
  the outputs behind the middleware = the outputs of the inner storage alone   (`cache_transparent`).
It needs (a) every mutating method to be covered by an invalidating override and (b) the cached head to
survive its JSON round trip. The current tree fails both — (a) for exactly one method
(`uncovered_known`), (b) for `Object.Key` — so the full theorem is proved for the repaired parameters, the
as-is model gets negation witnesses, and `cache_transparent_asis_partial` states what does hold.

Concurrent statement: `body_matches_head` for the atomic-step model with version-tagged body entries;
negation witness for the untagged (as-is) design.
-/
import Pithos.Model.ObjectCache
import Pithos.Gen.ObjectCache

namespace Pithos.C20
open Pithos.ObjectCache

/-! ## T1 obligations over the regenerated tables -/

/-- Every method of `storage.Storage` has been classified (a new method forces a decision). -/
theorem classification_total :
    ∀ m ∈ Gen.ObjectCache.storageMethods, m ∈ mutatingMethods ∨ m ∈ nonMutatingMethods := by decide

/-- …and no method is classified both ways; the mutating ones still exist. -/
theorem classification_disjoint : ∀ m ∈ mutatingMethods, m ∉ nonMutatingMethods := by decide
theorem mutating_are_methods : ∀ m ∈ mutatingMethods, m ∈ Gen.ObjectCache.storageMethods := by decide

/-- Methods the middleware does not override reach the inner storage unchanged. -/
theorem delegator_passes_everything :
    ∀ m ∈ Gen.ObjectCache.storageMethods, m ∈ Gen.ObjectCache.delegatorPassThrough := by decide

/-- `invalidateObjectCaches` removes the body entry and the head entry. -/
theorem invalidate_removes_both :
    "objectCacheKey" ∈ Gen.ObjectCache.invalidateRemoves ∧ "headCacheKey" ∈ Gen.ObjectCache.invalidateRemoves := by decide

/-- Each invalidating override invalidates the key it wrote: the destination for CopyObject, the
deleted entry for DeleteObjects, the addressed key otherwise. -/
theorem invalidated_key_is_the_written_key :
    ∀ e ∈ Gen.ObjectCache.overrides, Mode.ofString e.2.1 ≠ .none →
      e.2.2 = (if e.1 = "CopyObject" then "dstBucket,dstKey"
               else if e.1 = "DeleteObjects" then "bucketName,entry.Key" else "bucketName,key") := by decide

def asIsMode : String → Mode := modeOfTable Gen.ObjectCache.overrides

/-- The mutating methods no override takes care of, according to the current source. -/
def uncovered : List String := mutatingMethods.filter (fun m => !covers (asIsMode m) m)

/-- The override table of the current tree misses at most the one known method (today: exactly it; after
`fixes/C20-invalidate-on-transition.patch`: none). Any OTHER mutating method losing its invalidation breaks
this obligation. -/
theorem uncovered_known : ∀ m ∈ uncovered, m = "TransitionObjectStorageClass" := by decide

/-- The table with the TransitionObjectStorageClass override taken out: the middleware as it was written. -/
def tableWithoutTransition : List (String × String × String) :=
  Gen.ObjectCache.overrides.filter (fun e => e.1 != "TransitionObjectStorageClass")

/-- Every invalidating override invalidates AFTER the inner storage has executed the call (an invalidation
before it would let a request served in between re-fill the cache with the old object: `early_invalidation_goes_stale`). -/
theorem invalidation_follows_inner_call : ∀ e ∈ Gen.ObjectCache.invalidationPosition, e.2 = "after" := by decide

/-- Only PutObject fills the cache from the request body. -/
theorem only_put_fills : ∀ e ∈ Gen.ObjectCache.overrides, Mode.ofString e.2.1 = .putFill → e.1 = "PutObject" := by decide

/-- The table after the proposed repair. -/
def repairedTable : List (String × String × String) :=
  tableWithoutTransition ++ [("TransitionObjectStorageClass", "on-success", "bucketName,key")]

theorem repaired_table_covers : ∀ m ∈ mutatingMethods, covers (modeOfTable repairedTable m) m = true := by decide
theorem repaired_only_put_fills : ∀ e ∈ repairedTable, Mode.ofString e.2.1 = .putFill → e.1 = "PutObject" := by decide

/-! ## Sequential transparency -/

/-- What the theorem assumes of the inner storage (each clause is another property's business and is
exercised by the lock-step differential): a read that succeeds keeps its answer across any call that is
non-mutating, failed, or aimed at other keys (C03, C13); a successful PutObject reads back (C01). -/
structure InnerOK {σ} (I : Inner σ) : Prop where
  frame : ∀ s m k h b, I.cur s k = .ok (h, b) →
    (m.method ∉ mutatingMethods ∨ (I.apply s m).2.1 = false ∨ k ∉ targets m (I.apply s m).2.2) →
    I.cur (I.apply s m).1 k = .ok (h, b)
  put_readback : ∀ s m, m.method = "PutObject" → (I.apply s m).2.1 = true →
    ∃ h, I.cur (I.apply s m).1 m.key = .ok (h, m.data)

/-- Cache coherence: every cached head/body is what the inner storage answers right now. -/
def Coh {σ} (I : Inner σ) (s : σ) (c : Cache) : Prop :=
  (∀ k h, c.head k = some h → ∃ b, I.cur s k = .ok (h, b)) ∧
  (∀ k b, c.body k = some b → ∃ h, I.cur s k = .ok (h, b))

/-- The override mode of a call is adequate. -/
def MutCovered (p : Params) (m : Mut) : Prop :=
  (p.mode m.method = .putFill → m.method = "PutObject") ∧
  (m.method ∈ mutatingMethods → covers (p.mode m.method) m.method = true)

def OpCovered (p : Params) : Op → Prop
  | .call m => MutCovered p m
  | _ => True

theorem coh_empty {σ} (I : Inner σ) (s : σ) : Coh I s Cache.empty := by
  constructor <;> intro k x h <;> simp [Cache.empty] at h

theorem coh_setHead_none {σ} {I : Inner σ} {s : σ} {c : Cache} (k : Key) (h : Coh I s c) :
    Coh I s (c.setHead k none) := by
  refine ⟨?_, h.2⟩
  intro k' x hx
  simp only [Cache.setHead] at hx
  split at hx
  · cases hx
  · exact h.1 k' x hx

theorem coh_setBody_none {σ} {I : Inner σ} {s : σ} {c : Cache} (k : Key) (h : Coh I s c) :
    Coh I s (c.setBody k none) := by
  refine ⟨h.1, ?_⟩
  intro k' x hx
  simp only [Cache.setBody] at hx
  split at hx
  · cases hx
  · exact h.2 k' x hx

theorem coh_inval {σ} {I : Inner σ} {s : σ} {c : Cache} (k : Key) (h : Coh I s c) : Coh I s (c.inval k) :=
  coh_setBody_none k (coh_setHead_none k h)

theorem coh_setHead_some {σ} {I : Inner σ} {s : σ} {c : Cache} (k : Key) (x : Head) (b : Body)
    (hc : I.cur s k = .ok (x, b)) (h : Coh I s c) : Coh I s (c.setHead k (some x)) := by
  refine ⟨?_, h.2⟩
  intro k' y hy
  simp only [Cache.setHead] at hy
  split at hy
  · next e => cases hy; subst e; exact ⟨b, hc⟩
  · exact h.1 k' y hy

theorem coh_setBody_some {σ} {I : Inner σ} {s : σ} {c : Cache} (k : Key) (x : Head) (b : Body)
    (hc : I.cur s k = .ok (x, b)) (h : Coh I s c) : Coh I s (c.setBody k (some b)) := by
  refine ⟨h.1, ?_⟩
  intro k' y hy
  simp only [Cache.setBody] at hy
  split at hy
  · next e => cases hy; subst e; exact ⟨x, hc⟩
  · exact h.2 k' y hy

theorem coh_evict_heads {σ} {I : Inner σ} {s : σ} (hs : List Key) (c : Cache) (h : Coh I s c) :
    Coh I s (hs.foldl (fun c k => c.setHead k none) c) := by
  induction hs generalizing c with
  | nil => exact h
  | cons k ks ih => exact ih _ (coh_setHead_none k h)

theorem coh_evict_bodies {σ} {I : Inner σ} {s : σ} (bs : List Key) (c : Cache) (h : Coh I s c) :
    Coh I s (bs.foldl (fun c k => c.setBody k none) c) := by
  induction bs generalizing c with
  | nil => exact h
  | cons k ks ih => exact ih _ (coh_setBody_none k h)

/-- Entries of keys other than the invalidated ones are untouched. -/
theorem inval_head_ne (c : Cache) (k k' : Key) (hne : k' ≠ k) : (c.inval k).head k' = c.head k' := by
  simp [Cache.inval, Cache.setHead, Cache.setBody, hne]
theorem inval_body_ne (c : Cache) (k k' : Key) (hne : k' ≠ k) : (c.inval k).body k' = c.body k' := by
  simp [Cache.inval, Cache.setHead, Cache.setBody, hne]
theorem inval_head_self (c : Cache) (k : Key) : (c.inval k).head k = none := by
  simp [Cache.inval, Cache.setHead, Cache.setBody]
theorem inval_body_self (c : Cache) (k : Key) : (c.inval k).body k = none := by
  simp [Cache.inval, Cache.setHead, Cache.setBody]

theorem foldl_inval_head (ks : List Key) (c : Cache) (k : Key) :
    (ks.foldl Cache.inval c).head k = if k ∈ ks then none else c.head k := by
  induction ks generalizing c with
  | nil => simp
  | cons a as ih =>
    rw [List.foldl_cons, ih]
    by_cases h1 : k ∈ as
    · simp [h1]
    · by_cases h2 : k = a
      · subst h2; simp [h1, inval_head_self]
      · simp [h1, h2, inval_head_ne c a k h2]

theorem foldl_inval_body (ks : List Key) (c : Cache) (k : Key) :
    (ks.foldl Cache.inval c).body k = if k ∈ ks then none else c.body k := by
  induction ks generalizing c with
  | nil => simp
  | cons a as ih =>
    rw [List.foldl_cons, ih]
    by_cases h1 : k ∈ as
    · simp [h1]
    · by_cases h2 : k = a
      · subst h2; simp [h1, inval_body_self]
      · simp [h1, h2, inval_body_ne c a k h2]

/-- Coherence survives a call when every entry that is kept belongs to a key whose answer is kept. -/
theorem coh_of_kept {σ} {I : Inner σ} {s s' : σ} {c c' : Cache} (h : Coh I s c)
    (keep : ∀ k x b, I.cur s k = .ok (x, b) → (c'.head k ≠ none ∨ c'.body k ≠ none) → I.cur s' k = .ok (x, b))
    (hsub : ∀ k, c'.head k = none ∨ c'.head k = c.head k)
    (bsub : ∀ k, c'.body k = none ∨ c'.body k = c.body k) : Coh I s' c' := by
  constructor
  · intro k x hx
    rcases hsub k with h0 | h0
    · rw [h0] at hx; cases hx
    · obtain ⟨b, hb⟩ := h.1 k x (h0 ▸ hx)
      exact ⟨b, keep k x b hb (Or.inl (by rw [hx]; simp))⟩
  · intro k b hb
    rcases bsub k with h0 | h0
    · rw [h0] at hb; cases hb
    · obtain ⟨x, hx⟩ := h.2 k b (h0 ▸ hb)
      exact ⟨x, keep k x b hx (Or.inr (by rw [hb]; simp))⟩

theorem covers_putFill {m : String} (h : covers .putFill m = true) : m = "PutObject" := by
  simpa [covers] using h

/-- The heart: a covered call keeps the cache coherent. -/
theorem coh_afterMut {σ} (I : Inner σ) (hI : InnerOK I) (p : Params) (hk : p.keepKey = true)
    (s : σ) (c : Cache) (m : Mut) (hc : Coh I s c) (hm : MutCovered p m) :
    Coh I (I.apply s m).1 (afterMut I p (I.apply s m).1 c m (I.apply s m).2.1 (I.apply s m).2.2) := by
  -- abbreviations
  generalize hr : I.apply s m = r at *
  have frame := fun k x b hx hh => hr ▸ hI.frame s m k x b hx (hr ▸ hh)
  have rb := fun h1 h2 => hr ▸ hI.put_readback s m h1 (hr ▸ h2)
  obtain ⟨hpf, hcov⟩ := hm
  by_cases hmut : m.method ∈ mutatingMethods
  · -- mutating method: its mode covers it
    have hcv := hcov hmut
    unfold afterMut
    cases hmode : p.mode m.method with
    | none => simp [hmode, covers] at hcv
    | always =>
      have hne : m.method ≠ "DeleteObjects" := by simpa [hmode, covers] using hcv
      simp only []
      refine coh_of_kept hc ?_ ?_ ?_
      · intro k x b hx hkept
        refine frame k x b hx (Or.inr (Or.inr ?_))
        simp only [targets, hne, if_false, List.mem_singleton]
        intro hk'; subst hk'
        rcases hkept with h1 | h1
        · exact h1 (inval_head_self c _)
        · exact h1 (inval_body_self c _)
      · intro k; by_cases e : k = m.key
        · subst e; exact Or.inl (inval_head_self c _)
        · exact Or.inr (inval_head_ne c _ k e)
      · intro k; by_cases e : k = m.key
        · subst e; exact Or.inl (inval_body_self c _)
        · exact Or.inr (inval_body_ne c _ k e)
    | onSuccess =>
      have hne : m.method ≠ "DeleteObjects" := by simpa [hmode, covers] using hcv
      simp only []
      cases hok : r.2.1 with
      | false =>
        simp only [Bool.false_eq_true, if_false]
        exact coh_of_kept hc (fun k x b hx _ => frame k x b hx (Or.inr (Or.inl hok))) (fun _ => Or.inr rfl) (fun _ => Or.inr rfl)
      | true =>
        simp only [if_true]
        refine coh_of_kept hc ?_ ?_ ?_
        · intro k x b hx hkept
          refine frame k x b hx (Or.inr (Or.inr ?_))
          simp only [targets, hne, if_false, List.mem_singleton]
          intro hk'; subst hk'
          rcases hkept with h1 | h1
          · exact h1 (inval_head_self c _)
          · exact h1 (inval_body_self c _)
        · intro k; by_cases e : k = m.key
          · subst e; exact Or.inl (inval_head_self c _)
          · exact Or.inr (inval_head_ne c _ k e)
        · intro k; by_cases e : k = m.key
          · subst e; exact Or.inl (inval_body_self c _)
          · exact Or.inr (inval_body_ne c _ k e)
    | perDeleted =>
      have heq : m.method = "DeleteObjects" := by simpa [hmode, covers] using hcv
      simp only []
      cases hok : r.2.1 with
      | false =>
        simp only [Bool.false_eq_true, if_false]
        exact coh_of_kept hc (fun k x b hx _ => frame k x b hx (Or.inr (Or.inl hok))) (fun _ => Or.inr rfl) (fun _ => Or.inr rfl)
      | true =>
        simp only [if_true]
        refine coh_of_kept hc ?_ ?_ ?_
        · intro k x b hx hkept
          refine frame k x b hx (Or.inr (Or.inr ?_))
          simp only [targets, heq, if_true]
          intro hmem
          rcases hkept with h1 | h1
          · exact h1 (by rw [foldl_inval_head]; simp [hmem])
          · exact h1 (by rw [foldl_inval_body]; simp [hmem])
        · intro k; rw [foldl_inval_head]; by_cases e : k ∈ r.2.2 <;> simp [e]
        · intro k; rw [foldl_inval_body]; by_cases e : k ∈ r.2.2 <;> simp [e]
    | putFill =>
      have heq : m.method = "PutObject" := hpf hmode
      have hne : m.method ≠ "DeleteObjects" := by rw [heq]; decide
      simp only []
      cases hok : r.2.1 with
      | false =>
        simp only [Bool.false_eq_true, if_false]
        refine coh_of_kept hc (fun k x b hx _ => frame k x b hx (Or.inr (Or.inl hok))) ?_ ?_
        · intro k; by_cases e : k = m.key
          · subst e; exact Or.inl (inval_head_self c _)
          · exact Or.inr (inval_head_ne c _ k e)
        · intro k; by_cases e : k = m.key
          · subst e; exact Or.inl (inval_body_self c _)
          · exact Or.inr (inval_body_ne c _ k e)
      | true =>
        simp only [if_true]
        obtain ⟨hd, hrb⟩ := rb heq hok
        -- other keys: kept by the frame; the written key: refilled with what the inner storage answers now
        have hothers : ∀ k x b, k ≠ m.key → I.cur s k = .ok (x, b) → I.cur r.1 k = .ok (x, b) := by
          intro k x b hne' hx
          refine frame k x b hx (Or.inr (Or.inr ?_))
          simpa [targets, hne] using hne'
        rw [hrb]
        simp only [roundTrip, hk, if_true]
        constructor
        · intro k x hx
          simp only [Cache.setHead, Cache.setBody] at hx
          split at hx
          · next e => cases hx; subst e; exact ⟨_, hrb⟩
          · next e =>
            obtain ⟨b, hb⟩ := hc.1 k x hx
            exact ⟨b, hothers k x b e hb⟩
        · intro k b hb
          simp only [Cache.setHead, Cache.setBody] at hb
          split at hb
          · next e =>
            subst e
            split at hb
            · cases hb; exact ⟨_, hrb⟩
            · cases hb
          · next e =>
            obtain ⟨x, hx⟩ := hc.2 k b hb
            exact ⟨x, hothers k x b e hx⟩
  · -- non-mutating method: nothing the cache holds changes; whatever the override removes is harmless
    have keepAll : ∀ k x b, I.cur s k = .ok (x, b) → I.cur r.1 k = .ok (x, b) :=
      fun k x b hx => frame k x b hx (Or.inl hmut)
    have hc' : Coh I r.1 c := ⟨fun k x hx => (hc.1 k x hx).imp (fun b hb => keepAll k x b hb),
                               fun k b hb => (hc.2 k b hb).imp (fun x hx => keepAll k x b hx)⟩
    unfold afterMut
    cases hmode : p.mode m.method with
    | none => exact hc'
    | always => exact coh_inval _ hc'
    | onSuccess => simp only []; split; exact coh_inval _ hc'; exact hc'
    | perDeleted =>
      simp only []; split
      · generalize r.2.2 = ks
        induction ks generalizing c with
        | nil => exact hc'
        | cons a as ih =>
          exact ih (c.inval a) (coh_inval a hc) (coh_inval a hc')
      · exact hc'
    | putFill =>
      have heq : m.method = "PutObject" := hpf hmode
      exact absurd (by rw [heq]; decide) hmut

/-- One step: same output, same inner state, coherence kept. -/
theorem step_transparent {σ} (I : Inner σ) (hI : InnerOK I) (p : Params) (hk : p.keepKey = true)
    (s : σ) (c : Cache) (op : Op) (hc : Coh I s c) (hop : OpCovered p op) :
    (stepCached I p s c op).2 = (stepInner I s op).2 ∧
    (stepCached I p s c op).1.1 = (stepInner I s op).1 ∧
    Coh I (stepCached I p s c op).1.1 (stepCached I p s c op).1.2 := by
  cases op with
  | head k cnd =>
    simp only [stepCached, stepInner]
    cases hh : c.head k with
    | some x =>
      obtain ⟨b, hb⟩ := hc.1 k x hh
      simp [hb, hc]
    | none =>
      cases hcur : I.cur s k with
      | error e => simp [hc]
      | ok v =>
        obtain ⟨x, b⟩ := v
        simp only [roundTrip, hk, if_true, true_and]
        exact coh_setHead_some k x b hcur hc
  | get k cnd full =>
    simp only [stepCached, stepInner]
    cases hh : c.head k with
    | none =>
      cases hcur : I.cur s k with
      | error e => simp [hc]
      | ok v =>
        obtain ⟨x, b⟩ := v
        simp only [resOf]
        cases hv : validate cnd x with
        | some e => simp [hc]
        | none =>
          simp only [roundTrip, hk, if_true]
          split
          · refine ⟨rfl, rfl, ?_⟩
            cases full
            · exact coh_setBody_none k (coh_setHead_some k x b hcur hc)
            · exact coh_setBody_some k x b hcur (coh_setHead_some k x b hcur hc)
          · exact ⟨rfl, rfl, hc⟩
    | some x =>
      cases hb : c.body k with
      | some b =>
        obtain ⟨b', hb'⟩ := hc.1 k x hh
        obtain ⟨x', hx'⟩ := hc.2 k b hb
        rw [hb'] at hx'
        cases hx'
        simp [hb', hc]
      | none =>
        cases hcur : I.cur s k with
        | error e => simp [hc]
        | ok v =>
          obtain ⟨y, b⟩ := v
          simp only [resOf]
          cases hv : validate cnd y with
          | some e => simp [hc]
          | none =>
            simp only [roundTrip, hk, if_true]
            split
            · refine ⟨rfl, rfl, ?_⟩
              cases full
              · exact coh_setBody_none k (coh_setHead_some k y b hcur hc)
              · exact coh_setBody_some k y b hcur (coh_setHead_some k y b hcur hc)
            · exact ⟨rfl, rfl, hc⟩
  | call m =>
    simp only [stepCached, stepInner, true_and]
    exact coh_afterMut I hI p hk s c m hc hop
  | evict hs bs =>
    simp only [stepCached, stepInner, true_and]
    exact coh_evict_bodies bs _ (coh_evict_heads hs c hc)

/-- **cache_transparent_partial.** For every inner storage, every history whose calls are covered, every
eviction behaviour, and every coherent starting cache: same outputs with and without the middleware. -/
theorem cache_transparent_partial {σ} (I : Inner σ) (hI : InnerOK I) (p : Params) (hk : p.keepKey = true)
    (ops : List Op) (s : σ) (c : Cache) (hc : Coh I s c) (hops : ∀ op ∈ ops, OpCovered p op) :
    runCached I p s c ops = runInner I s ops := by
  induction ops generalizing s c with
  | nil => rfl
  | cons op ops ih =>
    obtain ⟨h1, h2, h3⟩ := step_transparent I hI p hk s c op hc (hops op (by simp))
    simp only [runCached, runInner]
    rw [h1, ← h2]
    congr 1
    exact ih _ _ h3 (fun o ho => hops o (by simp [ho]))

/-- Lookup in an extracted table: a non-`none` mode comes from an entry of the table. -/
theorem modeOfTable_mem (tbl : List (String × String × String)) (m : String) (h : modeOfTable tbl m ≠ .none) :
    ∃ e ∈ tbl, e.1 = m ∧ Mode.ofString e.2.1 = modeOfTable tbl m := by
  unfold modeOfTable at h ⊢
  cases hf : tbl.find? (fun e => e.1 == m) with
  | none => simp [hf] at h
  | some e =>
    refine ⟨e, List.mem_of_find?_eq_some hf, ?_, by simp⟩
    have := List.find?_some hf
    simpa using this

/-- **cache_transparent.** With a table that covers every mutating method and a head that survives its
round trip, the middleware is transparent for ALL histories, starting from the empty cache. -/
theorem cache_transparent {σ} (I : Inner σ) (hI : InnerOK I) (tbl : List (String × String × String)) (maxObj : Nat)
    (hcov : ∀ m ∈ mutatingMethods, covers (modeOfTable tbl m) m = true)
    (hput : ∀ e ∈ tbl, Mode.ofString e.2.1 = .putFill → e.1 = "PutObject")
    (ops : List Op) (s : σ) :
    runCached I ⟨modeOfTable tbl, true, maxObj⟩ s Cache.empty ops = runInner I s ops := by
  refine cache_transparent_partial I hI _ rfl ops s _ (coh_empty I s) ?_
  intro op _
  cases op with
  | call m =>
    refine ⟨?_, fun hm => hcov _ hm⟩
    intro hpf
    obtain ⟨e, he, h1, h2⟩ := modeOfTable_mem tbl m.method (by simp only [] at hpf; rw [hpf]; decide)
    simp only [] at hpf
    rw [hpf] at h2
    exact h1 ▸ hput e he h2
  | _ => trivial

/-- The repaired middleware (Transition invalidates, the key survives) is transparent for all histories. -/
theorem cache_transparent_repaired {σ} (I : Inner σ) (hI : InnerOK I) (maxObj : Nat) (ops : List Op) (s : σ) :
    runCached I ⟨modeOfTable repairedTable, true, maxObj⟩ s Cache.empty ops = runInner I s ops :=
  cache_transparent I hI repairedTable maxObj repaired_table_covers repaired_only_put_fills ops s

/-- What holds for the override table of the current tree (with the key surviving): transparency for
every history that does not call a method the table leaves uncovered (today: a storage-class transition). -/
theorem cache_transparent_asis_partial {σ} (I : Inner σ) (hI : InnerOK I) (maxObj : Nat) (ops : List Op) (s : σ)
    (havoid : ∀ m, Op.call m ∈ ops → m.method ∉ uncovered) :
    runCached I ⟨asIsMode, true, maxObj⟩ s Cache.empty ops = runInner I s ops := by
  refine cache_transparent_partial I hI _ rfl ops s _ (coh_empty I s) ?_
  intro op hop
  cases op with
  | call m =>
    refine ⟨?_, ?_⟩
    · intro hpf
      obtain ⟨e, he, h1, h2⟩ := modeOfTable_mem Gen.ObjectCache.overrides m.method (by
        show asIsMode m.method ≠ .none
        simp only [] at hpf; rw [hpf]; decide)
      have hpf' : modeOfTable Gen.ObjectCache.overrides m.method = .putFill := hpf
      rw [hpf'] at h2
      exact h1 ▸ only_put_fills e he h2
    · intro hm
      have hnot := havoid m hop
      simp only [uncovered, List.mem_filter, not_and, Bool.not_eq_true'] at hnot
      simpa using hnot hm
  | _ => trivial

/-! ### calls with other requests served while they are in flight -/

/-- `run_transparent_st`: like `cache_transparent_partial`, also saying where both runs end. -/
theorem run_transparent_st {σ} (I : Inner σ) (hI : InnerOK I) (p : Params) (hk : p.keepKey = true)
    (ops : List Op) (s : σ) (c : Cache) (hc : Coh I s c) (hops : ∀ op ∈ ops, OpCovered p op) :
    (runCachedSt I p s c ops).2 = (runInnerSt I s ops).2 ∧
    (runCachedSt I p s c ops).1.1 = (runInnerSt I s ops).1 ∧
    Coh I (runCachedSt I p s c ops).1.1 (runCachedSt I p s c ops).1.2 := by
  induction ops generalizing s c with
  | nil => exact ⟨rfl, rfl, hc⟩
  | cons op ops ih =>
    obtain ⟨h1, h2, h3⟩ := step_transparent I hI p hk s c op hc (hops op (by simp))
    obtain ⟨i1, i2, i3⟩ := ih _ _ h3 (fun o ho => hops o (by simp [ho]))
    simp only [runCachedSt, runInnerSt]
    rw [h1, ← h2]
    exact ⟨by rw [i1], i2, i3⟩

/-- **window_transparent.** An override that invalidates AFTER the inner call stays transparent when other
requests are served while the call is in flight at the inner storage: for every coherent cache, every covered
call and any requests in the window, the outputs are those of the inner storage alone and the cache stays
coherent — so every later read is answered like the inner storage answers it. -/
theorem window_transparent {σ} (I : Inner σ) (hI : InnerOK I) (p : Params) (hk : p.keepKey = true)
    (s : σ) (c : Cache) (hc : Coh I s c) (m : Mut) (hm : MutCovered p m) (reads : List Op)
    (hr : ∀ op ∈ reads, OpCovered p op) :
    (runWin I p false s c m reads).2 = (runInnerSt I s (reads ++ [.call m])).2 ∧
    Coh I (runWin I p false s c m reads).1.1 (runWin I p false s c m reads).1.2 := by
  have hops : ∀ op ∈ reads ++ [Op.call m], OpCovered p op := by
    intro op hop
    rcases List.mem_append.1 hop with h | h
    · exact hr op h
    · simp only [List.mem_singleton] at h; subst h; exact hm
  obtain ⟨h1, _, h3⟩ := run_transparent_st I hI p hk (reads ++ [.call m]) s c hc hops
  simp only [runWin, Bool.false_eq_true, if_false]
  exact ⟨h1, h3⟩

/-- A toy inner storage whose object "b/k" is replaced by CompleteMultipartUpload (state = which version). -/
def toy2 : Inner Bool where
  cur s k := if k = "b/k" then .ok (⟨if s then "e2" else "e1", 1, "k", "r"⟩, if s then "new" else "old") else .error "NoSuchKey"
  apply s m := if m.method = "CompleteMultipartUpload" ∧ m.key = "b/k" then (true, true, []) else (s, false, [])

/-- **Witness** (seeded change C20-3; realised on the real code by the gated-inner-store histories of the
harness): if the override invalidates before the inner call, a GetObject served in the window re-caches
the old object, and after the call has returned the middleware still answers the old object. -/
theorem early_invalidation_goes_stale :
    let p : Params := ⟨modeOfTable repairedTable, true, 100⟩
    let w := runWin toy2 p true false Cache.empty { method := "CompleteMultipartUpload", key := "b/k" } [.get "b/k" {} true]
    (stepCached toy2 p w.1.1 w.1.2 (.get "b/k" {} true)).2 ≠ (stepInner toy2 w.1.1 (.get "b/k" {} true)).2 := by
  decide

/-- …while the override as it is answers the new object (and `window_transparent` says so for all histories). -/
example :
    let p : Params := ⟨modeOfTable repairedTable, true, 100⟩
    let w := runWin toy2 p false false Cache.empty { method := "CompleteMultipartUpload", key := "b/k" } [.get "b/k" {} true]
    (stepCached toy2 p w.1.1 w.1.2 (.get "b/k" {} true)).2 = (stepInner toy2 w.1.1 (.get "b/k" {} true)).2 := by
  decide

/-! ### Negation witnesses for the current tree (sequential) -/

/-- A toy inner storage: one object "b/k" whose storage class is the state; only
TransitionObjectStorageClass of that key succeeds (and flips the class). -/
def toyHead (cls : Bool) : Head := ⟨"e", 1, "k", if cls then "GLACIER" else "STANDARD"⟩

def toy : Inner Bool where
  cur s k := if k = "b/k" then .ok (toyHead s, "x") else .error "NoSuchKey"
  apply s m := if m.method = "TransitionObjectStorageClass" ∧ m.key = "b/k" then (!s, true, []) else (s, false, [])

/-- The toy storage meets every assumption of the theorem — the violation below is the middleware's. -/
theorem toy_ok : InnerOK toy := by
  constructor
  · intro s m k h b hcur hside
    simp only [toy] at hcur hside ⊢
    by_cases ht : m.method = "TransitionObjectStorageClass" ∧ m.key = "b/k"
    · simp only [ht, and_self, if_true] at hside ⊢
      rcases hside with h1 | h1 | h1
      · exact absurd (by decide) h1
      · cases h1
      · by_cases hk : k = "b/k"
        · exact absurd (by simp [targets, ht.1, ht.2, hk]) h1
        · simp [hk] at hcur
    · simpa [ht] using hcur
  · intro s m hm hok
    simp only [toy] at hok
    by_cases ht : m.method = "TransitionObjectStorageClass" ∧ m.key = "b/k"
    · rw [hm] at ht; exact absurd ht.1 (by decide)
    · simp [ht] at hok

def transitionHistory : List Op :=
  [.head "b/k" {}, .call { method := "TransitionObjectStorageClass", key := "b/k" }, .head "b/k" {}]

/-- **Witness 1** (the history replayed on the real code, known finding
`C20.stale-read-after-TransitionObjectStorageClass`): with the override table of the current tree a
HeadObject after a storage-class transition still answers the old class. -/
theorem asis_not_transparent_transition :
    runCached toy ⟨modeOfTable tableWithoutTransition, true, 100⟩ false Cache.empty transitionHistory
      ≠ runInner toy false transitionHistory := by decide

/-- …and the same history is answered correctly with the repaired table. -/
example : runCached toy ⟨modeOfTable repairedTable, true, 100⟩ false Cache.empty transitionHistory
      = runInner toy false transitionHistory := by decide

/-- **Witness 2** (known finding `C20.cached-object-key-empty`): when the JSON round trip drops
`Object.Key`, the second of two HeadObject calls answers a different object than the inner storage. -/
theorem asis_not_transparent_key :
    runCached toy ⟨modeOfTable repairedTable, false, 100⟩ false Cache.empty [.head "b/k" {}, .head "b/k" {}]
      ≠ runInner toy false [.head "b/k" {}, .head "b/k" {}] := by decide

/-- Non-vacuity of `cache_transparent_asis_partial`: a history with reads, a covered mutating call and an
eviction meets its hypothesis. -/
example : ∀ m, Op.call m ∈ ([.head "b/k" {}, .call { method := "DeleteObject", key := "b/k" }, .evict ["b/k"] [], .get "b/k" {} true] : List Op)
    → m.method ∉ ["TransitionObjectStorageClass"] := by
  intro m hm
  simp at hm
  subst hm
  decide

/-! ## Concurrent put/get on one key -/
namespace Conc
open Pithos.ObjectCache.Conc

/-- Shared-state invariant of the tagged design. -/
structure Inv (s : St) : Prop where
  inner    : ∀ v, s.inner = some v → v ∈ s.written
  chead    : ∀ h, s.chead = some h → h ∈ s.written
  cbody    : ∀ b t, s.cbody = some (b, t) → b = t
  returned : ∀ p ∈ s.returned, p.1 = p.2 ∧ p.1 ∈ s.written

def TInv (w : List Nat) (t : Thread) : Prop := ∀ x ∈ t.locals, x ∈ w

theorem stepThread_threads (tg : Bool) (s : St) (t : Thread) : (stepThread tg s t).1.threads = s.threads := by
  cases t with
  | put v bf pc h => cases pc <;> simp only [stepThread, commit] <;> (try split) <;> rfl
  | get pc hh sn =>
    cases pc <;> simp only [stepThread] <;> (try split) <;> (try split) <;> rfl
  | inval pc => cases pc <;> rfl

/-- One atomic step of a thread whose locals are committed versions keeps the invariant, keeps the
thread's locals committed, and never forgets a committed version. -/
theorem stepThread_inv (s : St) (t : Thread) (hs : Inv s) (ht : TInv s.written t) :
    Inv (stepThread true s t).1 ∧ TInv (stepThread true s t).1.written (stepThread true s t).2 ∧
    (∀ x ∈ s.written, x ∈ (stepThread true s t).1.written) := by
  obtain ⟨hi, hh, hb, hr⟩ := hs
  have commitInv : ∀ v, Inv (commit s v) := fun v =>
    ⟨by intro x hx; simp [commit] at hx ⊢; exact Or.inl hx.symm,
     by intro x hx; simp [commit] at hx ⊢; exact Or.inr (hh x hx),
     by intro b t hx; exact hb b t hx,
     by intro p hp; obtain ⟨h1, h2⟩ := hr p hp; exact ⟨h1, by simp [commit]; exact Or.inr h2⟩⟩
  cases t with
  | put v bf pc h =>
    have hloc : ∀ x, h = some x → x ∈ s.written := fun x hx => ht x (by simp [Thread.locals, hx])
    cases pc with
    | p0 =>
      cases bf
      · refine ⟨commitInv v, ?_, fun x hx => by simp [stepThread, commit]; exact Or.inr hx⟩
        intro x hx; simp [stepThread, Thread.locals] at hx; simp [stepThread, commit]; exact Or.inr (hloc x hx)
      · refine ⟨⟨hi, hh, ?_, hr⟩, ?_, fun x hx => hx⟩
        · intro b t hx; simp [stepThread] at hx; omega
        · intro x hx; simp [stepThread, Thread.locals] at hx; exact hloc x hx
    | p1 =>
      cases bf
      · refine ⟨⟨hi, hh, ?_, hr⟩, ?_, fun x hx => hx⟩
        · intro b t hx; simp [stepThread] at hx; omega
        · intro x hx; simp [stepThread, Thread.locals] at hx; exact hloc x hx
      · refine ⟨commitInv v, ?_, fun x hx => by simp [stepThread, commit]; exact Or.inr hx⟩
        intro x hx; simp [stepThread, Thread.locals] at hx; simp [stepThread, commit]; exact Or.inr (hloc x hx)
    | p2 =>
      refine ⟨⟨hi, hh, hb, hr⟩, ?_, fun x hx => hx⟩
      intro x hx; simp [stepThread, Thread.locals] at hx; exact hi x hx
    | p3 =>
      refine ⟨⟨hi, ?_, hb, hr⟩, ?_, fun x hx => hx⟩
      · intro x hx; simp [stepThread] at hx; exact hloc x hx
      · intro x hx; simp [stepThread, Thread.locals] at hx; exact hloc x hx
    | done => exact ⟨⟨hi, hh, hb, hr⟩, ht, fun x hx => hx⟩
  | get pc hh' sn =>
    have hl1 : ∀ x, hh' = some x → x ∈ s.written := fun x hx => ht x (by simp [Thread.locals, hx])
    have hl2 : ∀ x, sn = some x → x ∈ s.written := fun x hx => ht x (by simp [Thread.locals, hx])
    cases pc with
    | g0 =>
      refine ⟨⟨hi, hh, hb, hr⟩, ?_, fun x hx => hx⟩
      intro x hx; simp [stepThread, Thread.locals] at hx
      rcases hx with hx | hx
      · exact hh x hx
      · exact hl2 x hx
    | g1 =>
      simp only [stepThread]
      split
      · next h b t hcb =>
        split
        · next hcond =>
          have hbt : b = t := hb b t hcb
          have hth : t = h := by simpa using hcond
          refine ⟨⟨hi, hh, hb, ?_⟩, ht, fun x hx => hx⟩
          intro p hp
          simp at hp
          rcases hp with hp | hp
          · subst hp; exact ⟨by simp; omega, hl1 h rfl⟩
          · exact hr p hp
        · exact ⟨⟨hi, hh, hb, hr⟩, ht, fun x hx => hx⟩
      · exact ⟨⟨hi, hh, hb, hr⟩, ht, fun x hx => hx⟩
    | g2 =>
      simp only [stepThread]
      split
      · next v hv =>
        refine ⟨⟨hi, hh, hb, hr⟩, ?_, fun x hx => hx⟩
        intro x hx; simp [Thread.locals] at hx
        rcases hx with hx | hx
        · exact hl1 x hx
        · subst hx; exact hi _ hv
      · refine ⟨⟨hi, hh, hb, hr⟩, ?_, fun x hx => hx⟩
        intro x hx; simp [Thread.locals] at hx; exact hl1 x hx
    | g3 =>
      refine ⟨⟨hi, ?_, hb, hr⟩, ht, fun x hx => hx⟩
      intro x hx; simp [stepThread] at hx; exact hl2 x hx
    | g4 =>
      simp only [stepThread]
      split
      · next v =>
        refine ⟨⟨hi, hh, ?_, ?_⟩, ht, fun x hx => hx⟩
        · intro b t hx; simp at hx; omega
        · intro p hp
          simp at hp
          rcases hp with hp | hp
          · subst hp; exact ⟨rfl, hl2 v rfl⟩
          · exact hr p hp
      · exact ⟨⟨hi, hh, hb, hr⟩, ht, fun x hx => hx⟩
    | done => exact ⟨⟨hi, hh, hb, hr⟩, ht, fun x hx => hx⟩
  | inval pc =>
    cases pc with
    | i0 => exact ⟨⟨hi, hh, by intro b t hx; simp [stepThread] at hx, hr⟩, ht, fun x hx => hx⟩
    | i1 => exact ⟨⟨hi, by intro x hx; simp [stepThread] at hx, hb, hr⟩, ht, fun x hx => hx⟩
    | done => exact ⟨⟨hi, hh, hb, hr⟩, ht, fun x hx => hx⟩

/-- Global invariant: shared invariant + every thread's locals are committed versions. -/
def GInv (s : St) : Prop := Inv s ∧ ∀ t ∈ s.threads, TInv s.written t

theorem step_ginv (s : St) (i : Nat) (h : GInv s) : GInv (step true s i) := by
  unfold step
  cases hti : s.threads[i]? with
  | none => exact h
  | some t =>
    have htm : t ∈ s.threads := List.mem_of_getElem? hti
    obtain ⟨h1, h2, h3⟩ := stepThread_inv s t h.1 (h.2 t htm)
    have hthr := stepThread_threads true s t
    constructor
    · exact ⟨h1.inner, h1.chead, h1.cbody, h1.returned⟩
    · intro t' ht'
      simp only [hthr] at ht'
      rcases List.mem_or_eq_of_mem_set ht' with hm | hm
      · intro x hx; exact h3 x (h.2 t' hm x hx)
      · subst hm; exact h2

theorem run_ginv (s : St) (sched : List Nat) (h : GInv s) : GInv (run true s sched) := by
  induction sched generalizing s with
  | nil => exact h
  | cons i is ih => exact ih _ (step_ginv s i h)

/-- **body_matches_head.** Tagged design: for any number of put/get/invalidate threads started with
empty locals (at any program point), any initial committed version and EVERY schedule, each pair handed
to a caller has the body of exactly the version whose head it carries, and that version was committed. -/
theorem body_matches_head (cur : Option Nat) (ts : List Thread) (hts : ∀ t ∈ ts, t.locals = [])
    (sched : List Nat) :
    ∀ p ∈ (run true (init cur ts) sched).returned, p.1 = p.2 ∧ p.1 ∈ (run true (init cur ts) sched).written := by
  have h0 : GInv (init cur ts) := by
    refine ⟨⟨?_, ?_, ?_, ?_⟩, ?_⟩
    · intro v hv; simp [init] at hv ⊢; exact hv
    · intro h hh; simp [init] at hh
    · intro b t hb; simp [init] at hb
    · intro p hp; simp [init] at hp
    · intro t ht x hx; simp [init] at ht; rw [hts t ht] at hx; cases hx
  exact (run_ginv _ sched h0).1.returned

/-- **Witness 3** (as-is, untagged; realised on the real code by schedule 1 of the harness, known
finding `C20.conc-body-of-other-version`): version 0 is cached; a put of version 1 has stored the new
body but not yet the new head; a concurrent get pairs the old head with the new body. -/
theorem untagged_pairs_old_head_with_new_body :
    (run false { inner := some 0, written := [0], chead := some 0, cbody := some (0, 0),
                 threads := [.put 1 true .p0 none, .get .g0 none none], returned := [] } [0, 1, 1]).returned
      = [(0, 1)] := by decide

/-- **Witness 4** (as-is; schedule 0 of the harness): a reader of version 0 is still streaming while a
put of version 1 completes; its late cache fill leaves head 1 / body 0 behind, and the next get returns
that pair — also once nothing runs concurrently any more. -/
theorem untagged_late_fill_leaves_mismatch :
    (run false (init (some 0) [.get .g0 none none, .put 1 true .p0 none, .get .g0 none none])
        [0, 0, 0, 0, 1, 1, 1, 1, 0, 2, 2]).returned = [(1, 0), (0, 0)] := by decide

/-- The tagged design answers both schedules consistently. -/
example :
    (run true { inner := some 0, written := [0], chead := some 0, cbody := some (0, 0),
                threads := [.put 1 true .p0 none, .get .g0 none none], returned := [] } [0, 1, 1, 1, 1, 1]).returned
      = [(0, 0)] := by decide

end Conc

end Pithos.C20
