/-
C19 — caches never serve bytes that were not stored.

Model: `Pithos.Model.Cache` (hand-written; the sequential machine is tied to the real GenericCache + LFU +
checkers by the T2 differential of harness/cmd/verifharness/c19.go, call order of the persistor included;
the atomic-step machines are tied by scripted overlaps). Tables: `Pithos.Gen.CacheLocks` (T1, regenerated).

§A  LFU: no panic, one heap entry per key, every tracked key has a heap entry — for all operation sequences.
§B  GenericCache sequentially: a Get returns only what a Set of that key stored.
§C  GenericCache + persistor, all interleavings of the atomic steps: `get_returns_completed_set`.
§D  cache part store: `getpart_returns_only_put_bytes` (all interleavings), `getpart_bytes_or_notfound_partial`
    (calls that do not overlap), negation witness for the late fill.
§E  lock discipline, as `decide` obligations over the extracted call table.
-/
import Pithos.Lemmas.CacheInv
import Pithos.Gen.CacheLocks

namespace Pithos.C19
open Pithos.Cache

set_option linter.unusedSimpArgs false
set_option linter.unusedVariables false

/-! ## §A the LFU policy -/

/-- Bookkeeping invariant, true of the code as it is and of the repaired variants. -/
structure LInv (s : Lfu) : Prop where
  ok  : s.chk.Ok
  sub : ∀ k ∈ s.chk.keys, k ∈ hkeys s.heap

theorem linv_init (l : Limit) : LInv (Lfu.init l) :=
  ⟨Checker.ok_init l, by intro k hk; simp [Lfu.init, Checker.init, Checker.keys] at hk⟩

/-- A new item fits the cache on its own. -/
def fits (l : Limit) (sz : Nat) : Prop :=
  match l with
  | .size m => sz ≤ m
  | .keys m => 1 ≤ m

/-- The heap the eviction loop starts from. -/
def startHeap (d : Bool) (s : Lfu) (k : Key) : Heap :=
  if d then (match findKey s.heap k with | some i => remove s.heap i | none => s.heap) else s.heap

theorem trackSet_unfold (g d : Bool) (s : Lfu) (k : Key) (sz : Nat) :
    s.trackSet g d k sz =
      match evictLoop g ((startHeap d s k).length + 1) (s.chk.trackSet k sz) (startHeap d s k) [] with
      | none => none
      | some (c, h, ev) => some (⟨c, push h ⟨k, 0, s.clock⟩, s.clock + 1⟩, ev) := rfl

theorem startHeap_sub (d : Bool) (s : Lfu) (k : Key) :
    ∀ k' ∈ hkeys s.heap, k' = k ∨ k' ∈ hkeys (startHeap d s k) := by
  intro k' hk'
  unfold startHeap
  cases d with
  | false => exact Or.inr hk'
  | true =>
    simp only [if_true]
    cases hf : findKey s.heap k with
    | none => exact Or.inr hk'
    | some i =>
      obtain ⟨e, he, hek⟩ := findKey_some _ _ _ hf
      have hp := hkeys_perm (remove_perm s.heap i e he)
      have := hp.mem_iff.2 hk'
      simp only [hkeys, List.map_cons, List.mem_cons] at this
      rcases this with h1 | h1
      · exact Or.inl (h1.trans hek)
      · exact Or.inr h1

/-- Loop predicate: checker consistent, every tracked key other than the one being set still has a
heap entry, the entry of the key being set records `sz`. -/
def LoopP (L : Limit) (k : Key) (sz : Nat) (c : Checker) (h : Heap) : Prop :=
  c.Ok ∧ c.limit = L ∧ (∀ k' ∈ c.keys, k' = k ∨ k' ∈ hkeys h) ∧
  (∀ m, c.limit = .size m → ∀ p ∈ c.tracked, p.1 = k → p.2 = sz)

theorem loopP_step (L : Limit) (k : Key) (sz : Nat) (c : Checker) (h : Heap) (e : Entry) (h' : Heap)
    (hp : LoopP L k sz c h) (_hs : c.shouldEvict = true) (hpop : pop h = some (e, h')) :
    LoopP L k sz (c.trackRemove e.key) h' := by
  obtain ⟨hok, hl, hsub, hsz⟩ := hp
  refine ⟨Checker.ok_trackRemove c _ hok, hl, ?_, ?_⟩
  · intro k' hk'
    obtain ⟨h1, h2⟩ := (Checker.mem_keys_trackRemove c e.key k').1 hk'
    rcases hsub k' h1 with h3 | h3
    · exact Or.inl h3
    · have := (hkeys_pop h h' e hpop).mem_iff.2 h3
      simp only [List.mem_cons] at this
      rcases this with h4 | h4
      · exact absurd h4 h2
      · exact Or.inr h4
  · intro m hm p hp' hk
    exact Checker.size_trackRemove c k e.key sz (hsz m hm) p hp' hk

theorem loopP_start (d : Bool) (s : Lfu) (k : Key) (sz : Nat) (hs : LInv s) :
    LoopP s.chk.limit k sz (s.chk.trackSet k sz) (startHeap d s k) := by
  refine ⟨Checker.ok_trackSet _ _ _ hs.ok, Checker.limit_trackSet _ _ _, ?_, ?_⟩
  · intro k' hk'
    rcases (Checker.mem_keys_trackSet s.chk k k' sz).1 hk' with h1 | h1
    · exact Or.inl h1
    · exact startHeap_sub d s k k' (hs.sub k' h1)
  · intro m hm
    rw [Checker.limit_trackSet] at hm
    exact Checker.size_trackSet s.chk k sz m hm

/-- `TrackSetAndReturnEvictedKeys` keeps the bookkeeping invariant (any variant). -/
theorem trackSet_linv (g d : Bool) (s : Lfu) (k : Key) (sz : Nat) (hs : LInv s)
    (r : Lfu × List Key) (h : s.trackSet g d k sz = some r) : LInv r.1 ∧ r.1.chk.limit = s.chk.limit := by
  rw [trackSet_unfold] at h
  split at h
  · cases h
  · next c hh ev hloop =>
    simp only [Option.some.injEq] at h
    subst h
    have := evictLoop_inv g (LoopP s.chk.limit k sz) (loopP_step _ _ _) _ _ _ _ _ (loopP_start d s k sz hs) hloop
    obtain ⟨hok, hl, hsub, _⟩ := this
    refine ⟨⟨hok, ?_⟩, hl⟩
    intro k' hk'
    have hp := hkeys_perm (push_perm hh ⟨k, 0, s.clock⟩)
    refine hp.mem_iff.2 ?_
    simp only [hkeys, List.map_cons, List.mem_cons]
    exact hsub k' hk'

/-- **lfu_no_panic_guarded.** With the loop condition `ShouldEvict() && Len() > 0` the policy never pops
an empty heap — for every state, key and size. -/
theorem lfu_no_panic_guarded (d : Bool) (s : Lfu) (k : Key) (sz : Nat) : (s.trackSet true d k sz).isSome = true := by
  rw [trackSet_unfold]
  have := evictLoop_guarded_some ((startHeap d s k).length + 1) (s.chk.trackSet k sz) (startHeap d s k) []
  cases hl : evictLoop true ((startHeap d s k).length + 1) (s.chk.trackSet k sz) (startHeap d s k) [] with
  | none => rw [hl] at this; cases this
  | some r => rfl

/-- **lfu_no_panic_asis_partial.** The loop as it is (`for ShouldEvict() { Pop }`) cannot pop an empty heap
as long as the item being set fits the cache on its own. -/
theorem lfu_no_panic_asis_partial (d : Bool) (s : Lfu) (k : Key) (sz : Nat) (hs : LInv s)
    (hfit : fits s.chk.limit sz) : (s.trackSet false d k sz).isSome = true := by
  rw [trackSet_unfold]
  have hne : ∀ c h, LoopP s.chk.limit k sz c h → c.shouldEvict = true → h ≠ [] := by
    intro c h hp hsE h0
    obtain ⟨hok, hl, hsub, hsz⟩ := hp
    subst h0
    have honly : ∀ k' ∈ c.keys, k' = k := by
      intro k' hk'
      rcases hsub k' hk' with h1 | h1
      · exact h1
      · simp [hkeys] at h1
    have := Checker.no_evict_of_only c k sz hok honly hsz (by rw [hl]; exact hfit)
    rw [this] at hsE; cases hsE
  have := evictLoop_some false (LoopP s.chk.limit k sz) (loopP_step _ _ _) hne
    ((startHeap d s k).length + 1) _ _ [] (loopP_start d s k sz hs)
  cases hl : evictLoop false ((startHeap d s k).length + 1) (s.chk.trackSet k sz) (startHeap d s k) [] with
  | none => rw [hl] at this; cases this
  | some r => rfl

theorem trackGet_linv (s : Lfu) (k : Key) (hs : LInv s) : LInv (s.trackGet k) ∧ (s.trackGet k).chk = s.chk := by
  unfold Lfu.trackGet
  cases hf : findKey s.heap k with
  | none => exact ⟨hs, rfl⟩
  | some i =>
    simp only []
    cases he : s.heap[i]? with
    | none => exact ⟨hs, rfl⟩
    | some e =>
      refine ⟨⟨hs.ok, ?_⟩, rfl⟩
      intro k' hk'
      have h1 := hs.sub k' hk'
      have hp := hkeys_perm (fix_perm (s.heap.set i { e with freq := e.freq + 1, ts := s.clock }) i)
      refine hp.mem_iff.2 ?_
      rw [hkeys_set_same s.heap i e { e with freq := e.freq + 1, ts := s.clock } he rfl]
      exact h1

theorem trackRemove_linv (s : Lfu) (k : Key) (hs : LInv s) :
    LInv (s.trackRemove k) ∧ (s.trackRemove k).chk.limit = s.chk.limit := by
  unfold Lfu.trackRemove
  have hok := Checker.ok_trackRemove s.chk k hs.ok
  cases hf : findKey s.heap k with
  | none =>
    refine ⟨⟨hok, ?_⟩, rfl⟩
    intro k' hk'
    exact hs.sub k' ((Checker.mem_keys_trackRemove s.chk k k').1 hk').1
  | some i =>
    refine ⟨⟨hok, ?_⟩, rfl⟩
    intro k' hk'
    obtain ⟨h1, h2⟩ := (Checker.mem_keys_trackRemove s.chk k k').1 hk'
    obtain ⟨e, he, hek⟩ := findKey_some _ _ _ hf
    have hp := hkeys_perm (remove_perm s.heap i e he)
    have := hp.mem_iff.2 (hs.sub k' h1)
    simp only [hkeys, List.map_cons, List.mem_cons] at this
    rcases this with h3 | h3
    · exact absurd (h3.trans hek) h2
    · exact h3

/-! ### one heap entry per key (the `dedupe` repair) -/

theorem startHeap_unique (s : Lfu) (k : Key) (hu : (hkeys s.heap).Nodup) :
    (hkeys (startHeap true s k)).Nodup ∧ k ∉ hkeys (startHeap true s k) := by
  unfold startHeap
  simp only [if_true]
  cases hf : findKey s.heap k with
  | none =>
    refine ⟨hu, ?_⟩
    intro hm
    obtain ⟨e, he, hek⟩ := List.mem_map.1 hm
    exact findKey_none _ _ hf e he hek
  | some i =>
    obtain ⟨e, he, hek⟩ := findKey_some _ _ _ hf
    have hp := hkeys_perm (remove_perm s.heap i e he)
    have hn := hp.nodup_iff.2 hu
    simp only [hkeys, List.map_cons, List.nodup_cons] at hn
    exact ⟨hn.2, hek ▸ hn.1⟩

/-- With the previous entry of the key removed first, the heap never holds two entries of one key. -/
theorem trackSet_unique (g : Bool) (s : Lfu) (k : Key) (sz : Nat) (hu : (hkeys s.heap).Nodup)
    (r : Lfu × List Key) (h : s.trackSet g true k sz = some r) : (hkeys r.1.heap).Nodup := by
  rw [trackSet_unfold] at h
  split at h
  · cases h
  · next c hh ev hloop =>
    simp only [Option.some.injEq] at h
    subst h
    have hstep : ∀ (c : Checker) (h : Heap) (e : Entry) (h' : Heap), ((hkeys h).Nodup ∧ k ∉ hkeys h) →
        c.shouldEvict = true → pop h = some (e, h') → ((hkeys h').Nodup ∧ k ∉ hkeys h') := by
      intro c h e h' hp _ hpop
      have hperm := hkeys_pop h h' e hpop
      have hn := hperm.nodup_iff.2 hp.1
      simp only [List.nodup_cons] at hn
      exact ⟨hn.2, fun hm => hp.2 (hperm.mem_iff.1 (List.mem_cons_of_mem _ hm))⟩
    have := evictLoop_inv g (fun _ h => (hkeys h).Nodup ∧ k ∉ hkeys h) hstep _ _ _ _ _ (startHeap_unique s k hu) hloop
    have hp := hkeys_perm (push_perm hh ⟨k, 0, s.clock⟩)
    refine hp.nodup_iff.2 ?_
    simp only [hkeys, List.map_cons, List.nodup_cons]
    exact ⟨this.2, this.1⟩

theorem trackGet_unique (s : Lfu) (k : Key) (hu : (hkeys s.heap).Nodup) : (hkeys (s.trackGet k).heap).Nodup := by
  unfold Lfu.trackGet
  cases hf : findKey s.heap k with
  | none => exact hu
  | some i =>
    simp only []
    cases he : s.heap[i]? with
    | none => exact hu
    | some e =>
      have hp := hkeys_perm (fix_perm (s.heap.set i { e with freq := e.freq + 1, ts := s.clock }) i)
      refine hp.nodup_iff.2 ?_
      rw [hkeys_set_same s.heap i e { e with freq := e.freq + 1, ts := s.clock } he rfl]
      exact hu

theorem trackRemove_unique (s : Lfu) (k : Key) (hu : (hkeys s.heap).Nodup) : (hkeys (s.trackRemove k).heap).Nodup := by
  unfold Lfu.trackRemove
  cases hf : findKey s.heap k with
  | none => exact hu
  | some i =>
    obtain ⟨e, he, _⟩ := findKey_some _ _ _ hf
    have hp := hkeys_perm (remove_perm s.heap i e he)
    have hn := hp.nodup_iff.2 hu
    simp only [hkeys, List.map_cons, List.nodup_cons] at hn
    exact hn.2

/-! ## §B GenericCache, sequential -/

/-- Policy-level invariant of a cache state with checker limit `l` (evictnothing has no state). -/
def PInv (l : Limit) : Policy → Prop
  | .nothing => True
  | .lfu s => LInv s ∧ s.chk.limit = l

def PUnique : Policy → Prop
  | .nothing => True
  | .lfu s => (hkeys s.heap).Nodup

theorem policy_trackRemove_inv (l : Limit) (p : Policy) (k : Key) (h : PInv l p) : PInv l (p.trackRemove k) := by
  cases p with
  | nothing => trivial
  | lfu s =>
    obtain ⟨h1, h2⟩ := trackRemove_linv s k h.1
    exact ⟨h1, h2.trans h.2⟩

theorem policy_trackGet_inv (l : Limit) (p : Policy) (k : Key) (h : PInv l p) : PInv l (p.trackGet k) := by
  cases p with
  | nothing => trivial
  | lfu s =>
    obtain ⟨h1, h2⟩ := trackGet_linv s k h.1
    exact ⟨h1, by rw [h2]; exact h.2⟩

theorem policy_trackSet_inv (l : Limit) (g d : Bool) (p : Policy) (k : Key) (sz : Nat) (h : PInv l p)
    (r : Policy × List Key) (hr : p.trackSet g d k sz = some r) : PInv l r.1 := by
  cases p with
  | nothing => simp only [Policy.trackSet, Option.some.injEq] at hr; subst hr; trivial
  | lfu s =>
    simp only [Policy.trackSet, Option.map_eq_some_iff] at hr
    obtain ⟨r', hr', rfl⟩ := hr
    obtain ⟨h1, h2⟩ := trackSet_linv g d s k sz h.1 r' hr'
    exact ⟨h1, h2.trans h.2⟩

theorem policy_trackSet_some (l : Limit) (g d : Bool) (p : Policy) (k : Key) (sz : Nat) (h : PInv l p)
    (hfit : g = true ∨ fits l sz) : (p.trackSet g d k sz).isSome = true := by
  cases p with
  | nothing => rfl
  | lfu s =>
    simp only [Policy.trackSet, Option.isSome_map]
    cases g with
    | true => exact lfu_no_panic_guarded d s k sz
    | false =>
      rcases hfit with h0 | h0
      · cases h0
      · exact lfu_no_panic_asis_partial d s k sz h.1 (h.2 ▸ h0)

/-- Every Set of the history offers an item that fits the cache on its own. -/
def opFits (l : Limit) : Seq.Op → Prop
  | .set _ _ sz _ => fits l sz
  | .setFail _ sz true => fits l sz
  | _ => True

theorem seq_step_inv (l : Limit) (g d : Bool) (s : Seq.St) (op : Seq.Op) (hp : PInv l s.pol)
    (hfit : g = true ∨ opFits l op) :
    PInv l (Seq.step g d s op).1.pol ∧ (Seq.step g d s op).2 ≠ .panic := by
  unfold Seq.step
  by_cases hpo : s.poisoned = true
  · simp only [hpo, if_true]; exact ⟨hp, by intro h; cases h⟩
  · simp only [hpo, if_false]
    cases op with
    | set k v sz known =>
      have hsome := policy_trackSet_some l g d s.pol k sz hp (by
        rcases hfit with h | h
        · exact Or.inl h
        · exact Or.inr h)
      cases hts : s.pol.trackSet g d k sz with
      | none => rw [hts] at hsome; cases hsome
      | some r =>
        have := policy_trackSet_inv l g d s.pol k sz hp r hts
        cases known <;> simp only [hts, if_true, if_false] <;> exact ⟨this, by intro h; cases h⟩
    | setFail k sz known =>
      cases known with
      | false => simp only [if_false]; exact ⟨policy_trackRemove_inv l _ k hp, by intro h; cases h⟩
      | true =>
        have hsome := policy_trackSet_some l g d s.pol k sz hp (by
          rcases hfit with h | h
          · exact Or.inl h
          · exact Or.inr h)
        cases hts : s.pol.trackSet g d k sz with
        | none => rw [hts] at hsome; cases hsome
        | some r =>
          have := policy_trackSet_inv l g d s.pol k sz hp r hts
          simp only [hts, if_true]
          exact ⟨policy_trackRemove_inv l _ k this, by intro h; cases h⟩
    | get k =>
      refine ⟨policy_trackGet_inv l _ k hp, ?_⟩
      show (match Seq.lookup s.store k with | some v => Seq.Out.hit v | none => Seq.Out.miss) ≠ Seq.Out.panic
      split <;> (intro h; cases h)
    | remove k => exact ⟨policy_trackRemove_inv l _ k hp, by intro h; cases h⟩

theorem seq_run_no_panic (l : Limit) (g d : Bool) (ops : List Seq.Op) (s : Seq.St) (hp : PInv l s.pol)
    (hfit : g = true ∨ ∀ op ∈ ops, opFits l op) : Seq.Out.panic ∉ (Seq.run g d s ops).2 := by
  induction ops generalizing s with
  | nil => simp [Seq.run]
  | cons op ops ih =>
    simp only [Seq.run, List.mem_cons, not_or]
    have h1 := seq_step_inv l g d s op hp (by
      rcases hfit with h | h
      · exact Or.inl h
      · exact Or.inr (h op (by simp)))
    refine ⟨fun h => h1.2 h.symm, ih _ h1.1 ?_⟩
    rcases hfit with h | h
    · exact Or.inl h
    · exact Or.inr (fun o ho => h o (by simp [ho]))

/-- **seq_no_panic_repaired.** GenericCache over the guarded LFU policy (or evictnothing): no operation
sequence panics, whatever the sizes and limits. -/
theorem seq_no_panic_repaired (d : Bool) (l : Limit) (ops : List Seq.Op) :
    Seq.Out.panic ∉ (Seq.run true d (Seq.init (.lfu (Lfu.init l))) ops).2 ∧
    Seq.Out.panic ∉ (Seq.run true d (Seq.init .nothing) ops).2 :=
  ⟨seq_run_no_panic l true d ops _ ⟨linv_init l, rfl⟩ (Or.inl rfl),
   seq_run_no_panic l true d ops _ trivial (Or.inl rfl)⟩

/-- **seq_no_panic_asis_partial.** GenericCache over the LFU policy as it is: no operation sequence
panics provided every item offered fits the cache on its own (size ≤ size limit; key limit ≥ 1). -/
theorem seq_no_panic_asis_partial (d : Bool) (l : Limit) (ops : List Seq.Op) (hfit : ∀ op ∈ ops, opFits l op) :
    Seq.Out.panic ∉ (Seq.run false d (Seq.init (.lfu (Lfu.init l))) ops).2 :=
  seq_run_no_panic l false d ops _ ⟨linv_init l, rfl⟩ (Or.inr hfit)

/-- **Witness** (known finding `C19.lfu-pop-empty-heap-panic`, replayed on the real code as directed
case 0): one 20-byte item under a 10-byte limit pops the empty heap. -/
theorem asis_panics_on_oversized_item :
    (Seq.run false false (Seq.init (.lfu (Lfu.init (.size 10)))) [.set 0 1020 20 true]).2 = [.panic] := by decide

/-- …also with a key limit of 0, and on the streamed path after the value has been stored. -/
theorem asis_panics_on_zero_key_limit :
    (Seq.run false false (Seq.init (.lfu (Lfu.init (.keys 0)))) [.set 0 1004 4 false]).2 = [.panic] := by decide

/-- Non-vacuity of `seq_no_panic_asis_partial`: a history with re-sets, evictions and a failing reader
meets the hypothesis. -/
example : ∀ op ∈ ([.set 0 1005 5 true, .set 0 2005 5 false, .set 1 3008 8 true, .setFail 2 4 true, .get 0, .remove 1] : List Seq.Op),
    opFits (.size 10) op := by
  intro op hop
  simp only [List.mem_cons, List.mem_singleton, List.not_mem_nil, or_false] at hop
  rcases hop with rfl | rfl | rfl | rfl | rfl | rfl <;> simp [opFits, fits]

/-- **Witness** (design §10 "LFU pushes a duplicate heap entry when a key is set twice"): true of the
code as it is. It costs LFU accuracy and limit accounting, not the safety property (the theorems above
hold with duplicates). -/
theorem asis_duplicate_heap_entry :
    (match (Seq.run false false (Seq.init (.lfu (Lfu.init (.keys 2)))) [.set 0 1003 3 true, .set 0 2003 3 true]).1.pol with
     | .lfu s => hkeys s.heap
     | .nothing => []) = [0, 0] := by decide

theorem seq_step_unique (g : Bool) (s : Seq.St) (op : Seq.Op) (hu : PUnique s.pol) :
    PUnique (Seq.step g true s op).1.pol := by
  have hset : ∀ k sz r, s.pol.trackSet g true k sz = some r → PUnique r.1 := by
    intro k sz r hr
    cases hpol : s.pol with
    | nothing => rw [hpol] at hr; simp only [Policy.trackSet, Option.some.injEq] at hr; subst hr; trivial
    | lfu st =>
      rw [hpol] at hr hu
      simp only [Policy.trackSet, Option.map_eq_some_iff] at hr
      obtain ⟨r', hr', rfl⟩ := hr
      exact trackSet_unique g st k sz hu r' hr'
  have hrem : ∀ (p : Policy) k, PUnique p → PUnique (p.trackRemove k) := by
    intro p k hp
    cases p with
    | nothing => trivial
    | lfu st => exact trackRemove_unique st k hp
  unfold Seq.step
  by_cases hpo : s.poisoned = true
  · simp only [hpo, if_true]; exact hu
  · simp only [hpo, if_false]
    cases op with
    | set k v sz known =>
      cases hts : s.pol.trackSet g true k sz with
      | none => cases known <;> simp only [hts, if_true, if_false] <;> exact hu
      | some r => cases known <;> simp only [hts, if_true, if_false] <;> exact hset k sz r hts
    | setFail k sz known =>
      cases known with
      | false => simp only [if_false]; exact hrem _ k hu
      | true =>
        cases hts : s.pol.trackSet g true k sz with
        | none => simp only [hts, if_true]; exact hu
        | some r => simp only [hts, if_true]; exact hrem _ k (hset k sz r hts)
    | get k =>
      cases hpol : s.pol with
      | nothing => trivial
      | lfu st => rw [hpol] at hu; exact trackGet_unique st k hu
    | remove k => exact hrem _ k hu

/-- **lfu_unique_heap_keys.** With the previous entry of a key removed before the push, the LFU heap holds
at most one entry per key after every operation sequence. -/
theorem lfu_unique_heap_keys (g : Bool) (l : Limit) (ops : List Seq.Op) :
    PUnique (Seq.run g true (Seq.init (.lfu (Lfu.init l))) ops).1.pol := by
  have : ∀ (ops : List Seq.Op) (s : Seq.St), PUnique s.pol → PUnique (Seq.run g true s ops).1.pol := by
    intro ops
    induction ops with
    | nil => intro s h; exact h
    | cons op ops ih => intro s h; exact ih _ (seq_step_unique g s op h)
  exact this ops _ (by simp [PUnique, Seq.init, Lfu.init, hkeys])

/-! ### what a sequential Get returns -/

theorem mem_erase {α} (st : List (Nat × α)) (k : Nat) (p : Nat × α) (h : p ∈ st.filter (fun q => q.1 != k)) : p ∈ st :=
  (List.mem_filter.1 h).1

theorem mem_foldl_erase (ev : List Key) (st : List (Key × Nat)) (p : Key × Nat)
    (h : p ∈ ev.foldl Seq.erase st) : p ∈ st := by
  induction ev generalizing st with
  | nil => exact h
  | cons e es ih => exact mem_erase st e p (ih _ h)

/-- **seq_get_returns_set_value.** Sequentially, whatever the policy variant, a Get of `k` that hits returns
a value some earlier `Set(k, ·)` of the history stored. -/
theorem seq_get_returns_set_value (g d : Bool) (p : Policy) (pre : List Seq.Op) (k : Key) (v : Nat)
    (h : (Seq.step g d (Seq.run g d (Seq.init p) pre).1 (.get k)).2 = .hit v) :
    ∃ sz known, Seq.Op.set k v sz known ∈ pre := by
  -- invariant: everything in the store was Set by the history
  have inv : ∀ (ops : List Seq.Op) (s : Seq.St) (seen : List Seq.Op),
      (∀ q ∈ s.store, ∃ sz kn, Seq.Op.set q.1 q.2 sz kn ∈ seen) →
      ∀ q ∈ (Seq.run g d s ops).1.store, ∃ sz kn, Seq.Op.set q.1 q.2 sz kn ∈ seen ++ ops := by
    intro ops
    induction ops with
    | nil => intro s seen hs q hq; simpa [Seq.run] using hs q hq
    | cons op ops ih =>
      intro s seen hs q hq
      have step : ∀ q ∈ (Seq.step g d s op).1.store, ∃ sz kn, Seq.Op.set q.1 q.2 sz kn ∈ seen ++ [op] := by
        intro q hq
        have old : ∀ q ∈ s.store, ∃ sz kn, Seq.Op.set q.1 q.2 sz kn ∈ seen ++ [op] := by
          intro q hq
          obtain ⟨sz, kn, hm⟩ := hs q hq
          exact ⟨sz, kn, by simp [hm]⟩
        unfold Seq.step at hq
        by_cases hpo : s.poisoned = true
        · simp only [hpo, if_true] at hq; exact old q hq
        · simp only [hpo, if_false] at hq
          cases op with
          | set k' v' sz known =>
            have hins : ∀ (st : List (Key × Nat)), q ∈ Seq.insert st k' v' → q = (k', v') ∨ q ∈ st := by
              intro st hm
              simp only [Seq.insert, List.mem_cons] at hm
              exact hm.imp id (fun h => mem_erase _ _ _ h)
            have hnew : ∀ kn, q = (k', v') → ∃ sz' kn', Seq.Op.set q.1 q.2 sz' kn' ∈ seen ++ [Seq.Op.set k' v' sz kn] := by
              intro kn h0
              exact ⟨sz, kn, by rw [h0]; simp⟩
            cases known with
            | false =>
              cases hts : s.pol.trackSet g d k' sz with
              | none =>
                simp only [hts, if_false] at hq
                exact (hins _ hq).elim (hnew false) (old q)
              | some r =>
                simp only [hts, if_false] at hq
                exact (hins _ (mem_foldl_erase _ _ _ hq)).elim (hnew false) (old q)
            | true =>
              cases hts : s.pol.trackSet g d k' sz with
              | none =>
                simp only [hts, if_true] at hq
                exact old q hq
              | some r =>
                simp only [hts, if_true] at hq
                exact (hins _ hq).elim (hnew true) (fun h => old q (mem_foldl_erase _ _ _ h))
          | setFail k' sz known =>
            cases known with
            | false => simp only [if_false] at hq; exact old q (mem_erase _ _ _ hq)
            | true =>
              cases hts : s.pol.trackSet g d k' sz with
              | none => simp only [hts, if_true] at hq; exact old q hq
              | some r =>
                simp only [hts, if_true] at hq
                exact old q (mem_foldl_erase _ _ _ (mem_erase _ _ _ hq))
          | get k' => exact old q hq
          | remove k' => exact old q (mem_erase _ _ _ hq)
      have := ih (Seq.step g d s op).1 (seen ++ [op]) step q (by simpa [Seq.run] using hq)
      simpa using this
  have hstore := inv pre (Seq.init p) [] (by intro q hq; simp [Seq.init] at hq)
  generalize (Seq.run g d (Seq.init p) pre).1 = s at h hstore
  unfold Seq.step at h
  by_cases hpo : s.poisoned = true
  · simp [hpo] at h
  · simp only [hpo, if_false] at h
    cases hl : Seq.lookup s.store k with
    | none => simp [hl] at h
    | some v' =>
      have hv : v' = v := by simpa [hl] using h
      subst hv
      simp only [Seq.lookup, Option.map_eq_some_iff] at hl
      obtain ⟨q, hq, rfl⟩ := hl
      obtain ⟨hmem, hk⟩ := mem_of_find _ _ _ hq
      obtain ⟨sz, kn, hm⟩ := hstore q hmem
      exact ⟨sz, kn, by simpa [hk] using hm⟩

/-- **failed_set_stores_nothing.** A Set whose reader fails (after any number of bytes) leaves no value under
the key — neither the prefix it managed to read nor the previous value: the next Get misses. -/
theorem failed_set_stores_nothing (g d : Bool) (s : Seq.St) (k : Key) (sz : Nat) (known : Bool)
    (hp : s.poisoned = false) (hnp : (Seq.step g d s (.setFail k sz known)).2 ≠ .panic) :
    Seq.lookup (Seq.step g d s (.setFail k sz known)).1.store k = none := by
  have herase : ∀ st : List (Key × Nat), Seq.lookup (Seq.erase st k) k = none := by
    intro st; simp only [Seq.lookup, Seq.erase]; rw [find_filter_self]; rfl
  unfold Seq.step at hnp ⊢
  simp only [hp, Bool.false_eq_true, if_false] at hnp ⊢
  cases known with
  | false => simp only [Bool.false_eq_true, if_false]; exact herase _
  | true =>
    simp only [if_true] at hnp ⊢
    cases hts : s.pol.trackSet g d k sz with
    | none => simp [hts] at hnp
    | some r => simp only [hts]; exact herase _

/-! ## §C GenericCache + persistor: all interleavings of the atomic steps -/
namespace Conc
open Pithos.Cache.Conc

/-- `x` is the complete value of a Set of `k` whose `persistor.Store` has finished. -/
def Good (comp : List (Key × Nat)) (k : Key) (x : Val) : Prop := ∃ v, x = .full v ∧ (k, v) ∈ comp

theorem good_mono {comp comp' : List (Key × Nat)} (h : ∀ p ∈ comp, p ∈ comp') {k : Key} {x : Val}
    (hg : Good comp k x) : Good comp' k x := by
  obtain ⟨v, h1, h2⟩ := hg
  exact ⟨v, h1, h _ h2⟩

structure Inv (s : St) : Prop where
  store : ∀ p ∈ s.store, Good s.completed p.1 p.2
  ret   : ∀ p ∈ s.returned, Good s.completed p.1 p.2

/-- A reader's handle refers to a completely stored value. -/
def TInv (comp : List (Key × Nat)) : Thread → Prop
  | .get k _ seen => ∀ x, seen = some x → Good comp k x
  | _ => True

theorem mem_sErase (st : List (Key × Val)) (k : Key) (p : Key × Val) (h : p ∈ sErase st k) : p ∈ st :=
  (List.mem_filter.1 h).1

theorem mem_sInsert (st : List (Key × Val)) (k : Key) (x : Val) (p : Key × Val) (h : p ∈ sInsert st k x) :
    p = (k, x) ∨ p ∈ st := by
  simp only [sInsert, List.mem_cons] at h
  exact h.imp id (mem_sErase _ _ _)

theorem mem_of_sLookup (st : List (Key × Val)) (k : Key) (x : Val) (h : sLookup st k = some x) : (k, x) ∈ st := by
  simp only [sLookup, Option.map_eq_some_iff] at h
  obtain ⟨q, hq, rfl⟩ := h
  obtain ⟨h1, h2⟩ := mem_of_find _ _ _ hq
  have : q = (k, q.2) := by rw [← h2]
  rw [← this]; exact h1

theorem stepThread_threads (a : Bool) (s : St) (t : Thread) : (stepThread a s t).1.threads = s.threads := by
  cases t with
  | set k v known fails ev pc =>
    cases pc <;> simp only [stepThread] <;> (repeat' split) <;> rfl
  | get k pc seen =>
    cases pc <;> simp only [stepThread] <;> (repeat' split) <;> rfl
  | remove k dn => cases dn <;> rfl

/-- With an atomic persistor every step keeps: the persistor holds, readers hold, and callers received,
only completely stored values of the right key. -/
theorem stepThread_inv (s : St) (t : Thread) (hs : Inv s) (ht : TInv s.completed t) :
    Inv (stepThread true s t).1 ∧ TInv (stepThread true s t).1.completed (stepThread true s t).2 ∧
    (∀ p ∈ s.completed, p ∈ (stepThread true s t).1.completed) := by
  obtain ⟨hst, hrt⟩ := hs
  have same : Inv s := ⟨hst, hrt⟩
  have eraseInv : ∀ e, Inv { s with store := sErase s.store e } :=
    fun e => ⟨fun p hp => hst p (mem_sErase _ _ _ hp), hrt⟩
  have storeInv : ∀ k v, Inv { s with store := sInsert s.store k (.full v), completed := (k, v) :: s.completed } := by
    intro k v
    have mono : ∀ p ∈ s.completed, p ∈ (k, v) :: s.completed := fun p hp => List.mem_cons_of_mem _ hp
    constructor
    · intro p hp
      rcases mem_sInsert _ _ _ _ hp with h0 | h0
      · rw [h0]; exact ⟨v, rfl, by simp⟩
      · exact good_mono mono (hst p h0)
    · intro p hp; exact good_mono mono (hrt p hp)
  cases t with
  | set k v known fails ev pc =>
    cases pc with
    | evict =>
      simp only [stepThread]
      split
      · split
        · exact ⟨eraseInv _, trivial, fun p hp => hp⟩
        · exact ⟨same, trivial, fun p hp => hp⟩
      · exact ⟨same, trivial, fun p hp => hp⟩
    | trunc =>
      simp only [stepThread, if_true]
      split
      · exact ⟨eraseInv _, trivial, fun p hp => hp⟩
      · exact ⟨storeInv k v, trivial, fun p hp => List.mem_cons_of_mem _ hp⟩
    | fill =>
      simp only [stepThread]
      split
      · exact ⟨eraseInv _, trivial, fun p hp => hp⟩
      · exact ⟨storeInv k v, trivial, fun p hp => List.mem_cons_of_mem _ hp⟩
    | post =>
      simp only [stepThread]
      split
      · exact ⟨same, trivial, fun p hp => hp⟩
      · split
        · exact ⟨eraseInv _, trivial, fun p hp => hp⟩
        · exact ⟨same, trivial, fun p hp => hp⟩
    | done => exact ⟨same, trivial, fun p hp => hp⟩
  | get k pc seen =>
    cases pc with
    | open_ =>
      simp only [stepThread]
      split
      · exact ⟨same, (fun x hx => by cases hx), fun p hp => hp⟩
      · next x hx =>
        refine ⟨same, ?_, fun p hp => hp⟩
        intro y hy
        cases hy
        exact hst _ (mem_of_sLookup _ _ _ hx)
    | read =>
      cases seen with
      | none =>
        simp only [stepThread, if_true]
        exact ⟨same, (fun x hx => by cases hx), fun p hp => hp⟩
      | some y =>
        refine ⟨⟨hst, ?_⟩, ht, fun p hp => hp⟩
        intro p hp
        simp only [stepThread, if_true, List.mem_cons] at hp
        rcases hp with h0 | h0
        · rw [h0]; exact ht y rfl
        · exact hrt p h0
    | done => exact ⟨same, ht, fun p hp => hp⟩
  | remove k dn =>
    cases dn with
    | false => exact ⟨eraseInv _, trivial, fun p hp => hp⟩
    | true => exact ⟨same, trivial, fun p hp => hp⟩

def GInv (s : St) : Prop := Inv s ∧ ∀ t ∈ s.threads, TInv s.completed t

theorem tinv_mono {comp comp' : List (Key × Nat)} (h : ∀ p ∈ comp, p ∈ comp') (t : Thread) (ht : TInv comp t) :
    TInv comp' t := by
  cases t with
  | get k pc seen => exact fun x hx => good_mono h (ht x hx)
  | set => trivial
  | remove => trivial

theorem step_ginv (s : St) (i : Nat) (h : GInv s) : GInv (step true s i) := by
  unfold step
  cases hti : s.threads[i]? with
  | none => exact h
  | some t =>
    have htm : t ∈ s.threads := List.mem_of_getElem? hti
    obtain ⟨h1, h2, h3⟩ := stepThread_inv s t h.1 (h.2 t htm)
    have hthr := stepThread_threads true s t
    constructor
    · exact ⟨h1.store, h1.ret⟩
    · intro t' ht'
      simp only [hthr] at ht'
      rcases List.mem_or_eq_of_mem_set ht' with hm | hm
      · exact tinv_mono h3 t' (h.2 t' hm)
      · subst hm; exact h2

theorem run_ginv (s : St) (sched : List Nat) (h : GInv s) : GInv (run true s sched) := by
  induction sched generalizing s with
  | nil => exact h
  | cons i is ih => exact ih _ (step_ginv s i h)

/-- A Get that has not yet opened anything. -/
def fresh : Thread → Prop
  | .get _ _ seen => seen = none
  | _ => True

/-- **get_returns_completed_set.** GenericCache over a persistor whose Store/Get/Remove are atomic (a
mutex-protected map; a file renamed into place): for any number of Set (known size or streamed, with
any evictions, also with failing readers), Get and Remove calls started at any program point, and EVERY
interleaving of their atomic steps, each value a Get hands to its caller is the complete value of a Set
of that very key whose store has finished. -/
theorem get_returns_completed_set (ts : List Thread) (hts : ∀ t ∈ ts, fresh t) (sched : List Nat) :
    ∀ p ∈ (run true (init ts) sched).returned,
      ∃ v, p.2 = .full v ∧ (p.1, v) ∈ (run true (init ts) sched).completed := by
  have h0 : GInv (init ts) := by
    refine ⟨⟨?_, ?_⟩, ?_⟩
    · intro p hp; simp [init] at hp
    · intro p hp; simp [init] at hp
    · intro t ht
      simp only [init] at ht
      have := hts t ht
      cases t with
      | get k pc seen => simp only [fresh] at this; subst this; intro x hx; cases hx
      | set => trivial
      | remove => trivial
  exact (run_ginv _ sched h0).1.ret

/-- **Witness** (known finding `C19.get-returned-partial-value`; realised on the real filesystem persistor
by scripted schedule 0): with truncate-then-copy, a Get between the two steps of a streamed Set reads a value
no Set ever stored. -/
theorem fs_asis_get_returns_torn_value :
    (run false (init [.set 0 7 false false [] .evict, .get 0 .open_ none]) [0, 0, 1, 1]).returned = [(0, .torn)] := by
  decide

/-- The same schedule with an atomic store returns nothing at all (a miss): the value is not there yet. -/
example : (run true (init [.set 0 7 false false [] .evict, .get 0 .open_ none]) [0, 1, 1, 0]).returned = [] := by decide

/-- Non-vacuity: a schedule in which a Get does return the value of a completed streamed Set that evicted another key. -/
example : (run true (init [.set 0 7 false false [3] .evict, .get 0 .open_ none]) [0, 0, 0, 0, 1, 1]).returned = [(0, .full 7)] := by
  decide

end Conc

/-! ## §D the cache part store -/
namespace Part
open Pithos.Cache.Part

theorem mem_erase' (st : List (Nat × Nat)) (k : Nat) (p : Nat × Nat) (h : p ∈ erase st k) : p ∈ st :=
  (List.mem_filter.1 h).1

theorem mem_insert (st : List (Nat × Nat)) (k v : Nat) (p : Nat × Nat) (h : p ∈ Cache.Part.insert st k v) : p = (k, v) ∨ p ∈ st := by
  simp only [Cache.Part.insert, List.mem_cons] at h
  exact h.imp id (mem_erase' _ _ _)

theorem mem_of_lookup (st : List (Nat × Nat)) (k v : Nat) (h : lookup st k = some v) : (k, v) ∈ st := by
  simp only [lookup, Option.map_eq_some_iff] at h
  obtain ⟨q, hq, rfl⟩ := h
  obtain ⟨h1, h2⟩ := mem_of_find _ _ _ hq
  have : q = (k, q.2) := by rw [← h2]
  rw [← this]; exact h1

theorem lookup_insert (st : List (Nat × Nat)) (k v k' : Nat) :
    lookup (Cache.Part.insert st k v) k' = if k' = k then some v else lookup st k' := by
  unfold lookup Cache.Part.insert erase
  by_cases h : k' = k
  · subst h
    rw [find_cons_eq (k', v) _ k' rfl]; simp
  · rw [find_cons_ne (k, v) _ k' (fun e => h e.symm), find_filter_ne _ _ _ h]; simp [h]

theorem lookup_erase (st : List (Nat × Nat)) (k k' : Nat) :
    lookup (erase st k) k' = if k' = k then none else lookup st k' := by
  unfold lookup erase
  by_cases h : k' = k
  · subst h; rw [find_filter_self]; simp
  · rw [find_filter_ne _ _ _ h]; simp [h]

/-- Safety for all interleavings: everything in the inner store, in the cache, in a reader's hands and
returned to callers was written by a PutPart under that id. -/
structure Inv (s : St) : Prop where
  inner : ∀ p ∈ s.inner, p ∈ s.puts
  cache : ∀ p ∈ s.cache, p ∈ s.puts
  ret   : ∀ id v, (id, some v) ∈ s.returned → (id, v) ∈ s.puts

def TInv (puts : List (Nat × Nat)) : Thread → Prop
  | .get id _ _ sn => ∀ v, sn = some v → (id, v) ∈ puts
  | .put id v pc => 1 ≤ pc → (id, v) ∈ puts
  | _ => True

theorem stepThread_threads (s : St) (t : Thread) : (stepThread s t).1.threads = s.threads := by
  cases t with
  | put id v pc =>
    match pc with
    | 0 => rfl
    | 1 => rfl
    | _ + 2 => rfl
  | get id fl pc sn => cases pc <;> simp only [stepThread] <;> (repeat' split) <;> rfl
  | delete id cf pc =>
    match pc with
    | 0 => cases cf <;> rfl
    | 1 => cases cf <;> rfl
    | _ + 2 => rfl

theorem stepThread_inv (s : St) (t : Thread) (hs : Inv s) (ht : TInv s.puts t) :
    Inv (stepThread s t).1 ∧ TInv (stepThread s t).1.puts (stepThread s t).2 ∧
    (∀ p ∈ s.puts, p ∈ (stepThread s t).1.puts) := by
  obtain ⟨hi, hc, hr⟩ := hs
  have same : Inv s := ⟨hi, hc, hr⟩
  cases t with
  | put id v pc =>
    match pc with
    | 0 =>
      refine ⟨⟨?_, ?_, ?_⟩, fun _ => by simp [stepThread], fun p hp => List.mem_cons_of_mem _ hp⟩
      · intro p hp
        rcases mem_insert _ _ _ _ hp with h0 | h0
        · rw [h0]; simp [stepThread]
        · exact List.mem_cons_of_mem _ (hi p h0)
      · intro p hp; exact List.mem_cons_of_mem _ (hc p hp)
      · intro id' v' hp; exact List.mem_cons_of_mem _ (hr id' v' hp)
    | 1 =>
      -- the after-commit hook caches what this very PutPart wrote at pc 0
      refine ⟨⟨hi, ?_, hr⟩, fun _ => ht (Nat.le_refl 1), fun p hp => hp⟩
      intro p hp
      rcases mem_insert _ _ _ _ hp with h0 | h0
      · rw [h0]; exact ht (Nat.le_refl 1)
      · exact hc p h0
    | n + 2 => exact ⟨same, ht, fun p hp => hp⟩
  | get id fl pc sn =>
    cases pc with
    | lookup =>
      simp only [stepThread]
      split
      · next v hv =>
        refine ⟨⟨hi, hc, ?_⟩, ht, fun p hp => hp⟩
        intro id' v' hp
        simp only [List.mem_cons, Prod.mk.injEq, Option.some.injEq] at hp
        rcases hp with ⟨rfl, rfl⟩ | hp
        · exact hc _ (mem_of_lookup _ _ _ hv)
        · exact hr id' v' hp
      · exact ⟨same, ht, fun p hp => hp⟩
    | inner =>
      simp only [stepThread]
      split
      · next v hv =>
        refine ⟨same, ?_, fun p hp => hp⟩
        intro v' hv'
        cases hv'
        exact hi _ (mem_of_lookup _ _ _ hv)
      · refine ⟨⟨hi, hc, ?_⟩, (fun v hv => by cases hv), fun p hp => hp⟩
        intro id' v' hp
        simp only [List.mem_cons, Prod.mk.injEq] at hp
        rcases hp with ⟨_, h0⟩ | hp
        · cases h0
        · exact hr id' v' hp
    | fill =>
      cases sn with
      | none =>
        simp only [stepThread]
        exact ⟨same, (fun v hv => by cases hv), fun p hp => hp⟩
      | some v =>
        cases fl with
        | true => exact ⟨same, ht, fun p hp => hp⟩
        | false =>
          refine ⟨⟨hi, ?_, ?_⟩, ht, fun p hp => hp⟩
          · intro p hp
            rcases mem_insert _ _ _ _ hp with h0 | h0
            · rw [h0]; exact ht v rfl
            · exact hc p h0
          · intro id' v' hp
            simp only [stepThread, Bool.false_eq_true, if_false, List.mem_cons, Prod.mk.injEq, Option.some.injEq] at hp
            rcases hp with ⟨rfl, rfl⟩ | hp
            · exact ht v' rfl
            · exact hr id' v' hp
    | done => exact ⟨same, ht, fun p hp => hp⟩
  | delete id cf pc =>
    have eInner : Inv { s with inner := erase s.inner id } := ⟨fun p hp => hi p (mem_erase' _ _ _ hp), hc, hr⟩
    have eCache : Inv { s with cache := erase s.cache id } := ⟨hi, fun p hp => hc p (mem_erase' _ _ _ hp), hr⟩
    match pc with
    | 0 => cases cf <;> simp only [stepThread, Bool.false_eq_true, if_true, if_false] <;> first | exact ⟨eInner, trivial, fun p hp => hp⟩ | exact ⟨eCache, trivial, fun p hp => hp⟩
    | 1 => cases cf <;> simp only [stepThread, Bool.false_eq_true, if_true, if_false] <;> first | exact ⟨eCache, trivial, fun p hp => hp⟩ | exact ⟨eInner, trivial, fun p hp => hp⟩
    | _ + 2 => exact ⟨same, trivial, fun p hp => hp⟩


def GInv (s : St) : Prop := Inv s ∧ ∀ t ∈ s.threads, TInv s.puts t

theorem tinv_mono {puts puts' : List (Nat × Nat)} (h : ∀ p ∈ puts, p ∈ puts') (t : Thread) (ht : TInv puts t) :
    TInv puts' t := by
  cases t with
  | get id fl pc sn => exact fun v hv => h _ (ht v hv)
  | put id v pc => exact fun hpc => h _ (ht hpc)
  | delete => trivial

theorem step_ginv (s : St) (i : Nat) (h : GInv s) : GInv (step s i) := by
  unfold step
  cases hti : s.threads[i]? with
  | none => exact h
  | some t =>
    have htm : t ∈ s.threads := List.mem_of_getElem? hti
    obtain ⟨h1, h2, h3⟩ := stepThread_inv s t h.1 (h.2 t htm)
    have hthr := stepThread_threads s t
    constructor
    · exact ⟨h1.inner, h1.cache, h1.ret⟩
    · intro t' ht'
      simp only [hthr] at ht'
      rcases List.mem_or_eq_of_mem_set ht' with hm | hm
      · exact tinv_mono h3 t' (h.2 t' hm)
      · subst hm; exact h2

theorem run_ginv (s : St) (sched : List Nat) (h : GInv s) : GInv (run s sched) := by
  induction sched generalizing s with
  | nil => exact h
  | cons i is ih => exact ih _ (step_ginv s i h)

/-- A call that has not started yet. -/
def fresh : Thread → Prop
  | .put _ _ pc => pc = 0
  | .get _ _ pc sn => pc = .lookup ∧ sn = none
  | .delete _ _ pc => pc = 0

theorem tinv_fresh (puts : List (Nat × Nat)) (t : Thread) (h : fresh t) : TInv puts t := by
  cases t with
  | put id v pc => simp only [fresh] at h; subst h; intro h0; omega
  | get id fl pc sn => simp only [fresh] at h; obtain ⟨_, h2⟩ := h; subst h2; intro v hv; cases hv
  | delete => trivial

/-- **getpart_returns_only_put_bytes.** For any number of PutPart/GetPart/DeletePart calls on any ids and EVERY
interleaving of their steps (inner store, cache entry, after-commit hook, late fill, fills that FAIL because
the inner reader broke mid-stream or the caller closed early): whatever bytes a GetPart returns for an id were written by some PutPart under that very id — never a foreign or invented value. -/
theorem getpart_returns_only_put_bytes (ts : List Thread) (hts : ∀ t ∈ ts, fresh t) (sched : List Nat) :
    ∀ id v, (id, some v) ∈ (run (init ts) sched).returned → (id, v) ∈ (run (init ts) sched).puts := by
  have h0 : GInv (init ts) := by
    refine ⟨⟨?_, ?_, ?_⟩, ?_⟩
    · intro p hp; simp [init] at hp
    · intro p hp; simp [init] at hp
    · intro id v hp; simp [init] at hp
    · intro t ht; exact tinv_fresh _ t (hts t (by simpa [init] using ht))
  exact (run_ginv _ sched h0).1.ret

/-! ### calls that do not overlap -/

/-- Cache coherence between calls. -/
def Coh (s : St) : Prop := ∀ id v, lookup s.cache id = some v → lookup s.inner id = some v

/-- Does this GetPart end in an error? Only when it has to stream from the inner store (cache miss, the part
exists) and that stream breaks before EOF (`fl`). -/
def getFails (s : St) (id : Nat) (fl : Bool) : Bool :=
  fl && (lookup s.cache id).isNone && (lookup s.inner id).isSome

/-- What a sequential history must answer: every GetPart that answers at all answers what the inner store
holds under the id at that moment. -/
def spec : St → List Thread → List (Nat × Option Nat)
  | _, [] => []
  | s, t :: ts =>
    (match t with
     | .get id fl _ _ => if getFails s id fl then [] else [(id, lookup s.inner id)]
     | _ => []) ++ spec (runToEnd s t) ts

/-- The part store without a cache and without faults. -/
def ref : List (Nat × Nat) → List Thread → List (Nat × Option Nat)
  | _, [] => []
  | inner, .put id v _ :: ts => ref (Cache.Part.insert inner id v) ts
  | inner, .get id _ _ _ :: ts => (id, lookup inner id) :: ref inner ts
  | inner, .delete id _ _ :: ts => ref (erase inner id) ts

theorem runToEnd_fresh (s : St) (t : Thread) (hc : Coh s) (hf : fresh t) :
    Coh (runToEnd s t) ∧
    (runToEnd s t).inner = (match t with
      | .put id v _ => Cache.Part.insert s.inner id v
      | .get _ _ _ _ => s.inner
      | .delete id _ _ => erase s.inner id) ∧
    (runToEnd s t).returned = (match t with
      | .get id fl _ _ => if getFails s id fl then s.returned else (id, lookup s.inner id) :: s.returned
      | _ => s.returned) ∧
    (∀ id fl pc sn, t = .get id fl pc sn → getFails s id fl = true → (runToEnd s t).cache = s.cache) := by
  cases t with
  | put id v pc =>
    simp only [fresh] at hf; subst hf
    refine ⟨?_, rfl, rfl, by intro _ _ _ _ h; cases h⟩
    intro id' v' h
    simp only [runToEnd, stepThread] at h ⊢
    rw [lookup_insert] at h ⊢
    split at h
    · next e => rw [if_pos e]; exact h
    · next e => rw [if_neg e]; exact hc id' v' h
  | delete id cf pc =>
    simp only [fresh] at hf; subst hf
    have key : Coh { s with inner := erase s.inner id, cache := erase s.cache id } := by
      intro id' v' h
      simp only [] at h ⊢
      rw [lookup_erase] at h ⊢
      split at h
      · cases h
      · next e => rw [if_neg e]; exact hc id' v' h
    cases cf
    · exact ⟨key, rfl, rfl, by intro _ _ _ _ h; cases h⟩
    · exact ⟨key, rfl, rfl, by intro _ _ _ _ h; cases h⟩
  | get id fl pc sn =>
    simp only [fresh] at hf; obtain ⟨h1, h2⟩ := hf; subst h1 h2
    cases hl : lookup s.cache id with
    | some v =>
      have hin := hc id v hl
      simp only [runToEnd, stepThread, hl, hin, getFails]
      refine ⟨hc, trivial, by simp, ?_⟩
      intro id' fl' pc' sn' he hg
      cases he
      simp [hl] at hg
    | none =>
      cases hin : lookup s.inner id with
      | none =>
        simp only [runToEnd, stepThread, hl, hin, getFails]
        refine ⟨hc, trivial, by simp, ?_⟩
        intro id' fl' pc' sn' he hg
        cases he
        simp [hin] at hg
      | some v =>
        cases fl with
        | true =>
          simp only [runToEnd, stepThread, hl, hin, getFails, if_true]
          exact ⟨hc, trivial, by simp, fun _ _ _ _ _ _ => trivial⟩
        | false =>
          simp only [runToEnd, stepThread, hl, hin, getFails, Bool.false_eq_true, if_false]
          refine ⟨?_, trivial, by simp, ?_⟩
          · intro id' v' h
            simp only [] at h ⊢
            rw [lookup_insert] at h
            split at h
            · next e => subst e; rw [hin]; exact h
            · exact hc id' v' h
          · intro id' fl' pc' sn' he hg
            cases he
            simp at hg

/-- **failed_fill_caches_nothing.** A GetPart whose source breaks during a cache-miss fill (after any number
of bytes, also 0 or all but the EOF) leaves the cache exactly as it was and hands no bytes to its caller. -/
theorem failed_fill_caches_nothing (s : St) (id : Nat) (hc : Coh s) (hf : getFails s id true = true) :
    (runToEnd s (.get id true .lookup none)).cache = s.cache ∧
    (runToEnd s (.get id true .lookup none)).returned = s.returned := by
  obtain ⟨_, _, h3, h4⟩ := runToEnd_fresh s (.get id true .lookup none) hc ⟨rfl, rfl⟩
  refine ⟨h4 id true .lookup none rfl hf, ?_⟩
  simpa [hf] using h3

/-- The same step-wise, for every interleaving: the `fill` step of a failing GetPart changes nothing. -/
theorem failed_fill_step_caches_nothing (s : St) (id : Nat) (sn : Option Nat) :
    (stepThread s (.get id true .fill sn)).1 = s := by
  cases sn <;> rfl

/-- **getpart_bytes_or_notfound_partial.** When the calls do not overlap (each finishes before the next
starts — in particular no DeletePart/PutPart between a read miss and its late cache fill), and whatever
fills fail on the way, every GetPart that answers at all answers exactly what the inner store holds under
the id at that moment: the bytes stored there, or not-found — never a partial value, never stale after a
delete or an overwrite. -/
theorem getpart_bytes_or_notfound_partial (ts : List Thread) (hts : ∀ t ∈ ts, fresh t) (s : St) (hc : Coh s) :
    (serial s ts).returned = (spec s ts).reverse ++ s.returned := by
  induction ts generalizing s with
  | nil => simp [serial, spec]
  | cons t ts ih =>
    obtain ⟨h1, _, h3, _⟩ := runToEnd_fresh s t hc (hts t (by simp))
    have := ih (fun t' ht' => hts t' (by simp [ht'])) (runToEnd s t) h1
    simp only [serial]
    rw [this, h3]
    cases t with
    | get id fl pc sn => simp only [spec]; split <;> simp
    | put => simp [spec]
    | delete => simp [spec]

/-- Without faults the answers are those of the part store without any cache. -/
theorem spec_eq_ref (ts : List Thread) (hts : ∀ t ∈ ts, fresh t)
    (hnf : ∀ id fl pc sn, Thread.get id fl pc sn ∈ ts → fl = false) (s : St) (hc : Coh s) :
    spec s ts = ref s.inner ts := by
  induction ts generalizing s with
  | nil => rfl
  | cons t ts ih =>
    obtain ⟨h1, h2, _, _⟩ := runToEnd_fresh s t hc (hts t (by simp))
    have := ih (fun t' ht' => hts t' (by simp [ht'])) (fun id fl pc sn hm => hnf id fl pc sn (by simp [hm])) (runToEnd s t) h1
    cases t with
    | get id fl pc sn =>
      have hfl := hnf id fl pc sn (by simp)
      subst hfl
      simp only [spec, ref, getFails, Bool.false_and, Bool.false_eq_true, if_false, List.singleton_append]
      rw [this, h2]
    | put id v pc => simp only [spec, ref, List.nil_append]; rw [this, h2]
    | delete id cf pc => simp only [spec, ref, List.nil_append]; rw [this, h2]

/-! ### a DeletePart with GetParts served while it is in flight -/

/-- Coherence of every id but one. -/
def CohX (id : Nat) (s : St) : Prop := ∀ id' v, id' ≠ id → lookup s.cache id' = some v → lookup s.inner id' = some v

def isGet : Thread → Prop
  | .get _ _ _ _ => True
  | _ => False

theorem runToEnd_get (s : St) (x : Nat) (id : Nat) (fl : Bool) (hc : CohX x s) :
    (runToEnd s (.get id fl .lookup none)).inner = s.inner ∧ CohX x (runToEnd s (.get id fl .lookup none)) := by
  cases hl : lookup s.cache id with
  | some v => simp only [runToEnd, stepThread, hl]; exact ⟨trivial, hc⟩
  | none =>
    cases hin : lookup s.inner id with
    | none => simp only [runToEnd, stepThread, hl, hin]; exact ⟨trivial, hc⟩
    | some v =>
      cases fl with
      | true => simp only [runToEnd, stepThread, hl, hin, if_true]; exact ⟨trivial, hc⟩
      | false =>
        simp only [runToEnd, stepThread, hl, hin, Bool.false_eq_true, if_false]
        refine ⟨trivial, ?_⟩
        intro id' v' hne h
        simp only [] at h ⊢
        rw [lookup_insert] at h
        split at h
        · next e => subst e; rw [hin]; exact h
        · exact hc id' v' hne h

theorem serial_gets (x : Nat) (gs : List Thread) (hg : ∀ t ∈ gs, isGet t ∧ fresh t) (s : St) (hc : CohX x s) :
    (serial s gs).inner = s.inner ∧ CohX x (serial s gs) := by
  induction gs generalizing s with
  | nil => exact ⟨rfl, hc⟩
  | cons t ts ih =>
    obtain ⟨hget, hf⟩ := hg t (by simp)
    cases t with
    | get id fl pc sn =>
      simp only [fresh] at hf; obtain ⟨h1, h2⟩ := hf; subst h1 h2
      obtain ⟨a, b⟩ := runToEnd_get s x id fl hc
      obtain ⟨c, d⟩ := ih (fun t' ht' => hg t' (by simp [ht'])) _ b
      simp only [serial]
      exact ⟨c.trans a, d⟩
    | put => exact absurd hget (by simp [isGet])
    | delete => exact absurd hget (by simp [isGet])

/-- **delete_window_leaves_no_entry.** DeletePart in the order of the code (inner store first, cache entry
second): whatever GetParts — of this or other ids, with or without failing sources — are served completely
while the delete is in flight between its two steps, once it has returned neither the inner store nor the cache
holds anything under the id, and the cache is coherent again; so (`getpart_bytes_or_notfound_partial`) every later
GetPart of the id answers not-found. -/
theorem delete_window_leaves_no_entry (s : St) (hc : Coh s) (id : Nat) (gs : List Thread)
    (hg : ∀ t ∈ gs, isGet t ∧ fresh t) :
    let s1 := (stepThread s (.delete id false 0)).1
    let s3 := (stepThread (serial s1 gs) (.delete id false 1)).1
    lookup s3.inner id = none ∧ lookup s3.cache id = none ∧ Coh s3 := by
  intro s1 s3
  have hx : CohX id s1 := by
    intro id' v' hne h
    simp only [s1, stepThread, Bool.false_eq_true, if_false] at h ⊢
    rw [lookup_erase, if_neg hne]
    exact hc id' v' h
  obtain ⟨hin, hcx⟩ := serial_gets id gs hg s1 hx
  have hinner : lookup s3.inner id = none := by
    simp only [s3, stepThread, Bool.false_eq_true, if_false]
    rw [hin]
    simp only [s1, stepThread, Bool.false_eq_true, if_false]
    rw [lookup_erase]; simp
  have hcache : lookup s3.cache id = none := by
    simp only [s3, stepThread, Bool.false_eq_true, if_false]
    rw [lookup_erase]; simp
  refine ⟨hinner, hcache, ?_⟩
  intro id' v' h
  by_cases e : id' = id
  · subst e; rw [hcache] at h; cases h
  · have h' : lookup (serial s1 gs).cache id' = some v' := by
      simp only [s3, stepThread, Bool.false_eq_true, if_false] at h
      rw [lookup_erase, if_neg e] at h
      exact h
    have := hcx id' v' e h'
    simpa only [s3, stepThread, Bool.false_eq_true, if_false] using this

/-- **Witness** (seeded change C19-3; realised on the real cache part store by a gated inner part store): with
the cache entry removed FIRST, a GetPart served while the inner delete is still pending misses, reads the part and
re-fills the cache; after the delete has returned the cache serves the deleted bytes. -/
theorem cache_first_delete_goes_stale :
    let s0 : St := { init [] with inner := [(0, 7)], cache := [(0, 7)], puts := [(0, 7)] }
    let s1 := (stepThread s0 (.delete 0 true 0)).1
    let s3 := (stepThread (serial s1 [.get 0 false .lookup none]) (.delete 0 true 1)).1
    lookup s3.inner 0 = none ∧ (serial s3 [.get 0 false .lookup none]).returned.head? = some (0, some 7) := by decide

/-- **Witness** (known finding `C19.partstore-late-fill-serves-stale-bytes`; realised on the real cache part
store by scripted schedule 0): a GetPart that missed is still streaming when a DeletePart of the id
completes; its late fill puts the deleted bytes back, and a GetPart issued afterwards returns them although
the inner store has nothing under the id. -/
theorem late_fill_serves_deleted_part :
    let s := run { init [.get 0 false .lookup none, .delete 0 false 0, .get 0 false .lookup none] with inner := [(0, 7)], puts := [(0, 7)] }
      [0, 0, 1, 1, 0, 2]
    s.inner = [] ∧ s.returned = [(0, some 7), (0, some 7)] := by decide

/-- Non-vacuity of the sequential theorem: the same three calls, not overlapping, answer `7` then not-found. -/
example : (serial { init [] with inner := [(0, 7)], puts := [(0, 7)] }
    [.get 0 false .lookup none, .delete 0 false 0, .get 0 false .lookup none]).returned = [(0, none), (0, some 7)] := by decide

/-- Non-vacuity of the fault clauses: a fill that fails (nothing returned, nothing cached), then a healthy read
of the complete value, then a failing source that no longer matters because the value is cached. -/
example : (serial { init [] with inner := [(0, 7)], puts := [(0, 7)] }
    [.get 0 true .lookup none, .get 0 false .lookup none, .get 0 true .lookup none]).returned = [(0, some 7), (0, some 7)] := by decide

end Part

/-! ## §E lock discipline (T1 table) -/
section Locks
open Pithos.Gen.CacheLocks

/-- Every access to the eviction policy's state (heap, checker maps) happens with `GenericCache.mu` held. -/
theorem policy_state_under_mu : ∀ c ∈ calls, c.2.1 = "policy" → c.2.2.2 = true := by decide

/-- `Get` and `Remove` hold `mu` across their persistor call. -/
theorem get_and_remove_hold_mu : ∀ c ∈ calls, (c.1 = "Get" ∨ c.1 = "Remove") → c.2.2.2 = true := by decide

/-- The step boundaries of the atomic-step model are those of the code: in `Set` the eviction removals and
`persistor.Store` (and the clean-up Remove after a failed Store) run WITHOUT `mu`; nothing else does. -/
theorem persistor_calls_outside_mu :
    (calls.filter (fun c => c.2.1 == "persistor" && !c.2.2.2)).map (fun c => (c.1, c.2.2.1))
      = [("Set", "Remove"), ("Set", "Store"), ("Set", "Remove"), ("Set", "Remove")] := by decide

/-- `Set` releases `mu` with plain `Unlock()` calls: a panic under the lock leaves it locked (`poisoned`). -/
theorem set_unlock_is_not_deferred : setUnlockDeferred = false := by decide

/-- The source shapes the model is instantiated from are ones it knows. -/
theorem lfu_variant_recognised :
    (guardedOfCond lfuLoopCond).isSome = true ∧ (dedupeOfRemoves lfuRemovesBeforeLoop).isSome = true := by decide

/-- The cache part store touches the cache only AFTER the inner store has done its part: DeletePart removes the
entry after the inner delete (`delete_window_leaves_no_entry` is about that order; the other order goes stale:
`Part.cache_first_delete_goes_stale`), PutPart caches after the inner put. -/
theorem partstore_cache_follows_inner : partStoreDeleteCacheFirst = false ∧ partStorePutCacheFirst = false := by decide

/-- Race freedom as a checkable discipline: persistor calls made outside `mu` are race-free exactly when the
persistor synchronises itself. `raceFree` is evaluated by the driver on every run (it is `false` for the
in-memory persistor of the current tree: known finding `C19.lock-discipline-inmemory-persistor-unsynchronised`). -/
def raceFree : Bool :=
  (calls.all (fun c => c.2.1 != "persistor" || c.2.2.2)) || inmemoryMapAccesses.all (·.2)

theorem raceFree_sound (h : raceFree = true) :
    (∀ c ∈ calls, c.2.1 = "persistor" → c.2.2.2 = true) ∨ (∀ a ∈ inmemoryMapAccesses, a.2 = true) := by
  unfold raceFree at h
  rcases Bool.or_eq_true_iff.1 h with h1 | h1
  · left
    intro c hc hp
    have := List.all_eq_true.1 h1 c hc
    simpa [hp] using this
  · right
    intro a ha
    exact List.all_eq_true.1 h1 a ha

end Locks

end Pithos.C19
