/-
C21 — the storage outbox gives read-your-writes and converges.

Model: `Pithos.Model.OutboxStorage` (generic over the inner storage semantics) and its S3
instance `Pithos.Model.OutboxStorageS3`, whose policy is read off the T1 table
`Pithos.Gen.OutboxStorage` (regenerated from outbox.go on every run).

For ALL histories of accepted operations and ALL flush points of the worker:
  * `read_your_writes`      every written-through operation — every read in particular — returns
                            exactly what it returns when all operations accepted before it are
                            applied to the inner storage in acceptance order;
  * `drain_eq_sequential`   once the table is drained the inner storage is (equivalent to) the
                            sequential application of the accepted operations in acceptance order.
Hypothesis `Sound` (explicit, never an axiom): `R` is an equivalence that is a congruence for the
inner storage, and an operation commutes with every queued entry *outside its wait scopes*.
Non-vacuity: a toy keyed store meets `Sound` with `R` = equal lookups.

That the wait scopes of the code are wide enough for the S3 semantics is the decidable obligation
`scopes_cover_requirements` over the regenerated table; the suspected deviation (DESIGN §10:
`PutBucketVersioningConfiguration` written through without draining the bucket's queued puts) is
stated as a negation witness for that *hypothetical* table — the current code waits for the whole
bucket, so for C21 no `_partial` theorem is needed.
-/
import Pithos.Lemmas.OutboxStorage
import Pithos.Model.OutboxStorageS3

namespace Pithos.C21
open Pithos.OutboxStorage

variable {σ Op Out : Type}

/-- **read_your_writes.** From an empty table on storage `t0`: whatever the worker's flush points,
every written-through operation (reads are always written through) answered what the sequential
execution of the accepted operations, in acceptance order, answers. -/
theorem read_your_writes {I : Inner σ Op Out} {P : Policy σ Op} {R : σ → σ → Prop} (h : Sound I P R)
    (t0 : σ) (evs : List (Event Op)) :
    Agree I t0 (run I P { inner := t0, queue := [] } evs).2 :=
  (run_sound h evs { inner := t0, queue := [] } t0 (h.refl _)).1

/-- **drain_eq_sequential.** After any history with any flush points, draining the table leaves
the inner storage equivalent to applying the accepted operations in acceptance order. -/
theorem drain_eq_sequential {I : Inner σ Op Out} {P : Policy σ Op} {R : σ → σ → Prop} (h : Sound I P R)
    (t0 : σ) (evs : List (Event Op)) :
    R (drain I (run I P { inner := t0, queue := [] } evs).1)
      (seqState I t0 (acceptedOps (run I P { inner := t0, queue := [] } evs).2)) := by
  rw [drain_eq_pending]
  exact (run_sound h evs { inner := t0, queue := [] } t0 (h.refl _)).2

/-- With `R` = equality the drained storage *is* the sequential state. -/
theorem drain_eq_sequential_eq {I : Inner σ Op Out} {P : Policy σ Op} (h : Sound I P Eq)
    (t0 : σ) (evs : List (Event Op)) :
    drain I (run I P { inner := t0, queue := [] } evs).1 =
      seqState I t0 (acceptedOps (run I P { inner := t0, queue := [] } evs).2) :=
  drain_eq_sequential h t0 evs

/-- **rejected_op_leaves_outbox_unchanged.** An operation the outbox layer answers with its own
error (`Policy.rejects`: e.g. `BadDigest` for a put whose supplied checksum does not match the
body) is not accepted, is answered with the rejection, adds no entry to the table — on the queue
path the state is literally unchanged, on the write-through path at most entries that were already
queued have been flushed while the caller waited — and the replayed table (hence everything that
will ever reach the inner storage) is exactly what it was. No hypothesis on the inner storage. -/
theorem rejected_op_leaves_outbox_unchanged (I : Inner σ Op Out) (P : Policy σ Op) (s : St σ Op) (op : Op)
    (hr : P.rejects op = true) :
    (accept I P s op).2.2.2 = false ∧ (accept I P s op).2.1 = I.rejected op ∧
    pending I (accept I P s op).1 = pending I s ∧
    (∃ m, (accept I P s op).1.queue = s.queue.drop m) ∧
    (P.queues s.inner op = true → (accept I P s op).1 = s) :=
  rejected_unchanged I P s op hr

/-- Convergence is over the accepted subsequence only: rejected operations never appear in it. -/
theorem acceptedOps_excludes_rejected (I : Inner σ Op Out) (P : Policy σ Op) (s : St σ Op)
    (evs : List (Event Op)) : ∀ op ∈ acceptedOps (run I P s evs).2, P.rejects op = false := by
  induction evs generalizing s with
  | nil => intro op h; simp [run, acceptedOps] at h
  | cons ev evs ih =>
    cases ev with
    | flush => simpa [run] using ih (flushN I 1 s)
    | accept a =>
      intro op h
      simp only [run, acceptedOps, List.filter_cons] at h
      by_cases hacc : (accept I P s a).2.2.2 = true
      · simp only [hacc, if_true, List.map_cons, List.mem_cons] at h
        rcases h with rfl | h
        · cases hr : P.rejects op with
          | false => rfl
          | true => have := (rejected_unchanged I P s op hr).1; rw [this] at hacc; cases hacc
        · exact ih _ op (by simpa [acceptedOps] using h)
      · simp only [hacc] at h
        exact ih _ op (by simpa [acceptedOps] using h)

-- ================================================================ non-vacuity: a toy inner storage

namespace Toy

abbrev S := List ((String × String) × Nat)

inductive O where
  | set (b k : String) (v : Nat)
  | get (b k : String)

def lookup : S → String × String → Option Nat
  | [], _ => none
  | (a, v) :: s, x => if a = x then some v else lookup s x

def step (s : S) : O → S × Option Nat
  | .set b k v => (((b, k), v) :: s, none)
  | .get b k => (s, lookup s (b, k))

def inner : Inner S O (Option Nat) :=
  { step := step
    addr := fun | .set b k _ => (b, k) | .get b k => (b, k)
    ack := fun _ => none
    rejected := fun _ => none }

/-- writes queue, reads wait for their key (and the bucket's lifecycle entries); writing the
value 13 is rejected by the outbox layer -/
def policy : Policy S O :=
  { queues := fun _ op => match op with | .set .. => true | .get .. => false
    scopes := fun | .set .. => [] | .get b k => [.keyAndGlobal b k]
    rejects := fun | .set _ _ v => v == 13 | .get .. => false }

def R (s t : S) : Prop := ∀ x, lookup s x = lookup t x

theorem sound : Sound inner policy R where
  refl := fun _ _ => rfl
  symm := fun h x => (h x).symm
  trans := fun h1 h2 x => (h1 x).trans (h2 x)
  congr := by
    intro s t op hr
    cases op with
    | set b k v =>
      refine ⟨rfl, fun x => ?_⟩
      simp only [inner, step, lookup]
      rw [hr x]
    | get b k => exact ⟨hr (b, k), hr⟩
  commute := by
    intro t a e hq hind
    cases a with
    | set b k v => obtain ⟨u, hu⟩ := hq; simp [policy] at hu
    | get b k =>
      cases e with
      | get b' k' => exact ⟨rfl, fun _ => rfl⟩
      | set b' k' v =>
        have hm := hind (.keyAndGlobal b k) (by simp [policy])
        simp only [inner, Scope.mem, Bool.and_eq_false_imp, Bool.or_eq_false_iff, beq_iff_eq,
          beq_eq_false_iff_ne, ne_eq] at hm
        refine ⟨?_, fun _ => rfl⟩
        simp only [inner, step, lookup]
        have : ¬ (b', k') = (b, k) := by
          intro he
          injection he with h1 h2
          exact (hm h1).2 h2
        simp [this]

/-- The hypothesis of the two theorems is met by a concrete inner storage, and the theorems say
something there: a read after a queued write returns the written value, at every flush point. -/
example : (run inner policy { inner := [], queue := [] }
    [.accept (.set "b" "k" 1), .accept (.set "b" "k" 13), .accept (.set "b" "j" 2), .accept (.get "b" "k"), .flush,
     .accept (.get "b" "j")]).2.map (fun e => (e.2.1, e.2.2.2))
    = [(none, true), (none, false), (none, true), (some 1, true), (some 2, true)] := by
  decide

end Toy

-- ================================================================ T1: the code's table

open Pithos.Gen.OutboxStorage in
/-- Every wait call in outbox.go is one of the four recognised scopes with recognised arguments. -/
theorem waits_recognised : methods.all (fun m => m.waits.all recognisedWait) = true := by
  decide

open Pithos.Gen.OutboxStorage in
/-- **The wait scope of every written-through method covers what the S3 semantics require**
(`requiredKinds`): in particular `PutBucketVersioningConfiguration`, the listings and `DeleteObjects`
drain the whole bucket, single-object operations their key plus the bucket's lifecycle entries. -/
theorem scopes_cover_requirements : methods.all methodCovered = true := by
  decide

open Pithos.Gen.OutboxStorage in
/-- Exactly four methods have a queue path, and bucket creation/deletion is never written through. -/
theorem queue_paths :
    (methods.filter (fun m => !m.queueOps.isEmpty)).map (fun m => (m.name, m.queueOps, m.through)) =
      [("CreateBucket", ["storageOutboxEntry.CreateBucketStorageOperation"], false),
       ("DeleteBucket", ["storageOutboxEntry.DeleteBucketStorageOperation"], false),
       ("DeleteObject", ["storageOutboxEntry.DeleteObjectStorageOperation"], true),
       ("DeleteObjects", ["storageOutboxEntry.DeleteObjectStorageOperation"], true),
       ("PutObject", ["storageOutboxEntry.PutObjectStorageOperation"], true)] := by
  decide

open Pithos.Gen.OutboxStorage in
/-- The synchronous-or-queued decisions `queuesS3` mirrors. -/
theorem sync_guards :
    putSyncGuards = ["opts != nil && (opts.IfNoneMatchStar || opts.IfMatchETag != nil)",
                     "versioningConfig.Status != nil && *versioningConfig.Status == storage.BucketVersioningStatusEnabled"] ∧
    deleteSyncGuards = ["opts != nil && opts.IfMatchETag != nil", "hasVersioningStatus"] ∧
    deleteObjectsSyncGuards = ["false", "true", "hasVersioningStatus"] ∧
    bucketHasVersioningStatusReturns = ["false", "false", "versioningConfig.Status != nil"] := by
  decide

open Pithos.Gen.OutboxStorage in
/-- The four wait functions select exactly the rows `Scope.mem` describes, newest / oldest first,
and the worker claims the first row of the whole table (strict FIFO). -/
theorem wait_sql :
    waitFns =
      [("waitForAllOutboxEntriesOfBucket", "FindLastStorageOutboxEntryForBucket",
          "outbox_id = $1 AND bucket = $2 ORDER BY id DESC LIMIT 1",
        "FindFirstStorageOutboxEntryForBucket", "outbox_id = $1 AND bucket = $2 ORDER BY id ASC LIMIT 1"),
       ("waitForAllOutboxEntriesOfBucketAndKeyIncludingGlobal", "FindLastStorageOutboxEntryForBucketAndKeyIncludingGlobal",
          "outbox_id = $1 AND bucket = $2 AND (key = '' OR key = $3) ORDER BY id DESC LIMIT 1",
        "FindFirstStorageOutboxEntryForBucketAndKeyIncludingGlobal",
          "outbox_id = $1 AND bucket = $2 AND (key = '' OR key = $3) ORDER BY id ASC LIMIT 1"),
       ("waitForGlobalOutboxEntries", "FindLastGlobalStorageOutboxEntry", "outbox_id = $1 AND key = '' ORDER BY id DESC LIMIT 1",
        "FindFirstGlobalStorageOutboxEntry", "outbox_id = $1 AND key = '' ORDER BY id ASC LIMIT 1"),
       ("waitForGlobalOutboxEntriesOfBucket", "FindLastGlobalStorageOutboxEntryForBucket",
          "outbox_id = $1 AND bucket = $2 AND key = '' ORDER BY id DESC LIMIT 1",
        "FindFirstGlobalStorageOutboxEntryForBucket", "outbox_id = $1 AND bucket = $2 AND key = '' ORDER BY id ASC LIMIT 1")] ∧
    sqlFindFirst = "outbox_id = $1 ORDER BY id ASC LIMIT 1" := by
  decide

open Pithos.Gen.OutboxStorage in
/-- Data flow of the storage outbox's lease statements (the lease protocol is the one modelled in
`Pithos.Model.Outbox`; `Pithos.C18.heartbeat_keeps_claim` is the theorem a swapped argument
falsifies): `claim_until` is written from `claimUntil` and compared with `now`. -/
theorem sql_bindings :
    bindClaim = [("set:claim_owner", "owner"), ("set:claim_until", "claimUntil"), ("set:updated_at", "now"),
                 ("where:id=", "entry.Id.String()"), ("where:outbox_id=", "outboxId"), ("where:version=", "entry.Version"),
                 ("where:claim_until<=", "now")] ∧
    bindFinalize = [("where:id=", "id.String()"), ("where:outbox_id=", "outboxId"), ("where:claim_owner=", "owner")] ∧
    bindRelease = [("set:updated_at", "now"), ("where:id=", "id.String()"), ("where:outbox_id=", "outboxId"),
                   ("where:claim_owner=", "owner")] ∧
    bindExtend = [("set:claim_until", "claimUntil"), ("set:updated_at", "now"), ("where:id=", "id.String()"),
                  ("where:outbox_id=", "outboxId"), ("where:claim_owner=", "owner")] := by
  decide

open Pithos.Gen.OutboxStorage in
theorem lease_times_passed_in_order :
    sigClaim = ["ctx", "tx", "outboxId", "owner", "now", "claimUntil"] ∧
    callClaimArgs = ["ctx", "tx.SqlTx()", "os.outboxId", "os.claimOwner", "now", "now.Add(os.claimLeaseDuration)"] ∧
    sigExtend = ["ctx", "tx", "outboxId", "id", "owner", "now", "claimUntil"] ∧
    callExtendArgs = ["ctx", "tx.SqlTx()", "os.outboxId", "*entry.Id", "os.claimOwner", "now",
                      "now.Add(os.claimLeaseDuration)"] := by
  decide

-- ================================================================ the suspected deviation, as a witness

open Pithos.S3 in
/-- The table DESIGN §10 suspected: `PutBucketVersioningConfiguration` waits only for the bucket's
lifecycle entries. -/
def suspectedTable : List Method :=
  Pithos.Gen.OutboxStorage.methods.map fun m =>
    if m.name == "PutBucketVersioningConfiguration"
    then { m with waits := [("waitForGlobalOutboxEntriesOfBucket", "bucketName")] } else m

/-- It fails the coverage obligation … -/
theorem suspected_not_covered : suspectedTable.all methodCovered = false := by
  decide

open Pithos.S3 in
/-- … and really breaks convergence on the S3 model: a queued unversioned put replays after
versioning was enabled and becomes a ULID version, whereas applying the accepted operations in
acceptance order stores the null version. (With the code's own table both agree.) -/
theorem suspected_breaks_drain :
    let evs : List (Event COp) :=
      [.accept (ok (.mkb "b")), .flush, .accept (ok (.put "b" "k" [1] {} false .none)), .accept (ok (.setVer "b" .enabled))]
    let vidAfter (tbl : List Method) : Option (Option Nat) :=
      match (S3.step Quirks.code (drain (innerS3 Quirks.code)
              (run (innerS3 Quirks.code) (policyS3 tbl) { inner := {}, queue := [] } evs).1) (.get "b" "k" none)).2 with
      | .obj v => some v.vid
      | _ => none
    let vidSeq : Option (Option Nat) :=
      match (S3.step Quirks.code (seqState (innerS3 Quirks.code) {}
              [ok (.mkb "b"), ok (.put "b" "k" [1] {} false .none), ok (.setVer "b" .enabled)]) (.get "b" "k" none)).2 with
      | .obj v => some v.vid
      | _ => none
    vidSeq = some none ∧ vidAfter suspectedTable = some (some 0) ∧
    vidAfter Pithos.Gen.OutboxStorage.methods = some none := by
  decide

open Pithos.S3 in
/-- What "errors leave no trace" excludes, on the S3 model: a put rejected by the outbox layer
(`bad`) is not accepted and the drained storage holds the accepted body; a variant that leaves the
rejected put's entry in the table (validation after the transaction has committed) replays it, and
the drained storage then holds a body that was never accepted. -/
theorem leaky_rejection_breaks_drain :
    let I := innerS3 Quirks.code
    let r := run I policyCode { inner := {}, queue := [] }
      [.accept (ok (.mkb "b")), .accept (ok (.put "b" "k" [1] {} false .none)),
       .accept { op := .put "b" "k" [2] {} false .none, bad := true }]
    let body (t : S3.State) : Option Bytes :=
      match (S3.step Quirks.code t (.get "b" "k" none)).2 with
      | .obj v => some v.body
      | _ => none
    r.2.map (·.2.2.2) = [true, true, false] ∧
    body (drain I r.1) = some [1] ∧
    body (seqState I {} (acceptedOps r.2)) = some [1] ∧
    body (drain I { r.1 with queue := r.1.queue ++ [ok (.put "b" "k" [2] {} false .none)] }) = some [2] := by
  decide

end Pithos.C21
