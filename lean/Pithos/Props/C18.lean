/-
C18 — the outbox part store is consistent with its committed history.

Model: `Pithos.Model.Outbox` (transition system; one step per SQL transaction, the tx-free inner
mutation is its own step). Helper lemmas and the invariant: `Pithos.Lemmas.Outbox`.
Everything here is stated for ALL finite schedules (lists of steps — writers, any number of
workers, lease expiry, crashes, arbitrary clock ticks), by induction over the schedule.

* ideal (`fenced = true`: the inner mutation is refused once the entry row is gone) — full strength:
    `get_reflects_latest_committed`, `getPartIds_reflects_latest_committed`, `idle_inner_eq_committed`
* the code as it is (`fenced = false`):
    negation witnesses `asis_stale_put_resurrects_deleted_part`, `asis_stale_delete_loses_committed_part`
    (found by the bounded explorer `Outbox.explore` — search — and realised on the implementation by
    harness/cmd/verifharness/c18.go, directed cases 0–3);
    `…_partial` theorems under the explicit hypothesis `noStaleWrites` (no inner mutation for an
    entry whose row has already been deleted), which follows from the lease-phrased condition
    `writesByOwner` (a worker still owns its entry whenever it mutates the inner store).
* step granularity is a T1 fact: `Pithos.Gen.OutboxPart` is regenerated from outbox.go/sqlite.go and
  the `tx_*`/`sql_*` obligations below pin what the model assumes.
-/
import Pithos.Lemmas.Outbox
import Pithos.Gen.OutboxPart

namespace Pithos.C18
open Pithos.Outbox

/-- The ghost field really is the committed history: the concatenation of the writer commits. -/
def commitsOf : List Step → List POp
  | [] => []
  | .commit ops :: rest => ops ++ commitsOf rest
  | _ :: rest => commitsOf rest

theorem committed_is_history (f : Bool) (s : St) (steps : List Step) :
    (run f s steps).committed = s.committed ++ commitsOf steps := by
  induction steps generalizing s with
  | nil => simp [run, commitsOf]
  | cons st rest ih =>
    simp only [run]
    rw [ih]
    cases st <;> simp [step, commitsOf, setLoc] <;> (repeat' split) <;> simp

/-- `GetPartIds` lists exactly the ids `GetPart` can read. -/
theorem getPartIds_iff_getPart (s : St) (id : Nat) :
    id ∈ getPartIds s ↔ (getPart s id).isSome := by
  simp only [getPartIds, List.mem_filter, List.mem_append, getPart]
  cases hl : lastFor (qops s) id with
  | some op =>
    obtain ⟨hm, hid⟩ := lastFor_mem hl
    cases op with
    | put k b =>
      simp only [POp.value, Option.isSome_some, and_true, iff_true]
      exact Or.inr (List.mem_map.2 ⟨_, hm, hid⟩)
    | del k => simp [POp.value]
  | none =>
    simp only
    constructor
    · exact fun h => h.2
    · exact fun h => ⟨Or.inl (Store.mem_keys_of_get h), h⟩

-- ================================================================ ideal variant: full strength

/-- **get_reflects_latest_committed** (fenced model). Under every interleaving of committed
put/delete transactions, claims, chunk reads, inner mutations, finalizes, releases, heartbeats,
clock ticks / lease expiry and worker crashes, `GetPart` shows, for every part id, the latest
committed operation for that id. -/
theorem get_reflects_latest_committed (lease : Nat) (steps : List Step) (id : Nat) :
    getPart (run true (init lease) steps) id =
      (committedStore (run true (init lease) steps).committed).get id :=
  (inv_run true (init lease) steps (inv_init lease) (Or.inl rfl)).viewOk id

/-- … and `GetPartIds` lists exactly the parts that exist in the committed history. -/
theorem getPartIds_reflects_latest_committed (lease : Nat) (steps : List Step) (id : Nat) :
    id ∈ getPartIds (run true (init lease) steps) ↔
      ((committedStore (run true (init lease) steps).committed).get id).isSome := by
  rw [getPartIds_iff_getPart, get_reflects_latest_committed]

/-- **idle_inner_eq_committed** (fenced model). Whenever the table is empty — whatever the workers'
private states, stale claims included — the inner store holds exactly the committed parts with
their committed content. -/
theorem idle_inner_eq_committed (lease : Nat) (steps : List Step)
    (hq : (run true (init lease) steps).queue = []) (id : Nat) :
    (run true (init lease) steps).inner.get id =
      (committedStore (run true (init lease) steps).committed).get id := by
  have := get_reflects_latest_committed lease steps id
  simpa [getPart, qops, hq, lastFor] using this

-- ================================================================ the code as it is

/-- Witness 1 (found by `Outbox.explore false 2 [0] [[put 0 [1]], [del 0]] 16`): worker 0 claims
`put 0`, reads its chunks and stalls; its lease expires; worker 1 replays and finalizes `put 0`
and then `del 0`; worker 0's delayed inner `PutPart` then lands. The table is empty, both workers
are idle, the committed history says part 0 is deleted — the inner store holds it again. -/
def witnessResurrect : List Step :=
  [.commit [.put 0 [1]], .commit [.del 0], .claim 0, .readChunks 0, .leaseExpire,
   .claim 1, .readChunks 1, .innerWrite 1, .finalize 1, .claim 1, .innerWrite 1,
   .innerWrite 0, .finalize 0, .finalize 1]

theorem asis_stale_put_resurrects_deleted_part :
    let s := run false (init 10) witnessResurrect
    s.queue = [] ∧ allIdle s [0, 1] = true ∧
    (committedStore s.committed).get 0 = none ∧ s.inner.get 0 = some [1] ∧
    getPart s 0 = some [1] ∧ getPartIds s = [0] := by
  decide

/-- Witness 2: the same schedule with the operations swapped — worker 0's delayed inner
`DeletePart` removes a part that was committed *after* the delete it replays: data loss. -/
def witnessLoss : List Step :=
  [.commit [.del 0], .commit [.put 0 [1]], .claim 0, .leaseExpire,
   .claim 1, .innerWrite 1, .finalize 1, .claim 1, .readChunks 1, .innerWrite 1,
   .innerWrite 0, .finalize 0, .finalize 1]

theorem asis_stale_delete_loses_committed_part :
    let s := run false (init 10) witnessLoss
    s.queue = [] ∧ allIdle s [0, 1] = true ∧
    (committedStore s.committed).get 0 = some [1] ∧ s.inner.get 0 = none ∧
    getPart s 0 = none ∧ getPartIds s = [] := by
  decide

/-- Hence both full-strength statements are false of the as-is model. -/
theorem asis_get_reflects_latest_committed_fails :
    ¬ ∀ (steps : List Step) (id : Nat), getPart (run false (init 10) steps) id =
        (committedStore (run false (init 10) steps).committed).get id := by
  intro h
  have := h witnessLoss 0
  revert this
  decide

theorem asis_idle_inner_eq_committed_fails :
    ¬ ∀ (steps : List Step) (id : Nat), (run false (init 10) steps).queue = [] →
        allIdle (run false (init 10) steps) [0, 1] = true →
        (run false (init 10) steps).inner.get id =
          (committedStore (run false (init 10) steps).committed).get id := by
  intro h
  have := h witnessResurrect 0 (by decide) (by decide)
  revert this
  decide

/-- Both witnesses contain a stale inner mutation — the trigger the partial theorems exclude —
and the fenced model refuses exactly that step. -/
theorem witnesses_are_stale :
    noStaleWrites false (init 10) witnessResurrect = false ∧
    noStaleWrites false (init 10) witnessLoss = false ∧
    (outs true (init 10) witnessResurrect).contains .fencedOff = true ∧
    (outs true (init 10) witnessLoss).contains .fencedOff = true := by
  decide

/-- **get_reflects_latest_committed_partial** (code as it is). For every schedule without a
stale inner mutation, `GetPart` shows the latest committed operation of every part. -/
theorem get_reflects_latest_committed_partial (lease : Nat) (steps : List Step)
    (hs : noStaleWrites false (init lease) steps = true) (id : Nat) :
    getPart (run false (init lease) steps) id =
      (committedStore (run false (init lease) steps).committed).get id :=
  (inv_run false (init lease) steps (inv_init lease) (Or.inr hs)).viewOk id

theorem getPartIds_reflects_latest_committed_partial (lease : Nat) (steps : List Step)
    (hs : noStaleWrites false (init lease) steps = true) (id : Nat) :
    id ∈ getPartIds (run false (init lease) steps) ↔
      ((committedStore (run false (init lease) steps).committed).get id).isSome := by
  rw [getPartIds_iff_getPart, get_reflects_latest_committed_partial lease steps hs]

/-- **idle_inner_eq_committed_partial** (code as it is). -/
theorem idle_inner_eq_committed_partial (lease : Nat) (steps : List Step)
    (hs : noStaleWrites false (init lease) steps = true)
    (hq : (run false (init lease) steps).queue = []) (id : Nat) :
    (run false (init lease) steps).inner.get id =
      (committedStore (run false (init lease) steps).committed).get id := by
  have := get_reflects_latest_committed_partial lease steps hs id
  simpa [getPart, qops, hq, lastFor] using this

/-- The lease-phrased condition implies the excluded-trigger condition: a worker that still owns
its entry when it mutates the inner store never writes stale data. -/
theorem noStale_of_writesByOwner (f : Bool) (s : St) (steps : List Step)
    (h : writesByOwner f s steps = true) : noStaleWrites f s steps = true := by
  induction steps generalizing s with
  | nil => rfl
  | cons st rest ih =>
    simp only [writesByOwner, Bool.and_eq_true] at h
    simp only [noStaleWrites, Bool.and_eq_true, Bool.not_eq_true']
    refine ⟨?_, ih _ h.2⟩
    cases st with
    | innerWrite w =>
      have h1 := h.1
      simp only [ownsAtWrite, staleWrite] at h1 ⊢
      cases hl : s.loc w with
      | ready eid op =>
        simp only [hl] at h1 ⊢
        simp only [ownedBy, List.any_eq_true, decide_eq_true_eq] at h1
        obtain ⟨e, he, hee, _⟩ := h1
        have : queued s eid = true := by
          simp only [queued, List.any_eq_true]
          exact ⟨e, he, by simp [hee]⟩
        simp [this]
      | idle => rfl
      | claimed _ _ => rfl
      | written _ => rfl
      | failed _ => rfl
    | _ => rfl

theorem get_reflects_latest_committed_of_owner_writes (lease : Nat) (steps : List Step)
    (hs : writesByOwner false (init lease) steps = true) (id : Nat) :
    getPart (run false (init lease) steps) id =
      (committedStore (run false (init lease) steps).committed).get id :=
  get_reflects_latest_committed_partial lease steps (noStale_of_writesByOwner _ _ _ hs) id

/-- Non-vacuity: a non-trivial schedule — two workers, a lease that expires between replay and
finalize, a takeover, a crash, a heartbeat, a failed replay — meets the hypothesis of the partial
theorems (and even the lease-phrased one), ends idle with an empty table, and the inner store is
what the theorem says. -/
def benign : List Step :=
  [.commit [.put 0 [1], .put 1 [2]], .claim 0, .readChunks 0, .extend 0, .innerWrite 0, .leaseExpire,
   .claim 1, .readChunks 1, .innerWrite 1, .finalize 0, .finalize 1,
   .commit [.del 0, .put 2 []], .claim 0, .readChunks 0, .innerFail 0, .release 0,
   .claim 1, .readChunks 1, .crash 1, .tick 10, .claim 0, .readChunks 0, .innerWrite 0, .finalize 0,
   .claim 0, .innerWrite 0, .finalize 0, .claim 1, .readChunks 1, .innerWrite 1, .finalize 1]

example :
    noStaleWrites false (init 10) benign = true ∧
    (run false (init 10) benign).queue = [] ∧
    (run false (init 10) benign).inner.get 0 = none ∧
    (run false (init 10) benign).inner.get 1 = some [2] ∧
    (run false (init 10) benign).inner.get 2 = some [] := by
  decide

/-- Non-vacuity of the lease-phrased hypothesis. -/
example : writesByOwner false (init 10)
    [.commit [.put 0 [1]], .claim 0, .readChunks 0, .innerWrite 0, .finalize 0] = true := by
  decide

-- ================================================================ T1: step granularity

open Pithos.Gen.OutboxPart in
/-- Each worker transaction of outbox.go contains exactly the one repository call the model's
step stands for, and is a write transaction where the model mutates the table. -/
theorem tx_granularity :
    txClaim = ("false", ["ClaimFirstPartOutboxEntry"]) ∧
    txFinalize = ("false", ["DeletePartOutboxEntryByClaimOwner"]) ∧
    txRelease = ("false", ["ReleasePartOutboxEntryClaim"]) ∧
    txHeartbeat = ("false", ["ExtendPartOutboxEntryClaim"]) := by
  decide

open Pithos.Gen.OutboxPart in
/-- The inner mutation of a tx-free inner store is called with a nil transaction, outside every
`WithTx` body (so it is NOT atomic with finalize — the model's separate `innerWrite` step), and the
chunk reader lives in a read-only transaction. -/
theorem inner_mutation_is_tx_free :
    replayPutInnerTxArg = "nil" ∧ replayPutInnerInsideWithTx = false ∧
    replayDeleteInnerTxArg = "nil" ∧ replayDeleteInnerInsideWithTx = false ∧
    replayPutFallbackTxArg = "tx" ∧ replayDeleteFallbackTxArg = "tx" ∧
    replayPutCapabilities = ["CapabilityTxFreePutPart"] ∧
    replayDeleteCapabilities = ["CapabilityTxFreeDeletePart"] ∧
    replayPutReadTxReadOnly = "true" := by
  decide

open Pithos.Gen.OutboxPart in
/-- The reads consult the newest outbox entry first and fall back to the inner store. -/
theorem reads_consult_outbox_first :
    getPartCalls = ["partOutboxEntryRepository.FindLastPartOutboxEntryByPartId", "innerPartStore.GetPart",
                    "partOutboxEntryRepository.FindPartOutboxEntryChunkByIndexWithEntryPresence"] ∧
    getPartIdsCalls = ["partOutboxEntryRepository.FindLastPartOutboxEntryGroupedByPartId",
                       "innerPartStore.GetPartIds"] := by
  decide

open Pithos.Gen.OutboxPart in
/-- The order of the worker's steps in `maybeProcessOutboxEntries`. -/
theorem worker_step_order :
    processOrder = ["claimNextOutboxEntry", "startPartOutboxHeartbeat", "replayPutPart", "replayDeletePart",
                    "stopHeartbeat", "releasePartOutboxEntry", "finalizePartOutboxEntry"] := by
  decide

open Pithos.Gen.OutboxPart in
/-- The SQL the model's guards mirror. -/
theorem sql_guards :
    sqlFindFirstOrder = "ORDER BY id ASC LIMIT 1" ∧
    sqlFindLastOrder = "ORDER BY id DESC LIMIT 1" ∧
    sqlClaimWhere = "id = $4 AND outbox_id = $5 AND version = $6 AND (claim_owner IS NULL OR claim_until <= $7)" ∧
    sqlFinalizeWhere = "id = $1 AND outbox_id = $2 AND claim_owner = $3" ∧
    sqlReleaseWhere = "id = $2 AND outbox_id = $3 AND claim_owner = $4" ∧
    sqlExtendWhere = "id = $3 AND outbox_id = $4 AND claim_owner = $5" := by
  decide

end Pithos.C18
