/-
C18 — the outbox part store is consistent with its committed history.

Model: `Pithos.Model.Outbox` (transition system; one step per SQL transaction, the tx-free inner
mutation is its own step). Helper lemmas and the invariant: `Pithos.Lemmas.Outbox`.
Everything here is stated for ALL finite schedules (lists of steps — writers, any number of
workers, lease expiry, crashes, arbitrary clock ticks), by induction over the schedule.

* ideal (`fenced = true`: the inner mutation is refused once the entry row is gone) — full strength:
    `get_reflects_latest_committed`, `getPartIds_reflects_latest_committed`, `idle_inner_eq_committed`
* the code as it is (`fenced = false`):
    negation witnesses `asis_stale_put_resurrects_deleted_part`, `asis_stale_delete_loses_committed_part`
    (found by the bounded explorer `Outbox.explore` — search — and realised on the implementation by
    harness/cmd/verifharness/c18.go, directed cases 0–3);
    `…_partial` theorems under the explicit hypothesis `noStaleWrites` (no inner mutation for an
    entry whose row has already been deleted), which follows from the lease-phrased condition
    `writesByOwner` (a worker still owns its entry whenever it mutates the inner store).
* step granularity is a T1 fact: `Pithos.Gen.OutboxPart` is regenerated from outbox.go/sqlite.go and
  the `tx_*`/`sql_*` obligations below pin what the model assumes.
-/
import Pithos.Lemmas.Outbox
import Pithos.Gen.OutboxPart

namespace Pithos.C18
open Pithos.Outbox

/-- The ghost field really is the committed history: the concatenation of the writer commits. -/
def commitsOf : List Step → List POp
  | [] => []
  | .commit ops :: rest => ops ++ commitsOf rest
  | _ :: rest => commitsOf rest

theorem committed_is_history (f : Bool) (s : St) (steps : List Step) :
    (run f s steps).committed = s.committed ++ commitsOf steps := by
  induction steps generalizing s with
  | nil => simp [run, commitsOf]
  | cons st rest ih =>
    simp only [run]
    rw [ih]
    cases st <;> simp [step, commitsOf, setLoc] <;> (repeat' split) <;> simp

/-- `GetPartIds` lists exactly the ids `GetPart` can read. -/
theorem getPartIds_iff_getPart (s : St) (id : Nat) :
    id ∈ getPartIds s ↔ (getPart s id).isSome := by
  simp only [getPartIds, List.mem_filter, List.mem_append, getPart]
  cases hl : lastFor (qops s) id with
  | some op =>
    obtain ⟨hm, hid⟩ := lastFor_mem hl
    cases op with
    | put k b =>
      simp only [POp.value, Option.isSome_some, and_true, iff_true]
      exact Or.inr (List.mem_map.2 ⟨_, hm, hid⟩)
    | del k => simp [POp.value]
  | none =>
    simp only
    constructor
    · exact fun h => h.2
    · exact fun h => ⟨Or.inl (Store.mem_keys_of_get h), h⟩

-- ================================================================ ideal variant: full strength

/-- **get_reflects_latest_committed** (fenced model). Under every interleaving of committed
put/delete transactions, claims, chunk reads, inner mutations, finalizes, releases, heartbeats,
clock ticks / lease expiry and worker crashes, `GetPart` shows, for every part id, the latest
committed operation for that id. -/
theorem get_reflects_latest_committed (lease : Nat) (steps : List Step) (id : Nat) :
    getPart (run true (init lease) steps) id =
      (committedStore (run true (init lease) steps).committed).get id :=
  (inv_run true (init lease) steps (inv_init lease) (Or.inl rfl)).viewOk id

/-- … and `GetPartIds` lists exactly the parts that exist in the committed history. -/
theorem getPartIds_reflects_latest_committed (lease : Nat) (steps : List Step) (id : Nat) :
    id ∈ getPartIds (run true (init lease) steps) ↔
      ((committedStore (run true (init lease) steps).committed).get id).isSome := by
  rw [getPartIds_iff_getPart, get_reflects_latest_committed]

/-- **idle_inner_eq_committed** (fenced model). Whenever the table is empty — whatever the workers'
private states, stale claims included — the inner store holds exactly the committed parts with
their committed content. -/
theorem idle_inner_eq_committed (lease : Nat) (steps : List Step)
    (hq : (run true (init lease) steps).queue = []) (id : Nat) :
    (run true (init lease) steps).inner.get id =
      (committedStore (run true (init lease) steps).committed).get id := by
  have := get_reflects_latest_committed lease steps id
  simpa [getPart, qops, hq, lastFor] using this

-- ================================================================ the code as it is

/-- Witness 1 (found by `Outbox.explore false 2 [0] [[put 0 [1]], [del 0]] 16`): worker 0 claims
`put 0`, reads its chunks and stalls; its lease expires; worker 1 replays and finalizes `put 0`
and then `del 0`; worker 0's delayed inner `PutPart` then lands. The table is empty, both workers
are idle, the committed history says part 0 is deleted — the inner store holds it again. -/
def witnessResurrect : List Step :=
  [.commit [.put 0 [1]], .commit [.del 0], .claim 0, .readChunks 0, .leaseExpire,
   .claim 1, .readChunks 1, .innerWrite 1, .finalize 1, .claim 1, .innerWrite 1,
   .innerWrite 0, .finalize 0, .finalize 1]

theorem asis_stale_put_resurrects_deleted_part :
    let s := run false (init 10) witnessResurrect
    s.queue = [] ∧ allIdle s [0, 1] = true ∧
    (committedStore s.committed).get 0 = none ∧ s.inner.get 0 = some [1] ∧
    getPart s 0 = some [1] ∧ getPartIds s = [0] := by
  decide

/-- Witness 2: the same schedule with the operations swapped — worker 0's delayed inner
`DeletePart` removes a part that was committed *after* the delete it replays: data loss. -/
def witnessLoss : List Step :=
  [.commit [.del 0], .commit [.put 0 [1]], .claim 0, .leaseExpire,
   .claim 1, .innerWrite 1, .finalize 1, .claim 1, .readChunks 1, .innerWrite 1,
   .innerWrite 0, .finalize 0, .finalize 1]

theorem asis_stale_delete_loses_committed_part :
    let s := run false (init 10) witnessLoss
    s.queue = [] ∧ allIdle s [0, 1] = true ∧
    (committedStore s.committed).get 0 = some [1] ∧ s.inner.get 0 = none ∧
    getPart s 0 = none ∧ getPartIds s = [] := by
  decide

/-- Hence both full-strength statements are false of the as-is model. -/
theorem asis_get_reflects_latest_committed_fails :
    ¬ ∀ (steps : List Step) (id : Nat), getPart (run false (init 10) steps) id =
        (committedStore (run false (init 10) steps).committed).get id := by
  intro h
  have := h witnessLoss 0
  revert this
  decide

theorem asis_idle_inner_eq_committed_fails :
    ¬ ∀ (steps : List Step) (id : Nat), (run false (init 10) steps).queue = [] →
        allIdle (run false (init 10) steps) [0, 1] = true →
        (run false (init 10) steps).inner.get id =
          (committedStore (run false (init 10) steps).committed).get id := by
  intro h
  have := h witnessResurrect 0 (by decide) (by decide)
  revert this
  decide

/-- Both witnesses contain a stale inner mutation — the trigger the partial theorems exclude —
and the fenced model refuses exactly that step. -/
theorem witnesses_are_stale :
    noStaleWrites false (init 10) witnessResurrect = false ∧
    noStaleWrites false (init 10) witnessLoss = false ∧
    (outs true (init 10) witnessResurrect).contains .fencedOff = true ∧
    (outs true (init 10) witnessLoss).contains .fencedOff = true := by
  decide

/-- **get_reflects_latest_committed_partial** (code as it is). For every schedule without a
stale inner mutation, `GetPart` shows the latest committed operation of every part. -/
theorem get_reflects_latest_committed_partial (lease : Nat) (steps : List Step)
    (hs : noStaleWrites false (init lease) steps = true) (id : Nat) :
    getPart (run false (init lease) steps) id =
      (committedStore (run false (init lease) steps).committed).get id :=
  (inv_run false (init lease) steps (inv_init lease) (Or.inr hs)).viewOk id

theorem getPartIds_reflects_latest_committed_partial (lease : Nat) (steps : List Step)
    (hs : noStaleWrites false (init lease) steps = true) (id : Nat) :
    id ∈ getPartIds (run false (init lease) steps) ↔
      ((committedStore (run false (init lease) steps).committed).get id).isSome := by
  rw [getPartIds_iff_getPart, get_reflects_latest_committed_partial lease steps hs]

/-- **idle_inner_eq_committed_partial** (code as it is). -/
theorem idle_inner_eq_committed_partial (lease : Nat) (steps : List Step)
    (hs : noStaleWrites false (init lease) steps = true)
    (hq : (run false (init lease) steps).queue = []) (id : Nat) :
    (run false (init lease) steps).inner.get id =
      (committedStore (run false (init lease) steps).committed).get id := by
  have := get_reflects_latest_committed_partial lease steps hs id
  simpa [getPart, qops, hq, lastFor] using this

/-- The lease-phrased condition implies the excluded-trigger condition: a worker that still owns
its entry when it mutates the inner store never writes stale data. -/
theorem noStale_of_writesByOwner (f : Bool) (s : St) (steps : List Step)
    (h : writesByOwner f s steps = true) : noStaleWrites f s steps = true := by
  induction steps generalizing s with
  | nil => rfl
  | cons st rest ih =>
    simp only [writesByOwner, Bool.and_eq_true] at h
    simp only [noStaleWrites, Bool.and_eq_true, Bool.not_eq_true']
    refine ⟨?_, ih _ h.2⟩
    cases st with
    | innerWrite w =>
      have h1 := h.1
      simp only [ownsAtWrite, staleWrite] at h1 ⊢
      cases hl : s.loc w with
      | ready eid op =>
        simp only [hl] at h1 ⊢
        simp only [ownedBy, List.any_eq_true, decide_eq_true_eq] at h1
        obtain ⟨e, he, hee, _⟩ := h1
        have : queued s eid = true := by
          simp only [queued, List.any_eq_true]
          exact ⟨e, he, by simp [hee]⟩
        simp [this]
      | idle => rfl
      | claimed _ _ => rfl
      | written _ => rfl
      | failed _ => rfl
    | _ => rfl

theorem get_reflects_latest_committed_of_owner_writes (lease : Nat) (steps : List Step)
    (hs : writesByOwner false (init lease) steps = true) (id : Nat) :
    getPart (run false (init lease) steps) id =
      (committedStore (run false (init lease) steps).committed).get id :=
  get_reflects_latest_committed_partial lease steps (noStale_of_writesByOwner _ _ _ hs) id

/-- Non-vacuity: a non-trivial schedule — two workers, a lease that expires between replay and
finalize, a takeover, a crash, a heartbeat, a failed replay — meets the hypothesis of the partial
theorems (and even the lease-phrased one), ends idle with an empty table, and the inner store is
what the theorem says. -/
def benign : List Step :=
  [.commit [.put 0 [1], .put 1 [2]], .claim 0, .readChunks 0, .extend 0, .innerWrite 0, .leaseExpire,
   .claim 1, .readChunks 1, .innerWrite 1, .finalize 0, .finalize 1,
   .commit [.del 0, .put 2 []], .claim 0, .readChunks 0, .innerFail 0, .release 0,
   .claim 1, .readChunks 1, .crash 1, .tick 10, .claim 0, .readChunks 0, .innerWrite 0, .finalize 0,
   .claim 0, .innerWrite 0, .finalize 0, .claim 1, .readChunks 1, .innerWrite 1, .finalize 1]

example :
    noStaleWrites false (init 10) benign = true ∧
    (run false (init 10) benign).queue = [] ∧
    (run false (init 10) benign).inner.get 0 = none ∧
    (run false (init 10) benign).inner.get 1 = some [2] ∧
    (run false (init 10) benign).inner.get 2 = some [] := by
  decide

/-- Non-vacuity of the lease-phrased hypothesis. -/
example : writesByOwner false (init 10)
    [.commit [.put 0 [1]], .claim 0, .readChunks 0, .innerWrite 0, .finalize 0] = true := by
  decide



-- ================================================================ GetPartIds is two look-ups, not one step

/-- `GetPartIds` with its two look-ups made in different states: the newest entries per part are
read in `o`, the inner store is listed in `i`. (`getPartIds s = idsSplit s s`.) -/
def idsSplit (o i : St) : List Nat :=
  (i.inner.keys ++ (qops o).map POp.id).filter fun id =>
    match lastFor (qops o) id with
    | some (.put _ _) => true
    | some (.del _) => false
    | none => (i.inner.get id).isSome

/-- **getPartIds_outbox_first_tolerates_flush.** `GetPartIds` reads the outbox table first and the
inner store afterwards (T1: `reads_consult_outbox_first`). If, in between, a worker replays and
finalizes the entry it holds, the answer is still exactly the committed parts — in every reachable
state without a stale mutation. (Read the other way round the flushed entry is in neither view:
`ids_inner_first_loses_flushed_entry`.) -/
theorem getPartIds_outbox_first_tolerates_flush (lease : Nat) (steps : List Step)
    (hs : noStaleWrites false (init lease) steps = true) (w eid : Nat) (op : POp)
    (hl : (run false (init lease) steps).loc w = .ready eid op)
    (hq : queued (run false (init lease) steps) eid = true) (id : Nat) :
    let s := run false (init lease) steps
    let s2 := (step false (step false s (.innerWrite w)).1 (.finalize w)).1
    id ∈ idsSplit s s2 ↔ ((committedStore s.committed).get id).isSome := by
  intro s s2
  have hinv : Inv s := inv_run false (init lease) steps (inv_init lease) (Or.inr hs)
  have hl' : s.loc w = .ready eid op := hl
  have hin : s2.inner = s.inner.apply op := by
    simp [s2, step, hl', setLoc]
  -- the held entry's operation is among the queued ones
  obtain ⟨p, hp, hpe⟩ := (queued_iff s eid).1 hq
  have hloc := hinv.locOk w
  rw [hl'] at hloc
  have hp2 : p.2 = op := hloc.2.2 p hp hpe
  have hmem : op ∈ qops s := by rw [qops_eq_skel]; exact List.mem_map.2 ⟨p, hp, hp2⟩
  have hview := hinv.viewOk id
  simp only [idsSplit, List.mem_filter, List.mem_append]
  simp only [getPart] at hview
  cases hlf : lastFor (qops s) id with
  | some o =>
    rw [hlf] at hview
    obtain ⟨hm, hid⟩ := lastFor_mem hlf
    rw [← hview]
    cases o with
    | put k b =>
      simp only [POp.value, Option.isSome_some, and_true, iff_true]
      exact Or.inr (List.mem_map.2 ⟨_, hm, hid⟩)
    | del k => simp [POp.value]
  | none =>
    rw [hlf] at hview
    have hne : op.id ≠ id := by
      intro he
      obtain ⟨o, ho⟩ := lastFor_some_of_mem hmem
      rw [he, hlf] at ho; cases ho
    have hget : s2.inner.get id = (committedStore s.committed).get id := by
      rw [hin, Store.get_apply]; simp only [hne, if_false]; simpa using hview
    simp only
    rw [hget]
    constructor
    · exact fun h => h.2
    · intro h
      refine ⟨Or.inl ?_, h⟩
      apply Store.mem_keys_of_get
      rw [hget]; exact h

/-- The look-ups in the other order — inner store first, outbox table after the flush — lose the
flushed entry: a committed part is missing from the listing. -/
theorem ids_inner_first_loses_flushed_entry :
    let s := run false (init 10) [.commit [.put 0 [1]], .claim 0, .readChunks 0]
    let s2 := (step false (step false s (.innerWrite 0)).1 (.finalize 0)).1
    0 ∈ idsSplit s s2 ∧ idsSplit s2 s = [] ∧ (committedStore s.committed).get 0 = some [1] := by
  decide

-- ================================================================ the lease: heartbeats keep the claim

/-- **extend_renews_lease.** A heartbeat of the worker that owns the first entry moves the end of
its lease to `now + lease` (and nothing else about who owns it). -/
theorem extend_renews_lease (f : Bool) (s : St) (w : Nat) (h : Entry) (t : List Entry)
    (hq : s.queue = h :: t) (ho : h.owner = some (me s w))
    (hl : (∃ id, s.loc w = .claimed h.eid id) ∨ (∃ op, s.loc w = .ready h.eid op)) :
    (step f s (.extend w)).2 = .extended true ∧
    ((step f s (.extend w)).1.queue.head?).map (fun e => (e.eid, e.owner, e.until_)) =
      some (h.eid, some (me s w), s.now + s.lease) ∧
    (step f s (.extend w)).1.now = s.now ∧ (step f s (.extend w)).1.lease = s.lease := by
  rcases hl with ⟨id, hl⟩ | ⟨op, hl⟩ <;>
    simp [step, hl, hq, updOwned, ownedBy, ho]

/-- **live_lease_excludes_others.** While the first entry is held under a lease that has not run
out (`now < until`), a claim attempt — by anyone — changes nothing: the worker does not skip ahead
either (head-of-line), it simply gets nothing. -/
theorem live_lease_excludes_others (f : Bool) (s : St) (w' : Nat) (h : Entry) (t : List Entry)
    (hq : s.queue = h :: t) (ho : h.owner ≠ none) (hlive : s.now < h.until_) :
    (step f s (.claim w')).1 = s ∧ (step f s (.claim w')).2 ≠ .claimed h.eid (h.version + 1) := by
  have hc : ¬ (h.owner = none ∨ h.until_ ≤ s.now) := by
    intro hh; rcases hh with h1 | h2
    · exact ho h1
    · omega
  cases hl : s.loc w' <;> simp [step, hl, hq, hc]

/-- **heartbeat_keeps_claim.** After a heartbeat of the owner, for less than a lease duration no
other worker can take the entry over. (This is what makes "no lease expires while its holder keeps
heartbeating" — and with it `writesByOwner`, the hypothesis of the partial theorems — attainable.) -/
theorem heartbeat_keeps_claim (f : Bool) (s : St) (w w' : Nat) (h : Entry) (t : List Entry) (d : Nat)
    (hq : s.queue = h :: t) (ho : h.owner = some (me s w))
    (hl : (∃ id, s.loc w = .claimed h.eid id) ∨ (∃ op, s.loc w = .ready h.eid op))
    (hd : d < s.lease) :
    let s1 := (step f s (.extend w)).1
    let s2 := (step f s1 (.tick d)).1
    (step f s2 (.claim w')).1 = s2 := by
  intro s1 s2
  obtain ⟨_, hhead, hnow, hlease⟩ := extend_renews_lease f s w h t hq ho hl
  have hq1 : ∃ h1 t1, s1.queue = h1 :: t1 ∧ h1.owner = some (me s w) ∧ h1.until_ = s.now + s.lease := by
    cases hq1 : s1.queue with
    | nil => simp [s1, hq1] at hhead
    | cons h1 t1 =>
      simp only [s1, hq1, List.head?_cons, Option.map_some, Option.some.injEq, Prod.mk.injEq] at hhead
      exact ⟨h1, t1, rfl, hhead.2.1, hhead.2.2⟩
  obtain ⟨h1, t1, hq1, ho1, hu1⟩ := hq1
  have hq2 : s2.queue = h1 :: t1 := by simp [s2, step, hq1]
  have hn2 : s2.now = s.now + d := by
    have : s2.now = s1.now + d := by simp [s2, step]
    rw [this]; show (step f s (.extend w)).1.now + d = s.now + d; rw [hnow]
  exact (live_lease_excludes_others f s2 w' h1 t1 hq2 (by rw [ho1]; simp) (by rw [hn2, hu1]; omega)).1

/-- A heartbeat that sets the end of the lease to `now` instead (the two time arguments swapped)
gives the claim away at once: shown on the as-is model by replacing the heartbeat by the expiry of
the lease — the other worker takes the entry over while the first is still replaying it. -/
example :
    (outs false (init 10) [.commit [.put 0 [1]], .claim 0, .readChunks 0, .extend 0, .tick 3, .claim 1]).getLast? = some .claimBusy ∧
    (outs false (init 10) [.commit [.put 0 [1]], .claim 0, .readChunks 0, .leaseExpire, .claim 1]).getLast? = some (.claimed 0 2) := by
  decide

-- ================================================================ T1: step granularity

open Pithos.Gen.OutboxPart in
/-- Each worker transaction of outbox.go contains exactly the one repository call the model's
step stands for, and is a write transaction where the model mutates the table. -/
theorem tx_granularity :
    txClaim = ("false", ["ClaimFirstPartOutboxEntry"]) ∧
    txFinalize = ("false", ["DeletePartOutboxEntryByClaimOwner"]) ∧
    txRelease = ("false", ["ReleasePartOutboxEntryClaim"]) ∧
    txHeartbeat = ("false", ["ExtendPartOutboxEntryClaim"]) := by
  decide

open Pithos.Gen.OutboxPart in
/-- The inner mutation of a tx-free inner store is called with a nil transaction, outside every
`WithTx` body (so it is NOT atomic with finalize — the model's separate `innerWrite` step), and the
chunk reader lives in a read-only transaction. -/
theorem inner_mutation_is_tx_free :
    replayPutInnerTxArg = "nil" ∧ replayPutInnerInsideWithTx = false ∧
    replayDeleteInnerTxArg = "nil" ∧ replayDeleteInnerInsideWithTx = false ∧
    replayPutFallbackTxArg = "tx" ∧ replayDeleteFallbackTxArg = "tx" ∧
    replayPutCapabilities = ["CapabilityTxFreePutPart"] ∧
    replayDeleteCapabilities = ["CapabilityTxFreeDeletePart"] ∧
    replayPutReadTxReadOnly = "true" := by
  decide

open Pithos.Gen.OutboxPart in
/-- The reads consult the newest outbox entry first and fall back to the inner store. -/
theorem reads_consult_outbox_first :
    getPartCalls = ["partOutboxEntryRepository.FindLastPartOutboxEntryByPartId", "innerPartStore.GetPart",
                    "partOutboxEntryRepository.FindPartOutboxEntryChunkByIndexWithEntryPresence"] ∧
    getPartIdsCalls = ["partOutboxEntryRepository.FindLastPartOutboxEntryGroupedByPartId",
                       "innerPartStore.GetPartIds"] := by
  decide

open Pithos.Gen.OutboxPart in
/-- The order of the worker's steps in `maybeProcessOutboxEntries`. -/
theorem worker_step_order :
    processOrder = ["claimNextOutboxEntry", "startPartOutboxHeartbeat", "replayPutPart", "replayDeletePart",
                    "stopHeartbeat", "releasePartOutboxEntry", "finalizePartOutboxEntry"] := by
  decide

open Pithos.Gen.OutboxPart in
/-- The SQL the model's guards mirror. -/
theorem sql_guards :
    sqlFindFirstOrder = "ORDER BY id ASC LIMIT 1" ∧
    sqlFindLastOrder = "ORDER BY id DESC LIMIT 1" ∧
    sqlClaimWhere = "id = $4 AND outbox_id = $5 AND version = $6 AND (claim_owner IS NULL OR claim_until <= $7)" ∧
    sqlFinalizeWhere = "id = $1 AND outbox_id = $2 AND claim_owner = $3" ∧
    sqlReleaseWhere = "id = $2 AND outbox_id = $3 AND claim_owner = $4" ∧
    sqlExtendWhere = "id = $3 AND outbox_id = $4 AND claim_owner = $5" := by
  decide

open Pithos.Gen.OutboxPart in
/-- Data flow of the lease statements: which Go argument reaches which column. `claim_until` is
written from `claimUntil`, compared with `now`; `updated_at` is `now`; the row is addressed by
id, outbox id and (finalize / release / extend) the claim owner. A swap of `now` and `claimUntil`
changes no statement text — it changes this table. -/
theorem sql_bindings :
    bindClaim = [("set:claim_owner", "owner"), ("set:claim_until", "claimUntil"), ("set:updated_at", "now"),
                 ("where:id=", "entry.Id.String()"), ("where:outbox_id=", "outboxId"), ("where:version=", "entry.Version"),
                 ("where:claim_until<=", "now")] ∧
    bindFinalize = [("where:id=", "id.String()"), ("where:outbox_id=", "outboxId"), ("where:claim_owner=", "owner")] ∧
    bindRelease = [("set:updated_at", "now"), ("where:id=", "id.String()"), ("where:outbox_id=", "outboxId"),
                   ("where:claim_owner=", "owner")] ∧
    bindExtend = [("set:claim_until", "claimUntil"), ("set:updated_at", "now"), ("where:id=", "id.String()"),
                  ("where:outbox_id=", "outboxId"), ("where:claim_owner=", "owner")] := by
  decide

open Pithos.Gen.OutboxPart in
/-- … and outbox.go hands the repository `now` and `now + lease` in the repository's parameter order. -/
theorem lease_times_passed_in_order :
    sigClaim = ["ctx", "tx", "outboxId", "owner", "now", "claimUntil"] ∧
    callClaimArgs = ["ctx", "tx.SqlTx()", "obs.outboxId", "obs.claimOwner", "now", "now.Add(obs.claimLeaseDuration)"] ∧
    sigExtend = ["ctx", "tx", "outboxId", "id", "owner", "now", "claimUntil"] ∧
    callExtendArgs = ["ctx", "tx.SqlTx()", "obs.outboxId", "*entry.Id", "obs.claimOwner", "now",
                      "now.Add(obs.claimLeaseDuration)"] := by
  decide

end Pithos.C18
