/-
C09 — unreferenced parts are eventually reclaimed.

Property theorems only.  Model: `Pithos.Model.Parts` (`gcRun` = one pass of
`runGCWithContext` with nothing else running and every deletion succeeding; `gcRunF fail` = a pass
in which the post-commit deletions of the ids in `fail` fail).  Lemmas: `Pithos.Lemmas.PartsGC`.

Liveness is stated as bounded-step convergence: from every state satisfying `RefInv` — by C08
(`Pithos.C08.refinv_run`) that is every state reachable by any interleaving of writer
transactions, failed/rolled-back transactions (no step at all), orphaned bytes left by crashed
transactions (`Act.orphan`), condemned-but-not-yet-deleted parts that were forgotten
(`Act.gcExtDrop`) and collector steps — with no deletion queued and every *unreferenced* stored
part older than the grace window, ONE pass reaches the exact state; a second pass changes nothing.
One pass suffices because reconciliation and dedup pruning run before the sweep inside the same
pass; after a pass with failing deletions the next pass finishes the job.
-/
import Pithos.Lemmas.PartsGC
import Pithos.Gen.PartsSql

namespace Pithos.C09
open Pithos.Parts

/-- **gc_pass_preserves_refinv.** A whole pass (with any set of failing deletions) keeps `RefInv`
and changes no part row. -/
theorem gc_pass_preserves_refinv (cfg : Cfg) (fail : PartId → Bool) (s : St) (h : RefInv s)
    (hx : s.gcExt = []) :
    RefInv (gcRunF cfg fail s) ∧ (gcRunF cfg fail s).rows = s.rows ∧ (gcRunF cfg fail s).gcExt = [] := by
  have w := gcRunF_weak cfg fail h hx
  exact ⟨w.inv, w.rows, w.ext⟩

/-- **gc_converges.** From any state satisfying `RefInv` with nothing queued and every
unreferenced stored part older than the grace window, one pass yields:
every configured store holds exactly the ids referenced by a part row naming that store; the
registry holds exactly the referenced ids, with the exact counts; every dedup-index entry points
to a referenced part and every (store, content) group of rows has an entry; no row changed. -/
theorem gc_converges (cfg : Cfg) (s : St) (h : RefInv s) (hx : s.gcExt = []) (hold : OrphansOld cfg s) :
    (gcRun cfg s).rows = s.rows ∧
    (∀ st ∈ cfg.storeNames, ∀ p,
        (gcRun cfg s).stores st p ≠ none ↔ ∃ r ∈ s.rows, r.pid = p ∧ r.store = st) ∧
    (∀ p, (gcRun cfg s).reg p ≠ none ↔ 0 < refs s.rows p) ∧
    (∀ p c v, (gcRun cfg s).reg p = some (c, v) → c = refs s.rows p) ∧
    (∀ st ck p, (gcRun cfg s).idx st ck = some p → 0 < refs s.rows p) ∧
    (∀ r ∈ s.rows, ∀ ck, r.ck = some ck → (gcRun cfg s).idx r.store ck ≠ none) ∧
    (gcRun cfg s).gcExt = [] ∧ (gcRun cfg s).gcObs = [] := by
  have sp := gcRun_spec cfg h hx
  have hrows : (gcRun cfg s).rows = s.rows := sp.rows
  refine ⟨hrows, fun st hst p => gcRun_stores_exact cfg h hx hold st hst p, ?_, ?_, ?_, ?_, sp.ext, sp.obs⟩
  · intro p; rw [← hrows]; exact reg_iff_refs sp.inv p
  · intro p c v hr; rw [← hrows]; exact reg_count sp.inv p c v hr
  · intro st ck p hi; rw [← hrows]; exact idx_target_referenced sp.inv st ck p hi
  · intro r hr ck hck
    rw [sp.idx r.store ck]
    exact gcDedupIdx_complete s r hr ck hck

/-- **gc_idempotent.** A second pass changes nothing (equality of states, versions included) —
with or without the age hypothesis. -/
theorem gc_idempotent (cfg : Cfg) (s : St) (h : RefInv s) (hx : s.gcExt = []) :
    gcRun cfg (gcRun cfg s) = gcRun cfg s :=
  gcRun_idem cfg h hx

/-- **gc_converges_from_reachable.** The same for every state reachable by any interleaving of
the atomic steps (C08's `refinv_run`), once nothing is queued. -/
theorem gc_converges_from_reachable (cfg : Cfg) (hq : cfg.sql.Sound) (acts : List Act)
    (hx : (run cfg St.init acts).gcExt = []) (hold : OrphansOld cfg (run cfg St.init acts)) :
    ∀ st ∈ cfg.storeNames, ∀ p,
      (gcRun cfg (run cfg St.init acts)).stores st p ≠ none ↔
        ∃ r ∈ (run cfg St.init acts).rows, r.pid = p ∧ r.store = st :=
  (gc_converges cfg _ (run_inv cfg hq refinv_init acts) hx hold).2.1

/-- T1: the statements of the current tree meet the hypothesis of `gc_converges_from_reachable`. -/
theorem regenerated_sql_facts_sound : Pithos.Gen.partsSql.Sound := by decide

/-- **gc_converges_after_failed_pass.** If the deletions of an arbitrary set of ids fail in one
pass ("post-commit part deletion failed; leaving orphan for next GC"), the next fault-free pass
converges all the same. -/
theorem gc_converges_after_failed_pass (cfg : Cfg) (fail : PartId → Bool) (s : St) (h : RefInv s)
    (hx : s.gcExt = []) (hold : OrphansOld cfg s) :
    ∀ st ∈ cfg.storeNames, ∀ p,
      (gcRun cfg (gcRunF cfg fail s)).stores st p ≠ none ↔ ∃ r ∈ s.rows, r.pid = p ∧ r.store = st := by
  have w := gcRunF_weak cfg fail h hx
  have hold' : OrphansOld cfg (gcRunF cfg fail s) := by
    intro st p tm hs h0
    rw [w.now]
    rcases w.stores st p with hn | he
    · rw [hn] at hs; cases hs
    · rw [he] at hs
      rw [w.rows] at h0
      exact hold st p tm hs h0
  have := (gc_converges cfg _ w.inv w.ext hold').2.1
  intro st hst p
  rw [this st hst p, w.rows]
  rfl

/-- **grace_window_respected** (why the age hypothesis is there, and non-vacuity of the model's
age filter): an orphan younger than the grace window survives the pass; once older it is removed. -/
theorem grace_window_respected :
    let cfg : Cfg := ⟨5, [0], fun _ => true, Pithos.Gen.partsSql⟩
    let s := run cfg St.init [.tx [.dedupe 0 7 0, .save 0 0 (some 7)], .orphan 0 9]
    ((gcRun cfg s).stores 0 9).isSome = true ∧
    ((gcRun cfg (step cfg s (.tick 6))).stores 0 9).isNone = true ∧
    ((gcRun cfg (step cfg s (.tick 6))).stores 0 0).isSome = true := by
  decide

/-- Non-vacuity of `gc_converges`: a reachable state with an orphan in each of two stores (one
deleting inside the transaction, one after it), a dedup-shared part and a deleted owner meets the
hypotheses' shape, and the pass leaves exactly the referenced part. -/
example :
    let cfg : Cfg := ⟨1, [0, 1], fun st => st == 1, Pithos.Gen.partsSql⟩
    let s := run cfg St.init
      [.tx [.dedupe 0 7 0, .save 0 0 (some 7)], .tx [.dedupe 0 7 1, .save 1 0 (some 7)],
       .tx [.rawput 1 2, .save 2 0 none], .orphan 0 8, .orphan 1 9, .tx [.rm 2 none], .tick 3]
    let u := gcRun cfg s
    s.gcExt = [] ∧ (s.stores 0 8).isSome ∧ (s.stores 1 9).isSome ∧
    u.stores 0 8 = none ∧ u.stores 1 9 = none ∧ u.stores 1 2 = none ∧ (u.stores 0 0).isSome ∧
    u.reg 0 = some (2, 2) ∧ u.reg 2 = none ∧ u.idx 0 7 = some 0 := by
  decide

end Pithos.C09
