/-
C11, tags of a *version* — PutObjectTagging / DeleteObjectTagging addressed by version id set exactly
the supplied tag set on exactly that version, and a tagging call (by key or by version id) changes
nothing else in the bucket: not the content, ETag, metadata, content type, storage class, version
ids, current-version flags or delete markers of any row.
-/
import Pithos.Lemmas.S3ByVid
import Pithos.Lemmas.S3Step

namespace Pithos.C11
open Pithos.S3

/-- What `resolve` by version id returns is a non-marker row that `rowByVid` finds. -/
theorem resolve_version {bk : Bucket} {k : String} {v : Option Nat} {r : Row}
    (h : resolve bk k (some v) = .ok r) : rowByVid bk k v = some r ∧ r.dm = false := by
  simp only [resolve] at h
  cases hl : rowByVid bk k v with
  | none => simp [hl] at h
  | some r0 =>
    simp only [hl] at h
    by_cases hd : r0.dm = true
    · simp [hd] at h
    · simp only [hd, Bool.false_eq_true, if_false] at h
      injection h with h
      subst h
      exact ⟨rfl, by simpa using hd⟩

/-- **put_tagging_version_sets_exactly.** An acknowledged PutObjectTagging on the version `vid`
(the null version or a numbered one, current or not) makes GetObjectTagging of that version return
exactly the supplied set. Every state satisfying the row invariant, every quirk setting. -/
theorem put_tagging_version_sets_exactly (q : Quirks) (s s1 : State) (hinv : Inv s) (b k : String)
    (vid : Option Nat) (tags : Pairs) (hack : step q s (.putTags b k (some vid) tags) = (s1, .unit)) :
    (step q s1 (.getTags b k (some vid))).2 = .tags tags := by
  have hfbt : ∀ x, findBucket { s with clock := s.clock + 1 } x = findBucket s x := fun _ => rfl
  simp only [step, stepT, hfbt] at hack
  cases hfb : findBucket s b with
  | none => simp [hfb] at hack
  | some bk =>
    simp only [hfb] at hack
    cases hres : resolve bk k (some vid) with
    | error e => simp [hres] at hack
    | ok r =>
      simp only [hres, Prod.mk.injEq, and_true] at hack
      subst hack
      have hbk := hinv bk (findBucket_mem hfb)
      obtain ⟨hl, hd⟩ := resolve_version hres
      generalize hy : touch q (s.clock + 1) { r with tags := tags } = y
      have hl' : rowByVid (replaceRow bk y) k vid = some y :=
        rowByVid_repl_keep hbk hl (by rw [← hy]; simp [touch]) (by rw [← hy]; simp [touch]) (by rw [← hy]; simp [touch])
      have hfb2 : findBucket (setBucket { s with clock := s.clock + 1 } (replaceRow bk y)) b = some (replaceRow bk y) :=
        findBucket_setBucket (hfb : findBucket { s with clock := s.clock + 1 } b = some bk)
          (by rw [replaceRow_name]; exact findBucket_some_name hfb)
      have hfb3 : findBucket { (setBucket { s with clock := s.clock + 1 } (replaceRow bk y)) with
          clock := (setBucket { s with clock := s.clock + 1 } (replaceRow bk y)).clock + 1 } b
          = some (replaceRow bk y) := hfb2
      have hdy : y.dm = false := by rw [← hy]; simpa [touch] using hd
      have hty : y.tags = tags := by rw [← hy]; simp [touch]
      simp only [step, stepT, hfb3, resolve, hl']
      simp [hdy, hty]

/-- **delete_tagging_version_clears.** An acknowledged DeleteObjectTagging on the version `vid` makes
GetObjectTagging of that version return the empty set. -/
theorem delete_tagging_version_clears (q : Quirks) (s s1 : State) (hinv : Inv s) (b k : String)
    (vid : Option Nat) (hack : step q s (.delTags b k (some vid)) = (s1, .unit)) :
    (step q s1 (.getTags b k (some vid))).2 = .tags [] := by
  have hfbt : ∀ x, findBucket { s with clock := s.clock + 1 } x = findBucket s x := fun _ => rfl
  simp only [step, stepT, hfbt] at hack
  cases hfb : findBucket s b with
  | none => simp [hfb] at hack
  | some bk =>
    simp only [hfb] at hack
    cases hres : resolve bk k (some vid) with
    | error e => simp [hres] at hack
    | ok r =>
      simp only [hres, Prod.mk.injEq, and_true] at hack
      subst hack
      have hbk := hinv bk (findBucket_mem hfb)
      obtain ⟨hl, hd⟩ := resolve_version hres
      generalize hy : touch q (s.clock + 1) { r with tags := [] } = y
      have hl' : rowByVid (replaceRow bk y) k vid = some y :=
        rowByVid_repl_keep hbk hl (by rw [← hy]; simp [touch]) (by rw [← hy]; simp [touch]) (by rw [← hy]; simp [touch])
      have hfb2 : findBucket (setBucket { s with clock := s.clock + 1 } (replaceRow bk y)) b = some (replaceRow bk y) :=
        findBucket_setBucket (hfb : findBucket { s with clock := s.clock + 1 } b = some bk)
          (by rw [replaceRow_name]; exact findBucket_some_name hfb)
      have hfb3 : findBucket { (setBucket { s with clock := s.clock + 1 } (replaceRow bk y)) with
          clock := (setBucket { s with clock := s.clock + 1 } (replaceRow bk y)).clock + 1 } b
          = some (replaceRow bk y) := hfb2
      have hdy : y.dm = false := by rw [← hy]; simpa [touch] using hd
      have hty : y.tags = [] := by rw [← hy]; simp [touch]
      simp only [step, stepT, hfb3, resolve, hl']
      simp [hdy, hty]

/-- Everything about a row that a tagging call must not change. -/
def keepT (r : Row) :=
  (r.rowId, r.key, r.vid, r.latest, r.dm, r.content, r.etag, r.md, r.ct, r.cls)

/-- What `resolve` returns is a row of the bucket. -/
theorem resolve_mem {bk : Bucket} {k : String} {vid : Option (Option Nat)} {r : Row}
    (h : resolve bk k vid = .ok r) : r ∈ bk.rows := by
  cases vid with
  | some v => exact (rowByVid_mem (resolve_version h).1).1
  | none =>
    simp only [resolve] at h
    cases hl : latestRow bk k with
    | none => simp [hl] at h
    | some r0 =>
      simp only [hl] at h
      by_cases hd : r0.dm = true
      · simp [hd] at h
      · simp only [hd, Bool.false_eq_true, if_false] at h
        injection h with h
        subst h
        exact (latestRow_some hl).1

private theorem repl_keepT {n : Nat} {bk : Bucket} (hbk : RowsInv n bk.rows) {r : Row} (hr : r ∈ bk.rows)
    (y : Row) (hyid : y.rowId = r.rowId) (hyk : keepT y = keepT r) :
    (replaceRow bk y).rows.map keepT = bk.rows.map keepT := by
  rw [replaceRow_rows]
  unfold repl
  rw [List.map_map]
  apply List.map_congr_left
  intro x hx
  by_cases hxy : x.rowId = y.rowId
  · have hxr : x = r := eq_of_id_eq hbk.nodup hx hr (hxy.trans hyid)
    subst hxr
    simp [hxy, hyk]
  · simp [hxy]

/-- **tagging_changes_only_tags (whole bucket).** An acknowledged PutObjectTagging or
DeleteObjectTagging — by key or by version id — leaves, for every row of the bucket and in the same
order, the key, version id, current-version flag, delete-marker flag, content, ETag, metadata,
content type and storage class unchanged. -/
theorem tagging_changes_only_tags (q : Quirks) (s s1 : State) (hinv : Inv s) (b k : String)
    (vid : Option (Option Nat)) (op : Op)
    (hop : (∃ tags, op = .putTags b k vid tags) ∨ op = .delTags b k vid)
    (bk : Bucket) (hfb : findBucket s b = some bk) (hack : step q s op = (s1, .unit)) :
    ∃ bk1, findBucket s1 b = some bk1 ∧ bk1.rows.map keepT = bk.rows.map keepT := by
  have hfbt : ∀ x, findBucket { s with clock := s.clock + 1 } x = findBucket s x := fun _ => rfl
  have hname := findBucket_some_name hfb
  have hbk := hinv bk (findBucket_mem hfb)
  have fin : ∀ r ∈ bk.rows, ∀ y : Row, y.rowId = r.rowId → keepT y = keepT r →
      s1 = setBucket { s with clock := s.clock + 1 } (replaceRow bk y) →
      ∃ bk1, findBucket s1 b = some bk1 ∧ bk1.rows.map keepT = bk.rows.map keepT := by
    intro r hr y hyid hyk h
    subst h
    exact ⟨_, findBucket_setBucket (s := { s with clock := s.clock + 1 }) hfb
      (by rw [replaceRow_name, hname]), repl_keepT hbk hr y hyid hyk⟩
  rcases hop with ⟨tags, rfl⟩ | rfl
  · simp only [step, stepT, hfbt, hfb] at hack
    cases hres : resolve bk k vid with
    | error e => simp [hres] at hack
    | ok r =>
      simp only [hres, Prod.mk.injEq, and_true] at hack
      exact fin r (resolve_mem hres) _ (by simp [touch]) (by simp [keepT, touch, Row.content]) hack.symm
  · simp only [step, stepT, hfbt, hfb] at hack
    cases hres : resolve bk k vid with
    | error e => simp [hres] at hack
    | ok r =>
      simp only [hres, Prod.mk.injEq, and_true] at hack
      exact fin r (resolve_mem hres) _ (by simp [touch]) (by simp [keepT, touch, Row.content]) hack.symm

/-- Non-vacuity: in a versioned bucket, tagging the noncurrent first version by its id succeeds and
is what GetObjectTagging of that version returns, while the current version keeps its own tags. -/
example :
    let s := (run Quirks.code {} [.mkb "b", .setVer "b" .enabled,
      .put "b" "k" [1] {} false .none, .put "b" "k" [2] {} false .none]).1
    (step Quirks.code s (.putTags "b" "k" (some (some 0)) [("a", "x")])).2 = .unit ∧
    (step Quirks.code (step Quirks.code s (.putTags "b" "k" (some (some 0)) [("a", "x")])).1
      (.getTags "b" "k" (some (some 0)))).2 = .tags [("a", "x")] ∧
    (step Quirks.code (step Quirks.code s (.putTags "b" "k" (some (some 0)) [("a", "x")])).1
      (.getTags "b" "k" none)).2 = .tags [] := by decide

end Pithos.C11
