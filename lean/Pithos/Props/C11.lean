/-
C11 — metadata, tags and storage class follow S3 write semantics (storage API level; the HTTP
header parsing is exercised by the tie of C38/C31 and the s3h harness works below it).
In the model `md` holds the system metadata (reserved keys "!cc" "!cd" "!ce" "!cl" "!ex" "!wr")
together with the user metadata.
-/
import Pithos.Lemmas.S3Current
import Pithos.Props.C14

namespace Pithos.C11
open Pithos.S3

/-- **put_replaces_all.** After an acknowledged PutObject the object's content type, system and
user metadata, tags and storage class are exactly the supplied ones (absent ⇒ cleared), whatever the
key held before. Every reachable state, every quirk setting. -/
theorem put_replaces_all (q : Quirks) (s s1 : State) (hinv : Inv s) (b k : String) (body : Bytes) (o : WriteOpts)
    (inm : Bool) (im : IfMatch) (vid : Option Nat) (e : ETag)
    (hack : step q s (.put b k body o inm im) = (s1, .wrote vid e)) :
    ∃ v, (step q s1 (.head b k none)).2 = .obj v ∧ v.ct = o.ct ∧ v.md = o.md ∧ v.tags = o.tags ∧ v.cls = o.cls := by
  obtain ⟨bk, hfb, hp⟩ := C01.put_ack hack
  obtain ⟨bk', row, hfb', hl, _, hdm, _, _, hct, hmd, htags, hcls, _, _⟩ := putRow_current (h := inv_tick hinv) hfb hp
  obtain ⟨_, hh⟩ := get_current (q := q) hfb' hl hdm
  exact ⟨viewOf row, hh, by simp [viewOf, hct], by simp [viewOf, hmd], by simp [viewOf, htags], by simp [viewOf, hcls]⟩

/-- what CopyObject writes, given the source view and the request -/
def copyOpts (src : Row) (replaceMeta replaceTags : Bool) (o : WriteOpts) : WriteOpts :=
  { ct := if replaceMeta then o.ct else src.ct
    md := if replaceMeta then o.md else
      sortBy (fun a b => a.1 < b.1) ((src.md.filter fun p => p.1 != "!wr") ++ (o.md.filter fun p => p.1 == "!wr"))
    tags := if replaceTags then o.tags else src.tags
    cls := o.cls }

/-- **copy_directives.** After an acknowledged CopyObject the destination carries: content type and
metadata of the request under REPLACE, else those of the source — except the website redirect
location ("!wr"), which is never copied and comes only from the request; tags of the request under
the tagging directive REPLACE, else the source's; and the storage class of the request only. The
content and ETag are the source's. -/
theorem copy_directives (q : Quirks) (s s1 : State) (hinv : Inv s) (sb sk db dk : String) (svid : Option (Option Nat))
    (rm rt : Bool) (o : WriteOpts) (vid : Option Nat) (e : ETag)
    (hack : step q s (.copy sb sk svid db dk rm rt o) = (s1, .wrote vid e)) :
    ∃ sbk src v, findBucket s sb = some sbk ∧ resolve sbk sk svid = .ok src ∧
      (step q s1 (.head db dk none)).2 = .obj v ∧
      v.ct = (copyOpts src rm rt o).ct ∧ v.md = (copyOpts src rm rt o).md ∧
      v.tags = (copyOpts src rm rt o).tags ∧ v.cls = o.cls ∧ v.etag = src.etag ∧ v.size = src.size := by
  have hfbt : ∀ x, findBucket { s with clock := s.clock + 1 } x = findBucket s x := fun _ => rfl
  simp only [step, stepT, hfbt] at hack
  cases hsb : findBucket s sb with
  | none => simp [hsb] at hack
  | some sbk =>
    simp only [hsb] at hack
    cases hres : resolve sbk sk svid with
    | error err => simp [hres] at hack
    | ok src =>
      simp only [hres] at hack
      cases hdb : findBucket s db with
      | none => simp [hdb] at hack
      | some dbk =>
        simp only [hdb] at hack
        generalize hn : ({ parts := src.parts, etag := src.etag, o := _ } : NewObj) = n at hack
        cases hp : putRow q { s with clock := s.clock + 1 } dbk dk n false IfMatch.none with
        | error err => simp [hp] at hack
        | ok x =>
          obtain ⟨s', v'⟩ := x
          simp only [hp, Prod.mk.injEq, Out.wrote.injEq] at hack
          obtain ⟨hs, _, _⟩ := hack
          subst hs
          obtain ⟨bk', row, hfb', hl, _, hdm, hparts, hetag, hct, hmd, htags, hcls, _, _⟩ :=
            putRow_current (h := inv_tick hinv) (hdb : findBucket { s with clock := s.clock + 1 } db = some dbk) hp
          obtain ⟨_, hh⟩ := get_current (q := q) hfb' hl hdm
          subst hn
          refine ⟨sbk, src, viewOf row, rfl, hres, hh, ?_, ?_, ?_, ?_, ?_, ?_⟩
          · simp [viewOf, hct, copyOpts]
          · simp [viewOf, hmd, copyOpts]
          · simp [viewOf, htags, copyOpts]
          · simp [viewOf, hcls]
          · simp [viewOf, hetag]
          · simp [viewOf, Row.size, Row.content, hparts]

/-- Storage-class transitions preserve them (C14). -/
theorem transition_preserves_metadata (q : Quirks) (s s1 : State) (hinv : Inv s) (b k cls : String)
    (hack : step q s (.transition b k cls none) = (s1, .unit)) :
    ∃ v0 v1, (step q s (.get b k none)).2 = .obj v0 ∧ (step q s1 (.get b k none)).2 = .obj v1 ∧
      v1.ct = v0.ct ∧ v1.md = v0.md ∧ v1.tags = v0.tags := by
  obtain ⟨v0, v1, h0, h1, _, _, _, _, hct, hmd, htags, _⟩ := C14.transition_preserves q s s1 hinv b k cls hack
  exact ⟨v0, v1, h0, h1, hct, hmd, htags⟩

/-- **Negation witness for the code before /repo 8a5dc41** (`appendEnabledDropsMeta`): an append in
a versioning-enabled bucket wrote the new version without the object's metadata, tags and class;
since the fix (`Quirks.code`) they are preserved. -/
theorem before_fix_append_drops_metadata :
    let ops : List Op := [.mkb "b", .setVer "b" .enabled,
      .put "b" "k" [1] { ct := some "t", md := [("a", "1")], tags := [("t", "v")], cls := some "STANDARD_IA" } false .none,
      .append "b" "k" [2] none]
    (match (step Quirks.beforeAppendFix (run Quirks.beforeAppendFix {} ops).1 (.head "b" "k" none)).2 with
     | .obj v => (v.md, v.tags, v.cls) | _ => ([], [], none)) = ([], [], none) ∧
    (match (step Quirks.code (run Quirks.code {} ops).1 (.head "b" "k" none)).2 with
     | .obj v => (v.md, v.tags, v.cls) | _ => ([], [], none)) = ([("a", "1")], [("t", "v")], some "STANDARD_IA") := by
  decide

/-- Non-vacuity of `copy_directives`: a copy with metadata directive COPY and a redirect on the request. -/
example : (step Quirks.code (run Quirks.code {} [.mkb "b",
      .put "b" "k" [1] { ct := some "t", md := [("!wr", "/old"), ("a", "1")] } false .none]).1
    (.copy "b" "k" none "b" "k2" false false { md := [("!wr", "/new")] })).2 = .wrote none (singleETag [1]) := by decide

end Pithos.C11
