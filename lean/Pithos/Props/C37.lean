/-
C37 — storage migration copies every object faithfully.

Model: `Pithos.Model.Migrator` (mirrors internal/storage/migrator/migrator.go; the destination is
written through `S3.step`, the shared storage model). Which attributes are carried is computed from
the T1 table `Pithos.Gen.MigratorFlow`, regenerated from the Go source on every run.
Helper lemmas: `Pithos.Lemmas.Migrator`.
-/
import Pithos.Lemmas.Migrator

namespace Pithos.C37
open Pithos.S3 Pithos.Migrator

/-! ### T1: which attributes flow from the source object into the destination's storage calls -/

/-- **migrate_fields_complete.** Every attribute the property names flows, in the current source, from
the source object through `s3.PutObjectInput` and the uploader adapter into the destination's
`PutObject` (single-put path) and — separately — into its `CreateMultipartUpload`/`UploadPart` (multipart
path, objects above the 5 MiB part size); on both paths the options struct that carries it is built
whenever the attribute is present (the guarding condition tests its value). -/
theorem migrate_fields_complete :
    ∀ f ∈ observableFields, flowsPut genTable f = true ∧ flowsMultipart genTable f = true := by decide

/-- … in particular each of them is among the attributes the model carries. -/
theorem migrate_fields_complete_carried : ∀ f ∈ observableFields, f ∈ migratedFields genTable := by decide

/-- The current table has no gap (before /repo commit ae066fa it was `[.storageClass]`). -/
theorem current_gap : observableFields.filter (fun f => !flows genTable f) = [] := by decide

theorem current_carried : migratedFields genTable = [.content, .contentType, .cacheControl, .contentDisposition,
    .contentEncoding, .contentLanguage, .expires, .websiteRedirect, .userMetadata, .tags, .storageClass] := by decide

/-- `Expires` is the one attribute converted on the way (`parseExpires`, then `Format(http.TimeFormat)`):
it survives exactly when it is a fixed point of that conversion. -/
theorem expires_is_converted : (conversions genTable .expires).contains "parseExpires" = true := by decide

/-- The table of the migrator before the repair (/repo commit ae066fa): the current one without the
`StorageClass` assignment and adapter options. Kept so that the witnesses of the recorded defect stay
provable. -/
def preFixTable : FlowTable :=
  { genTable with
    inputAssignments := genTable.inputAssignments.filter (fun a => a.1 != "StorageClass"),
    adapterFlows := genTable.adapterFlows.filter (fun a => a.2.1 != "StorageClass"),
    optionValues := genTable.optionValues.filter (fun a => a.2.1 != "StorageClass") }

/-- Negation witness (code before the repair): the storage class was the one attribute not carried. -/
theorem preFix_storage_class_not_migrated :
    observableFields.filter (fun f => !flows preFixTable f) = [.storageClass] := by decide

/-- The destination-emptiness test lists every object of the destination bucket (the paginating helper
`storage.ListAllObjectsOfBucket`: no delimiter, no prefix, no page limit) and refuses as soon as there is
one — this is what `Migrator.hasCurrent` models: any current object, whatever the shape of its key. -/
theorem destination_probe_lists_every_object :
    Gen.MigratorFlow.destinationProbe = "storage.ListAllObjectsOfBucket(ctx, destination, bucketName)" ∧
    Gen.MigratorFlow.destinationNotEmptyCondition = "len(destinationObjects) != 0" := by decide

/-! ### Migration over two storage states -/

/-- Every destination bucket that held a current object before is exactly as it was. -/
def Untouched (dst d : State) : Prop := ∀ n, hasCurrent dst n = true → findBucket d n = findBucket dst n

theorem untouched_createMissing (q : Quirks) (dst : State) (names : List String) :
    Untouched dst (createMissing q dst names) := by
  intro n hn
  rw [createMissing_find]
  cases h : findBucket dst n with
  | some bk => simp
  | none => unfold hasCurrent at hn; rw [h] at hn; cases hn

theorem migrateBuckets_untouched (q : Quirks) (P : Params) (dst : State) (bks : List Bucket) (d : State)
    (hI : Untouched dst d) : Untouched dst (migrateBuckets q P d bks).dst := by
  induction bks generalizing d with
  | nil => exact hI
  | cons bk rest ih =>
    unfold migrateBuckets
    by_cases hc : hasCurrent d bk.name = true
    · simp only [hc, if_true]; exact hI
    · simp only [hc, Bool.false_eq_true, if_false]
      apply ih
      intro n hn
      have hne : n ≠ bk.name := by
        intro h; subst h
        exact hc ((hasCurrent_congr (hI _ hn)).trans hn)
      rw [migrateBucket_other q P bk.name _ d n hne]
      exact hI n hn

theorem migrateBuckets_blocked (q : Quirks) (P : Params) (dst : State) (bks : List Bucket) (d : State)
    (hI : Untouched dst d) (hex : ∃ bk ∈ bks, hasCurrent dst bk.name = true) :
    (migrateBuckets q P d bks).ok = false := by
  induction bks generalizing d with
  | nil => obtain ⟨_, h, _⟩ := hex; cases h
  | cons bk rest ih =>
    unfold migrateBuckets
    by_cases hc : hasCurrent d bk.name = true
    · simp only [hc, if_true]
    · simp only [hc, Bool.false_eq_true, if_false]
      have hI' : Untouched dst (migrateBucket q P d bk.name (currentRows bk)) := by
        intro n hn
        have hne : n ≠ bk.name := by
          intro h; subst h
          exact hc ((hasCurrent_congr (hI _ hn)).trans hn)
        rw [migrateBucket_other q P bk.name _ d n hne]
        exact hI n hn
      apply ih _ hI'
      obtain ⟨b, hb, hcur⟩ := hex
      rcases List.mem_cons.1 hb with rfl | hb
      · exact absurd ((hasCurrent_congr (hI _ hcur)).trans hcur) hc
      · exact ⟨b, hb, hcur⟩

/-- **never_overwrites.** Whatever the source and the destination are and however the run ends, every
object that was current in the destination before the migration is still there, unchanged. -/
theorem never_overwrites (q : Quirks) (P : Params) (src dst : State) (b k : String) (v : View)
    (hv : cur dst b k = some v) : cur (migrate q P src dst).dst b k = some v := by
  unfold migrate
  have h0 := untouched_createMissing q dst (src.buckets.map (·.name))
  have hu := migrateBuckets_untouched q P dst src.buckets _ h0 b (hasCurrent_of_cur hv)
  rw [cur_congr hu k]; exact hv

/-- **nonempty_dst_fails_unchanged.** If the destination has a bucket of a source bucket's name that
lists a current object, the migration fails, and nothing that was in the destination is overwritten
(for every source state, every destination state, every set of carried attributes). -/
theorem nonempty_dst_fails_unchanged (q : Quirks) (P : Params) (src dst : State)
    (hex : ∃ bk ∈ src.buckets, hasCurrent dst bk.name = true) :
    (migrate q P src dst).ok = false ∧
    ∀ b k v, cur dst b k = some v → cur (migrate q P src dst).dst b k = some v := by
  refine ⟨?_, fun b k v hv => never_overwrites q P src dst b k v hv⟩
  unfold migrate
  exact migrateBuckets_blocked q P dst _ _ (untouched_createMissing q dst _) hex

/-- Well-formed source: distinct bucket names, at most one latest row per key (what every reachable
storage state satisfies; `ListBuckets`/`ListObjects` never show duplicates). -/
def SrcWF (src : State) : Prop :=
  (src.buckets.map (·.name)).Nodup ∧ ∀ bk ∈ src.buckets, LatestUnique bk

/-- **migrate_into_empty** (any set of carried attributes `P`). Migrating into a destination without
buckets succeeds, and for every source bucket and every key the destination's current object is the
source's current object as `P` carries it — in particular absent exactly when the source has none. -/
theorem migrate_into_empty (q : Quirks) (P : Params) (src dst : State) (hdst : dst.buckets = [])
    (hwf : SrcWF src) :
    (migrate q P src dst).ok = true ∧
    ∀ bk ∈ src.buckets, ∀ k, cur (migrate q P src dst).dst bk.name k = (cur src bk.name k).map (carry P) := by
  have hfresh : ∀ bk ∈ src.buckets,
      findBucket (createMissing q dst (src.buckets.map (·.name))) bk.name = some { name := bk.name } := by
    intro bk hbk
    rw [createMissing_find]
    have : findBucket dst bk.name = none := by unfold findBucket; rw [hdst]; rfl
    rw [this]
    have hm : bk.name ∈ src.buckets.map (·.name) := List.mem_map_of_mem hbk
    simp [hm]
  have hkeys : ∀ bk ∈ src.buckets, ((currentRows bk).map (·.key)).Nodup :=
    fun bk hbk => currentKeys_nodup bk.rows (hwf.2 bk hbk)
  obtain ⟨hok, hspec⟩ := migrateBuckets_spec q P src.buckets _ hwf.1 hkeys hfresh
  unfold migrate
  refine ⟨hok, ?_⟩
  intro bk hbk k
  obtain ⟨bk', hb', hs', hrows'⟩ := hspec bk hbk
  rw [cur_simple _ bk.name k bk' hb' hs', hrows',
    cur_source src bk k (findBucket_of_mem src bk hwf.1 hbk) (hwf.2 bk hbk)]
  exact find_carry (carry P) (currentRows bk) k

theorem carry_ideal (v : View) : carry idealParams v = v := by
  have hmd : carryMd idealParams v.md = v.md := by
    apply carryMd_id
    · intro p _
      have := fieldOfMdKey_cases p.1
      simp only [List.mem_cons, List.mem_nil_iff, or_false] at this
      rcases this with h | h | h | h | h | h | h <;> rw [h] <;> decide
    · intro p _ _; rfl
  obtain ⟨body, ct, md, tags, cls⟩ := v
  simp only at hmd
  unfold carry
  simp only [hmd]
  simp [idealParams, observableFields]

/-- **migrate_empty_dst_equiv.** With every attribute carried and none converted (the table of the
patched migrator on objects whose `Expires` is an RFC 1123 date), migrating into an empty destination
reproduces, bucket by bucket and key by key, exactly the source's current objects: content, content
type, system and user metadata, tags and storage class. -/
theorem migrate_empty_dst_equiv (q : Quirks) (src dst : State) (hdst : dst.buckets = []) (hwf : SrcWF src) :
    (migrate q idealParams src dst).ok = true ∧
    ∀ bk ∈ src.buckets, ∀ k, cur (migrate q idealParams src dst).dst bk.name k = cur src bk.name k := by
  obtain ⟨hok, h⟩ := migrate_into_empty q idealParams src dst hdst hwf
  refine ⟨hok, fun bk hbk k => ?_⟩
  rw [h bk hbk k]
  cases cur src bk.name k with
  | none => rfl
  | some v => simp [carry_ideal]

/-- **migrate_empty_dst_equiv_partial** (the migrator as it is: the attributes of `genTable`, `Expires`
through the HTTP-date round trip `ex`). Objects whose `Expires` value that round trip leaves alone
(or that have none) arrive identical — content, content type, metadata, tags and storage class. -/
theorem migrate_empty_dst_equiv_partial (q : Quirks) (ex : String → Option String) (src dst : State)
    (hdst : dst.buckets = []) (hwf : SrcWF src) (bk : Bucket) (hbk : bk ∈ src.buckets) (k : String) (v : View)
    (hv : cur src bk.name k = some v)
    (hex : ∀ p ∈ v.md, p.1 = "!ex" → ex p.2 = some p.2) :
    cur (migrate q (codeParams genTable ex) src dst).dst bk.name k = some v := by
  obtain ⟨_, h⟩ := migrate_into_empty q (codeParams genTable ex) src dst hdst hwf
  rw [h bk hbk k, hv]
  simp only [Option.map_some, Option.some.injEq]
  have hc : (codeParams genTable ex).carried = [.content, .contentType, .cacheControl, .contentDisposition, .contentEncoding,
      .contentLanguage, .expires, .websiteRedirect, .userMetadata, .tags, .storageClass] := current_carried
  have hexf : (codeParams genTable ex).ex = ex := by
    unfold codeParams
    simp only [expires_is_converted, if_true]
  obtain ⟨body, ct, md, tags, cls⟩ := v
  simp only at hex
  have hmd : carryMd (codeParams genTable ex) md = md := by
    apply carryMd_id
    · intro p _
      rw [hc]
      have := fieldOfMdKey_cases p.1
      simp only [List.mem_cons, List.mem_nil_iff, or_false] at this
      rcases this with h | h | h | h | h | h | h <;> rw [h] <;> decide
    · intro p hp hk; rw [hexf]; exact hex p hp hk
  unfold carry
  simp only [hmd, hc]
  simp

def witnessRow : Row :=
  { rowId := 0, key := "k", vid := none, latest := true, created := 0, updated := 0, wrote := 0, parts := [[1]],
    cls := some "GLACIER" }
def witnessSrc : State := { buckets := [{ name := "b", rows := [witnessRow] }] }

/-- Negation witness for the migrator before the repair (ae066fa): a one-object source whose object is
in GLACIER arrived without its storage class (the history of harness case 0); the current table
carries it. -/
theorem preFix_loses_storage_class :
    (migrate Quirks.code (codeParams preFixTable some) witnessSrc {}).ok = true ∧
    (cur witnessSrc "b" "k").map (·.cls) = some (some "GLACIER") ∧
    (cur (migrate Quirks.code (codeParams preFixTable some) witnessSrc {}).dst "b" "k").map (·.cls) = some none ∧
    (cur (migrate Quirks.code (codeParams genTable some) witnessSrc {}).dst "b" "k").map (·.cls) = some (some "GLACIER") := by
  decide

def exRows : List Row :=
  [{ rowId := 0, key := "k", vid := some 0, latest := false, created := 0, updated := 0, wrote := 0, parts := [[1]] },
   { rowId := 1, key := "k", vid := some 1, latest := true, created := 1, updated := 1, wrote := 1, parts := [[2], [3]],
     ct := some "text/plain", md := [("!cc", "no-cache"), ("color", "x")], tags := [("t", "v")], cls := some "GLACIER" },
   { rowId := 2, key := "gone", vid := some 2, dm := true, latest := true, created := 2, updated := 2, wrote := 2 }]
def exSrc : State := { buckets := [{ name := "a", ver := .enabled, rows := exRows }, { name := "b" }] }

/-- Non-vacuity: a two-bucket source with a delete marker, a noncurrent version and a fully attributed
object satisfies `SrcWF`; its migration into the empty state reproduces it. -/
example :
    SrcWF exSrc ∧ (migrate Quirks.code idealParams exSrc {}).ok = true ∧
      cur (migrate Quirks.code idealParams exSrc {}).dst "a" "k" = cur exSrc "a" "k" ∧
      (cur exSrc "a" "k").isSome = true ∧
      cur (migrate Quirks.code idealParams exSrc {}).dst "a" "gone" = none := by
  refine ⟨⟨by decide, ?_⟩, by decide, by decide, by decide, by decide⟩
  intro bk hbk
  simp only [exSrc, List.mem_cons, List.mem_nil_iff, or_false] at hbk
  rcases hbk with rfl | rfl <;> unfold LatestUnique <;> decide

/-- `hasCurrent` does not depend on the shape of the keys: a destination bucket holding only keys below
folder-like prefixes blocks the migration like any other (the history of directed case 7). -/
def nestedRow : Row :=
  { rowId := 0, key := "photos/2024/a.jpg", vid := none, latest := true, created := 0, updated := 0, wrote := 0,
    parts := [[9]] }
def nestedOnlyDst : State := { buckets := [{ name := "a", rows := [nestedRow] }] }

theorem nested_only_destination_blocks :
    (migrate Quirks.code idealParams exSrc nestedOnlyDst).ok = false ∧
    cur (migrate Quirks.code idealParams exSrc nestedOnlyDst).dst "a" "photos/2024/a.jpg" = cur nestedOnlyDst "a" "photos/2024/a.jpg" ∧
    cur (migrate Quirks.code idealParams exSrc nestedOnlyDst).dst "a" "k" = none := by decide

/-- Non-vacuity of `nonempty_dst_fails_unchanged`: a destination bucket of a source bucket's name with
one object. -/
example : ∃ bk ∈ exSrc.buckets, hasCurrent witnessSrc bk.name = true := ⟨{ name := "b" }, by decide, by decide⟩

end Pithos.C37
