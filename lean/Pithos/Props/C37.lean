/-
C37 — storage migration copies every object faithfully.
(first cut: the T1 obligations; the state-level theorems follow below once proved)
-/
import Pithos.Model.Migrator

namespace Pithos.C37
open Pithos.S3 Pithos.Migrator

/-- Every attribute the property names except the storage class flows, in the current source, from
the source object through `s3.PutObjectInput` and the uploader adapter into the destination's
`PutObject` and multipart calls. -/
theorem migrate_fields_complete_partial :
    ∀ f ∈ observableFields, f ≠ .storageClass → f ∈ migratedFields genTable := by decide

/-- Negation witness (current source): the storage class is not carried. -/
theorem storage_class_not_migrated : Field.storageClass ∉ migratedFields genTable := by decide

/-- The only gap of the current table. Becomes `= []` once fixes/C37-*.patch is committed. -/
theorem current_gap : observableFields.filter (fun f => !flows genTable f) = [.storageClass] := by decide

/-- `Expires` is the one attribute converted on the way (`parseExpires`, then `Format(http.TimeFormat)`). -/
theorem expires_is_converted : (conversions genTable .expires).contains "parseExpires" = true := by decide

end Pithos.C37
