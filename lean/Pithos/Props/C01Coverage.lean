/-
C01 (tie, T1): the storage model covers the storage.Storage API as it is NOW. The method set is
regenerated from internal/storage/storage.go on every run (`Pithos.Gen.ObjectCache.storageMethods`);
every method must be mapped here to the model operation that represents it, or be declared out of
scope with the reason. A method added to or removed from the interface breaks these theorems — the
model would silently no longer speak about the whole API otherwise.
-/
import Pithos.Gen.ObjectCache
import Pithos.Model.S3Ext

namespace Pithos.C01

inductive Cover where
  | op (modelOp : String)          -- a constructor of `Pithos.S3.Op`
  | xop (modelOp : String)         -- a constructor of `Pithos.S3.XOp`
  | outOfScope (why : String)
  deriving Repr, DecidableEq

def coverage : List (String × Cover) := [
  ("Start", .outOfScope "process lifecycle, no object state"),
  ("Stop", .outOfScope "process lifecycle, no object state"),
  ("CreateBucket", .op "mkb"),
  ("DeleteBucket", .op "rmb"),
  ("ListBuckets", .op "listBuckets"),
  ("HeadBucket", .outOfScope "bucket existence only; the same lookup as every bucket-addressed op (NoSuchBucket theorems)"),
  ("GetBucketVersioningConfiguration", .outOfScope "getter of the state set by setVer; compared by the harness after every ver op"),
  ("PutBucketVersioningConfiguration", .op "setVer"),
  ("GetBucketWebsiteConfiguration", .outOfScope "configuration document stored verbatim (C33)"),
  ("PutBucketWebsiteConfiguration", .outOfScope "configuration document stored verbatim (C33)"),
  ("DeleteBucketWebsiteConfiguration", .outOfScope "configuration document stored verbatim (C33)"),
  ("GetBucketCORSConfiguration", .outOfScope "configuration document stored verbatim (C34)"),
  ("PutBucketCORSConfiguration", .outOfScope "configuration document stored verbatim (C34)"),
  ("DeleteBucketCORSConfiguration", .outOfScope "configuration document stored verbatim (C34)"),
  ("GetBucketLifecycleConfiguration", .outOfScope "configuration document stored verbatim (C25)"),
  ("PutBucketLifecycleConfiguration", .outOfScope "configuration document stored verbatim (C25)"),
  ("DeleteBucketLifecycleConfiguration", .outOfScope "configuration document stored verbatim (C25)"),
  ("GetBucketNotificationConfiguration", .outOfScope "configuration document stored verbatim (C22)"),
  ("PutBucketNotificationConfiguration", .outOfScope "configuration document stored verbatim (C22)"),
  ("ListObjects", .op "list"),
  ("ListObjectVersions", .op "listVersions"),
  ("HeadObject", .op "head"),
  ("GetObject", .op "get"),
  ("PutObject", .op "put"),
  ("CopyObject", .op "copy"),
  ("AppendObject", .op "append"),
  ("DeleteObject", .op "del"),
  ("DeleteObjects", .xop "delMany"),
  ("TransitionObjectStorageClass", .op "transition"),
  ("CreateMultipartUpload", .op "mpu"),
  ("UploadPart", .op "uploadPart"),
  ("UploadPartCopy", .xop "partCopy"),
  ("CompleteMultipartUpload", .op "complete"),
  ("AbortMultipartUpload", .op "abort"),
  ("ListMultipartUploads", .outOfScope "listing of pending uploads; paging rules in C06's listing model"),
  ("ListParts", .outOfScope "listing of an upload's parts; paging rules in C06's listing model"),
  ("GetObjectTagging", .op "getTags"),
  ("PutObjectTagging", .op "putTags"),
  ("DeleteObjectTagging", .op "delTags")
]

/-- The constructors of the model's operation types (kept next to the table; `op_names_exhaustive`
ties them to the inductive types by exhaustive `cases`). -/
def opNames : List String := ["mkb", "rmb", "setVer", "put", "get", "head", "del", "copy", "append", "mpu", "uploadPart",
  "complete", "abort", "getTags", "putTags", "delTags", "transition", "list", "listVersions", "listBuckets"]
def xopNames : List String := ["partCopy", "delMany"]

def opName : Pithos.S3.Op → String
  | .mkb .. => "mkb" | .rmb .. => "rmb" | .setVer .. => "setVer" | .put .. => "put" | .get .. => "get"
  | .head .. => "head" | .del .. => "del" | .copy .. => "copy" | .append .. => "append" | .mpu .. => "mpu"
  | .uploadPart .. => "uploadPart" | .complete .. => "complete" | .abort .. => "abort" | .getTags .. => "getTags"
  | .putTags .. => "putTags" | .delTags .. => "delTags" | .transition .. => "transition" | .list .. => "list"
  | .listVersions .. => "listVersions" | .listBuckets => "listBuckets"

/-- Every constructor of `Op` has a name in `opNames`. -/
theorem op_names_exhaustive (op : Pithos.S3.Op) : opName op ∈ opNames := by
  cases op <;> simp [opName, opNames]

/-- **storage_api_covered.** Every method of storage.Storage as regenerated from the sources is
mapped to a model operation or explicitly out of scope. -/
theorem storage_api_covered : ∀ m ∈ Pithos.Gen.ObjectCache.storageMethods, (coverage.lookup m).isSome = true := by
  decide

/-- No stale entries: every mapped method still exists in the interface. -/
theorem coverage_not_stale : ∀ p ∈ coverage, p.1 ∈ Pithos.Gen.ObjectCache.storageMethods := by
  decide

/-- Every mapping names an existing model operation. -/
def namesOp : Cover → Bool
  | .op n => opNames.contains n
  | .xop n => xopNames.contains n
  | .outOfScope _ => true

theorem coverage_names_ops : ∀ p ∈ coverage, namesOp p.2 = true := by
  decide

/-- …and every model operation represents at least one API method (no dead model code). -/
theorem every_op_used : ∀ n ∈ opNames, ∃ p ∈ coverage, p.2 = .op n := by
  decide

end Pithos.C01
