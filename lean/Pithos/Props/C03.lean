/-
C03 — a failed operation leaves no observable trace.

Two layers:
 * filesystem part store + TxController (model `Pithos.TxFs`): after a failing `Commit` — the
   injected error arriving before any pre-commit closure or at `tx.Commit()` itself — or after a
   failing transaction body, the part directory is what it was before the operation started and
   the database is in its `before` state. Proved for every list of PutPart/DeletePart calls and
   every fault position, for the repaired rollback order; for the order the code uses today under
   the hypothesis that no part id is used twice in the transaction, with a witness that the
   hypothesis is needed.
 * storage API (model `Pithos.S3`): an operation that answers an error leaves the state unchanged.
-/
import Pithos.Lemmas.TxFs
import Pithos.Model.S3

namespace Pithos.C03
open Pithos.TxFs

/-- **rollback_restores_files** (repaired rollback order, `rev = true`). For every list of
part-store calls, every fault position `k` (before pre-commit closure `k`, or at `tx.Commit()` when
`k ≥ regs.length`; `k = 0` is also the failing transaction body) and every directory in which the
transaction's backup/temp names are unused: the failing finalisation leaves the directory exactly
as it was — every part file, no backup file, no temp file — and the database uncommitted. -/
theorem rollback_restores_files (regs : List Reg) (k : Nat) (fs0 : Files) (h : Fresh regs 0 fs0) :
    (commitFault true regs k fs0).files = fs0 ∧ (commitFault true regs k fs0).committed = false := by
  refine ⟨?_, rfl⟩
  funext nm
  have h1 := undo_all regs 0 k (registerAll regs 0 fs0) (ready_registerAll regs 0 fs0 h) nm
  have h2 := registerAll_erased regs 0 fs0 h nm
  simp only [commitFault]
  rw [h1, h2]

/-- **rollback_restores_files_partial** (the code as it is: rollback closures run in registration
order). The same conclusion under the explicit hypothesis that no part id is used by two calls
of the transaction. -/
theorem rollback_restores_files_partial (regs : List Reg) (k : Nat) (fs0 : Files)
    (h : Fresh regs 0 fs0) (hd : DistinctIds regs) :
    (commitFault false regs k fs0).files = fs0 ∧ (commitFault false regs k fs0).committed = false := by
  refine ⟨?_, rfl⟩
  have := (rollback_restores_files regs k fs0 h).1
  simp only [commitFault] at this ⊢
  rw [rollbackLoop_fwd_eq_rev regs 0 _ _ hd]
  exact this

/-- **Negation witness for the code as it is.** A PutObject whose content already exists is
deduplicated: the transaction publishes a fresh part `5` and deletes it again (`PutPart 5`,
`DeletePart 5`). When `tx.Commit()` then fails, the forward rollback first removes the (already
renamed-away) part file and then restores the backup of the second closure: the fresh part is
left behind in a directory that did not contain it. -/
theorem forward_rollback_leaves_orphan :
    (commitFault false [.put 5 [1, 2, 3], .del 5] 2 emptyFiles).files (.part 5) = some [1, 2, 3]
    ∧ emptyFiles (.part 5) = none := by
  decide

/-- The same transaction under the repaired order is clean. -/
theorem reverse_rollback_same_input_clean :
    (commitFault true [.put 5 [1, 2, 3], .del 5] 2 emptyFiles).files (.part 5) = none := by
  decide

/-- Non-vacuity: the hypotheses of `rollback_restores_files_partial` hold for an overwrite
(new part 7 published, old part 3 deleted) on a directory that holds part 3. -/
example : Fresh [.put 7 [9], .del 3] 0 (emptyFiles.set (.part 3) (some [4])) ∧ DistinctIds [.put 7 [9], .del 3] := by
  refine ⟨by simp [Fresh, Files.set, emptyFiles, Reg.id], ?_⟩
  simp [DistinctIds, Reg.id]

/-- … and the faulted overwrite really passes through a changed directory before it is restored
(the pre-commit closures ran: part 3 renamed away, part 7 published). -/
example : (preLoop [.put 7 [9], .del 3] 0 2 (registerAll [.put 7 [9], .del 3] 0 (emptyFiles.set (.part 3) (some [4])))).1 (.part 3) = none
    ∧ (preLoop [.put 7 [9], .del 3] 0 2 (registerAll [.put 7 [9], .del 3] 0 (emptyFiles.set (.part 3) (some [4])))).1 (.part 7) = some [9] := by
  decide

/-- A successful commit of the same transaction, for contrast, does change the directory. -/
example : (commitOk [.put 7 [9], .del 3] (emptyFiles.set (.part 3) (some [4]))).files (.part 7) = some [9]
    ∧ (commitOk [.put 7 [9], .del 3] (emptyFiles.set (.part 3) (some [4]))).files (.part 3) = none
    ∧ (commitOk [.put 7 [9], .del 3] (emptyFiles.set (.part 3) (some [4]))).files (.backup 3 1) = none := by
  decide

end Pithos.C03
