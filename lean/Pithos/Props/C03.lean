/-
C03 — a failed operation leaves no observable trace.

Two layers:
 * filesystem part store + TxController (model `Pithos.TxFs`): after a failing `Commit` — the
   injected error arriving before any pre-commit closure or at `tx.Commit()` itself — or after a
   failing transaction body, the part directory is what it was before the operation started and
   the database is in its `before` state. Proved for every list of PutPart/DeletePart calls and
   every fault position, for the repaired rollback order; for the order the code uses today under
   the hypothesis that no part id is used twice in the transaction, with a witness that the
   hypothesis is needed.
 * storage API (model `Pithos.S3`): an operation that answers an error leaves the state unchanged.
-/
import Pithos.Lemmas.TxFs
import Pithos.Model.S3
import Pithos.Gen.TxFsHooks

namespace Pithos.C03
open Pithos.TxFs

/-- **rollback_restores_files** (repaired rollback order, `rev = true`). For every list of
part-store calls, every fault position `k` (before pre-commit closure `k`, or at `tx.Commit()` when
`k ≥ regs.length`; `k = 0` is also the failing transaction body) and every directory in which the
transaction's backup/temp names are unused: the failing finalisation leaves the directory exactly
as it was — every part file, no backup file, no temp file — and the database uncommitted. -/
theorem rollback_restores_files (regs : List Reg) (k : Nat) (fs0 : Files) (h : Fresh regs 0 fs0) :
    (commitFault true regs k fs0).files = fs0 ∧ (commitFault true regs k fs0).committed = false := by
  refine ⟨?_, rfl⟩
  funext nm
  have h1 := undo_all regs 0 k (registerAll regs 0 fs0) (ready_registerAll regs 0 fs0 h) nm
  have h2 := registerAll_erased regs 0 fs0 h nm
  simp only [commitFault]
  rw [h1, h2]

/-- **rollback_restores_files_partial** (the code as it is: rollback closures run in registration
order). The same conclusion under the explicit hypothesis that no part id is used by two calls
of the transaction. -/
theorem rollback_restores_files_partial (regs : List Reg) (k : Nat) (fs0 : Files)
    (h : Fresh regs 0 fs0) (hd : DistinctIds regs) :
    (commitFault false regs k fs0).files = fs0 ∧ (commitFault false regs k fs0).committed = false := by
  refine ⟨?_, rfl⟩
  have := (rollback_restores_files regs k fs0 h).1
  simp only [commitFault] at this ⊢
  rw [rollbackLoop_fwd_eq_rev regs 0 _ _ hd]
  exact this

/-- **commit_statement_failure_restores_files.** The fault position "the COMMIT statement itself
fails and leaves the SQL transaction finished": `Rollback`'s own `t.tx.Rollback()` then reports an
error, and the directory is restored all the same, because the rollback closures run whether or not
that call reports an error (`rollbackCode` ignores `sqlRollbackFails` for the files). Stated for
both values of the flag, so the theorem covers an injected error before COMMIT as well. -/
theorem commit_statement_failure_restores_files (regs : List Reg) (fs0 : Files) (h : Fresh regs 0 fs0)
    (sqlRollbackFails : Bool) :
    (commitStmtFault true regs fs0).files = fs0 ∧ (commitStmtFault true regs fs0).committed = false
    ∧ (rollbackCode true sqlRollbackFails regs
        (preLoop regs 0 regs.length (registerAll regs 0 fs0)).2.1
        (preLoop regs 0 regs.length (registerAll regs 0 fs0)).1).1 = fs0 := by
  have := (rollback_restores_files regs regs.length fs0 h).1
  simp only [commitFault] at this
  exact ⟨by simpa only [commitStmtFault, rollbackCode] using this, rfl, by simpa only [rollbackCode] using this⟩

/-- The same for rollback closures run in registration order, under `DistinctIds`. -/
theorem commit_statement_failure_restores_files_partial (regs : List Reg) (fs0 : Files)
    (h : Fresh regs 0 fs0) (hd : DistinctIds regs) :
    (commitStmtFault false regs fs0).files = fs0 := by
  have := (rollback_restores_files_partial regs regs.length fs0 h hd).1
  simp only [commitFault] at this
  simpa only [commitStmtFault, rollbackCode] using this

/-- Non-vacuity / what is at stake: an overwrite whose COMMIT statement fails has, at the moment
`Rollback` starts, the old part 3 renamed away and the new part 7 published — skipping the rollback
closures there would leave the committed object without its part file. -/
example :
    let fs0 := emptyFiles.set (.part 3) (some [4])
    let regs := [Reg.put 7 [9], Reg.del 3]
    (preLoop regs 0 regs.length (registerAll regs 0 fs0)).1 (.part 3) = none
    ∧ (commitStmtFault true regs fs0).files (.part 3) = some [4]
    ∧ (commitStmtFault true regs fs0).files (.part 7) = none := by
  decide

/-- **Negation witness for the code as it is.** A PutObject whose content already exists is
deduplicated: the transaction publishes a fresh part `5` and deletes it again (`PutPart 5`,
`DeletePart 5`). When `tx.Commit()` then fails, the forward rollback first removes the (already
renamed-away) part file and then restores the backup of the second closure: the fresh part is
left behind in a directory that did not contain it. -/
theorem forward_rollback_leaves_orphan :
    (commitFault false [.put 5 [1, 2, 3], .del 5] 2 emptyFiles).files (.part 5) = some [1, 2, 3]
    ∧ emptyFiles (.part 5) = none := by
  decide

/-- The same transaction under the repaired order is clean. -/
theorem reverse_rollback_same_input_clean :
    (commitFault true [.put 5 [1, 2, 3], .del 5] 2 emptyFiles).files (.part 5) = none := by
  decide

/-- Non-vacuity: the hypotheses of `rollback_restores_files_partial` hold for an overwrite
(new part 7 published, old part 3 deleted) on a directory that holds part 3. -/
example : Fresh [.put 7 [9], .del 3] 0 (emptyFiles.set (.part 3) (some [4])) ∧ DistinctIds [.put 7 [9], .del 3] := by
  refine ⟨by simp [Fresh, Files.set, emptyFiles, Reg.id], ?_⟩
  simp [DistinctIds, Reg.id]

/-- … and the faulted overwrite really passes through a changed directory before it is restored
(the pre-commit closures ran: part 3 renamed away, part 7 published). -/
example : (preLoop [.put 7 [9], .del 3] 0 2 (registerAll [.put 7 [9], .del 3] 0 (emptyFiles.set (.part 3) (some [4])))).1 (.part 3) = none
    ∧ (preLoop [.put 7 [9], .del 3] 0 2 (registerAll [.put 7 [9], .del 3] 0 (emptyFiles.set (.part 3) (some [4])))).1 (.part 7) = some [9] := by
  decide

/-- A successful commit of the same transaction, for contrast, does change the directory. -/
example : (commitOk [.put 7 [9], .del 3] (emptyFiles.set (.part 3) (some [4]))).files (.part 7) = some [9]
    ∧ (commitOk [.put 7 [9], .del 3] (emptyFiles.set (.part 3) (some [4]))).files (.part 3) = none
    ∧ (commitOk [.put 7 [9], .del 3] (emptyFiles.set (.part 3) (some [4]))).files (.backup 3 1) = none := by
  decide

-- ---------------------------------------------------------------- storage API level (model Pithos.S3)

open Pithos.S3 in
/-- Case analysis used below: follow every branch of `S3.step` for one operation; a branch either
does not answer an error or returns the incoming state (with the logical clock ticked). -/
syntax "err_leaves" : tactic
macro_rules
  | `(tactic| err_leaves) => `(tactic|
      (intro st out hstep hout
       simp only [Pithos.S3.stepT, Pithos.S3.deleteOp] at hstep
       repeat' (split at hstep)
       all_goals (first
         | (obtain ⟨rfl, rfl⟩ := Prod.mk.inj hstep; first | rfl | (exfalso; simp at hout; done) | (simp_all; done))
         | skip)))

open Pithos.S3 in
/-- **step_error_state_eq.** In the storage model, for *every* operation (bucket, object,
versioning, copy, append, multipart, tagging, transition, listings), every quirk setting and
every state: an operation that answers an error — NoSuchBucket, NoSuchKey, PreconditionFailed,
InvalidPart, InvalidPartOrder, InvalidWriteOffset, BucketNotEmpty, … — returns the state it was
given; only the logical clock (one tick per request, never observable by itself) advances. -/
theorem step_error_state_eq (q : Quirks) (s : State) (op : Op) (e : Err)
    (h : (step q s op).2 = .err e) : (step q s op).1 = { s with clock := s.clock + 1 } := by
  have key : ∀ (s1 : State) st out, stepT q s1 op = (st, out) → out = .err e → st = s1 := by
    intro s1
    cases op <;> err_leaves
  exact key _ _ _ rfl h

open Pithos.S3 in
/-- Corollary in the property's words: after a failing operation every bucket — its versioning
state, every object row (content, metadata, tags, class, version id, latest flag, delete
markers, timestamps), every pending upload and its parts — and every id counter is unchanged, so
every later listing and read answers as if the call had not been made. -/
theorem step_error_leaves_no_trace (q : Quirks) (s : State) (op : Op) (e : Err)
    (h : (step q s op).2 = .err e) :
    (step q s op).1.buckets = s.buckets ∧ (step q s op).1.nextVid = s.nextVid ∧
    (step q s op).1.nextUid = s.nextUid ∧ (step q s op).1.nextRow = s.nextRow := by
  rw [step_error_state_eq q s op e h]
  exact ⟨rfl, rfl, rfl, rfl⟩

open Pithos.S3 in
/-- Non-vacuity: a failing conditional write (If-None-Match: * on an existing key) on a
non-empty state answers an error. -/
example :
    (match (step Quirks.code (run Quirks.code {} [.mkb "b", .put "b" "k" [1] {} false .none]).1
        (.put "b" "k" [2] {} true .none)).2 with
     | .err e => e == .preconditionFailed
     | _ => false) = true
    ∧ ((run Quirks.code {} [.mkb "b", .put "b" "k" [1] {} false .none]).1.buckets.isEmpty = false) := by
  decide

-- ---------------------------------------------------------------- T1: the code the model was written against
-- (`Pithos.Gen.TxFsHooks` is regenerated from /repo on every run; these equalities tie the
-- rollback side of the model to the current source text: a changed closure, a changed failure
-- path of Commit/WithTx or an unknown loop shape breaks an obligation.)

open Pithos.Gen in
/-- `TxController.Rollback`: finalise the SQL transaction, then run every rollback closure — in
registration order (`rollbackReverse = false`, model `rev = false`) or last-registered-first
(`rollbackReverse = true`, model `rev = true`); no other shape is modelled. -/
theorem code_rollback_is_modelled :
    TxFsHooks.rollbackSkeleton =
      ["[!t.ownsFinalization] return nil", "sql.Rollback", "[t.finalized] return err", "finalized=true",
       (match TxFsHooks.rollbackReverse with
        | false => "loop-forward onRollback"
        | true => "loop-reverse onRollback"),
       "[in-loop] Point tx.rollback", "[in-loop] call fn(ctx)", "end-loop", "return err"] := rfl

open Pithos.Gen in
/-- `TxController.Commit`: every failure before `tx.Commit()` returns through `Rollback`
(model: `commitFault`), pre-commit closures run in registration order, nothing after a
successful `tx.Commit()` can fail the transaction. -/
theorem code_commit_is_modelled :
    TxFsHooks.commitSkeleton =
      ["[!t.ownsFinalization] return nil", "[t.finalized] return nil", "loop-forward onPreCommit",
       "[in-loop] Point tx.precommit", "[in-loop][pointErr!=nil] Rollback", "[in-loop][pointErr!=nil] return pointErr",
       "[in-loop] call fn(ctx)", "[in-loop][hookErr!=nil] Rollback", "[in-loop][hookErr!=nil] return hookErr", "end-loop",
       "Point tx.commit", "[pointErr!=nil] Rollback", "[pointErr!=nil] return pointErr", "sql.Commit",
       "[err!=nil] Rollback", "[err!=nil] return err", "finalized=true", "Point tx.committed",
       "loop-forward onAfterCommit", "[in-loop] Point tx.aftercommit", "[in-loop] call fn(ctx)",
       "[in-loop][hookErr!=nil] return hookErr", "end-loop", "Point tx.done", "return nil"] := rfl

open Pithos.Gen in
/-- `WithTx`: a failing body is rolled back (model: `commitFault … 0`), a succeeding one committed. -/
theorem code_withtx_is_modelled :
    TxFsHooks.withTxSkeleton =
      ["BeginTx", "[err!=nil] return err", "call fn(ctx,tx)", "[err!=nil] Rollback",
       "[err!=nil][rollbackErr!=nil] return rollbackErr", "[err!=nil] return err", "Commit", "return tx.Commit(ctx)"] := rfl

open Pithos.Gen in
/-- The rollback closures of the filesystem part store (model: `rollbackHook`), and what PutPart
does when its own call fails (temp file removed, nothing registered). -/
theorem code_rollback_closures_are_modelled :
    TxFsHooks.putPartOnRollback =
      ["[published] Remove filename", "[published][backupCreated] Rename backupName filename",
       "[!published] Remove tempName", "Return nil"]
    ∧ TxFsHooks.deletePartOnRollback = ["[backupCreated] Rename backupName filename", "Return nil"]
    ∧ TxFsHooks.putPartCallTime =
      ["CreateTemp", "[err!=nil] Return err", "Copy tempFile reader", "[err!=nil] Close tempFile",
       "[err!=nil] Remove tempName", "[err!=nil] Return err", "Close tempFile", "[err!=nil] Remove tempName",
       "[err!=nil] Return err", "Return nil"]
    ∧ TxFsHooks.deletePartCallTime = ["Return nil"] := ⟨rfl, rfl, rfl, rfl⟩

-- ---------------------------------------------------------------- nested execution: closures belong to the root

theorem registerAll_code (c : Ctl) (calls : List (Handle × Reg)) (i : Nat) :
    Ctl.registerAll Routing.code c calls i =
      { pre := c.pre ++ closuresOf .pre (calls.map (·.2)) i,
        after := c.after ++ closuresOf .after (calls.map (·.2)) i,
        rollback := c.rollback ++ closuresOf .rollback (calls.map (·.2)) i } := by
  induction calls generalizing c i with
  | nil => simp [Ctl.registerAll, closuresOf]
  | cons hr rest ih =>
    obtain ⟨h, r⟩ := hr
    simp only [Ctl.registerAll, List.map_cons, closuresOf]
    rw [ih]
    simp [Ctl.registerCall, Ctl.add, Routing.code, List.append_assoc]

/-- **nested_hooks_run_with_root.** With the routing the code has (every registration method
appends to the ROOT controller's list of its own kind), the root's three closure lists after any
sequence of part-store calls are the same whether each call was made through the root handle or
through a child handle (an operation nested in an enclosing transaction): in call order, nothing
lost. Hence a nested operation is finalised — committed, failed, rolled back — exactly like a
direct one, and `rollback_restores_files` / `commit_statement_failure_restores_files` apply to it. -/
theorem nested_hooks_run_with_root (calls : List (Handle × Reg)) :
    Ctl.registerAll Routing.code {} calls 0 =
      Ctl.registerAll Routing.code {} (calls.map fun x => (Handle.root, x.2)) 0
    ∧ (Ctl.registerAll Routing.code {} calls 0).rollback = closuresOf .rollback (calls.map (·.2)) 0 := by
  rw [registerAll_code, registerAll_code]
  simp [List.map_map, Function.comp_def]

/-- … in particular the failing COMMIT of a nested transaction leaves the same directory. -/
theorem nested_commit_failure_eq_direct (rev : Bool) (calls : List (Handle × Reg)) (fsT : Files) :
    Ctl.commitFails rev (Ctl.registerAll Routing.code {} calls 0) fsT =
      Ctl.commitFails rev (Ctl.registerAll Routing.code {} (calls.map fun x => (Handle.root, x.2)) 0) fsT := by
  rw [(nested_hooks_run_with_root calls).1]

/-- **Negation witness for a receiver-routed OnRollback** (`t.onRollback = append(t.onRollback, fn)`):
a DeletePart made through a child handle loses its rollback closure; when the COMMIT fails, part 3
stays renamed away. With the code's routing it is restored. -/
theorem receiver_routed_rollback_loses_closure :
    let fs0 := emptyFiles.set (.part 3) (some [4])
    let bad : Routing := { Routing.code with onRollback := ⟨false, .rollback⟩ }
    (Ctl.commitFails true (Ctl.registerAll bad {} [(.child, .del 3)] 0) fs0).2 (.part 3) = none
    ∧ (Ctl.commitFails true (Ctl.registerAll Routing.code {} [(.child, .del 3)] 0) fs0).2 (.part 3) = some [4]
    ∧ (Ctl.commitFails true (Ctl.registerAll bad {} [(.root, .del 3)] 0) fs0).2 (.part 3) = some [4] := by
  decide

/-- The generic list runner and the closure-level model agree on a mixed transaction (new part 7
published through the root handle, old part 3 deleted through a child handle, COMMIT fails). -/
example :
    let fs0 := emptyFiles.set (.part 3) (some [4])
    let regs := [Reg.put 7 [9], Reg.del 3]
    ∀ nm ∈ [FName.part 3, .part 7, .backup 3 1, .temp 7 0],
      (Ctl.commitFails true (Ctl.registerAll Routing.code {} [(.root, regs[0]), (.child, regs[1])] 0)
          (registerAll regs 0 fs0)).2 nm = (commitFault true regs 2 fs0).files nm := by
  decide

open Pithos.Gen in
/-- T1: the list every registration method of `TxController` appends to (`root` = `t.rootTx()`). -/
theorem code_hook_routing_is_modelled :
    TxFsHooks.hookRouting =
      ["OnPreCommit root.onPreCommit", "OnAfterCommit root.onAfterCommit", "OnRollback root.onRollback"]
    ∧ TxFsHooks.hookRoutingRoot =
      ["OnPreCommit root:=t.rootTx()", "OnAfterCommit root:=t.rootTx()", "OnRollback root:=t.rootTx()"] := ⟨rfl, rfl⟩

end Pithos.C03
