/-
C30 — chunked uploads store exactly the decoded payload.

Model: `Pithos.Model.Http.Chunked` — `decode` = `awsChunkReadCloser.Read` of signature.go iterated to
EOF, `encode` = the framing SigV4 streaming clients produce, `check` = the validation stated on the
abstract syntax of a body (`Frame`), `storedBody` = which of them `server.SetupServer` puts in
front of the upload handlers (credentials configured or not).
Statements are for every payload (< 2^63 bytes, the range of Go's int64 chunk counter), every
chunking, all four streaming modes, every supported trailer checksum — no bound.
SHA-256, HMAC and the trailer checksum are parameters with explicit hypotheses.
-/
import Pithos.Lemmas.Chunked

namespace Pithos.C30
open Pithos.SigV4 Pithos.Chunked

/-- **decode_encode.** The reader returns exactly the payload the client framed: signed or
unsigned chunks, with or without (signed) checksum trailer, any chunk sizes. -/
theorem decode_encode (P : Params) (ok : EncodeOK P) (payload : Bytes)
    (hlen : payload.length < 9223372036854775808) (sizes : List Nat) :
    decode P (encode P payload sizes) = .ok payload :=
  Chunked.decode_encode P ok payload hlen sizes

/-- **decode_is_check.** On every well-formed body — conforming or tampered with — the reader's
verdict is the frame-level validation `check`; the mutation theorems below are stated on `check`. -/
theorem decode_is_check (P : Params) (signed : Bool) (f : Frame) (wf : FrameWF f)
    (hmode : signed = true ∨ P.skipValidation = true) (hts : P.trailerSigned = true → signed = true) :
    decode P (render signed P.hasTrailer f) = check P f :=
  decode_render P signed f wf hmode hts

/-- **mutated_chunk_rejected.** Signed chunks: changing the data of any chunk fails the request. -/
theorem mutated_chunk_rejected (P : Params) (hcf : CollisionFree P.c.sha256hex) (hunf : Unforgeable P.c.hmac)
    (hs : P.skipValidation = false) (f : Frame) (p : Bytes) (hok : check P f = .ok p)
    (l1 l2 : List (Bytes × Bytes)) (d s d' : Bytes) (hf : f.chunks = l1 ++ (d, s) :: l2) (hd : d' ≠ d) :
    check P { f with chunks := l1 ++ (d', s) :: l2 } = .error .sigMismatch :=
  mutated_chunk_data_rejected P hcf hunf hs f p hok l1 l2 d s d' hf hd

/-- **mutated_chunk_signature_rejected.** Signed chunks: changing any chunk signature (including
that of the final zero-length chunk) fails the request. -/
theorem mutated_chunk_signature_rejected (P : Params) (hs : P.skipValidation = false) (f : Frame) (p : Bytes)
    (hok : check P f = .ok p) :
    (∀ l1 l2 d s s', f.chunks = l1 ++ (d, s) :: l2 → s' ≠ s →
      check P { f with chunks := l1 ++ (d, s') :: l2 } = .error .sigMismatch) ∧
    (∀ s', s' ≠ f.finalSig → check P { f with finalSig := s' } = .error .sigMismatch) :=
  ⟨fun l1 l2 d s s' hf hd => Chunked.mutated_chunk_signature_rejected P hs f p hok l1 l2 d s s' hf hd,
   fun s' hd => mutated_final_signature_rejected P hs f p hok s' hd⟩

/-- **mutated_trailer_signature_rejected.** Signed trailer: changing the trailer signature, or the
checksum line it covers, fails the request. -/
theorem mutated_trailer_signature_rejected (P : Params) (hcf : CollisionFree P.c.sha256hex)
    (hunf : Unforgeable P.c.hmac) (ht : P.hasTrailer = true) (hts : P.trailerSigned = true)
    (f : Frame) (p : Bytes) (hok : check P f = .ok p) :
    (∀ s', s' ≠ f.trailerSignature → check P { f with trailerSignature := s' } = .error .sigMismatch) ∧
    (∀ l', l' ≠ f.trailerLine → check P { f with trailerLine := l' } = .error .sigMismatch) :=
  ⟨fun s' hd => Chunked.mutated_trailer_signature_rejected P ht hts f p hok s' hd,
   fun l' hd => mutated_signed_trailer_checksum_rejected P hcf hunf ht hts f p hok l' hd⟩

/-- **mutated_trailer_checksum_rejected.** In every trailer mode with a supported algorithm, a
checksum value that is not the checksum of the received payload fails the request; with unsigned
chunks this is also what catches a changed chunk (checksum collision free). -/
theorem mutated_trailer_checksum_rejected (P : Params) (ht : P.hasTrailer = true) (g : Bytes → Bytes)
    (hg : P.cksum = some g)
    (hname : lower (trimSpace P.trailerName) = P.trailerName ∧ (58 : UInt8) ∉ P.trailerName) (f : Frame) :
    (∀ v', f.trailerLine = P.trailerName ++ 58 :: v' → trimSpace v' ≠ g ((f.chunks.map (·.1)).flatten) →
      ∃ e, check P f = .error e) ∧
    (CollisionFree g → (∀ p, trimSpace (g p) = g p) →
      ∀ l1 l2 d s d', f.chunks = l1 ++ (d, s) :: l2 →
        f.trailerLine = P.trailerName ++ 58 :: g ((f.chunks.map (·.1)).flatten) → d' ≠ d →
        ∃ e, check P { f with chunks := l1 ++ (d', s) :: l2 } = .error e) :=
  ⟨fun v' hl hv => wrong_trailer_checksum_rejected P ht g hg f P.trailerName v' hl hname.2 hname.1 hv,
   fun hcg hval l1 l2 d s d' hf hl hd =>
     mutated_data_caught_by_checksum P ht g hg hcg hname hval f l1 l2 d s d' hf hl hd⟩

/-- **declared_trailer_validated_in_any_case.** Header field names are case-insensitive: however the
`x-amz-trailer` header spells a supported checksum algorithm (`X-Amz-Checksum-CRC32`, blanks around
it, …) and however the trailer line spells its name, the reader is given that algorithm's hash, and
a checksum value that is not the checksum of the received payload fails the request. -/
theorem declared_trailer_validated_in_any_case (hashOf : Bytes → Option (Bytes → Bytes)) (hdr : Bytes)
    (g : Bytes → Bytes) (hg : hashOf (lower (trimSpace hdr)) = some g) (P : Params) (f : Frame)
    (n v' : Bytes) (hl : f.trailerLine = n ++ 58 :: v') (hn : (58 : UInt8) ∉ n)
    (hsame : lower (trimSpace n) = lower (trimSpace hdr))
    (hv : trimSpace v' ≠ g ((f.chunks.map (·.1)).flatten)) :
    (withDeclaredTrailer hashOf true hdr P).cksum = some g ∧
    ∃ e, check (withDeclaredTrailer hashOf true hdr P) f = .error e := by
  have hc : (withDeclaredTrailer hashOf true hdr P).cksum = some g := by
    simp [withDeclaredTrailer, declaredTrailer, hg]
  exact ⟨hc, wrong_trailer_checksum_rejected _ rfl g hc f n v' hl hn hsame hv⟩

/-- Two spellings of the same declaration configure the reader identically. -/
theorem declared_trailer_case_insensitive (hashOf : Bytes → Option (Bytes → Bytes)) (t : Bool) (h1 h2 : Bytes)
    (h : lower (trimSpace h1) = lower (trimSpace h2)) (P : Params) :
    withDeclaredTrailer hashOf t h1 P = withDeclaredTrailer hashOf t h2 P := by
  simp [withDeclaredTrailer, declaredTrailer, h]

/-- **missing_trailer_signature_rejected.** With a signed trailer, a trailer section in which no
`x-amz-trailer-signature` line is recognised (renamed, removed, blanked out) fails the request —
an absent signature is never accepted as valid (MAC tags are non-empty). -/
theorem missing_trailer_signature_rejected (P : Params) (ht : P.hasTrailer = true) (hts : P.trailerSigned = true)
    (hmac : ∀ k m, P.c.hmac k m ≠ []) (prev payload rest : Bytes)
    (hno : (readTrailerSection rest).2 = []) :
    finish P prev payload rest = .error .sigMismatch :=
  finish_without_trailer_signature P ht hts hmac prev payload rest hno

-- ---------------------------------------------------------------- the two server configurations

/-- **auth_on_stores_payload.** Credentials configured: what reaches the upload handler is the
decoded payload. -/
theorem auth_on_stores_payload (fixed : Bool) (P : Params) (ok : EncodeOK P) (payload : Bytes)
    (hlen : payload.length < 9223372036854775808) (sizes : List Nat) :
    storedBody true fixed P (encode P payload sizes) = .ok payload := by
  unfold storedBody
  simp only [if_true]
  exact Chunked.decode_encode P ok payload hlen sizes

/-- **Negation (the tree before /repo c8f3b44, no credentials configured).** For *every* payload and
chunking the upload handler is handed the framed body itself, which is never the payload:
chunk-size lines, signatures and trailers end up in the stored object. -/
theorem auth_off_stores_framing (P : Params) (payload : Bytes) (sizes : List Nat) :
    storedBody false false P (encode P payload sizes) = .ok (encode P payload sizes) ∧
    encode P payload sizes ≠ payload := by
  refine ⟨rfl, ?_⟩
  intro e
  have := encode_longer P payload sizes
  rw [e] at this
  exact Nat.lt_irrefl _ this

/-- The same without credentials for tampered bodies: nothing is ever refused. -/
theorem auth_off_accepts_anything (P : Params) (wire : Bytes) : storedBody false false P wire = .ok wire := rfl

/-- **auth_off_fixed_stores_payload** (the current tree, /repo c8f3b44 and later):
a framing-only decoder in the configuration without credentials hands the handler the payload of
every conforming upload, in all four modes. -/
theorem auth_off_fixed_stores_payload (P : Params) (ok : EncodeOK P) (payload : Bytes)
    (hlen : payload.length < 9223372036854775808) (sizes : List Nat) :
    storedBody false true P (encode P payload sizes) = .ok payload := by
  unfold storedBody
  simp only [Bool.false_eq_true, if_false, if_true]
  exact framingOnly_decode_encode P ok payload hlen sizes

/-- **stored_payload_all_carriers** (the current tree). Over the full product — every way of
authenticating (header-signed, presigned query, anonymous with credentials configured, no
credentials configured) × every streaming mode × every payload and chunking — the upload handler
reads exactly the payload the client framed. -/
theorem stored_payload_all_carriers (carrier : Carrier) (P : Params) (ok : EncodeOK P) (payload : Bytes)
    (hlen : payload.length < 9223372036854775808) (sizes : List Nat) :
    handlerBody true carrier P (encode P payload sizes) = .ok payload := by
  cases carrier
  · exact Chunked.decode_encode P ok payload hlen sizes
  · exact Chunked.decode_encode P ok payload hlen sizes
  · exact framingOnly_decode_encode P ok payload hlen sizes
  · exact framingOnly_decode_encode P ok payload hlen sizes

/-- **tampering_rejected_for_authenticated_carriers.** For both carriers that authenticate the
request the handler's reader is `decode P`, so on every well-formed body its verdict is `check P`
and the mutation theorems above apply — to presigned uploads exactly as to header-signed ones. -/
theorem tampering_rejected_for_authenticated_carriers (carrier : Carrier) (hc : carrier = .header ∨ carrier = .presigned)
    (u : Bool) (P : Params) (signed : Bool) (f : Frame) (wf : FrameWF f)
    (hmode : signed = true ∨ P.skipValidation = true) (hts : P.trailerSigned = true → signed = true) :
    handlerBody u carrier P (render signed P.hasTrailer f) = check P f := by
  rcases hc with rfl | rfl <;> exact decode_render P signed f wf hmode hts

/-- Without a key (anonymous, or no credentials configured) the reader is the framing-only one:
its verdict is `check (framingOnly P)`, which still refuses a wrong checksum trailer
(`mutated_trailer_checksum_rejected` applies to `framingOnly P`: same checksum, same name). -/
theorem unauthenticated_carriers_check_framing (carrier : Carrier) (hc : carrier = .anonymous ∨ carrier = .authOff)
    (P : Params) (signed : Bool) (f : Frame) (wf : FrameWF f) :
    handlerBody true carrier P (render signed P.hasTrailer f) = check (framingOnly P) f := by
  rcases hc with rfl | rfl <;>
    exact decode_render (framingOnly P) signed f wf (Or.inr rfl) (by intro h; cases h)

-- ---------------------------------------------------------------- non-vacuity (toy primitives)

/-- toy checksum text: the hex of the payload (collision free, no white space) -/
def toyCk (p : Bytes) : Bytes := hexL p

/-- signed chunks with a signed `x-amz-checksum-crc32` trailer under toy primitives -/
def toyParams (signed trailer : Bool) : Params :=
  { c := { sha256hex := toySha, hmac := toyMac }, cksum := some toyCk, signKey := b! "key",
    timestamp := b! "20240615T123045Z", scope := b! "20240615/eu/s3/aws4_request", seed := b! "seed",
    hasTrailer := trailer, trailerSigned := signed && trailer, skipValidation := !signed,
    trailerName := b! "x-amz-checksum-crc32" }

theorem toyParams_ok (signed trailer : Bool) : EncodeOK (toyParams signed trailer) := by
  have hck : ∀ p, (∀ b ∈ toyCk p, isSpaceByte b = false) ∧ (10 : UInt8) ∉ toyCk p := by
    intro p
    refine ⟨fun b hb => (hexL_bytes p b hb).2, ?_⟩
    intro hm
    have := (hexL_bytes p 10 hm).1
    revert this; decide
  have n1 : lower (trimSpace (b! "x-amz-checksum-crc32")) = b! "x-amz-checksum-crc32" := by decide
  have n2 : (58 : UInt8) ∉ b! "x-amz-checksum-crc32" := by decide
  have n3 : headOK (b! "x-amz-checksum-crc32") = true := by decide
  have n4 : (10 : UInt8) ∉ b! "x-amz-checksum-crc32" := by decide
  refine ⟨⟨⟨n1, n2⟩, ?_, ?_, ?_⟩, n3, n4, ?_, ?_⟩
  · intro f hf p
    have : f = toyCk := by simp [toyParams] at hf; exact hf.symm
    subst this
    exact trimSpace_of_OK _ (headOK_of_nospace _ (hck p).1) (lastOK_of_nospace _ (hck p).1)
  · intro h; simp [toyParams] at h
  · intro h
    cases signed <;> simp [toyParams] at h ⊢
  · intro v
    simp [cutPrefix, hasPrefix, tsPrefix, toyParams]
  · intro f hf p
    have : f = toyCk := by simp [toyParams] at hf; exact hf.symm
    subst this
    exact ⟨(hck p).2, lastOK_of_nospace _ (hck p).1⟩

/-- The hypotheses of `decode_encode` are met in all four modes; instance: 11 bytes in chunks of
3, 4 and the rest. -/
example (signed trailer : Bool) :
    decode (toyParams signed trailer) (encode (toyParams signed trailer) (b! "hello world") [3, 4]) =
      .ok (b! "hello world") :=
  decode_encode _ (toyParams_ok signed trailer) _ (by decide) _

/-- the toy MAC never returns an empty tag; a renamed signature line is indeed not recognised -/
example : (∀ k m, toyMac k m ≠ []) ∧
    (readTrailerSection (b! "x-amz-checksum-crc32:AAAA\r\nx-amz-trailer-signaturq:abcd\r\n\r\n")).2 = [] :=
  ⟨fun k m => by simp [toyMac], by decide⟩

example : CollisionFree toySha ∧ Unforgeable toyMac ∧ CollisionFree toyCk :=
  ⟨toySha_collisionFree, toyMac_unforgeable, fun a b h => hexL_injective a b h⟩

/-- `mutated_chunk_rejected` is not vacuous: the conforming frame of a payload passes `check`, has a
chunk to mutate, and the toy primitives meet the hypotheses. -/
example :
    let P := toyParams true true
    check P (frameOf P (b! "hello world") [3, 4]) = .ok (b! "hello world") ∧
    (frameOf P (b! "hello world") [3, 4]).chunks.length = 3 :=
  ⟨check_frameOf _ (toyParams_ok true true).trailer _ _, by decide⟩

end Pithos.C30
