/-
C01, continued: an acknowledged key-only DeleteObject makes the key read as absent.
-/
import Pithos.Props.C01

namespace Pithos.C01
open Pithos.S3

/-- the key reads as absent in `s1` -/
def Absent (s1 : State) (b k : String) : Prop :=
  ∃ bk1, findBucket s1 b = some bk1 ∧ (latestRow bk1 k = none ∨ ∃ r, latestRow bk1 k = some r ∧ r.dm = true)

theorem dm_added {s' s1 : State} {b k : String} {bk bk2 : Bucket} {dmRow : Row} {nv nr : Nat}
    (hfb' : findBucket s' b = some bk) (hn2 : bk2.name = b)
    (hs : ({ setBucket s' (addRow bk2 dmRow) with nextVid := nv, nextRow := nr } : State) = s1) (hinv1 : Inv s1)
    (hk : dmRow.key = k) (hl : dmRow.latest = true) (hd : dmRow.dm = true) : Absent s1 b k := by
  have hfb1 : findBucket s1 b = some (addRow bk2 dmRow) := by
    rw [← hs]
    exact findBucket_setBucket hfb' (by rw [addRow_name, hn2])
  refine ⟨addRow bk2 dmRow, hfb1, Or.inr ⟨dmRow, ?_, hd⟩⟩
  have hb1 := hinv1 (addRow bk2 dmRow) (findBucket_mem hfb1)
  exact latestRow_eq_of_unique (hb1.one k) (by rw [addRow_rows]; simp) hk hl

theorem row_removed {s' s1 : State} {b k : String} {bk : Bucket} {r : Row} {n : Nat}
    (hfb' : findBucket s' b = some bk) (hbk : RowsInv n bk.rows) (hl : latestRow bk k = some r)
    (hs : setBucket s' (removeRow bk r.rowId) = s1) : Absent s1 b k := by
  have hname := findBucket_some_name hfb'
  have hfb1 : findBucket s1 b = some (removeRow bk r.rowId) := by
    rw [← hs]
    exact findBucket_setBucket hfb' (by rw [removeRow_name, hname])
  refine ⟨removeRow bk r.rowId, hfb1, Or.inl ?_⟩
  unfold latestRow
  rw [removeRow_rows, List.find?_eq_none]
  intro x hx hp
  have hx' := List.mem_filter.1 hx
  simp only [Bool.and_eq_true, beq_iff_eq] at hp
  have hxr : x = r := by
    have := latestRow_eq_of_unique (hbk.one k) hx'.1 hp.1 hp.2
    rw [hl] at this; injection this with this; exact this.symm
  have : (x.rowId != r.rowId) = true := hx'.2
  rw [hxr] at this
  simp at this

/-- **get_after_delete.** In every state satisfying the invariant (hence every reachable state),
for every versioning state of the bucket and every setting of the model switches: after an
acknowledged unconditional key-only DeleteObject the next plain GET of the key answers NoSuchKey —
the current row was removed (unversioned) or a delete marker became current (Enabled / Suspended). -/
theorem get_after_delete (q : Quirks) (s s1 : State) (hinv : Inv s) (b k : String) (bk : Bucket)
    (hfb : findBucket s b = some bk) (vid : Option (Option Nat)) (dm : Bool)
    (hack : step q s (.del b k none .none) = (s1, .deleted vid dm)) :
    (step q s1 (.get b k none)).2 = .err .noSuchKey := by
  have hfb' : findBucket { s with clock := s.clock + 1 } b = some bk := hfb
  have hbk := hinv bk (findBucket_mem hfb)
  have hinv1 : Inv s1 := by
    have := step_inv q s (.del b k none .none) hinv
    rw [hack] at this; exact this
  have hname := findBucket_some_name hfb
  rw [get_nosuchkey_iff]
  show Absent s1 b k
  simp only [step, stepT, hfb'] at hack
  cases hver : bk.ver with
  | off =>
    cases hl : latestRow bk k with
    | none =>
      simp [deleteOp, hver, hl] at hack
      exact ⟨bk, by rw [← hack.1]; exact hfb', Or.inl hl⟩
    | some r =>
      simp [deleteOp, hver, hl, ifMatchOk] at hack
      exact row_removed hfb' hbk hl hack.1
  | enabled =>
    cases hl : latestRow bk k with
    | none =>
      simp [deleteOp, hver, hl, ifMatchOk] at hack
      exact dm_added hfb' hname hack.1 hinv1 rfl rfl rfl
    | some r =>
      simp [deleteOp, hver, hl, ifMatchOk] at hack
      obtain ⟨hs, _⟩ := hack
      split at hs
      · exact dm_added hfb' (by unfold unlatest; rw [replaceRow_name]; exact hname) hs hinv1 rfl rfl rfl
      · exact dm_added hfb' hname hs hinv1 rfl rfl rfl
  | suspended =>
    cases hn : nullRow bk k with
    | none =>
      cases hl : latestRow bk k with
      | none =>
        simp [deleteOp, hver, hl, hn, ifMatchOk] at hack
        exact dm_added hfb' hname hack.1 hinv1 rfl rfl rfl
      | some r =>
        simp [deleteOp, hver, hl, hn, ifMatchOk] at hack
        obtain ⟨hs, _⟩ := hack
        split at hs
        · exact dm_added hfb' (by unfold unlatest; rw [replaceRow_name]; exact hname) hs hinv1 rfl rfl rfl
        · exact dm_added hfb' hname hs hinv1 rfl rfl rfl
    | some nr =>
      cases hl : latestRow bk k with
      | none =>
        simp [deleteOp, hver, hl, hn, ifMatchOk] at hack
        exact dm_added hfb' (by rw [removeRow_name]; exact hname) hack.1 hinv1 rfl rfl rfl
      | some r =>
        simp [deleteOp, hver, hl, hn, ifMatchOk] at hack
        obtain ⟨hs, _⟩ := hack
        split at hs
        · exact dm_added hfb' (by unfold unlatest; rw [replaceRow_name, removeRow_name]; exact hname) hs hinv1 rfl rfl rfl
        · exact dm_added hfb' (by rw [removeRow_name]; exact hname) hs hinv1 rfl rfl rfl

end Pithos.C01
