/-
C04 — ETags and checksums describe the stored bytes.

Model (the code, digest level): `Pithos.Model.ObjectChecksums`.  Specification (byte level; every
value is by definition the function of the content named in the property):
`Pithos.Spec.ObjectChecksums`.  Proofs: `Pithos.Lemmas.ObjectChecksums`, resting on C35's
`combineCrc*_sumBE`.  MD5 / SHA-1 / SHA-256 are an arbitrary `Hashes` record throughout; the CRCs
are the bit-level definitions.  All statements are for every history of requests, every body,
every part count and every part size.
-/
import Pithos.Lemmas.ObjectChecksums

namespace Pithos.C04
open Pithos.ObjSums Pithos.Checksum

/-! ## the values, as the property states them -/

/-- Single-part object: ETag = MD5 of the bytes, and the five checksums are those of the bytes. -/
theorem etag_single (H : Hashes) (b : Bytes) :
    specVals H ⟨[b], .single, false⟩ =
      { etag := some ⟨H.md5 b, none⟩, crc32 := some ⟨sumBE crc32IEEE b, none⟩,
        crc32c := some ⟨sumBE crc32C b, none⟩, crc64 := some ⟨sumBE crc64NVME b, none⟩,
        sha1 := some ⟨H.sha1 b, none⟩, sha256 := some ⟨H.sha256 b, none⟩ } := by
  simp [specVals, GObj.content, digestsOf, Digests.values]

/-- Multipart and appended objects: ETag = MD5 of the concatenated part MD5s, suffix `-N`. -/
theorem etag_multipart (H : Hashes) (parts : List Bytes) (k : Kind) (ob : Bool) (hk : k ≠ .single) :
    (specVals H ⟨parts, k, ob⟩).etag = some ⟨H.md5 (parts.flatMap H.md5), some parts.length⟩ := by
  cases k with
  | single => exact absurd rfl hk
  | multiFull => simp only [specVals]; split <;> rfl
  | multiComposite => rfl
  | appended => rfl

/-- **foldl_combine_eq_crc_concat** (as `CalculateMultipartChecksums` uses it). For ANY non-empty
list of parts — any count, any sizes, empty parts included — the FULL_OBJECT values the code
computes from the stored part rows (CRC of part 1, then `CombineCrc*` with each further part's
CRC and size) are the CRC32 / CRC32C / CRC64NVME of the concatenated bytes. -/
theorem fullobject_crcs_are_crcs_of_concatenation (H : Hashes) (parts : List Bytes) (hne : parts ≠ []) :
    let v := calculateMultipart H (parts.map fun b => (digestsOf H b).partMeta) .fullObject
    v.crc32 = some ⟨sumBE crc32IEEE parts.flatten, none⟩ ∧
    v.crc32c = some ⟨sumBE crc32C parts.flatten, none⟩ ∧
    v.crc64 = some ⟨sumBE crc64NVME parts.flatten, none⟩ ∧
    v.etag = some ⟨H.md5 (parts.flatMap H.md5), some parts.length⟩ ∧ v.sha1 = none ∧ v.sha256 = none := by
  have h : calculateMultipart H (parts.map fun b => (digestsOf H b).partMeta) .fullObject
      = specVals H ⟨parts, kindOf .fullObject, true⟩ := calculateMultipart_pm H parts .fullObject true
  simp only [h, specVals, kindOf]
  cases parts with
  | nil => exact absurd rfl hne
  | cons b t => simp [GObj.content, etagOfParts]

/-- COMPOSITE: `alg(alg(p₁) ‖ … ‖ alg(p_N))-N` for CRC32, CRC32C, SHA-1, SHA-256; no CRC64NVME. -/
theorem composite_values (H : Hashes) (parts : List Bytes) :
    calculateMultipart H (parts.map fun b => (digestsOf H b).partMeta) .composite =
      { etag := some ⟨H.md5 (parts.flatMap H.md5), some parts.length⟩
        crc32 := some ⟨sumBE crc32IEEE (parts.flatMap (sumBE crc32IEEE)), some parts.length⟩
        crc32c := some ⟨sumBE crc32C (parts.flatMap (sumBE crc32C)), some parts.length⟩
        crc64 := none
        sha1 := some ⟨H.sha1 (parts.flatMap H.sha1), some parts.length⟩
        sha256 := some ⟨H.sha256 (parts.flatMap H.sha256), some parts.length⟩ } := by
  have h : calculateMultipart H (parts.map fun b => (digestsOf H b).partMeta) .composite
      = specVals H ⟨parts, kindOf .composite, true⟩ := calculateMultipart_pm H parts .composite true
  rw [h]; rfl

/-! ## every history -/

/-- **code_refines_spec.** For every history of put / create / uploadPart / uploadPartCopy /
complete / append / copy / ranged copy / head / delete requests, with any bodies and any supplied
checksums, every answer of the code model (every ETag and checksum value returned by a write or a
read, every BadDigest) is the answer of the specification, in which each value is by definition
the stated function of the object's current content. Holds for the code as it is and for the
repaired validation. -/
theorem code_refines_spec (H : Hashes) (strict versioned : Bool) (ops : List BOp) :
    ∀ p ∈ runBoth H strict ({ versioned := versioned }, { versioned := versioned }) ops, p.1 = p.2 :=
  run_refines H strict { versioned := versioned } ops

/-- **etag_of_object.** After any history, `HeadObject` / `GetObject` of any key answers exactly
the values, checksum type and size that the specification derives from the key's current content
(or NoSuchKey when there is none). -/
theorem etag_of_object (H : Hashes) (strict versioned : Bool) (ops : List BOp) (key : Nat) :
    (step H strict (finalBoth H strict ({ versioned := versioned }, { versioned := versioned }) ops).1 (.head key)).2 =
      match lookup key (finalBoth H strict ({ versioned := versioned }, { versioned := versioned }) ops).2.objects with
      | none => .err .noSuchKey
      | some o => .ok (specVals H o) (some (specCType o)) (some o.content.length) := by
  have h := final_abs H strict { versioned := versioned } ops
  have e : absState H ({ versioned := versioned } : GState) = ({ versioned := versioned } : State) := rfl
  rw [e] at h
  rw [h]
  have := step_head H strict (finalBoth H strict ({ versioned := versioned }, { versioned := versioned }) ops).2 key
  rw [this]
  simp only [gstep]
  cases lookup key (finalBoth H strict ({ versioned := versioned }, { versioned := versioned }) ops).2.objects <;> rfl

/-! ## a supplied value that disagrees fails the write -/

/-- PutObject: any supplied Content-MD5 / checksum that differs from the digest of the body ⇒
BadDigest and nothing changes. (Code as it is and repaired.) -/
theorem bad_digest_rejects_put (H : Hashes) (strict : Bool) (s : State) (key : Nat) (body : Bytes)
    (i : Input) (h : Disagrees i (digestsOf H body).values) :
    step H strict s (.put key (digestsOf H body) (some i)) = (s, .err .badDigest) := by
  simp [step, badDigest_computed strict i _ (disagrees_streamed i _ h)]

/-- UploadPart: likewise (for an existing upload). -/
theorem bad_digest_rejects_uploadPart (H : Hashes) (strict : Bool) (s : State) (uid n : Nat) (u : Upload)
    (hu : lookup uid s.uploads = some u) (body : Bytes) (i : Input)
    (h : Disagrees i (digestsOf H body).values) :
    step H strict s (.uploadPart uid n (digestsOf H body) (some i)) = (s, .err .badDigest) := by
  simp [step, hu, badDigest_computed strict i _ (disagrees_streamed i _ h)]

/-- AppendObject: likewise, against the appended chunk. -/
theorem bad_digest_rejects_append (H : Hashes) (strict : Bool) (s : State) (key : Nat) (body : Bytes)
    (i : Input) (h : Disagrees i (digestsOf H body).values) :
    step H strict s (.append key (digestsOf H body) (some i)) = (s, .err .badDigest) := by
  simp [step, badDigest_computed strict i _ (disagrees_streamed i _ h)]

/-- CompleteMultipartUpload with the REPAIRED validation (`strict = true`, fixes/C04-*.patch): any
supplied value that is not exactly the value computed for the assembled object — including a
value for which nothing is computed — ⇒ BadDigest and nothing changes. -/
theorem bad_digest_rejects_complete_repaired (H : Hashes) (s : State) (uid : Nat) (u : Upload)
    (hu : lookup uid s.uploads = some u) (hc : contiguousFrom 1 u.parts = true) (i : Input)
    (h : Disagrees i (calculateMultipart H (u.parts.map (·.2)) u.ctype)) :
    step H true s (.complete uid (some i)) = (s, .err .badDigest) := by
  simp [step, hu, hc, badDigest_strict i _ h]

/-- CompleteMultipartUpload as the code is: a supplied value that differs from a COMPUTED value
⇒ BadDigest. The excluded trigger — a supplied value of an algorithm for which
`CalculateMultipartChecksums` computes nothing — is the witness below. -/
theorem bad_digest_rejects_complete_partial (H : Hashes) (s : State) (uid : Nat) (u : Upload)
    (hu : lookup uid s.uploads = some u) (hc : contiguousFrom 1 u.parts = true) (i : Input)
    (h : DisagreesComputed i (calculateMultipart H (u.parts.map (·.2)) u.ctype)) :
    step H false s (.complete uid (some i)) = (s, .err .badDigest) := by
  simp [step, hu, hc, badDigest_computed false i _ h]

/-- A toy instance of the uninterpreted hashes (distinct, length-revealing functions). -/
def toyH : Hashes :=
  { md5 := fun b => [UInt8.ofNat b.length, 1], sha1 := fun b => b.take 2 ++ [2], sha256 := fun b => b.reverse.take 3 ++ [3] }

/-- The history replayed on the implementation (known/C04.json): a FULL_OBJECT upload of one part,
completed with a supplied SHA-256 that is the digest of nothing. -/
def witnessOps (sha : Sum) : List BOp :=
  [.create 0 0 .fullObject, .uploadPart 0 1 [1, 2, 3] none, .complete 0 (some { sha256 := some sha })]

/-- **Negation witness (code as it is).** The completion succeeds although the supplied SHA-256
disagrees with the content (nothing is computed for SHA-256 on FULL_OBJECT uploads, so
`ValidateChecksums` skips it). -/
theorem complete_unverified_checksum_accepted :
    ((runBoth toyH false ({}, {}) (witnessOps ⟨[0xde, 0xad], none⟩)).map (·.1.isOk)) = [true, true, true] := by
  decide +kernel

/-- The same history under the repaired validation is rejected at the completion. -/
theorem complete_unverified_checksum_rejected_when_repaired :
    ((runBoth toyH true ({}, {}) (witnessOps ⟨[0xde, 0xad], none⟩)).map (·.1.isOk)) = [true, true, false] := by
  decide +kernel

/-- As the code is (not a matter of C04's values, recorded because the model mirrors it): in an
unversioned bucket an append to an object assembled by CompleteMultipartUpload is refused with
an internal error (the new part row collides with the last 1-based part number); in a versioned
bucket it succeeds. -/
example :
    ((runBoth toyH false ({}, {}) [.create 0 0 .fullObject, .uploadPart 0 1 [1] none, .complete 0 none,
        .append 0 [2] none]).map (·.1)).getLast? = some (.err .internal) ∧
    ((runBoth toyH false ({ versioned := true }, { versioned := true }) [.create 0 0 .fullObject,
        .uploadPart 0 1 [1] none, .complete 0 none, .append 0 [2] none]).map (·.1.isOk)).getLast? = some true := by
  decide +kernel

/-! ## non-vacuity -/

/-- `Disagrees` / `DisagreesComputed` are met by concrete inputs (a wrong Content-MD5 on a put). -/
example : Disagrees { etag := some ⟨[9, 9], none⟩ } (digestsOf toyH [1, 2, 3]).values :=
  Or.inl ⟨_, rfl, by decide⟩

/-- A three-part FULL_OBJECT upload with an empty middle part: the combined CRC-32 the code model
computes is the CRC-32 of the six bytes (an instance of the fold theorem that is really computed). -/
example :
    (calculateMultipart toyH ([[1, 2, 3], [], [4, 5, 6]].map fun b => (digestsOf toyH b).partMeta) .fullObject).crc32
      = some ⟨sumBE crc32IEEE [1, 2, 3, 4, 5, 6], none⟩ := by decide +kernel

/-- A history with every kind of object; all answers of code model and spec agree (computed). -/
example :
    (runBoth toyH false ({}, {})
      [.put 0 [7, 8] none, .append 0 [9] none, .create 1 1 .composite, .uploadPart 1 2 [5] none,
       .uploadPart 1 1 [4, 4] none, .uploadPartCopy 1 3 0 0 2, .complete 1 none, .copy 1 2,
       .copyRange 1 3 1 4, .head 0, .head 1, .head 2, .head 3]).all (fun p => p.1 == p.2 && p.1.isOk) = true := by
  decide +kernel

end Pithos.C04
