/-
C14, second half — "… afterwards the object's part data lives in the part store mapped to that
class while every object remains readable whichever configured store its parts are in", over all
histories with transitions between classes mapped to the same or different named stores,
remapped configurations and shared / deduplicated parts.

Model: `Pithos.Model.ClassRouting` (part rows with recorded store names, registry ref_counts,
dedup index, physical contents of the named stores; Put / Append / Copy / Transition / Delete /
multipart / remap / GC).  The model is tied to /repo by the routing histories of the `s3h`
harness (stack "route"): `lean/Pithos/Util/C14Driver.lean` runs it on the same operations and
compares it with the routing state read from the real system after every mutation.

Theorems (all unbounded: every state satisfying the invariant / every history from the empty store):
 (a) `transition_routes`             after a successful transition to class c every part row of the
                                     version records `storeFor cmap c` (the default store when c is
                                     unmapped or mapped to "default"), that store is configured and
                                     physically holds the part with the recorded content;
 (b) `invariant_all_histories`       `Inv` (every part row's recorded store is configured and holds the
                                     part; ref_count = number of referencing part rows; index entries
                                     point at present parts) holds after every history,
     `all_readable_all_histories`    hence every entity reads back exactly its recorded contents,
     `remap_keeps_routing`           a remapped configuration changes no row, count or store content:
                                     recorded stores keep being used,
     `delete_keeps_coreferrers`      deleting a version leaves every other one readable (shared parts);
 faults `transition_fault_aborts`   every open/read/put fault at every copy step of a transition aborts it
                                     and leaves the routing state untouched; `transition_under_faults`,
                                     `invariant_all_faulty_histories`: invariant + readability under any fault plan;
 (c) `transition_keeps_content`      a transition keeps the contents of the parts and their order, what a
                                     reader gets, and every other entity,
     `transition_same_store_relabels` when all parts already live in the target store, part ids,
                                     registry, index and store contents are unchanged.
-/
import Pithos.Lemmas.ClassRoutingOps

namespace Pithos.C14Routing
open Pithos.ClassRouting

/-- A configuration `NewNamedPartStores` accepts: the default store exists and every class maps to
"default" or to a configured store. -/
def CfgOk (stores : List SName) (cmap : List (String × String)) : Prop :=
  "" ∈ stores ∧ ∀ c n, (c, n) ∈ cmap → n = defaultStoreName ∨ n ∈ stores

theorem step_true {s s' : State} {op : Op} (h : step s op = (s', true)) : apply s op = some s' := by
  unfold step at h
  cases ha : apply s op with
  | none => rw [ha] at h; simp at h
  | some x => rw [ha] at h; simp only [Prod.mk.injEq, and_true] at h; rw [h]

-- ---------------------------------------------------------------- (b) the invariant, for all histories

/-- **(b)** The routing invariant holds after every history of operations (successful or failing,
including remaps and collector passes) from the empty store with any accepted configuration. -/
theorem invariant_all_histories (stores : List SName) (cmap : List (String × String))
    (hcfg : CfgOk stores cmap) (ops : List Op) : Inv (run (init stores cmap) ops) :=
  run_inv (init_inv hcfg.1 hcfg.2) ops

/-- Under the invariant every entity reads back exactly the contents its part rows record,
whichever configured store each part is in. -/
theorem readable_of_inv {s : State} (h : Inv s) : ∀ e ∈ s.ents, Readable s e := by
  intro e he
  unfold Readable readBack
  apply List.map_congr_left
  intro r hr
  have := h.held r (parts_sub_rows he r hr)
  rw [if_pos this.1, this.2]

/-- **(b)** After every history every object version and pending upload is readable. -/
theorem all_readable_all_histories (stores : List SName) (cmap : List (String × String))
    (hcfg : CfgOk stores cmap) (ops : List Op) :
    ∀ e ∈ (run (init stores cmap) ops).ents, Readable (run (init stores cmap) ops) e :=
  readable_of_inv (invariant_all_histories stores cmap hcfg ops)

/-- **(b)** After every history the registry's ref_count of every part id is exactly the number of
part rows referencing it (in particular a referenced part never has count 0), and every
referenced part is physically present in the store its row records. -/
theorem refcount_exact_all_histories (stores : List SName) (cmap : List (String × String))
    (hcfg : CfgOk stores cmap) (ops : List Op) :
    (∀ p, (run (init stores cmap) ops).reg p = refs (run (init stores cmap) ops) p) ∧
    (∀ r ∈ rows (run (init stores cmap) ops),
      r.store ∈ (run (init stores cmap) ops).stores ∧
      (run (init stores cmap) ops).phys r.store r.pid = some r.content ∧
      0 < (run (init stores cmap) ops).reg r.pid) := by
  have h := invariant_all_histories stores cmap hcfg ops
  refine ⟨h.cnt, ?_⟩
  intro r hr
  have := h.held r hr
  refine ⟨this.1, this.2, ?_⟩
  rw [h.cnt, refs_eq]
  exact pc_pos.mpr ⟨r, hr, rfl⟩

/-- **(b)** Remapping the configuration touches no part row, count, index entry or store content:
every entity keeps reading from the stores its rows record. -/
theorem remap_keeps_routing {s s' : State} {m : List (String × String)}
    (ha : apply s (.remap m) = some s') :
    s'.ents = s.ents ∧ s'.stores = s.stores ∧ s'.reg = s.reg ∧ s'.idx = s.idx ∧ s'.phys = s.phys ∧
    s'.cmap = m ∧ ∀ e, readBack s' e = readBack s e := by
  simp only [apply] at ha
  split at ha
  · cases ha
    exact ⟨rfl, rfl, rfl, rfl, rfl, rfl, fun _ => rfl⟩
  · cases ha

/-- **(b)** Deleting a version leaves every other entity in place and readable — also those that
share (deduplicated) parts with the deleted one. -/
theorem delete_keeps_coreferrers {s s' : State} {t : Nat} (h : Inv s)
    (ha : apply s (.delete t) = some s') :
    ∀ e ∈ s.ents, e.id ≠ t → e ∈ s'.ents ∧ Readable s' e := by
  intro e he hne
  have hi := apply_inv h ha
  simp only [apply] at ha
  obtain ⟨_, _, _, hents, _⟩ := commit_some ha
  have hm : e ∈ s'.ents := by
    rw [hents]
    simp only [Option.toList_none, List.append_nil, List.mem_filter, bne_iff_ne, ne_eq]
    exact ⟨he, hne⟩
  exact ⟨hm, readable_of_inv hi e hm⟩

-- ---------------------------------------------------------------- transitions

/-- What a successful transition did, step by step. -/
theorem transition_unfold {s s' : State} {t : Nat} {cls : String}
    (ha : apply s (.transition t cls) = some s') :
    ∃ e s1 news s2, cls ∈ validClasses ∧ findEnt s t = some e ∧
      moveParts (storeFor s.cmap cls) s e.parts 0 = some (s1, news) ∧
      tryAddRefs s1 (sharedIds (storeFor s.cmap cls) e.parts) = some s2 ∧
      commit s2 t (partsOf s2 t) news (some { e with cls := some cls, parts := news.map (·.row) }) = some s' := by
  simp only [apply, transitionWith] at ha
  split at ha
  · rename_i hv
    cases hf : findEnt s t with
    | none => rw [hf] at ha; cases ha
    | some e =>
      rw [hf] at ha
      simp only [] at ha
      cases hmv : moveParts (storeFor s.cmap cls) s e.parts 0 with
      | none => rw [hmv] at ha; cases ha
      | some res =>
        obtain ⟨s1, news⟩ := res
        rw [hmv] at ha
        simp only [] at ha
        cases hadd : tryAddRefs s1 (sharedIds (storeFor s.cmap cls) e.parts) with
        | none => rw [hadd] at ha; cases ha
        | some s2 =>
          rw [hadd] at ha
          simp only [] at ha
          exact ⟨e, s1, news, s2, hv, rfl, hmv, hadd, ha⟩
  · cases ha

/-- The entity `t` of the state after a commit that installs `ent`. -/
theorem commit_target {s s' : State} {t : Nat} {old : List PartRow} {news : List NewPart} {ent : Ent}
    (hid : ent.id = t) (hc : commit s t old news (some ent) = some s') :
    ent ∈ s'.ents ∧ (∀ x ∈ s'.ents, x.id = t → x = ent) ∧
    (∀ x, x.id ≠ t → (x ∈ s'.ents ↔ x ∈ s.ents)) := by
  obtain ⟨_, _, _, hents, _⟩ := commit_some hc
  have hmemiff : ∀ x, x ∈ s'.ents ↔ (x ∈ s.ents ∧ x.id ≠ t) ∨ x = ent := by
    intro x
    rw [hents]
    simp [List.mem_append, List.mem_filter]
  refine ⟨(hmemiff ent).mpr (Or.inr rfl), ?_, ?_⟩
  · intro x hx hxt
    rcases (hmemiff x).mp hx with hx | hx
    · exact absurd hxt hx.2
    · exact hx
  · intro x hxt
    rw [hmemiff]
    constructor
    · intro hx
      rcases hx with hx | hx
      · exact hx.1
      · exact absurd (hx ▸ hid) hxt
    · intro hx
      exact Or.inl ⟨hx, hxt⟩

/-- **(a)** After a successful transition of version `t` to class `cls`: the version exists, reports
`cls`, and EVERY one of its part rows records the store the configuration maps `cls` to (the
default store when unmapped), which is configured and physically holds the part with the recorded
content. Every reachable state (invariant), every configuration, shared / repeated parts included. -/
theorem transition_routes {s s' : State} {t : Nat} {cls : String} (h : Inv s)
    (hstep : step s (.transition t cls) = (s', true)) :
    (∃ e ∈ s'.ents, e.id = t) ∧
    ∀ e ∈ s'.ents, e.id = t →
      e.cls = some cls ∧
      ∀ r ∈ e.parts, r.store = storeFor s.cmap cls ∧ r.store ∈ s'.stores ∧
        s'.phys r.store r.pid = some r.content := by
  have ha := step_true hstep
  have hi := apply_inv h ha
  obtain ⟨e, s1, news, s2, _, hf, hmv, _, hc⟩ := transition_unfold ha
  have hid := (findEnt_some hf).2
  obtain ⟨hmem, huniq, _⟩ := commit_target (ent := { e with cls := some cls, parts := news.map (·.row) }) hid hc
  refine ⟨⟨_, hmem, hid⟩, ?_⟩
  intro x hx hxt
  rw [huniq x hx hxt]
  refine ⟨rfl, ?_⟩
  intro r hr
  have hr' : r ∈ news.map (·.row) := hr
  rw [List.mem_map] at hr'
  obtain ⟨n, hn, hnr⟩ := hr'
  have hst := (moveParts_rows e.parts s 0 s1 news hmv).1 n hn
  have hheld := hi.held r (parts_sub_rows hmem r hr)
  exact ⟨by rw [← hnr]; exact hst, hheld.1, hheld.2⟩

/-- **(c)** A successful transition keeps the contents of the version's parts and their order
(hence their number), what a reader of the version gets back, and every other entity. -/
theorem transition_keeps_content {s s' : State} {t : Nat} {cls : String} (h : Inv s)
    (hstep : step s (.transition t cls) = (s', true)) :
    ∃ e ∈ s.ents, e.id = t ∧ ∃ e' ∈ s'.ents, e'.id = t ∧
      e'.parts.map (·.content) = e.parts.map (·.content) ∧
      readBack s' e' = readBack s e ∧
      (∀ x, x.id ≠ t → (x ∈ s'.ents ↔ x ∈ s.ents)) := by
  have ha := step_true hstep
  have hi := apply_inv h ha
  obtain ⟨e, s1, news, s2, _, hf, hmv, hadd, hc⟩ := transition_unfold ha
  obtain ⟨he, hid⟩ := findEnt_some hf
  obtain ⟨hmem, _, hothers⟩ := commit_target (ent := { e with cls := some cls, parts := news.map (·.row) }) hid hc
  have hcont : (news.map (·.row)).map (·.content) = e.parts.map (·.content) := by
    rw [List.map_map]
    exact (moveParts_rows e.parts s 0 s1 news hmv).2
  have hents2 : s2.ents = s.ents := by
    have htx := moveParts_txn h (storeFor_mem h cls) e.parts s [] [] [] 0 s1 news (parts_sub_rows he) (Txn.start h) hmv
    simp only [List.nil_append] at htx
    exact (addRefs_txn htx hadd).mid.ents
  refine ⟨e, he, hid, _, hmem, hid, hcont, ?_, ?_⟩
  · have r1 := readable_of_inv hi _ hmem
    have r0 := readable_of_inv h e he
    unfold Readable at r1 r0
    rw [r1, r0]
    have := congrArg (List.map some) hcont
    simpa [List.map_map, Function.comp_def] using this
  · intro x hx
    rw [hothers x hx, hents2]

/-- **(c)** A transition between classes of one store (all parts already live in the target store)
is a pure relabelling: the part ids of the version, the registry, the dedup index and the contents
of every store are unchanged. -/
theorem transition_same_store_relabels {s s' : State} {t : Nat} {cls : String} (h : Inv s)
    (hstep : step s (.transition t cls) = (s', true)) {e : Ent} (hf : findEnt s t = some e)
    (hsame : ∀ r ∈ e.parts, r.store = storeFor s.cmap cls) :
    (∃ e' ∈ s'.ents, e'.id = t ∧ e'.parts.map (·.pid) = e.parts.map (·.pid)) ∧
    s'.reg = s.reg ∧ s'.idx = s.idx ∧ s'.phys = s.phys := by
  have ha := step_true hstep
  obtain ⟨e0, s1, news, s2, _, hf0, hmv, hadd, hc⟩ := transition_unfold ha
  rw [hf] at hf0
  cases hf0
  obtain ⟨he, hid⟩ := findEnt_some hf
  obtain ⟨hs1, hpids, hpre, hshared⟩ := moveParts_same_store e.parts s 0 s1 news hsame hmv
  rw [hs1, hshared] at hadd
  -- the closing TryAddPartReferences
  unfold tryAddRefs at hadd
  split at hadd
  · rename_i hall
    cases hadd
    rw [List.all_eq_true] at hall
    have hold : partsOf { s with reg := fun p => s.reg p + (e.parts.map (·.pid)).count p } t = e.parts :=
      partsOf_find h hf
    rw [hold] at hc
    obtain ⟨hmem, _, _⟩ := commit_target (ent := { e with cls := some cls, parts := news.map (·.row) }) hid hc
    obtain ⟨_, _, _, _, hreg, hidx, hphys, _⟩ := commit_some hc
    have hfresh : freshPids news = [] := by
      unfold freshPids
      rw [List.filter_eq_nil_iff.mpr]
      · rfl
      · intro n hn
        simp [hpre n hn]
    have hnz : ∀ p, zeroAfter (fun p => s.reg p + (e.parts.map (·.pid)).count p) (e.parts.map (·.pid)) p = false := by
      intro p
      unfold zeroAfter
      by_cases hp : p ∈ e.parts.map (·.pid)
      · have := hall p hp
        simp only [decide_eq_true_eq] at this
        have hb : ((e.parts.map (·.pid)).count p == s.reg p + (e.parts.map (·.pid)).count p) = false := by
          rw [beq_eq_false_iff_ne]; omega
        rw [hb, Bool.and_false]
      · simp [hp]
    have hunref : unrefOf (fun p => s.reg p + (e.parts.map (·.pid)).count p) e.parts = [] := by
      unfold unrefOf
      have : (e.parts.filter fun r => zeroAfter (fun p => s.reg p + (e.parts.map (·.pid)).count p)
          (e.parts.map (·.pid)) r.pid) = [] := by
        rw [List.filter_eq_nil_iff]
        intro r _
        simp [hnz r.pid]
      rw [this]
      rfl
    refine ⟨⟨_, hmem, hid, ?_⟩, ?_, ?_, ?_⟩
    · show (news.map (·.row)).map (·.pid) = _
      rw [List.map_map]
      exact hpids
    · funext p
      rw [hreg, hfresh]
      show (if pc e.parts p ≤ s.reg p + (e.parts.map (·.pid)).count p
        then s.reg p + (e.parts.map (·.pid)).count p - pc e.parts p else _) + List.count p [] = s.reg p
      have : pc e.parts p = (e.parts.map (·.pid)).count p := rfl
      rw [this, if_pos (by omega)]
      simp
    · funext st c
      rw [hidx]
      show (match s.idx st c with
        | some p => if zeroAfter _ _ p = true then none else some p
        | none => none) = s.idx st c
      cases hi : s.idx st c with
      | none => rfl
      | some q => simp [hnz q]
    · funext st p
      rw [hphys, hunref]
      rfl
  · cases hadd

-- ---------------------------------------------------------------- part-store faults during the copy steps

/-- A call that fails leaves no trace in the routing state (whatever the fault plan). -/
theorem failed_call_leaves_no_trace {s s' : State} {op : Op} {flt : Option Fault}
    (h : stepF s op flt = (s', false)) : s' = s := by
  unfold stepF at h
  cases ha : applyF s op flt with
  | none => rw [ha] at h; simp only [Prod.mk.injEq, and_true] at h; exact h.symm
  | some x => rw [ha] at h; simp at h

/-- Whatever part-store fault strikes whichever copy step of whichever call: the call either
fails or does exactly what it does without the fault. -/
theorem fault_dichotomy (s : State) (op : Op) (flt : Option Fault) :
    applyF s op flt = none ∨ applyF s op flt = apply s op := applyF_dichotomy s op flt

/-- **Every aborting fault at every copy step aborts the transition.** If `srcStore.GetPart`
fails, the source stream breaks, or `targetStore.PutPart` fails (with or without a failing
`Close` on top) at any of the copy steps the transition performs, the transition fails and the
routing state — part rows, classes, registry, index, store contents — is the one before the call. -/
theorem transition_fault_aborts {s : State} {t : Nat} {cls : String} {e : Ent} {f : Fault}
    (hf : findEnt s t = some e) (hab : f.aborts = true)
    (hstep : f.step < crossCount (storeFor s.cmap cls) e.parts) :
    stepF s (.transition t cls) (some f) = (s, false) := by
  unfold stepF
  have : applyF s (.transition t cls) (some f) = none := by
    simp only [applyF, transitionWith]
    split
    · rw [hf]
      simp only []
      rw [movePartsF_abort _ e.parts f s 0 hab hstep]
    · rfl
  rw [this]

/-- A fault that only makes `Close` fail, or that is planned for a copy step the transition does not
reach, changes nothing. -/
theorem transition_fault_harmless {s : State} {t : Nat} {cls : String} {f : Fault}
    (h : f.aborts = false ∨ ∀ e, findEnt s t = some e → crossCount (storeFor s.cmap cls) e.parts ≤ f.step) :
    applyF s (.transition t cls) (some f) = apply s (.transition t cls) := by
  simp only [applyF, apply, transitionWith]
  split
  · cases hf : findEnt s t with
    | none => rfl
    | some e =>
      simp only []
      have : f.aborts = false ∨ crossCount (storeFor s.cmap cls) e.parts ≤ f.step := by
        rcases h with h | h
        · exact Or.inl h
        · exact Or.inr (h e hf)
      rw [movePartsF_harmless _ e.parts f s 0 this]
  · rfl

/-- **A transition under any part-store fault.** From a state with the invariant, for every fault
plan: the invariant holds afterwards and every entity is readable; if the call failed the state is
untouched; if it succeeded it is a fault-free successful transition (so `transition_routes` and
`transition_keeps_content` apply to it). -/
theorem transition_under_faults {s : State} (h : Inv s) (t : Nat) (cls : String) (flt : Option Fault) :
    Inv (stepF s (.transition t cls) flt).1 ∧
    (∀ e ∈ (stepF s (.transition t cls) flt).1.ents, Readable (stepF s (.transition t cls) flt).1 e) ∧
    ((stepF s (.transition t cls) flt).2 = false → (stepF s (.transition t cls) flt).1 = s) ∧
    ((stepF s (.transition t cls) flt).2 = true →
      step s (.transition t cls) = ((stepF s (.transition t cls) flt).1, true)) := by
  have hi := stepF_inv h (.transition t cls) flt
  refine ⟨hi, readable_of_inv hi, ?_, ?_⟩
  · intro h2
    unfold stepF at h2 ⊢
    cases ha : applyF s (.transition t cls) flt with
    | none => rfl
    | some x => rw [ha] at h2; simp at h2
  · intro h2
    unfold stepF at h2 ⊢
    cases ha : applyF s (.transition t cls) flt with
    | none => rw [ha] at h2; simp at h2
    | some x =>
      simp only []
      rcases applyF_dichotomy s (.transition t cls) flt with hd | hd
      · rw [hd] at ha; cases ha
      · rw [hd] at ha
        unfold step
        rw [ha]

/-- **(b) with faults.** The invariant — and with it the readability of every entity — holds after
every history in which any call may be struck by any part-store fault. -/
theorem invariant_all_faulty_histories (stores : List SName) (cmap : List (String × String))
    (hcfg : CfgOk stores cmap) (ops : List (Op × Option Fault)) :
    Inv (runF (init stores cmap) ops) ∧
    ∀ e ∈ (runF (init stores cmap) ops).ents, Readable (runF (init stores cmap) ops) e := by
  have h := runF_inv (init_inv hcfg.1 hcfg.2) ops
  exact ⟨h, readable_of_inv h⟩

-- ---------------------------------------------------------------- non-vacuity

/-- Three stores, the configuration of the harness's "route" stack. -/
def exStores : List SName := ["", "ia", "cold"]
def exMap : List (String × String) := [("STANDARD_IA", "ia"), ("GLACIER", "cold"), ("DEEP_ARCHIVE", "cold")]

example : CfgOk exStores exMap := by
  refine ⟨by decide, ?_⟩
  intro c n h
  simp [exMap] at h
  rcases h with ⟨_, rfl⟩ | ⟨_, rfl⟩ | ⟨_, rfl⟩ <;> right <;> decide

/-- Two GLACIER objects with the same content (one deduplicated part, shared), the first one with
that part twice (append of the same bytes): a history in which everything above is non-trivial. -/
def exState : State :=
  run (init exStores exMap) [.put 0 (some "GLACIER") 7, .append 0 7, .put 2 (some "DEEP_ARCHIVE") 7]

-- the part id 0 is referenced three times (twice by entity 0, once by entity 2) and lives in "cold"
example : exState.reg 0 = 3 ∧ exState.phys "cold" 0 = some 7 ∧
    exState.ents.map (fun e => e.parts.map (·.pid)) = [[0, 0], [0]] := by decide

-- a same-store transition (GLACIER → DEEP_ARCHIVE, both "cold") succeeds and keeps the part ids
example : (step exState (.transition 0 "DEEP_ARCHIVE")).2 = true ∧
    ((step exState (.transition 0 "DEEP_ARCHIVE")).1.ents.map fun e => (e.id, e.parts.map (·.pid))) =
      [(2, [0]), (0, [0, 0])] := by decide

-- a cross-store transition (→ STANDARD_IA = "ia") succeeds, copies both rows under fresh ids into
-- "ia", and the shared part stays in "cold" for the other object (ref_count 3 → 1)
example : (step exState (.transition 0 "STANDARD_IA")).2 = true ∧
    ((step exState (.transition 0 "STANDARD_IA")).1.ents.map fun e => (e.id, e.parts.map fun r => (r.pid, r.store))) =
      [(2, [(0, "cold")]), (0, [(3, "ia"), (4, "ia")])] ∧
    (step exState (.transition 0 "STANDARD_IA")).1.reg 0 = 1 ∧
    (step exState (.transition 0 "STANDARD_IA")).1.phys "cold" 0 = some 7 := by decide

-- an object written while GLACIER is unmapped stays in the default store after GLACIER is remapped
-- to "cold", remains readable, and a transition to DEEP_ARCHIVE then moves it to "cold"
example :
    let s := run (init exStores []) [.put 0 (some "GLACIER") 5, .remap [("GLACIER", "cold"), ("DEEP_ARCHIVE", "cold")]]
    (s.ents.map fun e => e.parts.map (·.store)) = [[""]] ∧
    (s.ents.map (readBack s)) = [[some 5]] ∧
    ((step s (.transition 0 "DEEP_ARCHIVE")).1.ents.map fun e => e.parts.map (·.store)) = [["cold"]] := by decide

-- deleting the co-referrer and collecting garbage keeps the survivor readable
example :
    let s := run exState [.transition 0 "DEEP_ARCHIVE", .delete 2, .gc]
    (s.ents.map (readBack s)) = [[some 7, some 7]] ∧ s.reg 0 = 2 := by decide

-- faults: entity 0 of `exState` has two parts in "cold"; a transition to STANDARD_IA copies both.
-- A failing PutPart at the second copy step aborts (after the first copy was already made) …
example : (stepF exState (.transition 0 "STANDARD_IA") (some ⟨1, .put, false⟩)).2 = false ∧
    crossCount (storeFor exState.cmap "STANDARD_IA") [⟨0, "cold", 7, 0⟩, ⟨0, "cold", 7, 1⟩] = 2 := by decide
-- … a broken source stream at the first one too, also when Close fails on top …
example : (stepF exState (.transition 0 "STANDARD_IA") (some ⟨0, .read, true⟩)).2 = false := by decide
-- … while a failing Close alone, or a fault planned for a third copy step, lets it succeed
example : (stepF exState (.transition 0 "STANDARD_IA") (some ⟨0, .close, true⟩)).2 = true ∧
    (stepF exState (.transition 0 "STANDARD_IA") (some ⟨2, .put, false⟩)).2 = true := by decide

end Pithos.C14Routing
