/-
C17 — erasure coding tolerates parity-many shard faults and never lies.

Property theorems only (model: `Pithos.Model.ErasureCoding`; lemmas: `Pithos.Lemmas.ErasureCoding*`).

The full statement — "≤ p faulty shards of ANY kind ⇒ the read returns the original and healing
restores the missing shards; > p ⇒ the read fails or returns the original" — is FALSE for
erasurecoding.go as it is; five negation witnesses below (each replayed on the implementation on every
run). What holds, for every MDS code, every well-formed (d, p, stripe) and every content:

* `few_faults_read_original_partial` / `many_faults_never_lie_partial`, under the hypothesis that no shard
  *lies* (`ShardHonest`: every frame a shard yields is the true frame, nothing frame-like follows the
  last one) — with at least `d` intact shards the read returns the original; with at least one intact
  shard it returns the original or fails; `heal_restores_data_shards_partial`: every unopenable DATA shard
  is rewritten with its original stream (all shards with the repaired heal path);
* the fault kinds that are honest: missing, truncated at ANY byte position, payload damage (barring a
  hash collision), a short trailer — so e.g. `missing_or_truncated_tolerated`.

The excluded triggers are exactly the witnesses: an altered `dataBytes` field, a shard of another
part, every shard damaged (no intact one), a trailing frame-sized garbage, and — for healing — a
missing PARITY shard.

Variants (`Fix`): the theorems hold for every setting of the switches. /repo now carries
`notFoundWhenAllMissing` and `healParity` (so `missing_parity_shard_not_restored` is a theorem about the
variant before that repair); `endWhenEnoughEnded` and `failWhenTooFewOpen` are proposed
(`trailing_bytes_tolerated_when_repaired`, `all_shards_unopenable_fails_when_repaired`); what no repair
short of a format change cures: `databytes_field_not_authenticated`, `foreign_shard_accepted`,
`all_shards_cut_behind_header_read_empty`.
-/
import Pithos.Lemmas.ErasureCodingKinds
import Pithos.Lemmas.ErasureCodingHeal
import Pithos.Model.PartStoreToy

namespace Pithos.C17
open Pithos.Codec Pithos.EC

/-! ## no faults -/

/-- Every shard intact: the read returns exactly the part and heals nothing. -/
theorem intact_read_original (c : Cfg) (code : Code) (H : Bytes → Bytes) (wf : WF c code H) (fix : Fix) (b : Bytes) :
    read c code H fix ((List.range c.n).map fun k => some (shardStream c code H k b))
      = .result ⟨b, false, List.replicate c.n none, []⟩ := read_intact c code H wf fix b

/-! ## honest shards -/

theorem exists_of_countP_pos {q : Nat → Bool} {n : Nat} (h : 1 ≤ (List.range n).countP q) : ∃ k, k < n ∧ q k = true := by
  have : 0 < (List.range n).countP q := h
  rw [List.countP_pos_iff] at this
  obtain ⟨k, hk, hq⟩ := this
  exact ⟨k, List.mem_range.1 hk, hq⟩

/-- **few_faults_read_original_partial.** No shard lies and at least `d` of the `d + p` shards are intact
(i.e. at most `p` are missing / truncated / detectably damaged, in any combination): the read returns
exactly the original part, without error. Excluded trigger: a lying shard (`¬ ShardHonest`). -/
theorem few_faults_read_original_partial (c : Cfg) (code : Code) (H : Bytes → Bytes) (wf : WF c code H) (mds : MDS c code)
    (fix : Fix) (b : Bytes) (streams : List (Option Bytes)) (hlen : streams.length = c.n)
    (hon : ∀ k, k < c.n → ShardHonest c code H b k (streams.getD k none))
    (hfew : c.d ≤ (List.range c.n).countP (shardIntact c code H b streams)) :
    ∃ r, read c code H fix streams = .result r ∧ r.failed = false ∧ r.out = b := by
  obtain ⟨k0, hk0, hq⟩ := exists_of_countP_pos (Nat.le_trans wf.d_pos hfew)
  simp only [shardIntact, decide_eq_true_eq] at hq
  obtain ⟨r, hr, h1, h2⟩ := read_honest c code H wf mds fix b streams hlen hon ⟨k0, hk0, hq⟩
  exact ⟨r, hr, h2 hfew, h1 (h2 hfew)⟩

/-- **many_faults_never_lie_partial.** No shard lies and at least ONE shard is intact — however many
others are faulty: the read fails, or it returns exactly the original part. Excluded triggers: a lying
shard; no intact shard at all (every shard damaged). -/
theorem many_faults_never_lie_partial (c : Cfg) (code : Code) (H : Bytes → Bytes) (wf : WF c code H) (mds : MDS c code)
    (fix : Fix) (b : Bytes) (streams : List (Option Bytes)) (hlen : streams.length = c.n)
    (hon : ∀ k, k < c.n → ShardHonest c code H b k (streams.getD k none))
    (hint : ∃ k0, k0 < c.n ∧ streams.getD k0 none = some (shardStream c code H k0 b)) :
    ∃ r, read c code H fix streams = .result r ∧ (r.failed = true ∨ r.out = b) := by
  obtain ⟨r, hr, h1, _⟩ := read_honest c code H wf mds fix b streams hlen hon hint
  refine ⟨r, hr, ?_⟩
  cases hf : r.failed
  · exact Or.inr (h1 hf)
  · exact Or.inl rfl

/-- **heal_restores_data_shards_partial.** No shard lies, at least `d` shards intact: every DATA shard that
could not be opened (missing, or with an unusable shard header) is rewritten by the healing read with
exactly the stream `PutPart` had written for it. For PARITY shards this holds only with the repaired
heal path (`fix.healParity`, code recomputes whole codewords) — see `missing_parity_shard_not_restored`. -/
theorem heal_restores_data_shards_partial (c : Cfg) (code : Code) (H : Bytes → Bytes) (wf : WF c code H) (mds : MDS c code)
    (fix : Fix) (b : Bytes) (streams : List (Option Bytes)) (hlen : streams.length = c.n)
    (hon : ∀ k, k < c.n → ShardHonest c code H b k (streams.getD k none))
    (hfew : c.d ≤ (List.range c.n).countP (shardIntact c code H b streams)) :
    ∃ r, read c code H fix streams = .result r ∧
      ∀ k, k < c.d → openShard c k (streams.getD k none) = none →
        r.heals.getD k none = some (shardStream c code H k b) := by
  obtain ⟨r, hr, hh⟩ := read_heals c code H wf mds fix b streams hlen hon hfew
  exact ⟨r, hr, fun k hk hn => hh k (by have : c.d ≤ c.n := Nat.le_add_right _ _; omega) hn (Or.inl hk)⟩

/-- … and with the repaired heal path every unopenable shard, parity included, is restored. -/
theorem heal_restores_all_shards_repaired (c : Cfg) (code : Code) (H : Bytes → Bytes) (wf : WF c code H) (mds : MDS c code)
    (mdsAll : MDSAll c code) (fix : Fix) (hfix : fix.healParity = true) (b : Bytes) (streams : List (Option Bytes))
    (hlen : streams.length = c.n) (hon : ∀ k, k < c.n → ShardHonest c code H b k (streams.getD k none))
    (hfew : c.d ≤ (List.range c.n).countP (shardIntact c code H b streams)) :
    ∃ r, read c code H fix streams = .result r ∧
      ∀ k, k < c.n → openShard c k (streams.getD k none) = none →
        r.heals.getD k none = some (shardStream c code H k b) := by
  obtain ⟨r, hr, hh⟩ := read_heals c code H wf mds fix b streams hlen hon hfew
  exact ⟨r, hr, fun k hk hn => hh k hk hn (Or.inr ⟨hfix, mdsAll⟩)⟩

/-! ## which fault kinds are honest -/

theorem missing_shard_honest (c : Cfg) (code : Code) (H : Bytes → Bytes) (b : Bytes) (k : Nat) :
    ShardHonest c code H b k none := honest_missing c code H b k

/-- truncated at any byte position: inside the shard header, at a frame boundary, inside a frame header,
inside a payload -/
theorem truncated_shard_honest (c : Cfg) (code : Code) (H : Bytes → Bytes) (wf : WF c code H) (b : Bytes) (k : Nat)
    (hk : k < c.n) (m : Nat) : ShardHonest c code H b k (some ((shardStream c code H k b).take m)) :=
  honest_truncated c code H wf b k hk m

/-- **a well-formed shard of ANOTHER position is a faulty shard, not data.** Store `k` holding (a copy of) the
shard of position `j ≠ k` of the same part: the shard header names `j`, `openPartReaders` demands `k`, the
shard does not open — it counts as one honest fault (and is healed), its frames never enter slot `k` of a
stripe. (The seeded change C17-3 weakened `idx != i` to a bounds check.) -/
theorem misplaced_shard_rejected (c : Cfg) (code : Code) (H : Bytes → Bytes) (wf : WF c code H) (b : Bytes) (k j : Nat)
    (hj : j < c.n) (hjk : j ≠ k) : openShard c k (some (shardStream c code H j b)) = none := by
  have hlen := shardHeader_length c j
  unfold shardStream openShard
  have h1 : ¬ (shardHeader c j ++ framesFrom c code H j 0 (stripesOf c b)).length < shardHeaderSize := by simp [hlen]
  simp only [h1, if_false]
  rw [take_append_len _ _ _ hlen, parseShardHeader_shardHeader c code H wf j hj]
  have : (some (c.d, c.n, j, c.stripe) : Option (Nat × Nat × Nat × Nat)) ≠ some (c.d, c.n, k, c.stripe) := by
    intro h; injection h with h; injection h with _ h; injection h with _ h; injection h with h _; exact hjk h
  simp [this]

theorem misplaced_shard_honest (c : Cfg) (code : Code) (H : Bytes → Bytes) (wf : WF c code H) (b : Bytes) (k j : Nat)
    (hj : j < c.n) (hjk : j ≠ k) : ShardHonest c code H b k (some (shardStream c code H j b)) := by
  unfold ShardHonest
  rw [misplaced_shard_rejected c code H wf b k j hj hjk]
  trivial

theorem intact_shard_honest (c : Cfg) (code : Code) (H : Bytes → Bytes) (wf : WF c code H) (b : Bytes) (k : Nat) (hk : k < c.n) :
    ShardHonest c code H b k (some (shardStream c code H k b)) := by
  have := honest_truncated c code H wf b k hk (shardStream c code H k b).length
  rwa [List.take_length] at this

/-- a frame whose body no longer begins with the true payload (flipped payload byte, …) is rejected,
barring a hash collision; so is one whose hash or stripe-index field was altered (`readFrame_fields`) -/
theorem damaged_payload_rejected (H : Bytes → Bytes) (hH : ∀ x, (H x).length = 32) (j m : Nat) (p body : Bytes)
    (cf : NoCollision H (body.take p.length) p)
    (hm1 : 1 ≤ m) (hm : m < 4294967296) (hp1 : 1 ≤ p.length) (hp : p.length < 4294967296)
    (hne : body.take p.length ≠ p) : readFrame H j (frameHeader H j m p ++ body) = .bad :=
  readFrame_header_then H hH j m p body cf hm1 hm hp1 hp hne

/-- A fault pattern in which every shard is intact, missing, or truncated at an arbitrary byte position. -/
def applyDamage (c : Cfg) (code : Code) (H : Bytes → Bytes) (b : Bytes) (dmg : Nat → Option (Option Nat)) : List (Option Bytes) :=
  (List.range c.n).map fun k =>
    match dmg k with
    | none => some (shardStream c code H k b)                 -- intact
    | some none => none                                       -- missing
    | some (some m) => some ((shardStream c code H k b).take m)   -- cut after m bytes

/-- **missing_or_truncated_tolerated.** Any combination of missing shards and shards truncated at any
byte positions, as long as at least `d` shards are untouched: the read returns exactly the original.
Every (d ≥ 1, p, stripe), every content, every MDS code. -/
theorem missing_or_truncated_tolerated (c : Cfg) (code : Code) (H : Bytes → Bytes) (wf : WF c code H) (mds : MDS c code)
    (fix : Fix) (b : Bytes) (dmg : Nat → Option (Option Nat))
    (hfew : c.d ≤ (List.range c.n).countP fun k => (dmg k).isNone) :
    ∃ r, read c code H fix (applyDamage c code H b dmg) = .result r ∧ r.failed = false ∧ r.out = b := by
  have hD : ∀ k, k < c.n → (applyDamage c code H b dmg).getD k none =
      match dmg k with
      | none => some (shardStream c code H k b)
      | some none => none
      | some (some m) => some ((shardStream c code H k b).take m) := by
    intro k hk
    simp [applyDamage, List.getD_eq_getElem?_getD, List.getElem?_map, List.getElem?_range hk]
  apply few_faults_read_original_partial c code H wf mds fix b _ (by simp [applyDamage])
  · intro k hk
    rw [hD k hk]
    cases h : dmg k with
    | none => exact intact_shard_honest c code H wf b k hk
    | some o =>
      cases o with
      | none => exact missing_shard_honest c code H b k
      | some m => exact truncated_shard_honest c code H wf b k hk m
  · refine Nat.le_trans hfew (List.countP_mono_left fun k hk hq => ?_)
    have hk' := List.mem_range.1 hk
    simp only [shardIntact, decide_eq_true_eq]
    rw [hD k hk']
    cases h : dmg k with
    | none => rfl
    | some o => rw [h] at hq; cases hq

/-! ## non-vacuity: an MDS code and well-formed parameters exist -/

/-- replication: one data shard, `p` copies -/
def replCode : Code where
  parity := fun _ p data => List.replicate p (data.headD [])
  reconstruct := fun _ _ avail => (avail.filterMap id).head?.map fun x => [x]
  reconstructAll := fun _ p avail => (avail.filterMap id).head?.map fun x => List.replicate (1 + p) x

theorem filterMap_id_length (l : List (Option Bytes)) : (l.filterMap id).length = (l.filter Option.isSome).length := by
  induction l with
  | nil => rfl
  | cons a t ih => cases a <;> simp [List.filterMap_cons, List.filter_cons, ih]

theorem repl_head (p stripe : Nat) (data : List Bytes) (avail : List (Option Bytes)) (hl : data.length = 1)
    (hal : avail.length = (⟨1, p, stripe⟩ : Cfg).n)
    (htrue : ∀ k, k < (⟨1, p, stripe⟩ : Cfg).n → avail.getD k none = none ∨
      avail.getD k none = some ((data ++ replCode.parity 1 p data).getD k []))
    (hcount : 1 ≤ (avail.filter Option.isSome).length) :
    ∃ x, data = [x] ∧ (avail.filterMap id).head? = some x := by
  cases data with
  | nil => simp at hl
  | cons x t =>
    have ht : t = [] := by
      cases t with
      | nil => rfl
      | cons _ _ => simp at hl
    subst ht
    refine ⟨x, rfl, ?_⟩
    have hall : ∀ k, k < 1 + p → ([x] ++ replCode.parity 1 p [x]).getD k [] = x := by
      intro k hk
      simp only [replCode, List.headD_cons, List.getD_eq_getElem?_getD]
      cases k with
      | zero => rfl
      | succ k =>
        have hkp : k < p := by omega
        simp [List.getElem?_replicate, hkp]
    have hmem : ∀ y ∈ avail.filterMap id, y = x := by
      intro y hy
      rw [List.mem_filterMap] at hy
      obtain ⟨o, ho, hoy⟩ := hy
      obtain ⟨i, hi, hio⟩ := List.getElem_of_mem ho
      have hi' : i < 1 + p := by simpa [hal, Cfg.n] using hi
      have hg : avail.getD i none = o := by
        rw [List.getD_eq_getElem?_getD, List.getElem?_eq_getElem hi, hio]; rfl
      rcases htrue i (by simpa [Cfg.n] using hi') with h1 | h1
      · rw [hg] at h1; subst h1; cases hoy
      · rw [hg, hall i hi'] at h1; subst h1; simpa using hoy.symm
    have hne : avail.filterMap id ≠ [] := by
      intro he
      have : (avail.filter Option.isSome).length = 0 := by
        rw [← filterMap_id_length, he]; rfl
      omega
    cases hfm : avail.filterMap id with
    | nil => exact absurd hfm hne
    | cons y ys =>
      have := hmem y (by rw [hfm]; exact List.mem_cons_self)
      simp [this]

theorem replCode_mds (p stripe : Nat) : MDS ⟨1, p, stripe⟩ replCode where
  reconstruct_ok := by
    intro data L avail hl _ hal htrue hcount
    obtain ⟨x, hx, hh⟩ := repl_head p stripe data avail hl hal htrue hcount
    subst hx
    simp only [replCode, hh, Option.map_some]

/-- … and it recomputes whole codewords (the hypothesis of the repaired heal path). -/
theorem replCode_mdsAll (p stripe : Nat) : MDSAll ⟨1, p, stripe⟩ replCode where
  reconstructAll_ok := by
    intro data L avail hl _ hal htrue hcount
    obtain ⟨x, hx, hh⟩ := repl_head p stripe data avail hl hal htrue hcount
    subst hx
    simp only [replCode, hh, Option.map_some, List.headD_cons]
    congr 1
    rw [Nat.add_comm, List.replicate_succ]
    rfl

theorem repl_wf (p : Nat) (hp : 1 + p < 65536) : WF ⟨1, p, 1024⟩ replCode PartStore.toyHash where
  d_pos := Nat.le_refl 1
  n_lt := by simpa [Cfg.n] using hp
  stripe_ge := Nat.le_refl 1024
  stripe_lt := by show 1024 < 4294967296; decide
  stripeData_lt := by show 1 * 1024 < 4294967296; decide
  hash_len := fun x => by simp [PartStore.toyHash]
  parity_len := fun data L hl hx => by
    refine ⟨by simp [replCode], fun y hy => ?_⟩
    simp only [replCode, List.mem_replicate] at hy
    rw [hy.2]
    cases data with
    | nil => simp at hl
    | cons a t => exact hx a List.mem_cons_self

/-- The hypotheses of the fault-tolerance theorem are met by a concrete instance: 1 data + 2 parity
(replication), the data shard missing and the first copy cut in the middle of its only frame — the part
is still read back from the last copy. -/
example : ∃ r, read ⟨1, 2, 1024⟩ replCode PartStore.toyHash Fix.asIs
      (applyDamage ⟨1, 2, 1024⟩ replCode PartStore.toyHash [1, 2, 3] fun k => if k = 0 then some none else if k = 1 then some (some 40) else none)
      = .result r ∧ r.failed = false ∧ r.out = [1, 2, 3] :=
  missing_or_truncated_tolerated _ _ _ (repl_wf 2 (by decide)) (replCode_mds 2 1024) _ _ _ (by decide)

/-! ## negation witnesses for erasurecoding.go as it is (2 data + 1 parity, stripe 1024, toy code and hash) -/

def wc : Cfg := ⟨2, 1, 1024⟩
def wcode : Code := PartStore.toyCode
def wH : Bytes → Bytes := PartStore.toyHash
def partA : Bytes := [1, 2, 3, 4]
def partB : Bytes := [9, 9, 9, 9]
def shardsOf (b : Bytes) : List (Option Bytes) := (List.range wc.n).map fun k => some (shardStream wc wcode wH k b)
def setShard (l : List (Option Bytes)) (k : Nat) (s : Option Bytes) : List (Option Bytes) := l.set k s

/-- bytes 8‥11 of the first frame header of a shard stream (the `dataBytes` field) replaced -/
def withDataBytes (s : Bytes) (v : Nat) : Bytes := s.take 23 ++ be32 v ++ s.drop 27

/-- **Witness 1 — `dataBytes` is not authenticated.** ONE shard with one altered header field (≤ p
faults): the read returns 1 byte instead of 4, without error. (The frame hash covers only the payload,
and the loop takes `dataBytes` from the first valid frame.) -/
theorem databytes_field_not_authenticated :
    read wc wcode wH Fix.asIs (setShard (shardsOf partA) 0 (some (withDataBytes (shardStream wc wcode wH 0 partA) 1)))
      = .result ⟨[1], false, [none, none, none], []⟩ := by
  decide

/-- **Witness 2 — a shard of another part is accepted.** Shard 0 of part B stored under part A (≤ p
faults): the read returns bytes of B mixed with bytes of A, without error. (Neither the shard header
nor the frames name the part.) -/
theorem foreign_shard_accepted :
    read wc wcode wH Fix.asIs (setShard (shardsOf partA) 0 (some (shardStream wc wcode wH 0 partB)))
      = .result ⟨[9, 9, 3, 4], false, [none, none, none], []⟩ := by
  decide

/-- **Witness 3 — every shard damaged.** All three shard headers have one flipped byte (> p faults): the
read returns the EMPTY part without error — and "heals": every shard store is overwritten with the
shard stream of an empty part. -/
theorem all_shards_damaged_reads_empty :
    read wc wcode wH Fix.asIs ((shardsOf partA).map fun s => s.map fun bs => (bs.headD 0 ^^^ 1) :: bs.drop 1)
      = .result ⟨[], false, (List.range wc.n).map (fun k => some (shardStream wc wcode wH k [])), []⟩ := by
  decide

/-- … with `failWhenTooFewOpen` (fixes/C17-too-few-readable-shards-is-an-error.patch) that read fails at once
and writes nothing. -/
theorem all_shards_unopenable_fails_when_repaired :
    read wc wcode wH { failWhenTooFewOpen := true } ((shardsOf partA).map fun s => s.map fun bs => (bs.headD 0 ^^^ 1) :: bs.drop 1)
      = .result ⟨[], true, [none, none, none], []⟩ := by
  decide

/-- **Witness 3b — every shard damaged, still open for every repair short of a format change.** All three
shards cut right behind their (valid) shard header: every shard opens, none shows a frame, the read
returns the EMPTY part without error — also with all repairs (`Fix.repaired`): nothing in the format
says how long the part is. -/
theorem all_shards_cut_behind_header_read_empty :
    read wc wcode wH Fix.repaired ((shardsOf partA).map fun s => s.map fun bs => bs.take 15)
      = .result ⟨[], false, [none, none, none], []⟩ := by
  decide

/-- **Witness 4 — a frame-sized trailer breaks the read.** 48 extra bytes after ONE shard (≤ p faults):
the stream delivers the whole part and then fails ("insufficient shards in stripe 1"). -/
theorem trailing_bytes_fail_the_read :
    read wc wcode wH Fix.asIs (setShard (shardsOf partA) 1 (some (shardStream wc wcode wH 1 partA ++ List.replicate 48 0xab)))
      = .result ⟨partA, true, [none, none, none], [none, none, none]⟩ := by
  decide

/-- … with `endWhenEnoughEnded` (fixes/C17-trailing-garbage-is-a-bad-shard.patch) the same shard set reads
back exactly: two of three readers are at their end, no valid frame is in sight — end of the part. -/
theorem trailing_bytes_tolerated_when_repaired :
    read wc wcode wH { endWhenEnoughEnded := true }
        (setShard (shardsOf partA) 1 (some (shardStream wc wcode wH 1 partA ++ List.replicate 48 0xab)))
      = .result ⟨partA, false, [none, none, none], []⟩ := by
  decide

/-- **Witness 5 — a missing PARITY shard is "healed" with empty frames.** The parity shard is missing
(≤ p faults): the read returns the part, but what it writes back to the parity store is a shard header
followed by a zero-length frame — not the parity shard (`ReconstructData` does not rebuild parity). -/
theorem missing_parity_shard_not_restored :
    ∃ r, read wc wcode wH Fix.asIs (setShard (shardsOf partA) 2 none) = .result r ∧ r.out = partA ∧ r.failed = false ∧
      r.heals.getD 2 none = some (shardHeader wc 2 ++ frame wH 0 4 []) ∧
      r.heals.getD 2 none ≠ some (shardStream wc wcode wH 2 partA) := by
  refine ⟨_, rfl, ?_, ?_, ?_, ?_⟩ <;> decide

/-- … while a missing DATA shard is restored exactly (here with the replication code, whose
`reconstruct` is total): the heal stream of shard 0 is its original stream. -/
theorem missing_data_shard_restored :
    ∃ r, read ⟨1, 1, 1024⟩ replCode wH Fix.asIs [none, some (shardStream ⟨1, 1, 1024⟩ replCode wH 1 [5, 6, 7])] = .result r ∧
      r.out = [5, 6, 7] ∧ r.failed = false ∧ r.heals.getD 0 none = some (shardStream ⟨1, 1, 1024⟩ replCode wH 0 [5, 6, 7]) := by
  refine ⟨_, rfl, ?_, ?_, ?_⟩ <;> decide

end Pithos.C17
