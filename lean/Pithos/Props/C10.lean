/-
C10 — operations are all-or-nothing across process crashes (filesystem part store + SQLite).

Model `Pithos.TxFs`: a transaction is a list of part-store calls; its finalisation is a sequence
of atomic steps (temp file written · first rename of a pre-commit closure · second rename ·
database commit · backup removal); a process kill falls between two steps (`crashAt k`).
"Consistent" = every part the surviving database state references is in the directory with the
content the database expects — what makes every listed object fully readable.

 * `crash_consistent_partial`   the code as it is: holds for transactions that neither delete nor
                                replace a part the committed state references;
 * `crash_between_rename_and_commit_breaks`  the witness that the restriction is needed
                                (DeletePart renames the live file away BEFORE the commit);
 * `crash_consistent_recovered` with a start-up pass that renames an orphaned `.txbackup.*` file
                                back when its target is missing: holds for every transaction whose
                                PutParts use fresh ids — deletes and overwrites included;
 * `recover_clean_noop`         that pass changes nothing in a directory without backup files.
-/
import Pithos.Lemmas.TxFs
import Pithos.Gen.TxFsHooks

namespace Pithos.C10
open Pithos.TxFs

/-- The directory right before `tx.Commit()` of an unkilled run. -/
def filesBeforeCommit (regs : List Reg) (fs0 : Files) : Files :=
  (runActs { files := fs0 } (beforeCommitActs regs)).files

/-- **crash_consistent_partial** (the code as it is). For every transaction `regs`, every crash
point `k`, every directory `fs0` and every pair of database states (`before`/`after` = the part
references of the committed state without/with the transaction): if `fs0` serves `before`, an
unkilled run would serve `after`, and no call of the transaction deletes or replaces a part that
`before` references, then the state found after the kill has the database in `before` or in
`after` (never in between: `committed` is a Boolean) and serves whichever it is. -/
theorem crash_consistent_partial (regs : List Reg) (k : Nat) (fs0 : Files) (before after : Refs)
    (hb : Consistent fs0 before)
    (ha : Consistent (filesBeforeCommit regs fs0) after)
    (hn : ∀ r ∈ regs, ∀ x ∈ before, r.id ≠ x.1) :
    Consistent (crashAt regs k fs0).files (if (crashAt regs k fs0).committed then after else before) := by
  simp only [crashAt]
  by_cases hk : k ≤ (beforeCommitActs regs).length
  · simp only [hk, if_true, Bool.false_eq_true, if_false]
    intro x hx
    rw [runActs_other]
    · exact hb x hx
    · intro a ha' e
      have hmem := (mem_beforeCommitActs regs a (List.mem_of_mem_take ha')).1
      exact hn _ hmem x hx (by simpa [FName.id] using e.symm)
  · simp only [hk, if_false, if_true]
    intro x hx
    rw [runActs_after_part]
    · exact ha x hx
    · intro a ha'
      exact mem_afterActs regs 0 a (List.mem_of_mem_take ha')

/-- **Negation witness for the code as it is.** DeleteObject of an unversioned key: the
transaction is one `DeletePart 0`; the committed state references part 0. Killed after the first
atomic step (the pre-commit rename to `.txbackup.*`) and before the database commit, the database
is still in `before`, which references part 0 — and part 0 is not in the directory (its content
sits in the backup file, which nothing restores). -/
theorem crash_between_rename_and_commit_breaks :
    let fs0 := emptyFiles.set (.part 0) (some [7])
    let s := crashAt [.del 0] 1 fs0
    consistentB fs0 [(0, [7])] = true ∧ s.committed = false ∧ consistentB s.files [(0, [7])] = false
      ∧ s.files (.part 0) = none ∧ s.files (.backup 0 0) = some [7] := by
  decide

/-- **crash_consistent_recovered** (with the start-up pass `recover`). As above, but the only
restriction left is that PutPart never targets an id the committed state already references
(part ids are fresh ULIDs) and that the directory holds no backup files when the transaction
starts: deletes, overwrites, completes, aborts and transitions of existing parts are covered. -/
theorem crash_consistent_recovered (regs : List Reg) (k : Nat) (fs0 : Files) (before after : Refs)
    (hnb : NoBackups fs0)
    (hb : Consistent fs0 before)
    (ha : Consistent (filesBeforeCommit regs fs0) after)
    (hp : ∀ r ∈ regs, r.isPut = true → ∀ x ∈ before, r.id ≠ x.1) :
    Consistent (recover regs.length (crashAt regs k fs0).files)
      (if (crashAt regs k fs0).committed then after else before) := by
  simp only [crashAt]
  by_cases hk : k ≤ (beforeCommitActs regs).length
  · simp only [hk, if_true, Bool.false_eq_true, if_false]
    intro x hx
    apply held_recover
    apply held_runActs
    · intro a ha'
      obtain ⟨hmem, hslot, hkind⟩ := mem_beforeCommitActs regs a (List.mem_of_mem_take ha')
      by_cases hid : a.reg.id = x.1
      · right
        -- a call on a referenced id is a DeletePart, whose only step before the commit is the rename-away
        have hnotput : a.reg.isPut = false := by
          cases hput : a.reg.isPut with
          | false => rfl
          | true => exact absurd hid (hp _ hmem hput x hx)
        rcases hkind with ⟨r, j, rfl, hr⟩ | ⟨r, j, rfl⟩ | ⟨r, j, rfl, hr⟩
        · simp [Act.reg] at hnotput; rw [hnotput] at hr; cases hr
        · refine ⟨j, by simpa [Act.slot] using hslot, ?_⟩
          cases r with
          | put id c => simp [Act.reg, Reg.isPut] at hnotput
          | del id => simp only [Act.reg, Reg.id] at hid; rw [hid]
        · simp [Act.reg] at hnotput; rw [hnotput] at hr; cases hr
      · left; exact hid
    · exact Or.inl ⟨hb x hx, fun i => hnb _ _⟩
  · simp only [hk, if_false, if_true]
    intro x hx
    apply recover_part_of_some
    rw [runActs_after_part]
    · exact ha x hx
    · intro a ha'
      exact mem_afterActs regs 0 a (List.mem_of_mem_take ha')

/-- **recover_clean_noop.** The start-up pass changes nothing in a directory without backup files
(so it is invisible except after an interrupted transaction). -/
theorem recover_clean_noop (n : Nat) (fs : Files) (h : NoBackups fs) : recover n fs = fs := by
  funext nm
  cases nm with
  | part id =>
    cases hp : fs (.part id) with
    | some v => simp [recover, hp]
    | none => simp [recover, hp, firstBackup_none n fs id (fun i _ => h id i)]
  | backup id i =>
    cases hp : fs (.part id) <;> simp [recover, hp, h id i]
  | temp id i => rfl

/-- The witness transaction under the repaired start-up: the same kill, then `recover`, serves
`before` again. -/
theorem recovered_witness_serves_before :
    let fs0 := emptyFiles.set (.part 0) (some [7])
    consistentB (recover 1 (crashAt [.del 0] 1 fs0).files) [(0, [7])] = true := by
  decide

/-- Non-vacuity of `crash_consistent_partial`: a PutObject of a new key next to an existing
object (part 3) meets every hypothesis, … -/
example :
    let fs0 := emptyFiles.set (.part 3) (some [4])
    consistentB fs0 [(3, [4])] = true
    ∧ consistentB (filesBeforeCommit [.put 7 [9]] fs0) [(3, [4]), (7, [9])] = true
    ∧ (∀ r ∈ [Reg.put 7 [9]], ∀ x ∈ [((3 : Nat), ([4] : Bytes))], r.id ≠ x.1) := by
  refine ⟨by decide, by decide, ?_⟩
  simp [Reg.id]

/-- … and of `crash_consistent_recovered`: an overwrite (new part 7 published, old part 3 deleted). -/
example :
    let fs0 := emptyFiles.set (.part 3) (some [4])
    NoBackups fs0 ∧ consistentB fs0 [(3, [4])] = true
    ∧ consistentB (filesBeforeCommit [.put 7 [9], .del 3] fs0) [(7, [9])] = true
    ∧ (∀ r ∈ [Reg.put 7 [9], Reg.del 3], r.isPut = true → ∀ x ∈ [((3 : Nat), ([4] : Bytes))], r.id ≠ x.1) := by
  refine ⟨?_, by decide, by decide, ?_⟩
  · intro id i; simp [emptyFiles, Files.set]
  · simp [Reg.id, Reg.isPut]

/-- The atomic-step view and the closure-level view of a successful commit agree on the witness
transactions (`crashAt` at the last point = `commitOk`). -/
example :
    let fs0 := emptyFiles.set (.part 3) (some [4])
    let regs := [Reg.put 7 [9], Reg.del 3, Reg.put 8 [1], Reg.del 8]
    ∀ nm ∈ [FName.part 3, .part 7, .part 8, .backup 3 1, .backup 8 3, .temp 7 0, .temp 8 2],
      (crashAt regs (numPoints regs) fs0).files nm = (commitOk regs fs0).files nm := by
  decide

-- ---------------------------------------------------------------- T1: the code the model was written against
-- (`Pithos.Gen.TxFsHooks` is regenerated from /repo on every run.)

open Pithos.Gen in
/-- Registration order and the pre-commit and after-commit closures of PutPart (model: `Act.renameAway`,
`Act.publish`, `Act.removeBackup`; the verification point sits between the two renames). -/
theorem code_putpart_closures_are_modelled :
    TxFsHooks.putPartRegistrations = ["OnPreCommit", "OnAfterCommit", "OnRollback"]
    ∧ TxFsHooks.putPartOnPreCommit =
      ["Rename filename backupName", "[err==nil] Set backupCreated true",
       "[!(err==nil)][!errors.Is(err,fs.ErrNotExist)] Return err", "Point fs.putpart.between-renames",
       "Rename tempName filename", "[err!=nil][backupCreated] Rename backupName filename",
       "[err!=nil][backupCreated] Set backupCreated false", "[err!=nil] Return err", "Set published true", "Return nil"]
    ∧ TxFsHooks.putPartOnAfterCommit = ["[backupCreated] Remove backupName", "Return nil"] := ⟨rfl, rfl, rfl⟩

open Pithos.Gen in
/-- Registration order and the pre-commit and after-commit closures of DeletePart: the live file is renamed
away in the PRE-commit closure, the backup removed in the AFTER-commit closure. -/
theorem code_deletepart_closures_are_modelled :
    TxFsHooks.deletePartRegistrations = ["OnPreCommit", "OnAfterCommit", "OnRollback"]
    ∧ TxFsHooks.deletePartOnPreCommit =
      ["Rename filename backupName", "[err==nil] Set backupCreated true", "[err==nil] Return nil",
       "[!(err==nil)][errors.Is(err,fs.ErrNotExist)] Return nil", "[!(err==nil)][!(errors.Is(err,fs.ErrNotExist))] Return err"]
    ∧ TxFsHooks.deletePartOnAfterCommit = ["[backupCreated] Remove backupName", "Return nil"] := ⟨rfl, rfl, rfl⟩

open Pithos.Gen in
/-- Order of `Commit`: pre-commit closures, `tx.Commit()`, after-commit closures (model:
`beforeCommitActs`, the commit point, `afterActs`). -/
theorem code_commit_order_is_modelled :
    TxFsHooks.commitSkeleton =
      ["[!t.ownsFinalization] return nil", "[t.finalized] return nil", "loop-forward onPreCommit",
       "[in-loop] Point tx.precommit", "[in-loop][pointErr!=nil] Rollback", "[in-loop][pointErr!=nil] return pointErr",
       "[in-loop] call fn(ctx)", "[in-loop][hookErr!=nil] Rollback", "[in-loop][hookErr!=nil] return hookErr", "end-loop",
       "Point tx.commit", "[pointErr!=nil] Rollback", "[pointErr!=nil] return pointErr", "sql.Commit",
       "[err!=nil] Rollback", "[err!=nil] return err", "finalized=true", "Point tx.committed",
       "loop-forward onAfterCommit", "[in-loop] Point tx.aftercommit", "[in-loop] call fn(ctx)",
       "[in-loop][hookErr!=nil] return hookErr", "end-loop", "Point tx.done", "return nil"] := rfl

open Pithos.Gen in
/-- Start of the filesystem part store: either no recovery (the code as it is; model without
`recover`) or exactly the modelled pass — restore a `.txbackup.*` file iff its target is missing. -/
theorem code_start_is_modelled :
    TxFsHooks.startCalls =
      (match TxFsHooks.startRecovers with
       | false => ["ValidatedLifecycle.Start", "ensureRootDir"]
       | true => ["ValidatedLifecycle.Start", "ensureRootDir", "restoreOrphanedBackups"])
    ∧ TxFsHooks.recoveryOps =
      (match TxFsHooks.startRecovers with
       | false => []
       | true => ["[range] ContinueIf dirEntry.IsDir()", "[range] ContinueIf !isBackup", "[range] ContinueIf !ok",
                  "[range] ContinueIf err==nil||!errors.Is(err,fs.ErrNotExist)",
                  "[range] Rename filepath.Join(bs.root,dirEntry.Name()) filename"]) := ⟨rfl, rfl⟩

open Pithos.Gen in
/-- T1: the list every registration method of `TxController` appends to. An after-commit closure
must land in the root's AFTER-commit list: the removal of a `.txbackup.*` file may only happen once
the database commit is durable (model: `afterActs` come after the commit point). -/
theorem code_hook_routing_is_modelled :
    TxFsHooks.hookRouting =
      ["OnPreCommit root.onPreCommit", "OnAfterCommit root.onAfterCommit", "OnRollback root.onRollback"]
    ∧ TxFsHooks.hookRoutingRoot =
      ["OnPreCommit root:=t.rootTx()", "OnAfterCommit root:=t.rootTx()", "OnRollback root:=t.rootTx()"] := ⟨rfl, rfl⟩

/-- **Negation witness for an after-commit closure routed into the pre-commit list**
(`root.onPreCommit = append(root.onPreCommit, fn)` in `OnAfterCommit`): at the moment of the COMMIT
the backup of the deleted part 3 is already unlinked while the database is still uncommitted —
neither a rollback nor a start-up recovery can bring the part back. With the code's routing the
backup is there. -/
theorem after_commit_closure_in_pre_list_destroys_backup :
    let fs0 := emptyFiles.set (.part 3) (some [4])
    let bad : Routing := { Routing.code with onAfterCommit := ⟨true, .pre⟩ }
    (Ctl.commitFails true (Ctl.registerAll bad {} [(.root, .del 3)] 0) fs0).1 (.backup 3 0) = none
    ∧ (Ctl.commitFails true (Ctl.registerAll bad {} [(.root, .del 3)] 0) fs0).1 (.part 3) = none
    ∧ (Ctl.commitFails true (Ctl.registerAll bad {} [(.root, .del 3)] 0) fs0).2 (.part 3) = none
    ∧ (Ctl.commitFails true (Ctl.registerAll Routing.code {} [(.root, .del 3)] 0) fs0).1 (.backup 3 0) = some [4] := by
  decide

end Pithos.C10
