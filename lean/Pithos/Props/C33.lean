/-
C33 — virtual-hosted and path-style requests address the same resource; website endpoints and
custom domains never change state.

Part 1 (hand-written model `Pithos.VHost`): for the repaired rewrite the URL the API mux sees for
a virtual-hosted request is IDENTICAL to the URL of the same request sent path style — for every
bucket name, every endpoint, every encoded key (any percent-encoding, valid or not) — hence the
resolution (redirect / bucket / bucket+key) is the same. For the rewrite as it stands: negation
witnesses and the partial theorem (canonical encodings, keys not ending in '/').
Part 2 (T1 table `Pithos.Gen.C33Routes`, regenerated from /repo on every run): the website mux
registers GET/HEAD only, its handlers reach read-only storage methods only, custom domains are
handed to that mux only, every storage.Storage method is classified.
-/
import Pithos.Lemmas.VHost
import Pithos.Spec.VHost
import Pithos.Gen.C33Routes

namespace Pithos.C33
open Pithos.Ascii Pithos.VHost

/-! ### names -/

/-- The characters of a valid bucket name: lower-case letters, digits, '.', '-'. -/
def bucketChar (c : Char) : Bool :=
  (c.toNat ≥ 97 && c.toNat ≤ 122) || (c.toNat ≥ 48 && c.toNat ≤ 57) || c == '.' || c == '-'

/-- What the theorems assume about names: a non-empty bucket name of bucket characters and an API
endpoint that is a plain domain name (no ':' — the setting holds a domain, the port is separate). -/
structure ValidNames (apiEp b : List Char) : Prop where
  nonempty : b ≠ []
  chars : ∀ c ∈ b, bucketChar c = true
  endpoint : ':' ∉ apiEp

theorem bucketChar_keep (c : Char) (h : bucketChar c = true) : keepPath c = true := by
  simp only [bucketChar, Bool.or_eq_true, Bool.and_eq_true, decide_eq_true_eq, beq_iff_eq] at h
  rcases h with ((h | h) | h) | h
  · simp [keepPath, isAlnum, h.1, h.2]
  · simp [keepPath, isAlnum, h.1, h.2]
  · subst h; decide
  · subst h; decide

theorem bucketChar_ne (c : Char) (h : bucketChar c = true) : c ≠ '%' ∧ c ≠ ':' := by
  refine ⟨keep_ne_pct c (bucketChar_keep c h), ?_⟩
  intro e; subst e; revert h; decide

theorem prefix_keep (b : List Char) (hb : ∀ c ∈ b, bucketChar c = true) :
    ∀ c ∈ '/' :: b ++ ['/'], keepPath c = true := by
  intro c hc
  simp only [List.cons_append, List.mem_cons, List.mem_append, List.not_mem_nil, or_false] at hc
  rcases hc with rfl | hc | rfl
  · decide
  · exact bucketChar_keep c (hb c hc)
  · decide

/-! ### the two middlewares on the two spellings of a request -/

theorem rewrite_path_style (r : Bool) (apiEp : List Char) (h : ':' ∉ apiEp) (u : Url) :
    rewrite r apiEp apiEp u = u := by
  simp [rewrite, stripPort_of_no_colon apiEp h]

theorem vhost_host_parts (apiEp b : List Char) (hv : ValidNames apiEp b) :
    stripPort (vhostHost b apiEp) = b ++ dotted apiEp ∧
    (b ++ dotted apiEp != apiEp) = true ∧
    (dotted apiEp).isSuffixOf (b ++ dotted apiEp) = true ∧
    trimSuffix (b ++ dotted apiEp) (dotted apiEp) = b := by
  refine ⟨?_, ?_, ?_, trimSuffix_append b _⟩
  · apply stripPort_of_no_colon
    simp only [vhostHost, dotted, List.mem_append, List.mem_cons, not_or]
    exact ⟨fun hm => (bucketChar_ne _ (hv.chars _ hm)).2 rfl, by decide, hv.endpoint⟩
  · have : (b ++ dotted apiEp).length ≠ apiEp.length := by
      have := List.length_pos_iff.2 hv.nonempty
      simp [dotted]; omega
    have hne : b ++ dotted apiEp ≠ apiEp := fun e => this (by rw [e])
    simpa using hne
  · rw [List.isSuffixOf_iff_suffix]; exact List.suffix_append b _

/-- The repaired rewrite on a virtual-hosted request. -/
theorem rewrite_vhost_repaired (apiEp b : List Char) (hv : ValidNames apiEp b) (u : Url) :
    rewrite true apiEp (vhostHost b apiEp) u =
      if u.path == ['/'] || u.path.isEmpty then { path := '/' :: b, rawPath := [] }
      else { path := '/' :: b ++ u.path,
             rawPath := if u.rawPath.isEmpty then [] else '/' :: b ++ u.rawPath } := by
  obtain ⟨h1, h2, h3, h4⟩ := vhost_host_parts apiEp b hv
  have hbe : b.isEmpty = false := by simpa using hv.nonempty
  simp [rewrite, h1, h2, h3, h4, hbe]

/-- The rewrite as it stands on a virtual-hosted request. -/
theorem rewrite_vhost_asis (apiEp b : List Char) (hv : ValidNames apiEp b) (u : Url) :
    rewrite false apiEp (vhostHost b apiEp) u =
      { u with path := trimSuffix ('/' :: b ++ u.path) ['/'] } := by
  obtain ⟨h1, h2, h3, h4⟩ := vhost_host_parts apiEp b hv
  have hbe : b.isEmpty = false := by simpa using hv.nonempty
  simp [rewrite, h1, h2, h3, h4, hbe]

theorem unesc_prefixed (b ek : List Char) (hb : ∀ c ∈ b, bucketChar c = true) :
    unesc (pathObjTarget b ek) = (unesc ek).map ('/' :: b ++ '/' :: ·) := by
  have : pathObjTarget b ek = ('/' :: b ++ ['/']) ++ ek := by simp [pathObjTarget]
  rw [this, unesc_append_plain _ _ (fun c hc => keep_ne_pct c (prefix_keep b hb c hc))]
  cases unesc ek <;> simp

theorem esc_prefixed (b k : List Char) (hb : ∀ c ∈ b, bucketChar c = true) :
    esc ('/' :: b ++ '/' :: k) = '/' :: b ++ '/' :: esc k := by
  have : '/' :: b ++ '/' :: k = ('/' :: b ++ ['/']) ++ k := by simp
  rw [this, esc_append, esc_keep _ (prefix_keep b hb)]; simp

theorem parse_vhost_obj (ek k : List Char) (hk : unesc ek = some k) :
    parseTarget (vhostObjTarget ek) =
      some { path := '/' :: k, rawPath := if ek == esc k then [] else '/' :: ek } := by
  have h1 : unesc ('/' :: ek) = some ('/' :: k) := by
    have := unesc_append_plain ['/'] ek (by decide)
    simpa [hk] using this
  have h2 : esc ('/' :: k) = '/' :: esc k := by rw [esc_cons]; rfl
  simp only [parseTarget, vhostObjTarget, h1, h2, List.cons_beq_cons, beq_self_eq_true, Bool.true_and]

theorem parse_path_obj (b ek k : List Char) (hb : ∀ c ∈ b, bucketChar c = true)
    (hk : unesc ek = some k) :
    parseTarget (pathObjTarget b ek) =
      some { path := '/' :: b ++ '/' :: k,
             rawPath := if ek == esc k then [] else '/' :: b ++ '/' :: ek } := by
  have h1 := unesc_prefixed b ek hb
  rw [hk] at h1
  have h2 := esc_prefixed b k hb
  simp only [parseTarget, h1, Option.map_some, h2]
  by_cases he : ek = esc k
  · subst he; simp [pathObjTarget]
  · have : (pathObjTarget b ek == '/' :: b ++ '/' :: esc k) = false := by
      simp only [pathObjTarget, beq_eq_false_iff_ne, ne_eq]
      intro e
      have := List.append_cancel_left (as := '/' :: b) (by simpa using e)
      exact he (by simpa using this)
    have he' : (ek == esc k) = false := by simpa using he
    simp [he, he', pathObjTarget]

/-! ### Part 1: the property, repaired rewrite -/

/-- **vhost_url_eq_path_url.** For every endpoint, every valid bucket name and every non-empty
encoded key `ek` (ANY percent-encoding — canonical, SDK style, `%2F` for slashes, even malformed):
the URL (Path and RawPath) that the API mux receives for `Host: <b>.<endpoint>`, target `/<ek>` is
exactly the URL of `Host: <endpoint>`, target `/<b>/<ek>` — or net/http rejects both. -/
theorem vhost_url_eq_path_url (apiEp b ek : List Char) (hv : ValidNames apiEp b) (hek : ek ≠ []) :
    (parseTarget (vhostObjTarget ek)).map (rewrite true apiEp (vhostHost b apiEp)) =
    (parseTarget (pathObjTarget b ek)).map (rewrite true apiEp apiEp) := by
  cases hk : unesc ek with
  | none =>
    have h1 : unesc ('/' :: ek) = none := by
      have := unesc_append_plain ['/'] ek (by decide)
      simpa [hk] using this
    have h2 := unesc_prefixed b ek hv.chars
    rw [hk] at h2
    simp [parseTarget, vhostObjTarget, h1, h2]
  | some k =>
    have hkne : k ≠ [] := fun e => hek (unesc_nil_iff ek (e ▸ hk))
    rw [parse_vhost_obj ek k hk, parse_path_obj b ek k hv.chars hk]
    simp only [Option.map_some, rewrite_path_style true apiEp hv.endpoint,
      rewrite_vhost_repaired apiEp b hv]
    have hp : ('/' :: k == ['/'] || ('/' :: k).isEmpty) = false := by
      cases k with
      | nil => exact absurd rfl hkne
      | cons c k' => simp
    simp only [hp, Bool.false_eq_true, if_false]
    by_cases he : ek = esc k
    · simp [he]
    · have he' : (ek == esc k) = false := by simpa using he
      simp [he']

/-- **vhost_eq_path** (objects). Both spellings resolve to the same thing: the same redirect, or
the same (bucket, key). -/
theorem vhost_eq_path (apiEp b ek : List Char) (hv : ValidNames apiEp b) (hek : ek ≠ []) :
    resolveTarget true apiEp (vhostHost b apiEp) (vhostObjTarget ek) =
    resolveTarget true apiEp apiEp (pathObjTarget b ek) := by
  have h := vhost_url_eq_path_url apiEp b ek hv hek
  have key : ∀ host raw, resolveTarget true apiEp host raw =
      ((parseTarget raw).map (rewrite true apiEp host)).map (fun u => muxResolve (escapedPath u)) := by
    intro host raw
    simp only [resolveTarget, Option.map_map]
    cases parseTarget raw <;> rfl
  rw [key, key, h]

/-- **vhost_eq_path** (the bucket itself): `Host: <b>.<endpoint>`, target `/` is the request
`Host: <endpoint>`, target `/<b>`. -/
theorem vhost_bucket_eq_path (apiEp b : List Char) (hv : ValidNames apiEp b) :
    resolveTarget true apiEp (vhostHost b apiEp) ['/'] =
    resolveTarget true apiEp apiEp ('/' :: b) := by
  have hkeep : ∀ c ∈ '/' :: b, keepPath c = true := by
    intro c hc
    rcases List.mem_cons.1 hc with rfl | hc
    · decide
    · exact bucketChar_keep c (hv.chars c hc)
  have h1 : parseTarget ['/'] = some { path := ['/'], rawPath := [] } := by decide
  have h2 : parseTarget ('/' :: b) = some { path := '/' :: b, rawPath := [] } := by
    have hu : unesc ('/' :: b) = some ('/' :: b) := by
      have := unesc_append_plain ('/' :: b) [] (fun c hc => keep_ne_pct c (hkeep c hc))
      simpa [unesc, unescGo] using this
    simp [parseTarget, hu, esc_keep _ hkeep]
  simp [resolveTarget, apiResolve, h1, h2, rewrite_path_style true apiEp hv.endpoint,
    rewrite_vhost_repaired apiEp b hv]

/-- On a clean encoded key the resolution is what one expects: the bucket and the decoded key,
trailing slash included (no redirect). -/
example :
    resolveTarget true "s3.localhost".toList "my.bucket.s3.localhost".toList "/a%20b/folder/".toList
      = some (.target (.object "my.bucket".toList "a b/folder/".toList)) ∧
    resolveTarget true "s3.localhost".toList "s3.localhost:9000".toList "/my.bucket/a%20b/folder/".toList
      = some (.target (.object "my.bucket".toList "a b/folder/".toList)) ∧
    resolveTarget true "s3.localhost".toList "my.bucket.s3.localhost".toList "/a%2F%2Fb".toList
      = some (.target (.object "my.bucket".toList "a//b".toList)) ∧
    resolveTarget true "s3.localhost".toList "my.bucket.s3.localhost".toList "/a//b".toList
      = some .redirect := by
  decide

/-! ### Part 1: the rewrite as it stands -/

/-- **Negation witness 1** (replayed as directed case 0): `PUT /folder/` on `bucket.s3.localhost`
resolves to key `folder`, the same request path style to key `folder/`. -/
theorem asis_drops_trailing_slash :
    resolveTarget false "s3.localhost".toList "bucket.s3.localhost".toList "/folder/".toList
      = some (.target (.object "bucket".toList "folder".toList)) ∧
    resolveTarget false "s3.localhost".toList "s3.localhost".toList "/bucket/folder/".toList
      = some (.target (.object "bucket".toList "folder/".toList)) := by
  decide

/-- **Negation witness 2** (directed case 1): an encoded key `a%2F%2Fb` is re-encoded from the
decoded path by the stale RawPath — virtual-hosted the mux redirects, path style it acts on the
key `a//b`. -/
theorem asis_stale_rawpath :
    resolveTarget false "s3.localhost".toList "bucket.s3.localhost".toList "/a%2F%2Fb".toList
      = some .redirect ∧
    resolveTarget false "s3.localhost".toList "s3.localhost".toList "/bucket/a%2F%2Fb".toList
      = some (.target (.object "bucket".toList "a//b".toList)) := by
  decide

theorem getLast_slash_suffix (l : List Char) (h : l.getLast? ≠ some '/') :
    ['/'].isSuffixOf l = false := by
  cases hs : ['/'].isSuffixOf l with
  | false => rfl
  | true =>
    exfalso
    rw [List.isSuffixOf_iff_suffix] at hs
    obtain ⟨t, ht⟩ := hs
    apply h
    rw [← ht]; simp

/-- **vhost_eq_path_partial** (rewrite as it stands): the two spellings agree for every key that
does not end in '/' when the client uses the canonical encoding (`ek = esc k`). -/
theorem vhost_eq_path_partial (apiEp b k : List Char) (hv : ValidNames apiEp b)
    (hbytes : ∀ c ∈ k, c.toNat < 256) (hk : k ≠ []) (hlast : k.getLast? ≠ some '/') :
    resolveTarget false apiEp (vhostHost b apiEp) (vhostObjTarget (esc k)) =
    resolveTarget false apiEp apiEp (pathObjTarget b (esc k)) := by
  have hu := unesc_esc k hbytes
  have hl : ('/' :: b ++ '/' :: k).getLast? ≠ some '/' := by
    have : '/' :: b ++ '/' :: k = ('/' :: b ++ ['/']) ++ k := by simp
    rw [this, List.getLast?_append]
    cases hg : k.getLast? with
    | none => exact absurd (List.getLast?_eq_none_iff.1 hg) hk
    | some x => rw [hg] at hlast; simpa using hlast
  simp only [resolveTarget, parse_vhost_obj _ k hu, parse_path_obj b _ k hv.chars hu,
    beq_self_eq_true, if_true, Option.map_some, apiResolve,
    rewrite_path_style false apiEp hv.endpoint, rewrite_vhost_asis apiEp b hv]
  have : trimSuffix ('/' :: b ++ '/' :: k) ['/'] = '/' :: b ++ '/' :: k :=
    trimSuffix_of_not_suffix _ _ (getLast_slash_suffix _ hl)
  simp only [List.cons_append] at this ⊢
  rw [this]

/-- Non-vacuity of the partial theorem's hypotheses and of `ValidNames`. -/
example : ValidNames "s3.localhost".toList "my.bucket-1".toList ∧
    (∀ c ∈ "dir/ü b".toList, c.toNat < 256) ∧ "dir/ü b".toList.getLast? ≠ some '/' :=
  ⟨⟨by decide, by decide, by decide⟩, by decide, by decide⟩

/-! ### Part 2: the generated route table -/

open Pithos.Gen.C33Routes in
/-- **website_routes_readonly.** The website mux registers only GET and HEAD; every handler it
registers has its reachable storage calls listed; every such call is a read-only storage method. -/
theorem website_routes_readonly :
    (∀ r ∈ websiteRoutes, Spec.safeHttpMethods.contains r.1 = true) ∧
    (∀ r ∈ websiteRoutes, (websiteStorageCalls.map (·.1)).contains r.2.2 = true) ∧
    (∀ h ∈ websiteStorageCalls, ∀ c ∈ h.2, Spec.isReadOnly c = true) := by
  decide

open Pithos.Gen.C33Routes in
/-- Custom domains (the fallback handler) and the website branch of the host router hand the
request to the website mux and to nothing else. -/
theorem site_entry_points_serve_website_mux_only :
    fallbackServes = ["websiteHandler"] ∧
    hostRoutingServes = ["apiHandler", "websiteHandler", "fallbackHandler"] ∧
    hostRoutingWiring = ["apiEndpoint", "apiHandler", "websiteEndpoint", "websiteHandler", "fallbackHandler"] := by
  decide

open Pithos.Gen.C33Routes in
/-- Every method of storage.Storage is classified, and nothing is both read-only and mutating. -/
theorem storage_methods_classified :
    (∀ m ∈ storageMethods, (Spec.readOnlyStorageMethods ++ Spec.mutatingStorageMethods).contains m = true) ∧
    (∀ m ∈ Spec.readOnlyStorageMethods, Spec.mutatingStorageMethods.contains m = false) := by
  decide

open Pithos.Gen.C33Routes in
/-- The API mux uses exactly the three pattern shapes the model resolves, and every method with an
object-level route also has the bucket-level one (so `/{bucket}` never falls through to a
trailing-slash redirect). -/
theorem api_patterns_are_the_modelled_shapes :
    (∀ r ∈ apiRoutes, ["/", "/{bucket}", "/{bucket}/{key...}"].contains r.2.1 = true) ∧
    (∀ r ∈ apiRoutes, r.2.1 = "/{bucket}/{key...}" →
        (apiRoutes.any fun q => q.1 == r.1 && q.2.1 == "/{bucket}") = true) ∧
    (∀ r ∈ websiteRoutes, ["/{bucket}", "/{bucket}/{key...}"].contains r.2.1 = true) := by
  decide

/-! ### Part 3: which hosts are the API -/

/-- **api_host_iff.** A host is routed to the API mux iff (without its port) it is the API endpoint
or a true subdomain of it — for every endpoint and every host string. -/
theorem api_host_iff (apiEp webEp host : List Char) :
    route apiEp webEp host = .api ↔
      (stripPort host = apiEp ∨ (dotted apiEp) <:+ stripPort host) := by
  unfold route
  simp only [isApiHost, Bool.or_eq_true, beq_iff_eq, List.isSuffixOf_iff_suffix]
  constructor
  · intro h
    split at h
    · assumption
    · split at h <;> simp at h
  · intro h; simp [h]

/-- **every_other_host_is_a_site_host.** A host that is not the API endpoint or a true subdomain of
it is handed to the website family (website-endpoint bucket or custom domain), whose mux and
handlers are read-only by `website_routes_readonly` / `site_entry_points_serve_website_mux_only`. -/
theorem every_other_host_is_a_site_host (apiEp webEp host : List Char)
    (h : Spec.isApiHost apiEp host = false) :
    (∃ b, route apiEp webEp host = .website b) ∨ (∃ b, route apiEp webEp host = .custom b) := by
  have h' : isApiHost apiEp (stripPort host) = false := by simpa [Spec.isApiHost, isApiHost] using h
  unfold route
  simp only [h', Bool.false_eq_true, if_false]
  split
  · exact Or.inl ⟨_, rfl⟩
  · exact Or.inr ⟨_, rfl⟩

open Pithos.Gen.C33Routes in
/-- The host tests regenerated from hostrouting.go and virtualhostbucketaddressing.go are the ones
the model mirrors: API = `host == ep || HasSuffix(host, "."+ep)`, website = `HasSuffix(host,
"."+web)`, virtual-host rewrite = `host != ep && HasSuffix(host, "."+ep)`; all three readers of
`r.Host` strip the port the same way. -/
theorem host_tests_are_the_modelled_ones :
    routerHostTests = [(.or (.eq "api") (.hasSuffixDot "api"), ["apiHandler"]),
                       (.hasSuffixDot "website", ["rewrite", "websiteHandler"])] ∧
    vhostHostTests = [(.and (.ne "api") (.hasSuffixDot "api"), ["rewrite"])] ∧
    portStrips = List.replicate 3
      "if colonIdx := strings.LastIndex(h, \":\"); colonIdx != -1 { if bracketIdx := strings.LastIndex(h, \"]\"); bracketIdx < colonIdx { h = h[:colonIdx] } }" := by
  refine ⟨by decide, by decide, rfl⟩

open Pithos.Gen.C33Routes in
/-- Semantically: the router's regenerated API test computes exactly `isApiHost`, for all hosts. -/
theorem router_api_test_is_the_true_subdomain_test (eps : String → List Char) (h : List Char) :
    (routerHostTests.map (·.1)).head?.map (·.eval eps h) = some (isApiHost (eps "api") h) := by
  simp [routerHostTests, HostExpr.eval, isApiHost, dotted]

/-- Adversarial hosts built from the endpoints: endpoint as infix, as prefix, as suffix without the
dot, other letter case, trailing dot, IP literals — none is an API host; true subdomains (with or
without port) are. -/
example :
    let r := fun (h : String) => route "s3.localhost".toList "s3-website.localhost".toList h.toList
    r "assets.s3.localhost.cdn.example.net" = .custom "assets.s3.localhost.cdn.example.net".toList ∧
    r "assets.s3.localhost.cdn.example.net:8080" = .custom "assets.s3.localhost.cdn.example.net".toList ∧
    r "s3.localhost.evil.org" = .custom "s3.localhost.evil.org".toList ∧
    r "evils3.localhost" = .custom "evils3.localhost".toList ∧
    r "S3.LOCALHOST" = .custom "S3.LOCALHOST".toList ∧
    r "b.s3.localhost." = .custom "b.s3.localhost.".toList ∧
    r "[::1]:9000" = .custom "[::1]".toList ∧
    r "b.s3-website.localhost.evil.org" = .custom "b.s3-website.localhost.evil.org".toList ∧
    r "b.s3-website.localhost:80" = .website "b".toList ∧
    r "s3.localhost:9000" = .api ∧ r "b.s3.localhost" = .api ∧ r "x.s3.localhost.y.s3.localhost:1" = .api := by
  decide

end Pithos.C33
