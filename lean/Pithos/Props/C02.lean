/-
C02 — versioning: every live version stays addressable and the latest is the newest.

Theorems about the storage model `Pithos.S3` (tied to /repo by the differential harness `s3h`).
-/
import Pithos.Lemmas.S3NewestStep
import Pithos.Lemmas.S3EditStep
import Pithos.Props.C01

namespace Pithos.C02
open Pithos.S3

/-- **reachable_one_latest.** After any finite history, under any quirk setting, every key of every
bucket has at most one row flagged `latest`: "the current version" is well defined. -/
theorem reachable_one_latest (q : Quirks) (ops : List Op) :
    ∀ bk ∈ (run q {} ops).1.buckets, ∀ k, lc bk.rows k ≤ 1 :=
  fun bk hbk k => (C01.reachable_inv q ops bk hbk).one k

theorem reachable_winv (q : Quirks) (hq : q.promoteByCreated = false) (ops : List Op) :
    Inv (run q {} ops).1 ∧ WInv (run q {} ops).1 := by
  have gen : ∀ (s : State), Inv s → WInv s → Inv (run q s ops).1 ∧ WInv (run q s ops).1 := by
    induction ops with
    | nil => intro s h w; exact ⟨h, w⟩
    | cons op ops ih =>
      intro s h w
      have := ih (step q s op).1 (step_inv q s op h) (step_winv q hq s op h w)
      simpa [run] using this
  exact gen {} (by intro bk hbk; cases hbk) (by intro bk hbk; cases hbk)

/-- **latest_is_newest.** With the reference promotion rule (`promoteByCreated = false`; every other
switch arbitrary) the current version of a key is, after ANY history, the most recently written
version of that key that still exists: its write sequence number is the greatest among the key's
rows (versions and delete markers). -/
theorem latest_is_newest (q : Quirks) (hq : q.promoteByCreated = false) (ops : List Op) :
    ∀ bk ∈ (run q {} ops).1.buckets, ∀ r ∈ bk.rows, r.latest = true →
      ∀ r' ∈ bk.rows, r'.key = r.key → r'.wrote ≤ r.wrote :=
  fun bk hbk => ((reachable_winv q hq ops).2 bk hbk).max

/-- The version GET returns is that newest one: whatever `get b k` (no version id) answers in a
reachable state is the view of a row whose write sequence number dominates its key's rows. -/
theorem get_returns_newest (q : Quirks) (hq : q.promoteByCreated = false) (ops : List Op) (b k : String) (v : ObjView)
    (hget : (step q (run q {} ops).1 (.get b k none)).2 = .obj v) :
    ∃ bk r, findBucket (run q {} ops).1 b = some bk ∧ r ∈ bk.rows ∧ v = viewOf r ∧ r.key = k ∧
      ∀ r' ∈ bk.rows, r'.key = k → r'.wrote ≤ r.wrote := by
  have hfb : findBucket { (run q {} ops).1 with clock := (run q {} ops).1.clock + 1 } b = findBucket (run q {} ops).1 b := rfl
  simp only [step, stepT, hfb] at hget
  cases hf : findBucket (run q {} ops).1 b with
  | none => simp [hf] at hget
  | some bk =>
    simp only [hf, resolve] at hget
    cases hl : latestRow bk k with
    | none => simp [hl] at hget
    | some r =>
      simp only [hl] at hget
      by_cases hd : r.dm = true
      · simp [hd] at hget
      · simp [hd] at hget
        obtain ⟨hr, hk, hlat⟩ := latestRow_some hl
        refine ⟨bk, r, rfl, hr, hget.symm, hk, ?_⟩
        intro r' hr' hk'
        exact latest_is_newest q hq ops bk (findBucket_mem hf) r hr hlat r' hr' (by rw [hk', hk])

/-- **Negation witness for the code as it is** (`Quirks.code`, promotion by `created_at`): the null
version is written, a version v0 is written, the null version is overwritten in place (keeping its
old `created_at`), v1 is written and deleted again — the code makes v0 current although the null
version was written after it. The reference rule answers with the null version. This history is
directed case 1 of the harness (known finding C02.quirk.promoteByCreated). -/
def witnessOps : List Op :=
  [.mkb "b", .put "b" "k" [0] {} false .none, .setVer "b" .enabled, .put "b" "k" [1] {} false .none,
   .setVer "b" .suspended, .put "b" "k" [2] {} false .none, .setVer "b" .enabled, .put "b" "k" [3] {} false .none,
   .del "b" "k" (some (some 1)) .none]

theorem code_promotes_older_version :
    (match (step Quirks.code (run Quirks.code {} witnessOps).1 (.get "b" "k" none)).2 with
     | .obj v => v.body | _ => []) = [1] ∧
    (match (step Quirks.none (run Quirks.none {} witnessOps).1 (.get "b" "k" none)).2 with
     | .obj v => v.body | _ => []) = [2] := by
  decide

/-- …so `latest_is_newest` is false for `Quirks.code`. -/
theorem latest_is_newest_fails_for_code :
    ¬ (∀ bk ∈ (run Quirks.code {} witnessOps).1.buckets, ∀ r ∈ bk.rows, r.latest = true →
      ∀ r' ∈ bk.rows, r'.key = r.key → r'.wrote ≤ r.wrote) := by
  decide

/-- Non-vacuity of `get_returns_newest`: the witness history under the reference rule does reach a
state in which GET answers an object. -/
example : (match (step Quirks.none (run Quirks.none {} witnessOps).1 (.get "b" "k" none)).2 with
    | .obj _ => true | _ => false) = true := by
  decide

/-- After any finite history (append behaviour since /repo 8a5dc41) version ids identify rows: in
every bucket the (key, version id) pairs are pairwise distinct — the null version included — and
every generated version id is below the allocation counter. -/
theorem reachable_vinv (q : Quirks) (hq : q.appendLatestInPlace = false) (ops : List Op) :
    Inv (run q {} ops).1 ∧ VInv (run q {} ops).1 :=
  run_vinv q hq ops {} (by intro bk hbk; cases hbk) (by intro bk hbk; cases hbk)

/-- **version_addressable.** In every reachable state, every stored version that is an object — a
ULID version or the null version, current or not — is returned by GET and HEAD with its own
version id: exactly that version's bytes, size, ETag, metadata. A delete marker addressed by its
id answers MethodNotAllowed. No version is ever shadowed by another row of the same id. -/
theorem version_addressable (q : Quirks) (hq : q.appendLatestInPlace = false) (ops : List Op) (b : String)
    (bk : Bucket) (r : Row) (hfb : findBucket (run q {} ops).1 b = some bk) (hr : r ∈ bk.rows) :
    (step q (run q {} ops).1 (.get b r.key (some r.vid))).2 = (if r.dm then .err .methodNotAllowed else .obj (viewOf r)) ∧
    (step q (run q {} ops).1 (.head b r.key (some r.vid))).2 = (if r.dm then .err .methodNotAllowed else .obj (viewOf r)) := by
  obtain ⟨_, hv⟩ := reachable_vinv q hq ops
  have hrow := rowByVid_of_mem (hv bk (findBucket_mem hfb)) hr
  have hfb' : findBucket { (run q {} ops).1 with clock := (run q {} ops).1.clock + 1 } b = some bk := hfb
  constructor <;>
  · simp only [step, stepT, hfb', resolve, hrow]
    by_cases hd : r.dm = true <;> simp [hd]

/-- Non-vacuity: three versions of one key (one of them the null version) are all addressable. -/
example :
    let s := (run Quirks.code {} [.mkb "b", .put "b" "k" [1] {} false .none, .setVer "b" .enabled,
      .put "b" "k" [2] {} false .none, .put "b" "k" [3] {} false .none]).1
    ((step Quirks.code s (.get "b" "k" (some none))).2 matches .obj { body := [1], .. }) ∧
    ((step Quirks.code s (.get "b" "k" (some (some 0)))).2 matches .obj { body := [2], .. }) ∧
    ((step Quirks.code s (.get "b" "k" (some (some 1)))).2 matches .obj { body := [3], .. }) := by
  decide


end Pithos.C02
