/-
C11, continued: AppendObject keeps the object's content type, metadata, tags and storage class;
the tagging calls set / clear exactly the tag set and nothing else.
-/
import Pithos.Props.C12

namespace Pithos.C11
open Pithos.S3

/-- **append_keeps_metadata.** For the code's append behaviour since /repo 8a5dc41 (both switches
off; the other two arbitrary), in every state satisfying the invariant: after an acknowledged
AppendObject the current version of the key carries the content type, system + user metadata,
tags and storage class of the object that was extended — whichever path the append took (new
version in an Enabled bucket, in-place extension of the null version, a new null version over a
ULID version in a Suspended bucket). A first append (no current object, or a delete marker)
yields an object without metadata. -/
theorem append_keeps_metadata (q : Quirks) (h1 : q.appendEnabledDropsMeta = false) (h2 : q.appendLatestInPlace = false)
    (s s1 : State) (hinv : Inv s) (b k : String) (body : Bytes) (off : Option Nat)
    (bk : Bucket) (hfb : findBucket s b = some bk) (e : ETag) (size : Nat)
    (hack : step q s (.append b k body off) = (s1, .appended e size)) :
    ∃ v, (step q s1 (.head b k none)).2 = .obj v ∧ (v.ct, v.md, v.tags, v.cls) = C12.exMeta bk k := by
  obtain ⟨bk', row, hf2, hl2, hdm, _, _, hmeta⟩ := C12.append_row q s s1 hinv b k body off bk hfb e size hack
  obtain ⟨_, hh⟩ := get_current (q := q) hf2 hl2 hdm
  exact ⟨viewOf row, hh, by simpa [viewOf] using hmeta h1 h2⟩

/-- The same in terms of what HEAD reported before the append. -/
theorem append_keeps_metadata_head (q : Quirks) (h1 : q.appendEnabledDropsMeta = false) (h2 : q.appendLatestInPlace = false)
    (s s1 : State) (hinv : Inv s) (b k : String) (body : Bytes) (off : Option Nat) (e : ETag) (size : Nat) (v0 : ObjView)
    (hhead : (step q s (.head b k none)).2 = .obj v0)
    (hack : step q s (.append b k body off) = (s1, .appended e size)) :
    ∃ v, (step q s1 (.head b k none)).2 = .obj v ∧ v.ct = v0.ct ∧ v.md = v0.md ∧ v.tags = v0.tags ∧ v.cls = v0.cls := by
  cases hfb : findBucket s b with
  | none =>
    have hfb' : findBucket { s with clock := s.clock + 1 } b = none := hfb
    simp [step, stepT, hfb'] at hack
  | some bk =>
    obtain ⟨v, hv, hm⟩ := append_keeps_metadata q h1 h2 s s1 hinv b k body off bk hfb e size hack
    have hfb' : findBucket { s with clock := s.clock + 1 } b = some bk := hfb
    simp only [step, stepT, hfb', resolve] at hhead
    unfold C12.exMeta at hm
    cases hl : latestRow bk k with
    | none => simp [hl] at hhead
    | some r =>
      simp only [hl] at hhead hm
      by_cases hd : r.dm = true
      · simp [hd] at hhead
      · simp only [hd, Bool.false_eq_true, if_false] at hhead hm
        injection hhead with hhead
        subst hhead
        simp only [Prod.mk.injEq] at hm
        exact ⟨v, hv, by simp [viewOf, hm.1], by simp [viewOf, hm.2.1], by simp [viewOf, hm.2.2.1], by simp [viewOf, hm.2.2.2]⟩

/-- **put_tagging_sets_exactly.** An acknowledged PutObjectTagging makes GetObjectTagging return
exactly the supplied set; DeleteObjectTagging makes it return the empty set. -/
theorem put_tagging_sets_exactly (q : Quirks) (s s1 : State) (hinv : Inv s) (b k : String) (tags : Pairs)
    (hack : step q s (.putTags b k none tags) = (s1, .unit)) :
    (step q s1 (.getTags b k none)).2 = .tags tags := by
  have hfbt : ∀ x, findBucket { s with clock := s.clock + 1 } x = findBucket s x := fun _ => rfl
  simp only [step, stepT, hfbt] at hack
  cases hfb : findBucket s b with
  | none => simp [hfb] at hack
  | some bk =>
    simp only [hfb] at hack
    cases hres : resolve bk k none with
    | error e => simp [hres] at hack
    | ok r =>
      simp only [hres, Prod.mk.injEq, and_true] at hack
      subst hack
      have hbk := hinv bk (findBucket_mem hfb)
      simp only [resolve] at hres
      cases hl : latestRow bk k with
      | none => simp [hl] at hres
      | some r0 =>
        simp only [hl] at hres
        by_cases hd : r0.dm = true
        · simp [hd] at hres
        · simp only [hd, Bool.false_eq_true, if_false] at hres
          injection hres with hres
          subst hres
          obtain ⟨hr, hrk, hrl⟩ := latestRow_some hl
          have hl' := latestRow_repl_keep hbk hl (y := touch q (s.clock + 1) { r0 with tags := tags }) rfl rfl (by simp [touch, hrl])
          have hfb2 : findBucket (setBucket { s with clock := s.clock + 1 } (replaceRow bk (touch q (s.clock + 1) { r0 with tags := tags }))) b
              = some (replaceRow bk (touch q (s.clock + 1) { r0 with tags := tags })) :=
            findBucket_setBucket (hfb : findBucket { s with clock := s.clock + 1 } b = some bk)
              (by rw [replaceRow_name]; exact findBucket_some_name hfb)
          have hfb3 : findBucket { (setBucket { s with clock := s.clock + 1 } (replaceRow bk (touch q (s.clock + 1) { r0 with tags := tags }))) with
              clock := (setBucket { s with clock := s.clock + 1 } (replaceRow bk (touch q (s.clock + 1) { r0 with tags := tags }))).clock + 1 } b
              = some (replaceRow bk (touch q (s.clock + 1) { r0 with tags := tags })) := hfb2
          simp only [step, stepT, hfb3, resolve, hl']
          simp [touch, hd]

end Pithos.C11
