/-
C15 — every part store returns exactly the bytes it was given.

Property theorems only (models: `Pithos.Model.PartStore`, `…ErasureCoding`, `…PartCodec`; helper lemmas:
`Pithos.Lemmas.PartStore*`, `…ErasureCoding`, `…PartCodec`).

`StoreSpec S`: the store `S` refines the reference map id ↦ bytes — `get ∘ put = id` on bytes for every
id and every content (the empty one included), `ids` = exactly the live ids without duplicates, a
deleted part reads as not found, with and without a transaction (`∀ tx`), under every interleaving of
the operations with the background worker (`tick`). `history_correct` spells this out for every
finite history. `stack_correct`: every word over the middleware alphabet, any depth, over a correct
base is correct — for the repaired code. For the code as it is the full statement is false (four
negation witnesses below); `stack_asis_partial` states what does hold, with the excluded triggers as
explicit restrictions.
-/
import Pithos.Lemmas.PartStoreCache
import Pithos.Lemmas.PartStoreOutbox
import Pithos.Lemmas.PartStoreEC
import Pithos.Model.PartStoreToy
import Pithos.Model.OutboxRead
import Pithos.Gen.OutboxRead

namespace Pithos.C15
open Pithos.Codec Pithos.PartStore

/-! ## the specification -/

def StoreSpecR (R : Restr) (S : Store) : Prop := Nonempty (Sim R S)

/-- Correct for all contents, all ids, absent reads included, with well-behaved streams. -/
def StoreSpec (S : Store) : Prop := StoreSpecR Restr.full S

/-- The reference model the property speaks of. -/
def refNext (m : PartId → Option Bytes) : Op → PartId → Option Bytes
  | .put _ i b => upd m i (some b)
  | .del _ i => upd m i none
  | _ => m

/-- What the property demands of one observation. -/
def ObsOk (m : PartId → Option Bytes) : Op → Obs → Prop
  | .get _ i, o => ∃ out, o = .got out false ∧ OutOk out (m i)
  | .ids, o => ∃ l, o = .ids l ∧ l.Nodup ∧ ∀ i, i ∈ l ↔ (m i).isSome = true
  | _, o => o = .done

def Admissible (R : Restr) (m : PartId → Option Bytes) : Op → Prop
  | .put _ _ b => R.okContent b
  | .get _ i => Allowed R (m i)
  | _ => True

def AdmissibleAll (R : Restr) : (PartId → Option Bytes) → List Op → Prop
  | _, [] => True
  | m, op :: ops => Admissible R m op ∧ AdmissibleAll R (refNext m op) ops

def Conforms : (PartId → Option Bytes) → List Op → List Obs → Prop
  | _, [], [] => True
  | m, op :: ops, o :: os => ObsOk m op o ∧ Conforms (refNext m op) ops os
  | _, _, _ => False

theorem drain_ok {R : Restr} {S : Store} (sim : Sim R S) (f : Nat) (s : S.σ) (h : sim.Inv s) :
    sim.Inv (drain S f s) ∧ sim.abs (drain S f s) = sim.abs s := by
  induction f generalizing s with
  | zero => exact ⟨h, rfl⟩
  | succ f ih =>
    unfold drain
    split
    · exact ⟨h, rfl⟩
    · have := ih (S.tick s) (sim.tick_inv s h)
      exact ⟨this.1, this.2.trans (sim.tick_abs s h)⟩

theorem history_correct_from {R : Restr} {S : Store} (sim : Sim R S) :
    ∀ (ops : List Op) (s : S.σ), sim.Inv s → AdmissibleAll R (sim.abs s) ops → Conforms (sim.abs s) ops (run S s ops) := by
  intro ops
  induction ops with
  | nil => intro s _ _; trivial
  | cons op ops ih =>
    intro s h ha
    obtain ⟨ha1, ha2⟩ := ha
    cases op with
    | put tx i b =>
      have hI := sim.put_inv tx s i b h ha1
      have hA := sim.put_abs tx s i b h ha1
      refine ⟨rfl, ?_⟩
      have := ih (S.put tx s i b) hI (by rw [hA]; exact ha2)
      rw [hA] at this; exact this
    | get tx i =>
      have hI := sim.get_inv tx s i h ha1
      have hA := sim.get_abs tx s i h ha1
      refine ⟨⟨_, by simp only [step, sim.get_quiet tx s i h ha1], sim.get_out tx s i h ha1⟩, ?_⟩
      have := ih (S.get tx s i).st hI (by rw [hA]; exact ha2)
      rw [hA] at this; exact this
    | del tx i =>
      have hI := sim.del_inv tx s i h
      have hA := sim.del_abs tx s i h
      refine ⟨rfl, ?_⟩
      have := ih (S.del tx s i) hI (by rw [hA]; exact ha2)
      rw [hA] at this; exact this
    | ids =>
      exact ⟨⟨_, rfl, sim.ids_nodup s h, fun i => sim.ids_mem s i h⟩, ih s h ha2⟩
    | flush =>
      have hd := drain_ok sim ((S.pending s + 1) * 64) s h
      refine ⟨rfl, ?_⟩
      have := ih _ hd.1 (by rw [hd.2]; exact ha2)
      rw [hd.2] at this; exact this

/-- **history_correct.** A store that meets the specification answers every finite history of
put / get / delete / list / flush (with or without a transaction, worker steps anywhere) exactly like
the reference map: every get returns the bytes of the last put of that id, or not-found after a
delete / before any put; every listing is the set of live ids, duplicate-free; nothing panics. -/
theorem history_correct {R : Restr} {S : Store} (spec : StoreSpecR R S) (ops : List Op)
    (ha : AdmissibleAll R (fun _ => none) ops) : Conforms (fun _ => none) ops (run S S.init ops) := by
  obtain ⟨sim⟩ := spec
  have h0 : sim.abs S.init = fun _ => none := funext sim.abs_init
  have := history_correct_from sim ops S.init sim.inv_init (by rw [h0]; exact ha)
  rw [h0] at this; exact this

theorem admissible_full (ops : List Op) : ∀ m, AdmissibleAll Restr.full m ops := by
  induction ops with
  | nil => intro _; trivial
  | cons op ops ih =>
    intro m
    refine ⟨?_, ih _⟩
    cases op <;> first | trivial | exact Or.inl rfl

/-- For a store that meets the full specification, *every* history is covered. -/
theorem every_history_correct {S : Store} (spec : StoreSpec S) (ops : List Op) :
    Conforms (fun _ => none) ops (run S S.init ops) :=
  history_correct spec ops (admissible_full ops _)

/-! ## codec lemmas (proved in `Pithos.Lemmas.PartCodec` / `…ErasureCoding`, restated here as obligations) -/

/-- SQL rows (n = 256 000 000) and outbox rows (n = 8 MiB): for every row size — `n > 0` or not — and
every content, the rows glued together are the content. -/
theorem chunks_concat (n : Nat) (bs : Bytes) : concat (chunks n bs) = bs := concat_chunks n bs

/-- The empty content has no row at all — the case the SQL store does not handle. -/
theorem chunks_of_empty (n : Nat) : chunks n [] = [] := chunks_nil n

theorem chunks_rows_nonempty_and_bounded (n : Nat) (bs : Bytes) (hn : 0 < n) (x : Bytes) (hx : x ∈ chunks n bs) :
    x ≠ [] ∧ x.length ≤ n := chunks_mem n bs hn x hx

/-- Compression header: `parseHeader (newHeader a) = a` for every algorithm, whatever the checksum. -/
theorem compression_header_roundtrip (crc : Bytes → Nat) (a : Alg) : parseHeader crc (newHeader crc a) = some a :=
  parseHeader_newHeader crc a

/-- Compression header non-confusion: a stored stream always begins with a header that parses, whatever
the body is (so a stored stream is never taken for legacy unframed content), and the body is what
follows the header. -/
theorem compression_stored_stream_begins_with_header (crc : Bytes → Nat) (a : Alg) (body : Bytes) :
    (newHeader crc a ++ body).length ≥ headerSize ∧
    parseHeader crc ((newHeader crc a ++ body).take headerSize) = some a ∧
    (newHeader crc a ++ body).drop headerSize = body := stored_begins_with_header crc a body

/-- What `compression.GetPart` makes of what `compression.PutPart` stored: the content, whether or not
the sampling decided to compress. -/
theorem compression_roundtrip (P : Prims) (hP : CompressOK P) (alg : Alg) (halg : alg ≠ .none) (sample : Nat)
    (b : Bytes) (st : Stream) (hst : st.bytes = compressEncode P alg sample b) :
    ∃ st', compressDecode P st = .ok st' ∧ st'.bytes = b :=
  let ⟨st', h1, h2, _⟩ := compressDecode_encode P hP alg halg sample b st hst
  ⟨st', h1, h2⟩

/-- Erasure-coding stripes: for every `d ≥ 1` and every stripe content of every length, cutting into `d`
zero-padded shards and gluing them back (cut to `dataBytes`) is the identity. -/
theorem ec_unstripe_stripe (d : Nat) (x : Bytes) (hd : 0 < d) : unstripe x.length (stripe d x) = x :=
  unstripe_stripe d x hd

/-- Erasure-coding frames: a written frame is read back exactly. -/
theorem ec_frame_roundtrip (H : Bytes → Bytes) (hH : ∀ x, (H x).length = 32) (j m : Nat) (p rest : Bytes)
    (hm1 : 1 ≤ m) (hm : m < 4294967296) (hp1 : 1 ≤ p.length) (hp : p.length < 4294967296) :
    EC.readFrame H j (EC.frame H j m p ++ rest) = .ok m p rest :=
  EC.readFrame_frame H hH j m p rest hm1 hm hp1 hp

/-- Erasure coding end to end without faults: the shard streams written for a part read back as the
part — every content, every well-formed (d, p, stripe) — and nothing is healed. -/
theorem ec_roundtrip (c : EC.Cfg) (code : EC.Code) (H : Bytes → Bytes) (wf : EC.WF c code H) (fix : EC.Fix) (b : Bytes) :
    EC.read c code H fix ((List.range c.n).map fun k => some (EC.shardStream c code H k b))
      = .result ⟨b, false, List.replicate c.n none, []⟩ := EC.read_intact c code H wf fix b

/-! ## hypotheses about the external primitives, well-formed middlewares -/

structure PrimsOK (P : Prims) : Prop where
  compress : CompressOK P
  tink : TinkOK P

/-- What the constructors of the middlewares enforce: compression uses gzip or zstd; the erasure-coding
parameters fit the frame format (`EC.WF`). -/
def MwWF (P : Prims) : Mw → Prop
  | .compress a _ => a ≠ .none
  | .ec c => EC.WF c P.code P.hash
  | _ => True

/-! ## base stores -/

theorem fs_correct : StoreSpec fsStore := ⟨fsSim⟩

/-- The SQL store with the repair (one empty row for an empty part) is correct for every content. -/
theorem sql_repaired_correct : StoreSpec (sqlStore Fixes.repaired) :=
  ⟨(sqlSim Fixes.repaired).weaken (fun _ _ => Or.inl rfl) id id⟩

/-- **sql_asis_partial.** As the code is, the SQL store is correct for every content except the empty
one. -/
theorem sql_asis_partial : StoreSpecR ⟨fun b => b ≠ [], true, true⟩ (sqlStore Fixes.asIs) :=
  ⟨(sqlSim Fixes.asIs).weaken (fun _ hb => Or.inr hb) id id⟩

/-- Negation witness (sql.go as it is): put of the empty content, then get → not found; the id is not
listed either. Replayed on the implementation by directed case 0 of the harness. -/
theorem sql_asis_empty_part_lost :
    run (sqlStore Fixes.asIs) (sqlStore Fixes.asIs).init [.put true 0 [], .get true 0, .ids]
      = [.done, .got .notFound false, .ids []] := by
  decide

theorem base_correct (b : Base) : StoreSpec (baseStore Fixes.repaired b) := by
  cases b
  · exact fs_correct
  · exact sql_repaired_correct

/-! ## one middleware -/

/-- How a middleware transforms the set of covered histories (`F` selects as-is / repaired code). -/
def upRestr (P : Prims) (F : Fixes) : Mw → Restr → Restr
  | .compress a n, R => ⟨fun b => R.okContent (compressEncode P a n b), R.absentGet, R.clean⟩
  | .tink, R => ⟨fun b => ∀ r i, R.okContent (P.tinkSeal r i b), R.absentGet, F.tinkStickyEof⟩
  | .cache _, R => R
  | .outbox, R => R
  | .ec c, R => ⟨ecOk P c R.okContent, R.absentGet && F.ec.notFoundWhenAllMissing, true⟩

/-- The one side condition: tink as it is needs an inner store whose streams answer EOF again after
EOF. -/
def TinkCond (F : Fixes) : Mw → Restr → Prop
  | .tink, R => F.tinkStickyEof = true ∨ R.clean = true
  | _, _ => True

/-- **wrap_preserves.** Every middleware — as it is or repaired — maps a correct inner store to a
correct store for the transformed set of histories. -/
theorem wrap_preserves (P : Prims) (hP : PrimsOK P) (F : Fixes) (w : Mw) (hw : MwWF P w) (S : Store) (R : Restr)
    (ht : TinkCond F w R) (spec : StoreSpecR R S) : StoreSpecR (upRestr P F w R) (wrap P F w S) := by
  obtain ⟨sim⟩ := spec
  obtain ⟨Q, g, c⟩ := R
  cases w with
  | compress a n => exact ⟨compressSim P hP.compress a hw n sim (fun _ h => h)⟩
  | tink => exact ⟨tinkSim P hP.tink F sim (fun r i _ h => h r i) ht⟩
  | cache m => exact ⟨cacheSim m sim⟩
  | outbox => exact ⟨outboxSim sim⟩
  | ec cfg => exact ⟨ecSim P F cfg hw sim⟩

/-- the repairs C15 needs (all of them are in /repo now: `Fixes.current`) -/
def C15ok (F : Fixes) : Prop :=
  F.sqlEmptyRow = true ∧ F.ec.notFoundWhenAllMissing = true ∧ F.tinkStickyEof = true

theorem current_ok : C15ok Fixes.current := ⟨rfl, rfl, rfl⟩
theorem repaired_ok : C15ok Fixes.repaired := ⟨rfl, rfl, rfl⟩

/-- With the repairs, every middleware maps a fully correct store to a fully correct store. -/
theorem wrap_correct_of (P : Prims) (hP : PrimsOK P) (F : Fixes) (hF : C15ok F) (w : Mw) (hw : MwWF P w) (S : Store)
    (spec : StoreSpec S) : StoreSpec (wrap P F w S) := by
  obtain ⟨sim⟩ := wrap_preserves P hP F w hw S Restr.full
    (by cases w <;> first | trivial | exact Or.inl hF.2.2) spec
  refine ⟨sim.weaken ?_ ?_ ?_⟩
  · intro b _
    cases w <;> first | trivial | (intro _ _; trivial)
  · intro _; cases w <;> first | rfl | simp [upRestr, Restr.full, hF.2.1]
  · intro _; cases w <;> first | rfl | simp [upRestr, Restr.full, hF.2.2]

theorem wrap_correct (P : Prims) (hP : PrimsOK P) (w : Mw) (hw : MwWF P w) (S : Store) (spec : StoreSpec S) :
    StoreSpec (wrap P Fixes.repaired w S) := wrap_correct_of P hP _ repaired_ok w hw S spec

/-! ## every composition, any depth -/

/-- **stack_correct.** For the repaired code: every word `ws` over the middleware alphabet
{compression(gzip|zstd, any sample size), tink, cache(any threshold), outbox, erasure coding(any
well-formed d, p, stripe)} — any length, any order, repetitions included — over a correct base store
is a correct store. By induction on the word. -/
theorem stack_correct (P : Prims) (hP : PrimsOK P) (ws : List Mw) (hws : ∀ w ∈ ws, MwWF P w) (base : Store)
    (hb : StoreSpec base) : StoreSpec (ws.foldr (wrap P Fixes.repaired) base) := by
  induction ws with
  | nil => exact hb
  | cons w ws ih =>
    exact wrap_correct P hP w (hws w List.mem_cons_self) _ (ih fun w' hw' => hws w' (List.mem_cons_of_mem _ hw'))

/-- **stack_current_correct.** The same for the code as it is in /repo now (`Fixes.current`: the three
repairs C15 needs are in, two further erasure-coding repairs are not and are not needed here): every word
over the alphabet over either base store is a correct store. -/
theorem stack_current_correct (P : Prims) (hP : PrimsOK P) (ws : List Mw) (hws : ∀ w ∈ ws, MwWF P w) (b : Base) :
    StoreSpec (stack P Fixes.current ws b) := by
  have hb : StoreSpec (baseStore Fixes.current b) := by
    cases b
    · exact fs_correct
    · exact ⟨(sqlSim Fixes.current).weaken (fun _ _ => Or.inl rfl) id id⟩
  show StoreSpec (ws.foldr (wrap P Fixes.current) (baseStore Fixes.current b))
  induction ws with
  | nil => exact hb
  | cons w ws ih =>
    exact wrap_correct_of P hP _ current_ok w (hws w List.mem_cons_self) _ (ih fun w' hw' => hws w' (List.mem_cons_of_mem _ hw'))

/-- … in particular over the filesystem store and over the (repaired) SQL store. -/
theorem stack_correct_over_bases (P : Prims) (hP : PrimsOK P) (ws : List Mw) (hws : ∀ w ∈ ws, MwWF P w) (b : Base) :
    StoreSpec (stack P Fixes.repaired ws b) :=
  stack_correct P hP ws hws _ (base_correct b)

/-- … and therefore answers every history like the reference map. -/
theorem stack_history_correct (P : Prims) (hP : PrimsOK P) (ws : List Mw) (hws : ∀ w ∈ ws, MwWF P w) (b : Base)
    (ops : List Op) :
    Conforms (fun _ => none) ops (run (stack P Fixes.repaired ws b) (stack P Fixes.repaired ws b).init ops) :=
  every_history_correct (stack_correct_over_bases P hP ws hws b) ops

/-! ## the code as it is -/

def upAll (P : Prims) (F : Fixes) (ws : List Mw) (R : Restr) : Restr := ws.foldr (upRestr P F) R

/-- every tink layer of the word sits on a sub-stack with well-behaved streams -/
def TinkCondAll (P : Prims) (F : Fixes) : List Mw → Restr → Prop
  | [], _ => True
  | w :: ws, R => TinkCond F w (upAll P F ws R) ∧ TinkCondAll P F ws R

/-- **stack_asis_partial.** For the code as it is (and for any mixture of repairs `F`): every word over
the alphabet over a base that is correct for the histories `R` is correct for the histories
`upAll P F ws R` — i.e. excluding exactly: contents that reach the SQL store empty; reads of absent
parts through an (unrepaired) erasure-coding layer; an (unrepaired) tink layer directly above a
sequential tink reader. -/
theorem stack_asis_partial (P : Prims) (hP : PrimsOK P) (F : Fixes) (ws : List Mw) (hws : ∀ w ∈ ws, MwWF P w)
    (base : Store) (R : Restr) (ht : TinkCondAll P F ws R) (hb : StoreSpecR R base) :
    StoreSpecR (upAll P F ws R) (ws.foldr (wrap P F) base) := by
  induction ws with
  | nil => exact hb
  | cons w ws ih =>
    exact wrap_preserves P hP F w (hws w List.mem_cons_self) _ _ ht.1
      (ih (fun w' hw' => hws w' (List.mem_cons_of_mem _ hw')) ht.2)

/-! ### non-vacuity and the negation witnesses -/

theorem toyPrims_ok : PrimsOK toyPrims where
  compress := fun _ _ _ => rfl
  tink := ⟨fun r i b => by simp [toyPrims], fun r i b => by simp [toyPrims]⟩

theorem toy_wf (c : EC.Cfg) (h1 : 1 ≤ c.d) (h2 : c.n < 65536) (h3 : 1024 ≤ c.stripe) (h4 : c.stripe < 4294967296)
    (h5 : c.d * c.stripe < 4294967296) : EC.WF c toyPrims.code toyPrims.hash where
  d_pos := h1
  n_lt := h2
  stripe_ge := h3
  stripe_lt := h4
  stripeData_lt := h5
  hash_len := fun x => by simp [toyPrims, toyHash]
  parity_len := fun data L hl hx => by
    refine ⟨by simp [toyPrims, toyCode], fun x hxm => ?_⟩
    simp only [toyPrims, toyCode, List.mem_replicate] at hxm
    rw [hxm.2, List.length_map]
    cases data with
    | nil => simp at hl; omega
    | cons a t => exact hx a List.mem_cons_self

/-- The hypotheses of `stack_correct` are met by a concrete non-trivial instance: toy primitives and
the five-letter word cache ∘ outbox ∘ zstd ∘ tink ∘ EC(2+1, 1024). -/
example : StoreSpec (stack toyPrims Fixes.repaired
    [.cache 5000, .outbox, .compress .zstd 2048, .tink, .ec ⟨2, 1, 1024⟩] .sql) := by
  apply stack_correct_over_bases toyPrims toyPrims_ok
  intro w hw
  simp only [List.mem_cons, List.mem_nil_iff, or_false] at hw
  rcases hw with rfl | rfl | rfl | rfl | rfl
  · trivial
  · trivial
  · exact fun h => by cases h
  · trivial
  · exact toy_wf _ (by decide) (by decide) (by decide) (by decide) (by decide)

/-- Non-vacuity of `stack_asis_partial`: as the code is, compression over the SQL store is correct for
EVERY content (the stored stream begins with a header, so nothing reaches SQL empty). -/
example : StoreSpecR ⟨fun _ => True, true, true⟩ (stack toyPrims Fixes.asIs [.compress .gzip 2048] .sql) := by
  obtain ⟨sim⟩ := stack_asis_partial toyPrims toyPrims_ok Fixes.asIs [.compress .gzip 2048]
    (fun w hw => by simp at hw; subst hw; exact fun h => by cases h) _ _ ⟨trivial, trivial⟩ sql_asis_partial
  refine ⟨sim.weaken ?_ id id⟩
  intro b _
  show compressEncode toyPrims .gzip 2048 b ≠ []
  unfold compressEncode
  split <;> intro h <;> have := congrArg List.length h <;>
    simp [newHeader_length, headerSize] at this

/-- Negation witness (erasurecoding.go as it is): GetPart of a part that was never stored answers an
empty part instead of not-found, and the part is then listed. Directed case 1 of the harness. -/
theorem ec_asis_absent_part_readable :
    run (ecWrap toyPrims Fixes.asIs ⟨2, 1, 1024⟩ fsStore) (ecWrap toyPrims Fixes.asIs ⟨2, 1, 1024⟩ fsStore).init
        [.get true 0, .ids]
      = [.got (.ok ⟨[], false, []⟩) false, .ids [0]] := by
  decide

/-- Negation witness (tink.go as it is): two tink layers over a non-seekable store — every part fails
to read (the upper reader asks the lower one for more after EOF and gets its last segment again). -/
theorem double_tink_asis_unreadable :
    run (stack toyPrims Fixes.asIs [.tink, .tink] .sql) (stack toyPrims Fixes.asIs [.tink, .tink] .sql).init
        [.put true 0 [7], .get true 0]
      = [.done, .got .err false] := by
  decide

/-- Negation witness (erasurecoding.go over outbox.go as they are): a tx-free GetPart that has to heal
calls PutPart of the outbox shard stores with a nil transaction — a nil dereference. -/
theorem ec_over_outbox_heal_without_tx_panics :
    run (stack toyPrims Fixes.asIs [.ec ⟨2, 1, 1024⟩, .outbox] .fs) (stack toyPrims Fixes.asIs [.ec ⟨2, 1, 1024⟩, .outbox] .fs).init
        [.get false 0]
      = [.got (.ok ⟨[], false, []⟩) true] := by
  decide

/-! ## reads of the outbox store that race with commits and worker passes (statement level)

`StoreSpec` treats a read as one step (what a SQLite read transaction gives). Under statement-level
visibility the read is the program of `Pithos.OutboxRead`; its decisions are regenerated from outbox.go on
every run (`Pithos.Gen.OutboxRead`) and the real store is driven through divided reads
(`verifx.StaleRepo`, c15_race.go). "With or without a transaction" is part of C15's statement: both read
paths must be the same program. -/

section race
open OutboxRead

/-- **T1 obligation.** Both read paths, as they are in the source now: no entry → inner store; delete entry →
not found; the entry vanished before the second statement → RE-EVALUATE (`continue`); the same two
statements; at most `maxGetPartRaceRetries` rounds, then an error. -/
theorem extracted_read_paths_reevaluate :
    Gen.OutboxRead.txRead =
      [("lastEntry == nil", "serve-inner"), ("lastEntry.Operation == partOutboxEntry.DeletePartOperation", "not-found"),
       ("!entryExists", "retry"), ("firstChunk != nil", "stream-entry"), ("tail", "empty-part")] ∧
    Gen.OutboxRead.txFreeRead =
      [("lastEntry == nil", "serve-inner"), ("lastEntry.Operation == partOutboxEntry.DeletePartOperation", "not-found"),
       ("!entryExists", "retry"), ("firstChunk == nil", "empty-part"), ("tail", "stream-entry")] ∧
    Gen.OutboxRead.txReadLookups = ["FindLastPartOutboxEntryByPartId", "FindPartOutboxEntryChunkByIndexWithEntryPresence"] ∧
    Gen.OutboxRead.txFreeReadLookups = Gen.OutboxRead.txReadLookups ∧
    Gen.OutboxRead.txReadAfterLoop = "fail-vanished" ∧ Gen.OutboxRead.txFreeReadAfterLoop = "fail-vanished" ∧
    Gen.OutboxRead.maxGetPartRaceRetries = maxRetries := by
  decide

theorem extracted_on_vanished :
    onVanishedOf Gen.OutboxRead.txRead = .retry ∧ onVanishedOf Gen.OutboxRead.txFreeRead = .retry := by
  decide

/-- **with or without a transaction: the same read.** Under every interleaving of commits and worker
passes between the first statement and the rest, the read without a transaction returns what the read
with a transaction returns (the programs regenerated from the two paths are the same program). -/
theorem txfree_read_agrees_with_transactional_read (s : St) (evs : List Ev) :
    readSplit (onVanishedOf Gen.OutboxRead.txFreeRead) s evs = readSplit (onVanishedOf Gen.OutboxRead.txRead) s evs := by
  rw [extracted_on_vanished.1, extracted_on_vanished.2]

theorem mem_of_getLast? {α : Type} : ∀ (l : List α) (a : α), l.getLast? = some a → a ∈ l
  | [], _, h => by cases h
  | [x], a, h => by simp at h; simp [h]
  | x :: y :: t, a, h => by
    rw [List.getLast?_cons_cons] at h
    exact List.mem_cons_of_mem _ (mem_of_getLast? (y :: t) a h)

/-- the statements after a first statement that ran in the SAME state return the current value —
whatever the reader would do with a vanished entry (nothing vanishes without an event in between) -/
theorem rest_at_lookup_current (act : OnVanished) (fuel : Nat) (s : St) : rest act fuel s.lookup s = ofOpt s.abs := by
  unfold St.lookup St.abs
  cases hl : s.queue.getLast? with
  | none => cases fuel <;> rfl
  | some e =>
    have hmem := mem_of_getLast? _ _ hl
    have hany : s.queue.any (·.seq == e.seq) = true := List.any_eq_true.2 ⟨e, hmem, beq_self_eq_true _⟩
    unfold rest
    cases hp : e.isPut <;> simp [hany, applyEntry, hp, ofOpt]

/-- **an undivided read returns what the part holds** (newest pending entry, else the inner store) -/
theorem plain_read_current (act : OnVanished) (s : St) : read act s = ofOpt s.abs :=
  rest_at_lookup_current act _ s

/-- **divided_read_current_at_an_end_partial** ("after a vanished entry the lookup is retried"). A read whose
first statement saw a pending entry and whose remaining statements run after arbitrary commits and worker
passes returns the value the part held at its first statement — or, when that entry has been flushed in
between, re-evaluates and returns the value the part holds at its end. (Partial: the case "first
statement saw no entry", where the inner store is read later, is tied and judged but not proved.) -/
theorem divided_read_current_at_an_end_partial (s : St) (evs : List Ev) (e : OutboxRead.Entry) (h : s.lookup = some e) :
    readSplit .retry s evs = ofOpt s.abs ∨ readSplit .retry s evs = ofOpt (s.run evs).abs := by
  have habs : s.abs = applyEntry s.inner e := by
    unfold St.abs; unfold St.lookup at h; rw [h]
  unfold readSplit
  rw [h, habs]
  show rest .retry (7) (some e) (s.run evs) = _ ∨ _
  unfold rest
  cases hp : e.isPut with
  | false => left; simp [applyEntry, hp, ofOpt]
  | true =>
    simp only [Bool.not_true, Bool.false_eq_true, if_false]
    by_cases hq : (s.run evs).queue.any (·.seq == e.seq) = true
    · left; simp [hq, applyEntry, hp, ofOpt]
    · right
      simp only [hq, Bool.false_eq_true, if_false]
      exact rest_at_lookup_current .retry 6 (s.run evs)

/-- **Witness (what the seeded change C15-4 does).** The entry the reader saw is flushed, a newer put is
pending: a reader that serves the inner store instead of re-evaluating returns the older version, the
program of the code returns the newer one — the two read paths would disagree. -/
theorem serve_inner_misses_newer_pending_write :
    readSplit .serveInner (({} : St).apply (.put [1])) [.step, .put [2]] = .found [1] ∧
    readSplit .retry (({} : St).apply (.put [1])) [.step, .put [2]] = .found [2] ∧
    readSplit .serveInner (({} : St).apply (.put [1])) [.step, .del] = .found [1] ∧
    readSplit .retry (({} : St).apply (.put [1])) [.step, .del] = .notFound := by
  decide

end race

end Pithos.C15
