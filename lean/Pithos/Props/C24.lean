/-
C24 — bucket-routed storages are isolated.

Property theorems about the model of the conditional (bucket-routing) middleware
(`Pithos.Model.Routing`, tied to /repo/internal/storage/middlewares/conditional/conditional.go by
the differential harness c24*.go + Driver/C24.lean). All statements are for every configuration
(any map, any default), every list of backing-storage states and every call — nothing is bounded.

  route_isolation            a call changes no storage other than the one its (destination) bucket
                             is routed to                                   (as-is AND repaired)
  route_reads_only           a call's answer and effect depend only on the storages its bucket
                             arguments are routed to                         (as-is AND repaired)
  list_buckets_union_nodup   ListBuckets = duplicate-free union of the storages' buckets (repaired)
    list_buckets_duplicates_witness   … false as-is: a storage that is the value of two entries
    list_buckets_union_nodup_partial  … as-is it holds when no storage is asked twice and the
                                        storages hold disjoint names
    list_buckets_union_nodup_reachable … which every history from empty storages guarantees when
                                        the configuration lists no storage twice (as-is, full)
  cross_copy_eq_same_copy    a cross-storage CopyObject leaves in the destination storage exactly
                             what a same-storage CopyObject leaves (content, content type,
                             metadata, tags, storage class, version id, …)     (repaired)
    cross_copy_drops_metadata_witness … false as-is: metadata, tags and class are dropped
    cross_copy_eq_same_copy_partial   … as-is it holds when the copy carries nothing but the
                                        content type
  cross_part_copy_eq_same_part_copy   UploadPartCopy across storages = inside one storage
                                                                            (as-is AND repaired)
  cross_conditions_eq_same / copy_conditions_spec   the cross-storage evaluator of the copy-source
                             preconditions decides like the same-storage one, at every boundary
  cross_copy_if_eq_same_copy_if, cross_part_copy_if_eq_same_part_copy_if, route_isolation_if
                             the cross-copy and isolation theorems with preconditions
-/
import Pithos.Lemmas.Routing

namespace Pithos.C24
open Pithos.S3 Pithos.S3Ext Pithos.Routing

-- ---------------------------------------------------------------- isolation

/-- **route_isolation.** Whatever the call, the configuration and the states: every backing
storage other than the one the call's (destination) bucket is routed to is left exactly as it was
— and `ListBuckets` changes none. Holds for the code as it is and for the repaired variant. -/
theorem route_isolation (fx : Fixes) (q : Quirks) (c : Cfg) (ss : Stores) (op : XOp) (j : Nat)
    (h : j ∉ targets c op) : (rstep fx q c ss op).1[j]? = ss[j]? := by
  unfold rstep
  unfold targets at h
  split
  · next b hb =>
    rw [hb] at h
    have hj : j ≠ storageOf c b := by simpa using h
    simp [List.getElem?_set_ne (Ne.symm hj)]
  · next sb db hb =>
    rw [hb] at h
    have hj : j ≠ storageOf c db := by simpa using h
    dsimp only
    split
    · simp [List.getElem?_set_ne (Ne.symm hj)]
    · exact crossCopy_fst_getElem? fx q ss _ _ op j hj
  · rfl

/-- The list of backing storages keeps its length (no storage appears or disappears). -/
theorem route_keeps_storages (fx : Fixes) (q : Quirks) (c : Cfg) (ss : Stores) (op : XOp) :
    (rstep fx q c ss op).1.length = ss.length := by
  unfold rstep
  split
  · simp
  · dsimp only
    split
    · simp
    · exact crossCopy_length fx q ss _ _ op
  · rfl

/-- Isolation along a whole history: a storage that no call of the history targets is unchanged. -/
theorem route_isolation_history (fx : Fixes) (q : Quirks) (c : Cfg) (ops : List XOp) (ss : Stores) (j : Nat)
    (h : ∀ op ∈ ops, j ∉ targets c op) : (rrun fx q c ss ops).1[j]? = ss[j]? := by
  induction ops generalizing ss with
  | nil => rfl
  | cons op ops ih =>
    simp only [rrun]
    rw [ih (rstep fx q c ss op).1 (fun o ho => h o (List.mem_cons_of_mem _ ho))]
    exact route_isolation fx q c ss op j (h op (List.mem_cons_self ..))

/-- **route_reads_only.** The answer of a call (and which storages it calls), and the new state of
the storage it targets, are functions of the states of the storages its bucket arguments are
routed to (for `ListBuckets`: of the storages it lists) — no other storage is read. -/
theorem route_reads_only (fx : Fixes) (q : Quirks) (c : Cfg) (ss ss' : Stores) (op : XOp)
    (h : ∀ i ∈ sources c op, getS ss i = getS ss' i) :
    (rstep fx q c ss op).2 = (rstep fx q c ss' op).2 ∧
    ∀ t ∈ targets c op, t < ss.length → t < ss'.length →
      getS (rstep fx q c ss op).1 t = getS (rstep fx q c ss' op).1 t := by
  unfold rstep targets
  unfold sources at h
  split
  · next b hb =>
    rw [hb] at h
    have hb' := h (storageOf c b) (by simp)
    dsimp only
    rw [hb']
    refine ⟨rfl, ?_⟩
    intro t ht h1 h2
    have : t = storageOf c b := by simpa using ht
    subst this
    simp [getS_set_eq _ _ _ h1, getS_set_eq _ _ _ h2]
  · next sb db hb =>
    rw [hb] at h
    have hs := h (storageOf c sb) (by simp)
    have hd := h (storageOf c db) (by simp)
    dsimp only
    split
    · rw [hd]
      refine ⟨rfl, ?_⟩
      intro t ht h1 h2
      have : t = storageOf c db := by simpa using ht
      subst this
      simp [getS_set_eq _ _ _ h1, getS_set_eq _ _ _ h2]
    · have := crossCopy_reads_only fx q ss ss' (storageOf c sb) (storageOf c db) op hs hd
      refine ⟨this.1, ?_⟩
      intro t ht h1 h2
      have ht' : t = storageOf c db := by simpa using ht
      subst ht'
      exact this.2 h1 h2
  · next hb =>
    rw [hb] at h
    refine ⟨?_, by simp⟩
    simp only [listBuckets]
    rw [flatMap_congr' (listSources c) _ _ (fun i hi => by rw [h i hi])]

-- ---------------------------------------------------------------- ListBuckets

/-- **list_buckets_union_nodup** (repaired variant, fixes/C24-list-buckets-dedup.patch): for every
configuration and all storage states, `ListBuckets` contains exactly the bucket names some listed
storage holds, each once. -/
theorem list_buckets_union_nodup (cm : Bool) (c : Cfg) (ss : Stores) :
    (listBuckets ⟨cm, true⟩ c ss).Nodup ∧
    ∀ n, n ∈ listBuckets ⟨cm, true⟩ c ss ↔ ∃ i ∈ listSources c, n ∈ bucketNames (getS ss i) := by
  refine ⟨?_, mem_listBuckets _ c ss⟩
  unfold listBuckets
  exact (sortBy_perm _ _).nodup_iff.mpr (by simpa using nodup_dedup _)

/-- As-is, without the de-duplication, the same holds when no storage is listed twice (no storage
is the value of two map entries, the default storage is not mapped explicitly), every storage's
own bucket names are distinct, and different storages hold different names (which the middleware
itself guarantees for the buckets it created: a bucket is created in `storageOf name` only). -/
theorem list_buckets_union_nodup_partial (cm : Bool) (c : Cfg) (ss : Stores)
    (hsrc : (listSources c).Nodup)
    (hown : ∀ i ∈ listSources c, (bucketNames (getS ss i)).Nodup)
    (hdisj : ∀ i ∈ listSources c, ∀ j ∈ listSources c, i ≠ j →
      ∀ n, n ∈ bucketNames (getS ss i) → n ∉ bucketNames (getS ss j)) :
    (listBuckets ⟨cm, false⟩ c ss).Nodup ∧
    ∀ n, n ∈ listBuckets ⟨cm, false⟩ c ss ↔ ∃ i ∈ listSources c, n ∈ bucketNames (getS ss i) := by
  refine ⟨?_, mem_listBuckets _ c ss⟩
  unfold listBuckets
  exact (sortBy_perm _ _).nodup_iff.mpr (by simpa using nodup_flatMap_of _ _ hsrc hown hdisj)

/-- **list_buckets_union_nodup_reachable** (the code AS IT IS). If the configuration lists no
storage twice (no storage is the value of two map entries, the default is not mapped explicitly),
then after ANY history through the middleware from empty storages, `ListBuckets` is the
duplicate-free union — the disjointness and distinctness hypotheses of the `_partial` theorem are
invariants (`Placed`: a bucket is only ever created in the storage its name is routed to). So the
duplicates of `list_buckets_duplicates_witness` arise exactly from a storage being listed twice. -/
theorem list_buckets_union_nodup_reachable (cm : Bool) (fx : Fixes) (q : Quirks) (c : Cfg) (n : Nat)
    (ops : List XOp) (hsrc : (listSources c).Nodup) :
    (listBuckets ⟨cm, false⟩ c (rrun fx q c (List.replicate n {}) ops).1).Nodup ∧
    ∀ nm, nm ∈ listBuckets ⟨cm, false⟩ c (rrun fx q c (List.replicate n {}) ops).1 ↔
      ∃ i ∈ listSources c, nm ∈ bucketNames (getS (rrun fx q c (List.replicate n {}) ops).1 i) := by
  have hp := placed_run fx q c ops _ (placed_empty c n)
  refine list_buckets_union_nodup_partial cm c _ hsrc (fun i _ => (placed_getS hp i).1) ?_
  intro i _ j _ hij nm hi hj
  exact hij (((placed_getS hp i).2 nm hi).symm.trans ((placed_getS hp j).2 nm hj))

def wcfg : Cfg := { map := [("b0", 1), ("b1", 1)], dflt := 0 }

/-- Negation witness for the code as it is: two bucket names mapped to storage 1, one bucket
created through the middleware — `ListBuckets` reports it twice. -/
theorem list_buckets_duplicates_witness :
    listBuckets Fixes.asIs wcfg (rrun Fixes.asIs Quirks.code wcfg [{}, {}] [.base (.mkb "b0")]).1 = ["b0", "b0"] := by
  decide

example : ¬ (listBuckets Fixes.asIs wcfg (rrun Fixes.asIs Quirks.code wcfg [{}, {}] [.base (.mkb "b0")]).1).Nodup := by
  rw [list_buckets_duplicates_witness]; decide


-- ---------------------------------------------------------------- cross-storage copies

/-- **cross_copy_eq_same_copy** (repaired variant, fixes/C24-cross-copy-carries-metadata.patch).
Let `sb` and `db` be routed to different storages, and let `s` be the state of the destination's
storage. Then a `CopyObject sb/sk → db/dk` through the middleware leaves the destination's storage
in the state — and gives the caller the outcome (error, or new version id) — that the *same-storage*
`CopyObject` would, run on a storage `s` that holds the source bucket as the source's storage
holds it; "same" up to part structure / ETag (`flatten`: the cross-storage copy writes one part).
So the destination object has the same content, content type, metadata, tags and storage class,
for every directive combination, every source version, every destination versioning state. -/
theorem cross_copy_eq_same_copy (ld : Bool) (q : Quirks) (c : Cfg) (ss : Stores) (s : State)
    (sb sk db dk : String) (svid : Option (Option Nat)) (rm rt : Bool) (o : WriteOpts)
    (hne : storageOf c sb ≠ storageOf c db)
    (hdi : storageOf c db < ss.length)
    (hsrc : findBucket (getS ss (storageOf c sb)) sb = findBucket s sb)
    (hdst : getS ss (storageOf c db) = s) :
    flatten (getS (rstep ⟨true, ld⟩ q c ss (.base (.copy sb sk svid db dk rm rt o))).1 (storageOf c db))
      = flatten (step q s (.copy sb sk svid db dk rm rt o)).1
    ∧ writeOutcome (rstep ⟨true, ld⟩ q c ss (.base (.copy sb sk svid db dk rm rt o))).2.out
      = writeOutcome (.base (step q s (.copy sb sk svid db dk rm rt o)).2) :=
  cross_copy_eq_same_copy_aux ⟨true, ld⟩ q c ss s sb sk db dk svid rm rt o hne hdi hsrc hdst
    (fun _ _ _ _ => rfl)

/-- What the same-storage copy would store besides the content type: nothing. -/
def CarriesNothing (rm rt : Bool) (o : WriteOpts) (src : Row) : Prop :=
  (copyOpts rm rt o src).md = [] ∧ (copyOpts rm rt o src).tags = [] ∧ (copyOpts rm rt o src).cls = none

instance (rm rt : Bool) (o : WriteOpts) (src : Row) : Decidable (CarriesNothing rm rt o src) :=
  inferInstanceAs (Decidable (_ ∧ _ ∧ _))

/-- As-is (`PutObject(…, nil, nil)`), the same conclusion holds exactly when the excluded trigger
is absent: the same-storage copy of the addressed source would carry no metadata, no tags and no
storage class. -/
theorem cross_copy_eq_same_copy_partial (ld : Bool) (q : Quirks) (c : Cfg) (ss : Stores) (s : State)
    (sb sk db dk : String) (svid : Option (Option Nat)) (rm rt : Bool) (o : WriteOpts)
    (hne : storageOf c sb ≠ storageOf c db)
    (hdi : storageOf c db < ss.length)
    (hsrc : findBucket (getS ss (storageOf c sb)) sb = findBucket s sb)
    (hdst : getS ss (storageOf c db) = s)
    (hnothing : ∀ sbk src, findBucket s sb = some sbk → resolve sbk sk svid = .ok src → CarriesNothing rm rt o src) :
    flatten (getS (rstep ⟨false, ld⟩ q c ss (.base (.copy sb sk svid db dk rm rt o))).1 (storageOf c db))
      = flatten (step q s (.copy sb sk svid db dk rm rt o)).1
    ∧ writeOutcome (rstep ⟨false, ld⟩ q c ss (.base (.copy sb sk svid db dk rm rt o))).2.out
      = writeOutcome (.base (step q s (.copy sb sk svid db dk rm rt o)).2) := by
  refine cross_copy_eq_same_copy_aux ⟨false, ld⟩ q c ss s sb sk db dk svid rm rt o hne hdi hsrc hdst ?_
  intro sbk src h1 h2
  obtain ⟨hm, ht, hc⟩ := hnothing sbk src h1 h2
  have : copyOpts rm rt o src = { ct := if rm then o.ct else src.ct } := by
    have hct : (copyOpts rm rt o src).ct = if rm then o.ct else src.ct := rfl
    generalize copyOpts rm rt o src = w at hm ht hc hct
    cases w
    simp_all
  simp [crossOpts, this]

def xcfg : Cfg := { map := [("b0", 1)], dflt := 0 }
def xopts : WriteOpts :=
  { ct := some "text/plain", md := [("!cc", "no-cache"), ("a", "1")], tags := [("t", "v")], cls := some "STANDARD_IA" }
def xprep : List XOp :=
  [.base (.mkb "b0"), .base (.mkb "b1"), .base (.put "b0" "k0" [1, 2, 3] xopts false .none)]
def xcopy : XOp := .base (.copy "b0" "k0" none "b1" "k1" false false { cls := some "GLACIER" })

/-- Negation witness for the code as it is (DESIGN §10, directed case 0 of c24_gen.go): `b0` lives
on storage 1, `b1` on the default storage. The object `b0/k0` carries Cache-Control, user
metadata, a tag and a class; it is copied to `b1/k1` with the COPY directives and class GLACIER.
Across storages the destination has the content and content type only; the same copy inside one
storage (no bucket mapped) keeps metadata and tags and gets the requested class. -/
theorem cross_copy_drops_metadata_witness :
    observe (getS (rrun Fixes.asIs Quirks.code xcfg [{}, {}] (xprep ++ [xcopy])).1 0)
      = [("b1", [{ key := "k1", body := [1, 2, 3], ct := some "text/plain", md := [], tags := [], cls := none }])]
    ∧ observe (getS (rrun Fixes.asIs Quirks.code { map := [], dflt := 0 } [{}] (xprep ++ [xcopy])).1 0)
      = [("b0", [{ key := "k0", body := [1, 2, 3], ct := some "text/plain", md := [("!cc", "no-cache"), ("a", "1")],
                   tags := [("t", "v")], cls := some "STANDARD_IA" }]),
         ("b1", [{ key := "k1", body := [1, 2, 3], ct := some "text/plain", md := [("!cc", "no-cache"), ("a", "1")],
                   tags := [("t", "v")], cls := some "GLACIER" }])] := by
  decide

/-- … and the repaired variant produces, across storages, what the same-storage copy produces. -/
theorem cross_copy_repaired_witness :
    observe (getS (rrun Fixes.repaired Quirks.code xcfg [{}, {}] (xprep ++ [xcopy])).1 0)
      = [("b1", [{ key := "k1", body := [1, 2, 3], ct := some "text/plain", md := [("!cc", "no-cache"), ("a", "1")],
                   tags := [("t", "v")], cls := some "GLACIER" }])] := by
  decide

/-- Non-vacuity of `cross_copy_eq_same_copy_partial`: a source object without metadata, tags and
class, copied without a class, meets `CarriesNothing`. -/
example : CarriesNothing false false {}
    (mkRow 0 "k" none 0 0 { parts := [[1]], etag := singleETag [1], o := { ct := some "text/plain" } }) := by decide

/-- **cross_part_copy_eq_same_part_copy.** `UploadPartCopy` from a bucket on one storage into an
upload on another leaves the destination's storage in the state, and answers the caller, exactly
as the same-storage `UploadPartCopy` would (source version, byte range, errors included) — for the
code as it is and for the repaired variant. (States compared up to the storage's logical clock.) -/
theorem cross_part_copy_eq_same_part_copy (fx : Fixes) (q : Quirks) (c : Cfg) (ss : Stores) (s : State)
    (sb sk db dk : String) (svid : Option (Option Nat)) (uid n : Nat) (range : Option (Nat × Nat))
    (hne : storageOf c sb ≠ storageOf c db)
    (hdi : storageOf c db < ss.length)
    (hsrc : findBucket (getS ss (storageOf c sb)) sb = findBucket s sb)
    (hdst : getS ss (storageOf c db) = s) :
    flatten (getS (rstep fx q c ss (.partCopy sb sk svid db dk uid n range)).1 (storageOf c db))
      = flatten (xstep q s (.partCopy sb sk svid db dk uid n range)).1
    ∧ (rstep fx q c ss (.partCopy sb sk svid db dk uid n range)).2.out
      = (xstep q s (.partCopy sb sk svid db dk uid n range)).2 :=
  cross_part_copy_aux fx q c ss s sb sk db dk svid uid n range hne hdi hsrc hdst

/-- Non-vacuity of the hypotheses of the cross-copy theorems: the witness configuration after its
preparation meets them for the copy `b0/k0 → b1/k1` (`s` = the default storage plus the source
bucket as storage 1 holds it). -/
example :
    let ss := (rrun Fixes.repaired Quirks.code xcfg [{}, {}] xprep).1
    storageOf xcfg "b0" ≠ storageOf xcfg "b1" ∧ storageOf xcfg "b1" < ss.length ∧
    findBucket (getS ss (storageOf xcfg "b0")) "b0"
      = findBucket { getS ss 0 with buckets := (getS ss 0).buckets ++ (getS ss 1).buckets } "b0" := by
  decide

-- ---------------------------------------------------------------- copy-source preconditions

/-- **cross_conditions_eq_same.** The precondition evaluator of the cross-storage branch
(`copySourceConditionsSatisfied`) decides exactly like the one of a copy inside one storage
(`evaluateCopySourceConditions`): for every combination of If-Match / If-None-Match / If-Unmodified-Since
/ If-Modified-Since, every relation of the ETags to the source's and every distance of the two
instants from the source's Last-Modified (to the millisecond, both signs, zero included). -/
theorem cross_conditions_eq_same (c : CopyCond) : condOkCross c = condOkSame c := rfl

/-- What the evaluators decide, spelled out (the S3 rules): If-Match must be `*` or the source's
ETag; If-None-Match must name a different ETag; If-Unmodified-Since must not lie before the
source's Last-Modified second unless If-Match passed; If-Modified-Since must lie strictly before
it — an instant EQUAL to the Last-Modified second fails. -/
theorem copy_conditions_spec (c : CopyCond) :
    condOkSame c = true ↔
      (c.im ≠ .other) ∧ (c.inm = .none ∨ c.inm = .other) ∧
      (∀ d, c.ius = some d → 0 ≤ d ∨ c.im = .star ∨ c.im = .same) ∧
      (∀ d, c.ims = some d → d < 0) := by
  obtain ⟨im, inm, ius, ims⟩ := c
  cases im <;> cases inm <;> cases ius <;> cases ims <;> simp [condOkSame] <;> omega

/-- The boundary instants: If-Modified-Since one millisecond before / equal to / after the
source's Last-Modified second; If-Unmodified-Since likewise (without and with a passing If-Match). -/
example : condOkCross { ims := some (-1) } = true ∧ condOkCross { ims := some 0 } = false ∧
    condOkCross { ims := some 1 } = false ∧ condOkCross { ius := some (-1) } = false ∧
    condOkCross { ius := some 0 } = true ∧ condOkCross { ius := some 1 } = true ∧
    condOkCross { ius := some (-1), im := .same } = true ∧ condOkCross { ius := some (-1), im := .other } = false := by
  decide

theorem readSource_of_findBucket {s t : State} {sb : String} (h : findBucket s sb = findBucket t sb)
    (sk : String) (svid : Option (Option Nat)) : readSource s sb sk svid = readSource t sb sk svid := by
  unfold readSource; rw [h]

/-- **route_isolation_if.** Preconditions do not widen what a copy touches. -/
theorem route_isolation_if (fx : Fixes) (q : Quirks) (c : Cfg) (ss : Stores) (cond : CopyCond) (op : XOp) (j : Nat)
    (h : j ∉ targets c op) : (rstepIf fx q c ss cond op).1[j]? = ss[j]? := by
  unfold rstepIf
  split
  · next sb db _ sk svid hr hc =>
    dsimp only
    split
    · have hj : j ≠ storageOf c db := by simpa [targets, hr] using h
      simp [List.getElem?_set_ne (Ne.symm hj)]
    · split
      · exact route_isolation fx q c ss op j h
      · split
        · exact route_isolation fx q c ss op j h
        · rfl
  · exact route_isolation fx q c ss op j h

/-- **cross_copy_if_eq_same_copy_if.** `cross_copy_eq_same_copy` with copy-source preconditions:
a conditional CopyObject across storages leaves the destination's storage in the state, and gives
the caller the outcome (PreconditionFailed included), of the conditional copy inside one storage —
for every precondition set. -/
theorem cross_copy_if_eq_same_copy_if (ld : Bool) (q : Quirks) (c : Cfg) (ss : Stores) (s : State) (cond : CopyCond)
    (sb sk db dk : String) (svid : Option (Option Nat)) (rm rt : Bool) (o : WriteOpts)
    (hne : storageOf c sb ≠ storageOf c db)
    (hdi : storageOf c db < ss.length)
    (hsrc : findBucket (getS ss (storageOf c sb)) sb = findBucket s sb)
    (hdst : getS ss (storageOf c db) = s) :
    flatten (getS (rstepIf ⟨true, ld⟩ q c ss cond (.base (.copy sb sk svid db dk rm rt o))).1 (storageOf c db))
      = flatten (xstepIf q s cond (.base (.copy sb sk svid db dk rm rt o))).1
    ∧ writeOutcome (rstepIf ⟨true, ld⟩ q c ss cond (.base (.copy sb sk svid db dk rm rt o))).2.out
      = writeOutcome (xstepIf q s cond (.base (.copy sb sk svid db dk rm rt o))).2 := by
  have hbase := cross_copy_eq_same_copy ld q c ss s sb sk db dk svid rm rt o hne hdi hsrc hdst
  have hne' : (storageOf c sb == storageOf c db) = false := by simpa using hne
  have hrs := readSource_of_findBucket hsrc sk svid
  simp only [rstepIf, xstepIf, route, routeBase, copySource, hne', Bool.false_eq_true, if_false, hrs, xstep]
  cases readSource s sb sk svid with
  | error e => exact hbase
  | ok src =>
    dsimp only
    rw [cross_conditions_eq_same]
    cases condOkSame cond with
    | true => simpa using hbase
    | false => simp [hdst, flatten, tick, writeOutcome]

/-- **cross_part_copy_if_eq_same_part_copy_if.** Likewise for UploadPartCopy (as-is and repaired). -/
theorem cross_part_copy_if_eq_same_part_copy_if (fx : Fixes) (q : Quirks) (c : Cfg) (ss : Stores) (s : State)
    (cond : CopyCond) (sb sk db dk : String) (svid : Option (Option Nat)) (uid n : Nat) (range : Option (Nat × Nat))
    (hne : storageOf c sb ≠ storageOf c db)
    (hdi : storageOf c db < ss.length)
    (hsrc : findBucket (getS ss (storageOf c sb)) sb = findBucket s sb)
    (hdst : getS ss (storageOf c db) = s) :
    flatten (getS (rstepIf fx q c ss cond (.partCopy sb sk svid db dk uid n range)).1 (storageOf c db))
      = flatten (xstepIf q s cond (.partCopy sb sk svid db dk uid n range)).1
    ∧ (rstepIf fx q c ss cond (.partCopy sb sk svid db dk uid n range)).2.out
      = (xstepIf q s cond (.partCopy sb sk svid db dk uid n range)).2 := by
  have hbase := cross_part_copy_eq_same_part_copy fx q c ss s sb sk db dk svid uid n range hne hdi hsrc hdst
  have hne' : (storageOf c sb == storageOf c db) = false := by simpa using hne
  have hrs := readSource_of_findBucket hsrc sk svid
  simp only [rstepIf, xstepIf, route, copySource, hne', Bool.false_eq_true, if_false, hrs]
  cases hr : readSource s sb sk svid with
  | error e => exact hbase
  | ok src =>
    dsimp only
    rw [cross_conditions_eq_same]
    cases condOkSame cond with
    | true => simpa using hbase
    | false => simp [hdst, flatten, tick]

-- ---------------------------------------------------------------- non-vacuity

/-- `route_isolation` is about something: a put into `b4` (default storage 0) does not target
storage 1, a cross-storage copy `b0 → b4` targets storage 0 only, `ListBuckets` targets none. -/
example : 1 ∉ targets wcfg (.base (.put "b4" "k" [] {} false .none)) ∧
    targets wcfg (.base (.copy "b0" "k" none "b4" "k" false false {})) = [0] ∧
    sources wcfg (.base (.copy "b0" "k" none "b4" "k" false false {})) = [1, 0] ∧
    targets wcfg (.base .listBuckets) = [] := by decide

/-- The hypotheses of `list_buckets_union_nodup_partial` are met by a configuration in which
every storage is listed once, after buckets were created through the middleware. -/
example :
    let c : Cfg := { map := [("b0", 1)], dflt := 0 }
    let ss := (rrun Fixes.asIs Quirks.code c [{}, {}] [.base (.mkb "b0"), .base (.mkb "b1"), .base (.mkb "b2")]).1
    (listSources c).Nodup ∧ (∀ i ∈ listSources c, (bucketNames (getS ss i)).Nodup) ∧
    (∀ i ∈ listSources c, ∀ j ∈ listSources c, i ≠ j → ∀ n ∈ bucketNames (getS ss i), n ∉ bucketNames (getS ss j)) ∧
    listBuckets Fixes.asIs c ss = ["b0", "b1", "b2"] := by
  decide

end Pithos.C24
