/-
C14 — storage-class transitions preserve objects (the routing of part data to named stores is
validated by the tie on the `named` stack; the model abstracts stores to "parts are readable").
-/
import Pithos.Lemmas.S3ByVid
import Pithos.Props.C13

namespace Pithos.C14
open Pithos.S3

/-- **transition_preserves (current version).** A successful transition of the current version of a
key changes only the reported storage class: the next GET/HEAD returns the same version id, body,
size, ETag, content type, metadata and tags, with the class set to the target. Every reachable
state (row invariant), every quirk setting. -/
theorem transition_preserves (q : Quirks) (s s1 : State) (hinv : Inv s) (b k cls : String)
    (hack : step q s (.transition b k cls none) = (s1, .unit)) :
    ∃ v0 v1, (step q s (.get b k none)).2 = .obj v0 ∧ (step q s1 (.get b k none)).2 = .obj v1 ∧
      v1.vid = v0.vid ∧ v1.body = v0.body ∧ v1.size = v0.size ∧ v1.etag = v0.etag ∧ v1.ct = v0.ct ∧
      v1.md = v0.md ∧ v1.tags = v0.tags ∧ v1.cls = some cls := by
  have hfbt : ∀ x, findBucket { s with clock := s.clock + 1 } x = findBucket s x := fun _ => rfl
  simp only [step, stepT, hfbt] at hack
  cases hfb : findBucket s b with
  | none => simp [hfb] at hack
  | some bk =>
    simp only [hfb] at hack
    cases hl : latestRow bk k with
    | none => simp [hl] at hack
    | some r =>
      simp only [hl] at hack
      by_cases hd : r.dm = true
      · simp [hd] at hack
      · simp only [hd] at hack
        simp only [Bool.false_eq_true, ↓reduceIte, Prod.mk.injEq, and_true] at hack
        have hbk := hinv bk (findBucket_mem hfb)
        have hname := findBucket_some_name hfb
        subst hack
        generalize hy : touch q (s.clock + 1) _ = y
        have hyid : y.rowId = r.rowId := by rw [← hy]; simp [touch]
        have hyk : y.key = r.key := by rw [← hy]; simp [touch]
        have hyl : y.latest = true := by rw [← hy]; simp [touch, (latestRow_some hl).2.2]
        have hl1 : latestRow (replaceRow bk y) k = some y := latestRow_repl_keep hbk hl hyid hyk hyl
        have hfb1 : findBucket (setBucket { s with clock := s.clock + 1 } (replaceRow bk y)) b = some (replaceRow bk y) := by
          exact findBucket_setBucket (s := { s with clock := s.clock + 1 }) hfb (by rw [replaceRow_name, hname])
        have hdy : y.dm = false := by rw [← hy]; simp [touch]
        obtain ⟨g0, _⟩ := get_current (q := q) hfb hl (by simpa using hd)
        obtain ⟨g1, _⟩ := get_current (q := q) hfb1 hl1 hdy
        refine ⟨viewOf r, viewOf y, g0, g1, ?_⟩
        rw [← hy]
        simp [viewOf, touch, Row.content, Row.size]

/-- **transition_preserves_version ("… an object *or version* …").** A successful transition of the
version addressed by `vid` (the null version or a numbered one, current or not) changes only the
reported storage class of that version: GET/HEAD by the same version id returns the same version
id, body, size, ETag, content type, metadata and tags, with the class set to the target; whether
the version is the current one is unchanged as well. Every reachable state, every quirk setting. -/
theorem transition_preserves_version (q : Quirks) (s s1 : State) (hinv : Inv s) (b k cls : String)
    (vid : Option Nat) (hack : step q s (.transition b k cls (some vid)) = (s1, .unit)) :
    ∃ v0 v1, (step q s (.get b k (some vid))).2 = .obj v0 ∧ (step q s1 (.get b k (some vid))).2 = .obj v1 ∧
      (step q s (.head b k (some vid))).2 = .obj v0 ∧ (step q s1 (.head b k (some vid))).2 = .obj v1 ∧
      v1.vid = v0.vid ∧ v1.body = v0.body ∧ v1.size = v0.size ∧ v1.etag = v0.etag ∧ v1.ct = v0.ct ∧
      v1.md = v0.md ∧ v1.tags = v0.tags ∧ v1.cls = some cls := by
  have hfbt : ∀ x, findBucket { s with clock := s.clock + 1 } x = findBucket s x := fun _ => rfl
  simp only [step, stepT, hfbt] at hack
  cases hfb : findBucket s b with
  | none => simp [hfb] at hack
  | some bk =>
    simp only [hfb] at hack
    cases hl : rowByVid bk k vid with
    | none => simp [hl] at hack
    | some r =>
      simp only [hl] at hack
      by_cases hd : r.dm = true
      · simp [hd] at hack
      · simp only [hd] at hack
        simp only [Bool.false_eq_true, ↓reduceIte, Prod.mk.injEq, and_true] at hack
        have hbk := hinv bk (findBucket_mem hfb)
        have hname := findBucket_some_name hfb
        subst hack
        generalize hy : touch q (s.clock + 1) _ = y
        have hyid : y.rowId = r.rowId := by rw [← hy]; simp [touch]
        have hyk : y.key = r.key := by rw [← hy]; simp [touch]
        have hyv : y.vid = r.vid := by rw [← hy]; simp [touch]
        have hl1 : rowByVid (replaceRow bk y) k vid = some y := rowByVid_repl_keep hbk hl hyid hyk hyv
        have hfb1 : findBucket (setBucket { s with clock := s.clock + 1 } (replaceRow bk y)) b = some (replaceRow bk y) := by
          exact findBucket_setBucket (s := { s with clock := s.clock + 1 }) hfb (by rw [replaceRow_name, hname])
        have hdy : y.dm = false := by rw [← hy]; simp [touch]
        obtain ⟨g0, h0⟩ := get_version (q := q) hfb hl (by simpa using hd)
        obtain ⟨g1, h1⟩ := get_version (q := q) hfb1 hl1 hdy
        refine ⟨viewOf r, viewOf y, g0, g1, h0, h1, ?_⟩
        rw [← hy]
        simp [viewOf, touch, Row.content, Row.size]

/-- The projection of a row that a transition must not change: everything but the storage class
(and the bookkeeping fields `updated` / `seqBase`). -/
def keep (r : Row) :=
  (r.rowId, r.key, r.vid, r.latest, r.dm, r.content, r.etag, r.tags, r.md, r.ct)

/-- **transition_changes_only_class (whole bucket).** An acknowledged transition — of the current
version or of a version addressed by id — leaves, for *every* row of the bucket, the key, version
id, current-version flag, delete-marker flag, content, ETag, tags, metadata and content type
unchanged, in the same order: listings, "which version is current" and every other version are
not affected. Every reachable state, every quirk setting. -/
theorem transition_changes_only_class (q : Quirks) (s s1 : State) (hinv : Inv s) (b k cls : String)
    (vid : Option (Option Nat)) (bk : Bucket) (hfb : findBucket s b = some bk)
    (hack : step q s (.transition b k cls vid) = (s1, .unit)) :
    ∃ bk1, findBucket s1 b = some bk1 ∧ bk1.rows.map keep = bk.rows.map keep := by
  have hfbt : ∀ x, findBucket { s with clock := s.clock + 1 } x = findBucket s x := fun _ => rfl
  have hname := findBucket_some_name hfb
  have hbk := hinv bk (findBucket_mem hfb)
  -- whichever row the request addressed, and whatever replaces it with the same `keep` projection
  have key : ∀ (r : Row), r ∈ bk.rows → ∀ y : Row, y.rowId = r.rowId → keep y = keep r →
      (replaceRow bk y).rows.map keep = bk.rows.map keep := by
    intro r hr y hyid hyk
    rw [replaceRow_rows]
    unfold repl
    rw [List.map_map]
    apply List.map_congr_left
    intro x hx
    by_cases hxy : x.rowId = y.rowId
    · have hxr : x = r := eq_of_id_eq hbk.nodup hx hr (hxy.trans hyid)
      subst hxr
      simp [hxy, hyk]
    · simp [hxy]
  have fin : ∀ r ∈ bk.rows, ∀ y : Row, y.rowId = r.rowId → keep y = keep r →
      s1 = setBucket { s with clock := s.clock + 1 } (replaceRow bk y) →
      ∃ bk1, findBucket s1 b = some bk1 ∧ bk1.rows.map keep = bk.rows.map keep := by
    intro r hr y hyid hyk h
    subst h
    exact ⟨_, findBucket_setBucket (s := { s with clock := s.clock + 1 }) hfb
      (by rw [replaceRow_name, hname]), key r hr y hyid hyk⟩
  simp only [step, stepT, hfbt, hfb] at hack
  cases vid with
  | none =>
    simp only [] at hack
    cases hl : latestRow bk k with
    | none => simp [hl] at hack
    | some r =>
      simp only [hl] at hack
      by_cases hd : r.dm = true
      · simp [hd] at hack
      · simp only [hd, Bool.false_eq_true, ↓reduceIte, Prod.mk.injEq, and_true] at hack
        have hdf : r.dm = false := by simpa using hd
        exact fin r (latestRow_some hl).1 _ (by simp [touch]) (by simp [keep, touch, Row.content, hdf]) hack.symm
  | some v =>
    simp only [] at hack
    cases hl : rowByVid bk k v with
    | none => simp [hl] at hack
    | some r =>
      simp only [hl] at hack
      by_cases hd : r.dm = true
      · simp [hd] at hack
      · simp only [hd, Bool.false_eq_true, ↓reduceIte, Prod.mk.injEq, and_true] at hack
        have hdf : r.dm = false := by simpa using hd
        exact fin r (rowByVid_mem hl).1 _ (by simp [touch]) (by simp [keep, touch, Row.content, hdf]) hack.symm

/-- Transitions never touch any *other* version that has a version id (corollary of C13). -/
theorem transition_keeps_other_versions (q : Quirks) (hq : q.appendLatestInPlace = false) (s : State) (hinv : Inv s)
    (b b' k cls : String) (vid : Option (Option Nat)) (bk : Bucket) (r : Row)
    (hfb : findBucket s b = some bk) (hr : r ∈ bk.rows) (hv : r.vid ≠ none) :
    ∃ bk', findBucket (step q s (.transition b' k cls vid)).1 b = some bk' ∧ ∃ r' ∈ bk'.rows, frozenEq q r r' :=
  C13.version_frozen q hq s hinv _ b bk r hfb hr hv (by intro ⟨_, _, _, h, _⟩; cases h)

/-- Non-vacuity: a concrete reachable state in which a transition succeeds. -/
example : (step Quirks.code (run Quirks.code {} [.mkb "b", .put "b" "k" [1, 2] {} false .none]).1
    (.transition "b" "k" "GLACIER" none)).2 = .unit := by decide

end Pithos.C14
