/-
C32 — client IP and scheme are only taken from trusted proxies.

Property theorems over the decision model `Pithos.ProxyTrust` (all configurations: any list of
parsed / unparsable CIDR entries; all requests: any peer, any header outcome). `repaired = true`
is the code with fixes/C32-unusable-cidr-list-trusts-nobody.patch applied, `repaired = false` the
code as it stands.
-/
import Pithos.Model.ProxyTrust
import Pithos.Spec.ProxyTrust
import Pithos.Model.ProxySettings
import Pithos.Spec.ProxySettings

namespace Pithos.C32
open Pithos.NetParse Pithos.ProxyTrust Pithos.ProxyTrust.Spec

theorem mem_usable (cfg : Config) (c : Cidr) : c ∈ usable cfg ↔ some c ∈ cfg.cidrs := by
  simp [usable, List.mem_filterMap]

/-- Go's `IPNet.Contains` never admits an address the numeric reading of the CIDR excludes. -/
theorem contains_inside (c : Cidr) (a : Ip) (h : contains c a = true) : inside c a = true := by
  simp only [contains, Bool.and_eq_true] at h
  exact h.2

/-- **forwarded_used_iff** (repaired code). The forwarded headers are consulted exactly when
forwarded headers are trusted, the peer has an IP, and either no CIDR list was configured at all
or some configured entry is a valid CIDR that contains the peer. -/
theorem forwarded_used_iff (cfg : Config) (req : Req) :
    useForwarded true cfg req = true ↔
      cfg.trust = true ∧ ∃ a, req.peer = some a ∧
        (cfg.cidrs = [] ∨ ∃ c, some c ∈ cfg.cidrs ∧ contains c a = true) := by
  unfold useForwarded trustedProxy
  cases hp : req.peer with
  | none => simp
  | some a =>
    simp only [Bool.and_eq_true, Bool.or_eq_true, List.any_eq_true, List.isEmpty_iff, if_true,
      Option.some.injEq, exists_eq_left']
    constructor
    · rintro ⟨ht, h⟩
      refine ⟨ht, ?_⟩
      rcases h with h | ⟨c, hc, hin⟩
      · exact Or.inl h
      · exact Or.inr ⟨c, (mem_usable cfg c).1 hc, hin⟩
    · rintro ⟨ht, h⟩
      refine ⟨ht, ?_⟩
      rcases h with h | ⟨c, hc, hin⟩
      · exact Or.inl h
      · exact Or.inr ⟨c, (mem_usable cfg c).2 hc, hin⟩

/-- When the forwarded headers are not consulted the script sees exactly the TCP peer's IP and the
connection's own scheme (both variants of the code). -/
theorem not_used_exposes_peer (r : Bool) (cfg : Config) (req : Req)
    (h : useForwarded r cfg req = false) :
    resolve r cfg req = (req.peer, peerScheme req.tls) := by
  simp [resolve, h]

/-- **exposed_differs_only_if_allowed** (repaired code) — the property as stated: if the exposed
client IP or scheme differs from the TCP peer's, then forwarded headers are trusted and the peer
lies inside a configured valid CIDR, or no list was configured at all. -/
theorem exposed_differs_only_if_allowed (cfg : Config) (req : Req)
    (h : resolve true cfg req ≠ (req.peer, peerScheme req.tls)) :
    mayDiffer cfg req.peer = true := by
  have hu : useForwarded true cfg req = true := by
    cases hu : useForwarded true cfg req with
    | true => rfl
    | false => exact absurd (not_used_exposes_peer true cfg req hu) h
  obtain ⟨ht, a, hp, hc⟩ := (forwarded_used_iff cfg req).1 hu
  simp only [mayDiffer, ht, hp, Bool.true_and, Bool.or_eq_true, List.isEmpty_iff,
    List.any_eq_true]
  rcases hc with h0 | ⟨c, hc, hin⟩
  · exact Or.inl h0
  · exact Or.inr ⟨some c, hc, contains_inside c a hin⟩

/-- **unusable_list_trusts_nobody** (repaired code). A configured list none of whose entries is a
CIDR trusts no peer at all — so it can never make every peer trusted — and every request is shown
with the peer's own IP and scheme. -/
theorem unusable_list_trusts_nobody (cfg : Config) (hne : cfg.cidrs ≠ [])
    (hall : ∀ e ∈ cfg.cidrs, e = none) :
    (∀ peer, trustedProxy true cfg peer = false) ∧
    (∀ req, resolve true cfg req = (req.peer, peerScheme req.tls)) := by
  have hus : usable cfg = [] := by
    simp only [usable, List.filterMap_eq_nil_iff]
    intro e he; simp [hall e he]
  have h1 : ∀ peer, trustedProxy true cfg peer = false := by
    intro peer
    cases peer with
    | none => rfl
    | some a => simp [trustedProxy, hus, hne]
  refine ⟨h1, fun req => not_used_exposes_peer true cfg req ?_⟩
  simp [useForwarded, h1]

/-- With trust switched off nothing is ever taken from a header (both variants). -/
theorem trust_off_exposes_peer (r : Bool) (cfg : Config) (req : Req) (h : cfg.trust = false) :
    resolve r cfg req = (req.peer, peerScheme req.tls) :=
  not_used_exposes_peer r cfg req (by simp [useForwarded, h])

/-- The two variants differ only on configured lists without a usable entry. -/
theorem asis_eq_repaired (cfg : Config) (peer : Option Ip)
    (h : unusableList cfg = false) :
    trustedProxy false cfg peer = trustedProxy true cfg peer := by
  cases peer with
  | none => rfl
  | some a =>
    simp only [trustedProxy]
    by_cases h0 : cfg.cidrs = []
    · simp [usable, h0]
    · have hne : usable cfg ≠ [] := by
        intro hus
        simp only [usable, List.filterMap_eq_nil_iff] at hus
        have : cfg.cidrs.all (·.isNone) = true := by
          simp only [List.all_eq_true]
          intro e he
          have := hus e he
          cases e <;> simp_all
        simp [unusableList, h0, this] at h
      have e1 : (usable cfg).isEmpty = false := by simpa using hne
      have e2 : cfg.cidrs.isEmpty = false := by simpa using h0
      simp [e1, e2]

/-- **exposed_differs_only_if_allowed_partial** (code as it stands): the property holds for every
configuration except a configured list without a single usable entry. -/
theorem exposed_differs_only_if_allowed_partial (cfg : Config) (req : Req)
    (hcfg : unusableList cfg = false)
    (h : resolve false cfg req ≠ (req.peer, peerScheme req.tls)) :
    mayDiffer cfg req.peer = true := by
  have e : resolve false cfg req = resolve true cfg req := by
    simp [resolve, useForwarded, asis_eq_repaired cfg req.peer hcfg]
  exact exposed_differs_only_if_allowed cfg req (e ▸ h)

/-- **Negation witness** (code as it stands): one unparsable entry — `TrustedProxyCIDRs =
["not-a-cidr"]` — makes *every* peer a trusted proxy … -/
theorem asis_unusable_list_trusts_everybody (a : Ip) :
    trustedProxy false { trust := true, cidrs := [none] } (some a) = true := by
  simp [trustedProxy, usable]

/-- … and the concrete request replayed on the implementation: peer 192.0.2.5 over plain HTTP,
`X-Forwarded-For: 198.51.100.7`, `X-Forwarded-Proto: https`; the script sees 198.51.100.7/https
although `mayDiffer` is false. -/
theorem asis_violates :
    let cfg : Config := { trust := true, cidrs := [none] }
    let req : Req := { peer := some (mapped 0xC0000205), tls := false, cf := none,
                       xff := some (some (mapped 0xC6336407)), xfp := some (some .https) }
    resolve false cfg req = (some (mapped 0xC6336407), .https) ∧
    resolve false cfg req ≠ (req.peer, peerScheme req.tls) ∧
    mayDiffer cfg req.peer = false ∧
    resolve true cfg req = (req.peer, peerScheme req.tls) := by
  decide

/-- Non-vacuity: a mixed list (one unparsable entry, 10.0.0.0/8) admits the proxy 10.1.2.3 and the
forwarded values are used; the peer 192.0.2.5 outside it is shown as itself. -/
example :
    let net10 : Cidr := { base := mapped 0x0A000000, bits := 104 }
    let cfg : Config := { trust := true, cidrs := [none, some net10] }
    let hdr : Req := { peer := some (mapped 0x0A010203), tls := false, cf := none,
                       xff := some (some (mapped 0xC6336407)), xfp := some (some .https) }
    unusableList cfg = false ∧
    resolve true cfg hdr = (some (mapped 0xC6336407), .https) ∧
    resolve true cfg { hdr with peer := some (mapped 0xC0000205) }
      = (some (mapped 0xC0000205), .http) := by
  decide

/-- Non-vacuity of the string front end: the literals of the witness parse to those numbers. -/
example :
    parseCidr "not-a-cidr".toList = none ∧
    parseCidr "10.0.0.0/8".toList = some { base := mapped 0x0A000000, bits := 104 } ∧
    remoteIP "192.0.2.5:41000".toList = some (mapped 0xC0000205) ∧
    remoteIP "[::ffff:10.1.2.3]:9".toList = some (mapped 0x0A010203) ∧
    parseIP "2001:db8::1".toList = some 0x20010db8000000000000000000000001 := by
  decide

/-! ## The configuration glue (`Pithos.ProxySettings`): layered settings → authorizer options

Layers are listed in increasing precedence (`mergeSettings(cmdArgs, env)`: command line, then
environment). `mergeFixed = true` is fixes/C32-settings-merge-keeps-cli-slices.patch,
`keepUnusable = true` is fixes/C32-separators-only-narrow.patch. -/

section Settings
open Pithos.Ascii Pithos.ProxySettings

/-- "Later `some` wins" over a list of optional values. -/
def override {α : Type} (a x : Option α) : Option α := match x with | some v => some v | none => a

theorem foldl_override {α : Type} (xs : List (Option α)) (acc : Option α) :
    xs.foldl override acc = ((xs.reverse.find? (·.isSome)).getD none).or acc := by
  induction xs generalizing acc with
  | nil => simp
  | cons x xs ih =>
    rw [List.foldl_cons, ih, List.reverse_cons, List.find?_append]
    cases hf : xs.reverse.find? (·.isSome) with
    | some l =>
      have hl : l.isSome = true := by simpa using List.find?_some hf
      cases l with
      | none => simp at hl
      | some v => simp
    | none => cases x <;> simp [override]

theorem merge_trust_foldl (r : Bool) (ls : List Layer) (acc : Layer) :
    (ls.foldl (mergeOne r) acc).trust = (ls.map (·.trust)).foldl override acc.trust := by
  induction ls generalizing acc with
  | nil => rfl
  | cons l ls ih => rw [List.foldl_cons, ih]; cases h : l.trust <;> simp [mergeOne, override, h]

theorem merge_list_foldl (ls : List Layer) (acc : Layer) :
    (ls.foldl (mergeOne true) acc).list = (ls.map (·.list)).foldl override acc.list := by
  induction ls generalizing acc with
  | nil => rfl
  | cons l ls ih => rw [List.foldl_cons, ih]; cases h : l.list <;> simp [mergeOne, override, h]

/-- **effective_list_is_highest_layer_that_sets_it** (repaired merge), for any number of layers:
the merged trusted-proxy list is the list of the highest-precedence layer that sets one, and is
unset only if no layer sets it. -/
theorem effective_list_is_highest_layer_that_sets_it (ls : List Layer) :
    (merge true ls).list = ((ls.map (·.list)).reverse.find? (·.isSome)).getD none := by
  simp [merge, merge_list_foldl, foldl_override]

/-- The same for the trust switch — in both variants of the merge (pointer fields were right). -/
theorem effective_trust_is_highest_layer_that_sets_it (r : Bool) (ls : List Layer) :
    (merge r ls).trust = ((ls.map (·.trust)).reverse.find? (·.isSome)).getD none := by
  simp [merge, merge_trust_foldl, foldl_override]

/-- **configured_never_replaced_by_unconfigured** (repaired merge): if any layer sets a list, the
merged settings carry a list. -/
theorem configured_never_replaced_by_unconfigured (ls : List Layer)
    (h : ∃ l ∈ ls, l.list.isSome = true) : (merge true ls).list.isSome = true := by
  rw [effective_list_is_highest_layer_that_sets_it]
  obtain ⟨l, hl, hs⟩ := h
  have hex : ((ls.map (·.list)).reverse.find? (·.isSome)).isSome = true := by
    rw [List.find?_isSome]
    exact ⟨l.list, by simpa using ⟨l, hl, rfl⟩, hs⟩
  cases hf : (ls.map (·.list)).reverse.find? (·.isSome) with
  | none => rw [hf] at hex; simp at hex
  | some v => simpa using List.find?_some hf

/-- The merge as it stands: the list is whatever the LAST layer says — set or not. -/
theorem asis_list_is_last_layer (ls : List Layer) :
    (merge false ls).list = ls.getLast?.bind (·.list) := by
  have : ∀ acc : Layer, (ls.foldl (mergeOne false) acc).list =
      match ls.getLast? with | some l => l.list | none => acc.list := by
    induction ls with
    | nil => intro acc; rfl
    | cons l ls ih =>
      intro acc
      rw [List.foldl_cons, ih]
      cases ls with
      | nil => simp [mergeOne]
      | cons m ms =>
        rw [List.getLast?_cons_cons]
        cases hg : (m :: ms).getLast? with
        | none => simp at hg
        | some x => simp
  rw [merge, this]
  cases ls.getLast? <;> simp

/-- **End to end** (everything repaired), for any layers: when the winning layer configures a
non-empty list `w`, a request whose exposed client IP / scheme differs from the peer's comes from a
peer inside a valid CIDR of `w` — of the winning layer, not of a shadowed one — with trust on. -/
theorem settings_end_to_end (ls : List Layer) (w : List (List Char)) (hw : w ≠ [])
    (hwin : ((ls.map (·.list)).reverse.find? (·.isSome)).getD none = some w) (req : Req)
    (h : resolve true (toConfig (effective true ls)) req ≠ (req.peer, peerScheme req.tls)) :
    (effective true ls).trust = true ∧
    ∃ a, req.peer = some a ∧ ∃ e ∈ w, ∃ c, parseCidr e = some c ∧ contains c a = true := by
  have hl : (merge true ls).list = some w := by rw [effective_list_is_highest_layer_that_sets_it, hwin]
  have he : (effective true ls).entries = w := by simp [effective, hl]
  have hu : useForwarded true (toConfig (effective true ls)) req = true := by
    cases hu : useForwarded true (toConfig (effective true ls)) req with
    | true => rfl
    | false => exact absurd (not_used_exposes_peer true _ req hu) h
  obtain ⟨ht, a, hp, hc⟩ := (forwarded_used_iff _ req).1 hu
  refine ⟨ht, a, hp, ?_⟩
  simp only [toConfig, he] at hc
  rcases hc with h0 | ⟨c, hc, hin⟩
  · exact absurd (by simpa using h0) hw
  · obtain ⟨e, hew, hpe⟩ := List.mem_map.1 hc
    exact ⟨e, hew, c, hpe, hin⟩

/-- With the separators-only patch a raw value that is not blank always yields a non-empty list
(so the hypothesis `w ≠ []` above holds for everything an operator can write except a blank). -/
theorem parseItems_nonempty (raw : List Char) (h : (trimSpace raw).isEmpty = false) :
    parseItems true raw ≠ [] := by
  have h' : trimSpace raw ≠ [] := by simpa using h
  cases hs : (splitItems raw).isEmpty with
  | true => simp [parseItems, hs, h]
  | false =>
    have : splitItems raw ≠ [] := by simpa using hs
    simp [parseItems, hs, this]

/-- **Negation witness 1** (code as it stands; directed case 12): trust and the list `10.0.0.0/8`
given on the command line only, nothing in the environment — the list is erased, so the peer
192.0.2.5 (outside 10/8) dictates client IP and scheme; both repaired variants keep the list and
show the peer. -/
theorem asis_merge_erases_cli_list :
    load false false (some true) (some "10.0.0.0/8".toList) [] [] = { trust := true, entries := [] } ∧
    load true false (some true) (some "10.0.0.0/8".toList) [] []
      = { trust := true, entries := ["10.0.0.0/8".toList] } ∧
    (let req : Req := { peer := some (mapped 0xC0000205), tls := false, cf := none,
                        xff := some (some (mapped 0xC6336407)), xfp := some (some .https) }
     resolve true (toConfig (load false false (some true) (some "10.0.0.0/8".toList) [] [])) req
       = (some (mapped 0xC6336407), .https) ∧
     resolve true (toConfig (load true false (some true) (some "10.0.0.0/8".toList) [] [])) req
       = (req.peer, .http) ∧
     Spec.mayDiffer true (Spec.effectiveList [Spec.classify (some "10.0.0.0/8".toList), Spec.classify none])
       req.peer = false) := by
  decide

/-- **Negation witness 2** (code as it stands; directed case 13): `PITHOS_TRUSTED_PROXY_CIDRS=","`
is a configured list without an entry; it becomes the empty list = "trust every proxy". With the
patch it stays a configured (unparsable) entry and nobody is trusted. -/
theorem asis_separators_only_means_everyone :
    load true false none none "true".toList ",".toList = { trust := true, entries := [] } ∧
    load true true none none "true".toList ",".toList = { trust := true, entries := [",".toList] } ∧
    (∀ a, trustedProxy true (toConfig (load true false none none "true".toList ",".toList)) (some a) = true) ∧
    (∀ peer, trustedProxy true (toConfig (load true true none none "true".toList ",".toList)) peer = false) ∧
    Spec.effectiveList [Spec.classify none, Spec.classify (some ",".toList)] = .configured [] := by
  refine ⟨by decide, by decide, ?_, ?_, by decide⟩
  · intro a
    have : toConfig (load true false none none "true".toList ",".toList) = { trust := true, cidrs := [] } := by
      decide
    rw [this]; simp [trustedProxy, usable]
  · intro peer
    have : toConfig (load true true none none "true".toList ",".toList) = { trust := true, cidrs := [none] } := by
      decide
    rw [this]
    exact (unusable_list_trusts_nobody _ (by simp) (by simp)).1 peer

/-- Non-vacuity of `settings_end_to_end`: environment list wins over the command-line list; the
proxy inside the environment's network is believed, the one inside the shadowed command-line
network is not. -/
example :
    let ls := [cliLayer true (some true) (some "10.0.0.0/8".toList),
               envLayer true [] "192.0.2.0/24 , not-a-cidr".toList]
    ((ls.map (·.list)).reverse.find? (·.isSome)).getD none
      = some ["192.0.2.0/24".toList, "not-a-cidr".toList] ∧
    (let hdr : Req := { peer := some (mapped 0xC0000205), tls := false, cf := none,
                        xff := some (some (mapped 0xC6336407)), xfp := none }
     resolve true (toConfig (effective true ls)) hdr = (some (mapped 0xC6336407), .http) ∧
     resolve true (toConfig (effective true ls)) { hdr with peer := some (mapped 0x0A010203) }
       = (some (mapped 0x0A010203), .http)) := by
  decide

end Settings

end Pithos.C32
