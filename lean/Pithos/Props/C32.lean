/-
C32 — client IP and scheme are only taken from trusted proxies.

Property theorems over the decision model `Pithos.ProxyTrust` (all configurations: any list of
parsed / unparsable CIDR entries; all requests: any peer, any header outcome). `repaired = true`
is the code with fixes/C32-unusable-cidr-list-trusts-nobody.patch applied, `repaired = false` the
code as it stands.
-/
import Pithos.Model.ProxyTrust
import Pithos.Spec.ProxyTrust

namespace Pithos.C32
open Pithos.NetParse Pithos.ProxyTrust Pithos.ProxyTrust.Spec

theorem mem_usable (cfg : Config) (c : Cidr) : c ∈ usable cfg ↔ some c ∈ cfg.cidrs := by
  simp [usable, List.mem_filterMap]

/-- Go's `IPNet.Contains` never admits an address the numeric reading of the CIDR excludes. -/
theorem contains_inside (c : Cidr) (a : Ip) (h : contains c a = true) : inside c a = true := by
  simp only [contains, Bool.and_eq_true] at h
  exact h.2

/-- **forwarded_used_iff** (repaired code). The forwarded headers are consulted exactly when
forwarded headers are trusted, the peer has an IP, and either no CIDR list was configured at all
or some configured entry is a valid CIDR that contains the peer. -/
theorem forwarded_used_iff (cfg : Config) (req : Req) :
    useForwarded true cfg req = true ↔
      cfg.trust = true ∧ ∃ a, req.peer = some a ∧
        (cfg.cidrs = [] ∨ ∃ c, some c ∈ cfg.cidrs ∧ contains c a = true) := by
  unfold useForwarded trustedProxy
  cases hp : req.peer with
  | none => simp
  | some a =>
    simp only [Bool.and_eq_true, Bool.or_eq_true, List.any_eq_true, List.isEmpty_iff, if_true,
      Option.some.injEq, exists_eq_left']
    constructor
    · rintro ⟨ht, h⟩
      refine ⟨ht, ?_⟩
      rcases h with h | ⟨c, hc, hin⟩
      · exact Or.inl h
      · exact Or.inr ⟨c, (mem_usable cfg c).1 hc, hin⟩
    · rintro ⟨ht, h⟩
      refine ⟨ht, ?_⟩
      rcases h with h | ⟨c, hc, hin⟩
      · exact Or.inl h
      · exact Or.inr ⟨c, (mem_usable cfg c).2 hc, hin⟩

/-- When the forwarded headers are not consulted the script sees exactly the TCP peer's IP and the
connection's own scheme (both variants of the code). -/
theorem not_used_exposes_peer (r : Bool) (cfg : Config) (req : Req)
    (h : useForwarded r cfg req = false) :
    resolve r cfg req = (req.peer, peerScheme req.tls) := by
  simp [resolve, h]

/-- **exposed_differs_only_if_allowed** (repaired code) — the property as stated: if the exposed
client IP or scheme differs from the TCP peer's, then forwarded headers are trusted and the peer
lies inside a configured valid CIDR, or no list was configured at all. -/
theorem exposed_differs_only_if_allowed (cfg : Config) (req : Req)
    (h : resolve true cfg req ≠ (req.peer, peerScheme req.tls)) :
    mayDiffer cfg req.peer = true := by
  have hu : useForwarded true cfg req = true := by
    cases hu : useForwarded true cfg req with
    | true => rfl
    | false => exact absurd (not_used_exposes_peer true cfg req hu) h
  obtain ⟨ht, a, hp, hc⟩ := (forwarded_used_iff cfg req).1 hu
  simp only [mayDiffer, ht, hp, Bool.true_and, Bool.or_eq_true, List.isEmpty_iff,
    List.any_eq_true]
  rcases hc with h0 | ⟨c, hc, hin⟩
  · exact Or.inl h0
  · exact Or.inr ⟨some c, hc, contains_inside c a hin⟩

/-- **unusable_list_trusts_nobody** (repaired code). A configured list none of whose entries is a
CIDR trusts no peer at all — so it can never make every peer trusted — and every request is shown
with the peer's own IP and scheme. -/
theorem unusable_list_trusts_nobody (cfg : Config) (hne : cfg.cidrs ≠ [])
    (hall : ∀ e ∈ cfg.cidrs, e = none) :
    (∀ peer, trustedProxy true cfg peer = false) ∧
    (∀ req, resolve true cfg req = (req.peer, peerScheme req.tls)) := by
  have hus : usable cfg = [] := by
    simp only [usable, List.filterMap_eq_nil_iff]
    intro e he; simp [hall e he]
  have h1 : ∀ peer, trustedProxy true cfg peer = false := by
    intro peer
    cases peer with
    | none => rfl
    | some a => simp [trustedProxy, hus, hne]
  refine ⟨h1, fun req => not_used_exposes_peer true cfg req ?_⟩
  simp [useForwarded, h1]

/-- With trust switched off nothing is ever taken from a header (both variants). -/
theorem trust_off_exposes_peer (r : Bool) (cfg : Config) (req : Req) (h : cfg.trust = false) :
    resolve r cfg req = (req.peer, peerScheme req.tls) :=
  not_used_exposes_peer r cfg req (by simp [useForwarded, h])

/-- The two variants differ only on configured lists without a usable entry. -/
theorem asis_eq_repaired (cfg : Config) (peer : Option Ip)
    (h : unusableList cfg = false) :
    trustedProxy false cfg peer = trustedProxy true cfg peer := by
  cases peer with
  | none => rfl
  | some a =>
    simp only [trustedProxy]
    by_cases h0 : cfg.cidrs = []
    · simp [usable, h0]
    · have hne : usable cfg ≠ [] := by
        intro hus
        simp only [usable, List.filterMap_eq_nil_iff] at hus
        have : cfg.cidrs.all (·.isNone) = true := by
          simp only [List.all_eq_true]
          intro e he
          have := hus e he
          cases e <;> simp_all
        simp [unusableList, h0, this] at h
      have e1 : (usable cfg).isEmpty = false := by simpa using hne
      have e2 : cfg.cidrs.isEmpty = false := by simpa using h0
      simp [e1, e2]

/-- **exposed_differs_only_if_allowed_partial** (code as it stands): the property holds for every
configuration except a configured list without a single usable entry. -/
theorem exposed_differs_only_if_allowed_partial (cfg : Config) (req : Req)
    (hcfg : unusableList cfg = false)
    (h : resolve false cfg req ≠ (req.peer, peerScheme req.tls)) :
    mayDiffer cfg req.peer = true := by
  have e : resolve false cfg req = resolve true cfg req := by
    simp [resolve, useForwarded, asis_eq_repaired cfg req.peer hcfg]
  exact exposed_differs_only_if_allowed cfg req (e ▸ h)

/-- **Negation witness** (code as it stands): one unparsable entry — `TrustedProxyCIDRs =
["not-a-cidr"]` — makes *every* peer a trusted proxy … -/
theorem asis_unusable_list_trusts_everybody (a : Ip) :
    trustedProxy false { trust := true, cidrs := [none] } (some a) = true := by
  simp [trustedProxy, usable]

/-- … and the concrete request replayed on the implementation: peer 192.0.2.5 over plain HTTP,
`X-Forwarded-For: 198.51.100.7`, `X-Forwarded-Proto: https`; the script sees 198.51.100.7/https
although `mayDiffer` is false. -/
theorem asis_violates :
    let cfg : Config := { trust := true, cidrs := [none] }
    let req : Req := { peer := some (mapped 0xC0000205), tls := false, cf := none,
                       xff := some (some (mapped 0xC6336407)), xfp := some (some .https) }
    resolve false cfg req = (some (mapped 0xC6336407), .https) ∧
    resolve false cfg req ≠ (req.peer, peerScheme req.tls) ∧
    mayDiffer cfg req.peer = false ∧
    resolve true cfg req = (req.peer, peerScheme req.tls) := by
  decide

/-- Non-vacuity: a mixed list (one unparsable entry, 10.0.0.0/8) admits the proxy 10.1.2.3 and the
forwarded values are used; the peer 192.0.2.5 outside it is shown as itself. -/
example :
    let net10 : Cidr := { base := mapped 0x0A000000, bits := 104 }
    let cfg : Config := { trust := true, cidrs := [none, some net10] }
    let hdr : Req := { peer := some (mapped 0x0A010203), tls := false, cf := none,
                       xff := some (some (mapped 0xC6336407)), xfp := some (some .https) }
    unusableList cfg = false ∧
    resolve true cfg hdr = (some (mapped 0xC6336407), .https) ∧
    resolve true cfg { hdr with peer := some (mapped 0xC0000205) }
      = (some (mapped 0xC0000205), .http) := by
  decide

/-- Non-vacuity of the string front end: the literals of the witness parse to those numbers. -/
example :
    parseCidr "not-a-cidr".toList = none ∧
    parseCidr "10.0.0.0/8".toList = some { base := mapped 0x0A000000, bits := 104 } ∧
    remoteIP "192.0.2.5:41000".toList = some (mapped 0xC0000205) ∧
    remoteIP "[::ffff:10.1.2.3]:9".toList = some (mapped 0x0A010203) ∧
    parseIP "2001:db8::1".toList = some 0x20010db8000000000000000000000001 := by
  decide

end Pithos.C32
