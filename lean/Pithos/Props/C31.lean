/-
C31 — no request takes effect without the authorizer's permission.

Two kinds of theorem.

(1) Over the route table regenerated from /repo on every run (`Pithos.Gen.Routes.routes`): the
quantifier "every registered route, every storage call reachable from its handler" ranges over a
finite generated table, so `decide` is a proof — about the table. That the table is what the code
does is the tie (T1 extractor + T2 differential run, see design/C31.md).

(2) Over the per-item filter loops (`Pithos.AuthzModel.filterLoop`, `deleteObjects`): for every
`allow` function, every page sequence and every entry list, by induction.
-/
import Pithos.Spec.Authz
import Pithos.Model.Authz

namespace Pithos.C31
open Pithos.Gen.Routes Pithos.Authz Pithos.AuthzModel

/-! ## 1. The route table -/

/-- The call is dominated by one of the route's authorize calls, every operation name that call may
carry covers the storage method, and it was asked about exactly the bucket, key and copy source the
storage call acts on. -/
def callOk (r : Route) (c : StorageCall) : Bool :=
  match c.auth with
  | none => false
  | some i =>
    match r.auth[i]? with
    | none => false
    | some a =>
      !a.ops.isEmpty && a.ops.all (fun alt => covers alt.op c.method) &&
      a.bucket == c.bucket && a.key == c.key && a.srcBucket == c.srcBucket && a.srcKey == c.srcKey

/-- The one call site excluded below: the website endpoints read the configured error document. -/
def isErrorDocumentRead (c : StorageCall) : Bool := c.key == .websiteErrorDoc

/-- **api_calls_authorized.** On the S3 API mux EVERY storage call of every handler — not only the
effectful ones — comes after a successful authorize call of the same handler, under an operation
name that covers it, for the same bucket/key/copy source. (Full strength for the API endpoints.) -/
theorem api_calls_authorized :
    ∀ r ∈ routes, r.mux = .api → ∀ c ∈ r.calls, callOk r c = true := by decide

/-- Does the tree under check contain the repair `fixes/C31-website-error-document-authz.patch`
(the website endpoints ask the authorizer about the error document before reading it)?
Flip to `true` when that patch is committed to /repo: the theorem below then IS the full statement. -/
def errorDocumentRepaired : Bool := true

/-- The full statement: on every mux, every storage call that reads object data or changes state
comes after a successful authorize call under a covering operation name, for the same bucket, key
and copy source. -/
def EffectsAuthorized : Prop :=
  ∀ r ∈ routes, ∀ c ∈ r.calls, effectful c.method = true → callOk r c = true

/-- What holds on the unrepaired tree: the same with the error-document read excluded … -/
def EffectsAuthorizedPartial : Prop :=
  ∀ r ∈ routes, ∀ c ∈ r.calls, effectful c.method = true → isErrorDocumentRead c = false →
    callOk r c = true

/-- … together with the negation witness: a website route reads object data (`GetObject` of the
error document) for a key the authorizer was never asked about. -/
def ErrorDocumentReadNotAuthorized : Prop :=
  ∃ r ∈ routes, ∃ c ∈ r.calls, readsObjectData c.method = true ∧ isErrorDocumentRead c = true ∧
    callOk r c = false

instance : Decidable EffectsAuthorized := by unfold EffectsAuthorized; infer_instance
instance : Decidable EffectsAuthorizedPartial := by unfold EffectsAuthorizedPartial; infer_instance
instance : Decidable ErrorDocumentReadNotAuthorized := by unfold ErrorDocumentReadNotAuthorized; infer_instance

/-- **effects_authorized.** Repaired tree: the full statement. Current tree: the `_partial`
statement and the witness that the full one fails exactly at the error-document read. -/
theorem effects_authorized :
    if errorDocumentRepaired then EffectsAuthorized
    else EffectsAuthorizedPartial ∧ ErrorDocumentReadNotAuthorized := by decide

/-- Non-vacuity of `EffectsAuthorizedPartial`: the table has effectful calls that are not the
excluded one, on both muxes (mutations on the API mux, the object read on the website mux). -/
example : (∃ r ∈ routes, r.mux = .api ∧ ∃ c ∈ r.calls, mutating c.method = true ∧ isErrorDocumentRead c = false) ∧
    (∃ r ∈ routes, r.mux = .website ∧ ∃ c ∈ r.calls, readsObjectData c.method = true ∧ isErrorDocumentRead c = false) := by
  decide

/-- **pre_authorization_calls_are_configuration_reads.** The only storage calls reachable before a
handler's authorize call has succeeded are reads of the bucket's website configuration; together
with the request middlewares (CORS rule lookup) and the authorizer's own lazy tag resolvers, none of
them reads object data or changes state. -/
theorem pre_authorization_calls_are_configuration_reads :
    (∀ r ∈ routes, ∀ c ∈ r.calls, c.auth = none → c.method = .GetBucketWebsiteConfiguration) ∧
    (∀ m ∈ middlewareCalls, ∀ c ∈ m.2.2, effectful c = false) ∧
    (∀ c ∈ authorizerSideCalls, effectful c = false) := by decide

/-- **readOnly_ops_do_not_mutate.** A route whose authorize call can carry an operation the Lua
authorizer reports as read-only reaches no mutating storage method. -/
theorem readOnly_ops_do_not_mutate :
    ∀ r ∈ routes, ∀ a ∈ r.auth, ∀ alt ∈ a.ops, isReadOnly alt.op = true →
      ∀ c ∈ r.calls, mutating c.method = false := by decide

/-- …and, independently of the routes, no read-only operation can even *cover* a mutating method. -/
theorem readOnly_covers_no_mutation :
    ∀ op ∈ Op.all, ∀ m ∈ SM.all, isReadOnly op = true → covers op m = true → mutating m = false := by
  decide

/-- `Op.all` / `SM.all` really are all constructors (so the previous statement is about every
operation and every method). -/
theorem op_all_complete : ∀ op : Op, op ∈ Op.all := by intro op; cases op <;> decide
theorem sm_all_complete : ∀ m : SM, m ∈ SM.all := by intro m; cases m <;> decide

/-- The two case lists of the Lua `isReadOnly` switch do not overlap, and every operation it calls
read-only is one that some route can be authorized under. -/
theorem lua_readonly_lists_consistent :
    (∀ op ∈ luaReadOnlyTrue, op ∉ luaReadOnlyFalse) ∧
    (∀ op ∈ luaReadOnlyTrue, ∃ r ∈ routes, ∃ a ∈ r.auth, ∃ alt ∈ a.ops, alt.op = op) := by decide

/-- **unauthorized_routes_are_inert.** A route without an authorize call reaches no storage method
and only writes a fixed status. -/
theorem unauthorized_routes_are_inert :
    ∀ r ∈ routes, r.auth = [] → r.calls = [] ∧ r.status.isSome = true := by decide

/-- **version_operations_keyed_on_versionId.** An operation alternative is conditional only on the
`versionId` query parameter, the conditional alternative is a `…Version…` operation and the
unconditional one is not. -/
theorem version_operations_keyed_on_versionId :
    ∀ r ∈ routes, ∀ a ∈ r.auth, ∀ alt ∈ a.ops,
      (alt.ifQuery = none ∧ versionOp alt.op = false) ∨
      (alt.ifQuery = some "versionId" ∧ versionOp alt.op = true) := by decide

/-! ### Totality of the routers

Every router is an ordered `if` chain; the path condition of a branch is the list of
(discriminator, polarity) pairs in `Route.guards`. For every valuation of the discriminators
exactly one branch of a (mux, method, pattern) group is taken. The discriminators are atoms here
(an assignment `ρ` of truth values to the *indices* of the distinct atoms), which is sound because
`evalCond` only looks at a request through them. -/

def atomsOf : Cond → List String
  | .has q => ["has:" ++ q]
  | .hdr h => ["hdr:" ++ h]
  | .qeq q v => ["qeq:" ++ q ++ "=" ++ v]
  | .or a b => atomsOf a ++ atomsOf b

def evalAtoms (ρ : String → Bool) : Cond → Bool
  | .has q => ρ ("has:" ++ q)
  | .hdr h => ρ ("hdr:" ++ h)
  | .qeq q v => ρ ("qeq:" ++ q ++ "=" ++ v)
  | .or a b => evalAtoms ρ a || evalAtoms ρ b

def groupKeys : List (Mux × String × String) :=
  (routes.map (fun r => (r.mux, r.method, r.pattern))).eraseDups

def groupOf (k : Mux × String × String) : List Route :=
  routes.filter (fun r => r.mux == k.1 && r.method == k.2.1 && r.pattern == k.2.2)

def groupAtoms (g : List Route) : List String :=
  (g.flatMap (fun r => r.guards.flatMap (fun c => atomsOf c.1))).eraseDups

/-- all valuations of a list of atoms, as "the set of true atoms" -/
def valuations : List String → List (List String)
  | [] => [[]]
  | a :: as => (valuations as).flatMap (fun v => [v, a :: v])

def matching (g : List Route) (trueAtoms : List String) : Nat :=
  (g.filter (fun r => r.guards.all (fun c => evalAtoms (fun a => trueAtoms.contains a) c.1 == c.2))).length

/-- **routers_total_and_unambiguous.** For every registered (mux, method, pattern) and every
valuation of the query/header discriminators its routers test, exactly one branch matches: no
method/query combination falls through a router, none is claimed by two handlers. -/
theorem routers_total_and_unambiguous :
    ∀ k ∈ groupKeys, ∀ v ∈ valuations (groupAtoms (groupOf k)), matching (groupOf k) v = 1 := by
  decide +kernel

/-- Non-vacuity: the largest router distinguishes 8 discriminators (256 valuations). -/
example : (groupKeys.map (fun k => (groupAtoms (groupOf k)).length)).foldl max 0 = 8 := by decide +kernel

/-! ### Per-item hooks on the route table -/

/-- Does the tree under check contain the repair `fixes/C31-list-object-versions-item-hook.patch`
(`GET ?versions` filters keys and common prefixes through the listObject hook)? Flip to `true` when
that patch is committed to /repo. -/
def versionsHookRepaired : Bool := true

/-- The full statement: every route that lists buckets, objects, object versions, multipart uploads
or parts, or bulk-deletes, consults the per-item hook responsible for what it returns. -/
def ListingsConsultHooks : Prop :=
  ∀ r ∈ routes, ∀ c ∈ r.calls, ∀ h, itemHookOf c.method = some h → h ∈ r.itemHooks

def ListingsConsultHooksPartial : Prop :=
  ∀ r ∈ routes, ∀ c ∈ r.calls, c.method ≠ .ListObjectVersions →
    ∀ h, itemHookOf c.method = some h → h ∈ r.itemHooks

/-- Negation witness: the `?versions` listing returns object keys without consulting any per-item hook. -/
def ListObjectVersionsConsultsNoHook : Prop :=
  ∃ r ∈ routes, (∃ c ∈ r.calls, c.method = .ListObjectVersions) ∧ r.itemHooks = []

instance : Decidable ListingsConsultHooks := by unfold ListingsConsultHooks; infer_instance
instance : Decidable ListingsConsultHooksPartial := by unfold ListingsConsultHooksPartial; infer_instance
instance : Decidable ListObjectVersionsConsultsNoHook := by unfold ListObjectVersionsConsultsNoHook; infer_instance

/-- **listings_consult_their_hook.** Repaired tree: the full statement. Current tree: everything
but `ListObjectVersions`, and the witness for `ListObjectVersions`. -/
theorem listings_consult_their_hook :
    if versionsHookRepaired then ListingsConsultHooks
    else ListingsConsultHooksPartial ∧ ListObjectVersionsConsultsNoHook := by decide

/-! ## 2. The per-item filter loops (all inputs, by induction) -/

section Loops
variable {α : Type}

theorem collectObjects_spec (allow : α → Bool) (max : Nat) (acc xs : List α)
    (hacc : acc.length < max) :
    (collectObjects allow max acc xs).1 = (acc ++ xs.filter allow).take max ∧
    ((collectObjects allow max acc xs).2 = true ↔ max ≤ (acc ++ xs.filter allow).length) := by
  induction xs generalizing acc with
  | nil =>
    simp only [collectObjects, List.filter_nil, List.append_nil]
    refine ⟨by rw [List.take_of_length_le (by omega)], by simp; omega⟩
  | cons x xs ih =>
    by_cases hx : allow x = true
    · by_cases hfull : (acc ++ [x]).length ≥ max
      · have hlen : acc.length + 1 = max := by simp at hfull; omega
        simp only [collectObjects, hx, if_true, hfull, List.filter_cons_of_pos]
        refine ⟨?_, by simp; omega⟩
        have : acc ++ x :: xs.filter allow = (acc ++ [x]) ++ xs.filter allow := by simp
        rw [this, List.take_append_of_le_length (by simp; omega), List.take_of_length_le (by simp; omega)]
      · have hlt : (acc ++ [x]).length < max := by omega
        have := ih (acc ++ [x]) hlt
        simp only [collectObjects, hx, if_true, hfull, if_false, List.filter_cons_of_pos]
        simpa [List.append_assoc] using this
    · have hx' : allow x = false := by simpa using hx
      have hf : (x :: xs).filter allow = xs.filter allow := by simp [hx']
      simp only [collectObjects, hx', Bool.false_eq_true, if_false, hf]
      exact ih acc hacc

/-- Entries collected by the whole loop, for any starting accumulator below the limit. -/
theorem filterLoop_objects_aux [BEq α] (allow : α → Bool) (max : Nat)
    (pages : List (Page α)) (objs prefs : List α) (h : objs.length < max) :
    (filterLoop allow max pages (objs, prefs)).1 =
      (objs ++ (pages.flatMap (·.objects)).filter allow).take max := by
  induction pages generalizing objs prefs with
  | nil => simp [filterLoop, List.take_of_length_le (Nat.le_of_lt h)]
  | cons p ps ih =>
    have hs := collectObjects_spec allow max objs p.objects h
    simp only [filterLoop]
    rcases hc : collectObjects allow max objs p.objects with ⟨objs', full⟩
    rw [hc] at hs
    simp only at hs
    cases full with
    | true =>
      simp only
      have hlen : max ≤ (objs ++ p.objects.filter allow).length := hs.2.1 rfl
      rw [hs.1, List.flatMap_cons, List.filter_append, ← List.append_assoc,
        List.take_append_of_le_length hlen]
    | false =>
      simp only
      have hlen : (objs ++ p.objects.filter allow).length < max := by
        have := hs.2
        by_cases hh : max ≤ (objs ++ p.objects.filter allow).length
        · exact absurd (this.2 hh) (by simp)
        · omega
      have hobjs' : objs' = objs ++ p.objects.filter allow := by
        rw [hs.1, List.take_of_length_le (Nat.le_of_lt hlen)]
      rw [ih objs' _ (by rw [hobjs']; exact hlen), hobjs', List.flatMap_cons, List.filter_append,
        List.append_assoc]

/-- **listed_entries_exactly_the_allowed_ones.** For every `allow`, every positive limit and every
sequence of storage pages: the entries the filtered listing returns are exactly the allowed entries
of the scanned pages, in their order, cut at the limit — no denied entry, no allowed entry missing
before the cut. -/
theorem listed_entries_exactly_the_allowed_ones [BEq α] (allow : α → Bool) (max : Nat) (hmax : 0 < max)
    (pages : List (Page α)) :
    (filterLoop allow max pages ([], [])).1 = ((pages.flatMap (·.objects)).filter allow).take max := by
  simpa using filterLoop_objects_aux allow max pages [] [] (by simpa using hmax)

theorem collectPrefixes_allowed [BEq α] (allow : α → Bool) (acc ps : List α)
    (hacc : ∀ p ∈ acc, allow p = true) : ∀ p ∈ collectPrefixes allow acc ps, allow p = true := by
  induction ps generalizing acc with
  | nil => simpa [collectPrefixes] using hacc
  | cons q qs ih =>
    simp only [collectPrefixes]
    split
    · rename_i hq
      apply ih
      intro p hp
      rcases List.mem_append.1 hp with h | h
      · exact hacc p h
      · simp at h; subst h; simp at hq; exact hq.1
    · exact ih acc hacc

/-- **listed_prefixes_all_allowed.** No denied common prefix is ever returned. -/
theorem listed_prefixes_all_allowed [BEq α] (allow : α → Bool) (max : Nat) (pages : List (Page α))
    (objs prefs : List α) (hp : ∀ p ∈ prefs, allow p = true) :
    ∀ p ∈ (filterLoop allow max pages (objs, prefs)).2, allow p = true := by
  induction pages generalizing objs prefs with
  | nil => simpa [filterLoop] using hp
  | cons pg ps ih =>
    simp only [filterLoop]
    rcases collectObjects allow max objs pg.objects with ⟨objs', full⟩
    cases full with
    | true => simpa using hp
    | false => exact ih objs' _ (collectPrefixes_allowed allow prefs pg.prefixes hp)

theorem validEntries_eq_filter (valid : α → Bool) (es : List α) :
    validEntries valid es = es.filter valid := by
  induction es with
  | nil => rfl
  | cons e es ih => by_cases h : valid e = true <;> simp [validEntries, h, ih]

theorem authorizeEntries_eq_filter (allow : α → Bool) (es : List α) :
    authorizeEntries allow es = (es.filter (fun e => !allow e), es.filter allow) := by
  induction es with
  | nil => rfl
  | cons e es ih => by_cases h : allow e = true <;> simp [authorizeEntries, h, ih]

/-- **delete_entries_exactly_the_allowed_ones.** For every entry list, validity predicate and hook:
storage is asked to delete exactly the valid entries the hook allowed, in request order; exactly the
valid entries it denied are reported back as denied; the rest are the invalid ones. -/
theorem delete_entries_exactly_the_allowed_ones (valid allow : α → Bool) (es : List α) :
    deleteObjects valid allow es =
      (es.filter (fun e => !valid e),
       es.filter (fun e => valid e && !allow e),
       es.filter (fun e => valid e && allow e)) := by
  simp [deleteObjects, validEntries_eq_filter, authorizeEntries_eq_filter, List.filter_filter, Bool.and_comm]

/-- …hence every entry meets exactly one fate, and a denied entry never reaches storage. -/
theorem denied_entry_never_deleted (valid allow : α → Bool) (es : List α) (e : α)
    (hd : allow e = false) : e ∉ (deleteObjects valid allow es).2.2 := by
  rw [delete_entries_exactly_the_allowed_ones]
  simp [hd]

end Loops

/-- Non-vacuity of the loop theorems on a concrete two-page listing with a denied key in each page,
a limit reached inside the second page, and a repeated common prefix. -/
example :
    filterLoop (fun k => k != "b" && k != "d/") 3
      [⟨["a", "b", "c"], ["d/", "e/"]⟩, ⟨["f", "g", "h"], ["e/", "i/"]⟩] ([], []) =
      (["a", "c", "f"], ["e/"]) ∧
    deleteObjects (fun k => k != "") (fun k => k != "b") ["a", "", "b", "c"] = ([""], ["b"], ["a", "c"]) := by
  decide

end Pithos.C31
