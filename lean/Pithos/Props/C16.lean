/-
C16 — encrypted parts are tamper-evident and seekable.

Property theorems only (model: `Pithos.Model.TinkSeek`; lemmas: `Pithos.Lemmas.Tink{Seek,Honest,Tamper}`).

Seekable: for every ciphertext segment size `css > 56` (= 40-byte tink header + 16-byte tag, the
smallest both tink-go and seekable.go accept), every plaintext and every offset, `Seek(off)` + read
delivers exactly `plaintext.drop off` (`seek_read_suffix`); the arithmetic behind it —
`segmentForPlaintextOffset`, `plaintextStartOfSegment`, `numSegments`, `plaintextLen` — is a bijection
between positions and (segment, offset) pairs and inverts the writer's layout (`segment_of_position`,
`position_in_segment`, `layout_inverse`).

Tamper-evident, under an explicit ideal-AEAD hypothesis (`IdealFor`: a ciphertext opens only if it is
exactly a sealed segment, under exactly the nonce prefix ‖ index ‖ last-flag it was sealed with, and
under no other key): whatever bytes are presented as the stream, all that either reader delivers is a
prefix of the plaintext (`tamper_prefix_seekable`, `tamper_prefix_sequential`). The FULL statement — a
read that ends without error has delivered exactly the plaintext — holds for the repaired seekable
reader (`tamper_repaired_complete`) and is false for the code as it is: negation witnesses
`seekable_cut_behind_boundary_reads_short`, `seekable_header_plus_tag_reads_empty`,
`seekable_appended_bytes_read_empty`, `sequential_cut_behind_boundary_reads_short`, `stored_stream_cut_to_nothing_reads_empty`.

Variants: /repo now carries the seekable-reader repair (`fix := true`, 1943b77) and the envelope repair
(`fixEof := true`, a20473e), so the seekable/envelope witnesses are theorems about the earlier variants. Still
open: tink-go's sequential reader (`sequential_cut_behind_boundary_reads_short`; complete with the proposed
byte-counting guard: `tamper_repaired_complete_sequential`) and one reader used on after an authentication
error (`reader_used_after_failed_read_returns_zeros`; with the proposed repair:
`reader_history_never_lies`, for every `Seek`/`Read` history on the reader as a state machine).
-/
import Pithos.Lemmas.TinkReader

namespace Pithos.C16
open Pithos.Codec Pithos.Tink

/-! ## segment arithmetic (Nat only) -/

/-- position `plaintextStartOfSegment j + i`, with `i` below the capacity of segment `j`, lies in segment `j` -/
theorem segment_of_position (css j i : Nat) (h : 56 < css) (hi : i < capOf css j) :
    segFor css (ptStart css j + i) = j := segFor_ptStart_add css j i h hi

/-- every position lies in the segment `segmentForPlaintextOffset` names, at an offset below its capacity;
together with `segment_of_position`: positions ↔ (segment, in-segment offset) is a bijection -/
theorem position_in_segment (css off : Nat) (h : 56 < css) :
    ptStart css (segFor css off) ≤ off ∧ off < ptStart css (segFor css off) + capOf css (segFor css off) :=
  ptStart_segFor css off h

theorem segment_starts (css j : Nat) : ptStart css (j + 1) = ptStart css j + capOf css j := ptStart_succ css j

/-- `numSegments` and `plaintextLen`, computed by seekable.go from the ciphertext length alone, are the
number of segments and the plaintext length of the part — for every number of segments `k ≥ 1` and
every fill `r` of the last one (within its capacity, non-empty unless it is the only one). -/
theorem layout_inverse (css k r : Nat) (h : 56 < css) (hk : 1 ≤ k) (hr : r ≤ capOf css (k - 1)) (hr1 : k = 1 ∨ 1 ≤ r) :
    numSegR css (ctLenOf css k r) = k ∧ ptLenR css (ctLenOf css k r) = ptLenOf css k r :=
  Tink.layout_inverse css k r h hk hr hr1

/-- what tink-go's writer produces: the segments glued together are the plaintext; all but the last are
filled to capacity; the last fits; with several segments none is empty -/
theorem writer_layout (css : Nat) (pt : Bytes) (h : 56 < css) :
    (segments css pt).flatten = pt ∧ SegLayout css (segments css pt) :=
  ⟨segments_flatten css pt h, segments_layout css pt h⟩

/-! ## seekable -/

/-- **seek_read_suffix.** For every segment size `css > 56`, every plaintext (of fewer than 2^32 segments),
every key / salt / nonce prefix, and every offset — inside the part, at its end, or behind it:
`Seek(off)` followed by reading to the end delivers exactly `plaintext.drop off`. Holds for the reader
as it is and for the repaired one. -/
theorem seek_read_suffix (A : AEAD) (hA : AeadOK A) (css key : Nat) (salt pre : Bytes) (keyOf : Bytes → Nat) (pt : Bytes)
    (h56 : 56 < css) (hsalt : salt.length = 32) (hpre : pre.length = 7) (hkey : keyOf salt = key)
    (hcount : (segments css pt).length < 4294967296) (fix : Bool) (off : Nat) :
    seekRead A keyOf fix css (tinkStream A key salt pre css pt) off = .ok (pt.drop off) := by
  have h : Honest A css key salt pre keyOf (segments css pt) :=
    ⟨hA, h56, segments_layout css pt h56, hcount, hsalt, hpre, hkey⟩
  have := seekRead_honest h fix off
  rw [segments_flatten css pt h56] at this
  exact this

/-- in particular a plain read returns the plaintext -/
theorem read_returns_plaintext (A : AEAD) (hA : AeadOK A) (css key : Nat) (salt pre : Bytes) (keyOf : Bytes → Nat) (pt : Bytes)
    (h56 : 56 < css) (hsalt : salt.length = 32) (hpre : pre.length = 7) (hkey : keyOf salt = key)
    (hcount : (segments css pt).length < 4294967296) (fix : Bool) :
    seekRead A keyOf fix css (tinkStream A key salt pre css pt) 0 = .ok pt :=
  seek_read_suffix A hA css key salt pre keyOf pt h56 hsalt hpre hkey hcount fix 0

/-! ## envelope framing -/

/-- the JSON part header and the tink stream are recovered from the stored stream -/
theorem envelope_roundtrip (fixEof : Bool) (json ct : Bytes) (hlen : json.length < 4294967296) :
    openStored fixEof (frameStored json ct) = .stream json ct := by
  have l4 : (be32 json.length).length = 4 := beN_length 4 _
  have e : frameStored json ct = be32 json.length ++ (json ++ ct) := by simp [frameStored, List.append_assoc]
  unfold openStored
  rw [e]
  have h1 : ¬ (be32 json.length ++ (json ++ ct)).length < 4 := by simp [l4]
  rw [if_neg h1]
  have t4 : (be32 json.length ++ (json ++ ct)).take 4 = be32 json.length := by rw [← l4, List.take_left]
  have d4 : (be32 json.length ++ (json ++ ct)).drop 4 = json ++ ct := by rw [← l4, List.drop_left]
  have v : fromBE (be32 json.length) = json.length := fromBE_beN_of_lt 4 _ (by omega)
  have h2 : ¬ (json ++ ct).length < json.length := by simp
  simp only [t4, d4, v, h2, if_false, List.take_left, List.drop_left]

/-! ## tamper evidence -/

/-- **tamper_prefix_seekable.** Ideal AEAD; the honest segment size; ANY bytes `ct` in place of the tink
stream (modified, truncated, extended, reordered, another part's ciphertext …): what the seekable
reader delivers — before it fails or before it ends — is a prefix of the plaintext that was written. -/
theorem tamper_prefix_seekable (A : AEAD) (hlen : ∀ k n m, (A.sealSeg k n m).length = m.length + tagLen)
    (css key : Nat) (pre : Bytes) (pt : Bytes) (keyOf : Bytes → Nat) (h56 : 56 < css)
    (ideal : IdealFor A key pre (segments css pt)) (fix : Bool) (ct : Bytes) :
    match seekRead A keyOf fix css ct 0 with
    | .ok out => IsPrefix out pt
    | .err sofar => IsPrefix sofar pt := by
  have := seekRead_prefix A hlen css key pre (segments css pt) keyOf h56 (segments_layout css pt h56) ideal fix ct
  rw [segments_flatten css pt h56] at this
  exact this

/-- **tamper_repaired_complete.** With the repaired seekable reader (`fix := true`) a read of ANY presented
bytes that ends without error has delivered exactly the plaintext: every modification, truncation,
extension, reordering and substitution makes the read fail. -/
theorem tamper_repaired_complete (A : AEAD) (hlen : ∀ k n m, (A.sealSeg k n m).length = m.length + tagLen)
    (css key : Nat) (pre : Bytes) (pt : Bytes) (keyOf : Bytes → Nat) (h56 : 56 < css)
    (ideal : IdealFor A key pre (segments css pt)) (ct out : Bytes)
    (hok : seekRead A keyOf true css ct 0 = .ok out) : out = pt := by
  have := seekRead_repaired_complete A hlen css key pre (segments css pt) keyOf h56 (segments_layout css pt h56) ideal ct out hok
  rw [segments_flatten css pt h56] at this
  exact this

/-- **tamper_prefix_sequential.** The same prefix guarantee for tink-go's sequential reader (used when the
inner store's reader cannot seek). -/
theorem tamper_prefix_sequential (A : AEAD) (css key : Nat) (pre : Bytes) (pt : Bytes) (keyOf : Bytes → Nat) (h56 : 56 < css)
    (ideal : IdealFor A key pre (segments css pt)) (fixEof : Bool) (ct : Bytes) (guard : Bool) :
    match seqRead A keyOf fixEof css ct guard with
    | .ok out => IsPrefix out pt
    | .err sofar => IsPrefix sofar pt := by
  have := seqRead_prefix A key pre (segments css pt) keyOf ideal fixEof css ct guard
  rw [segments_flatten css pt h56] at this
  exact this

/-- **tamper_repaired_complete_sequential.** With the envelope repair and the byte-counting guard
(fixes/C16-sequential-reader-rejects-cut-streams.patch) the sequential path is complete as well: whatever
bytes are presented, a read that ends without error has delivered exactly the plaintext. -/
theorem tamper_repaired_complete_sequential (A : AEAD) (css key : Nat) (pre : Bytes) (pt : Bytes) (keyOf : Bytes → Nat)
    (h56 : 56 < css) (ideal : IdealFor A key pre (segments css pt)) (ct out : Bytes)
    (hok : seqRead A keyOf true css ct true = .ok out) : out = pt := by
  have := seqRead_guarded_complete A key pre (segments css pt) keyOf ideal css ct out hok
  rw [segments_flatten css pt h56] at this
  exact this

/-- **reader_history_never_lies.** One reader, any history of `Seek` and `Read` calls, any bytes presented as
the stream — reads after failed reads included: with the repaired `loadSegment`
(fixes/C16-invalidate-buffer-on-failed-load.patch) every `Read` hands out bytes of the plaintext at the
position it was issued at. (For the code as it is: `reader_used_after_failed_read_returns_zeros`.) -/
theorem reader_history_never_lies (A : AEAD) (hlen : ∀ k n m, (A.sealSeg k n m).length = m.length + tagLen)
    (css key : Nat) (pre : Bytes) (pt : Bytes) (keyOf : Bytes → Nat) (h56 : 56 < css)
    (ideal : IdealFor A key pre (segments css pt)) (fixEof : Bool) (ct : Bytes) (ops : List ROp) (p : Nat) (b : Bytes)
    (h : (p, RRes.bytes b) ∈ rRun A keyOf fixEof true css ct ops {}) : IsPrefix b (pt.drop p) := by
  have := rRun_sound A hlen css key pre (segments css pt) keyOf h56 (segments_layout css pt h56) ideal fixEof ct ops {}
    (fun j hj => by cases hj) p b h
  rw [segments_flatten css pt h56] at this
  exact this

/-- **reader_history_ends_only_at_the_end.** … and on the same reader, in any such history, a `Read` answers a
clean EOF only at or behind the true end of the plaintext: `lastVerified` is set by a SUCCESSFUL
authentication of the last segment only, so a failed one — earlier in the history — never licenses a clean
end later (the seeded change C16-4 moved the assignment in front of `cipher.Open`). -/
theorem reader_history_ends_only_at_the_end (A : AEAD) (hlen : ∀ k n m, (A.sealSeg k n m).length = m.length + tagLen)
    (css key : Nat) (pre : Bytes) (pt : Bytes) (keyOf : Bytes → Nat) (h56 : 56 < css)
    (ideal : IdealFor A key pre (segments css pt)) (ct : Bytes) (ops : List ROp) (p : Nat)
    (h : (p, RRes.eof) ∈ rRun A keyOf true true css ct ops {}) : pt.length ≤ p := by
  have h0 : RInvV css ct (segments css pt) {} := by
    refine ⟨?_, ?_⟩
    · intro j hj; cases hj
    · intro hv; cases hv
  have := rRun_eof_sound A hlen css key pre (segments css pt) keyOf h56 (segments_layout css pt h56) ideal ct ops {} h0 p h
  rw [segments_flatten css pt h56] at this
  exact this

/-- another part's ciphertext, or a part header whose DEK does not unwrap to this part's key: the reader
derives a key under which nothing was sealed, and no segment opens -/
theorem wrong_key_opens_nothing (A : AEAD) (key : Nat) (pre : Bytes) (segs : List Bytes) (ideal : IdealFor A key pre segs)
    (keyOf : Bytes → Nat) (css : Nat) (ct : Bytes) (hk : keyOf ((ct.drop 1).take 32) ≠ key) (j : Nat) :
    loadSeg A keyOf css ct j = none := by
  unfold loadSeg
  simp only
  split
  · rfl
  · split
    · rfl
    · split
      · rfl
      · exact ideal.other_keys _ hk _ _

/-! ## non-vacuity -/

theorem toyTag_length (k : Nat) (n : Nonce) : (toyTag k n).length = 16 := by
  simp [toyTag, List.length_take]

theorem toyAead_ok : AeadOK toyAead where
  roundtrip := fun k n m => by
    have hl := toyTag_length k n
    simp only [toyAead]
    rw [if_neg (by simp [hl])]
    have e : (m ++ toyTag k n).length - 16 = m.length := by simp [hl]
    rw [e, List.drop_left, List.take_left]
    simp
  seal_len := fun k n m => by
    simp [toyAead, toyTag_length, tagLen]

/-- `seek_read_suffix` on a concrete instance: segment size 64 (first segment 8 bytes, later ones 48), a
20-byte plaintext (two segments), offset 11 (inside the second segment) -/
example : seekRead toyAead (fun _ => 7) false 64
    (tinkStream toyAead 7 (List.replicate 32 1) (List.replicate 7 2) 64 ((List.range 20).map UInt8.ofNat)) 11
    = .ok ((List.range 20).map UInt8.ofNat |>.drop 11) :=
  seek_read_suffix toyAead toyAead_ok 64 7 _ _ _ _ (by decide) (by decide) (by decide) rfl (by decide) false 11

theorem loggedAead_ideal (key : Nat) (pre : Bytes) (segs : List Bytes) : IdealFor (loggedAead key pre segs) key pre segs where
  only_sealed := fun n c m ho => by
    simp only [loggedAead] at ho
    split at ho
    · rename_i hc
      simp only [Bool.and_eq_true, beq_iff_eq, decide_eq_true_eq] at hc
      obtain ⟨⟨⟨⟨_, hp⟩, hi⟩, hl⟩, hcc⟩ := hc
      injection ho with ho
      subst ho
      exact ⟨hp, hi, hl, rfl, hcc⟩
    · cases ho
  other_keys := fun k' hk n c => by
    simp only [loggedAead]
    have : (k' == key) = false := by simpa using hk
    simp [this]

/-- the hypotheses of the tamper theorems are satisfiable: an AEAD that is ideal for the part at hand -/
example (css : Nat) (h56 : 56 < css) (pt ct : Bytes) (keyOf : Bytes → Nat) :
    match seekRead (loggedAead 7 [1, 2, 3, 4, 5, 6, 7] (segments css pt)) keyOf false css ct 0 with
    | .ok out => IsPrefix out pt
    | .err sofar => IsPrefix sofar pt :=
  tamper_prefix_seekable (loggedAead 7 [1, 2, 3, 4, 5, 6, 7] (segments css pt)) (fun k n m => toyAead_ok.seal_len k n m)
    css 7 _ pt keyOf h56 (loggedAead_ideal _ _ _) false ct

/-! ## negation witnesses for the code as it is (toy cipher, segment size 72: 16 + 56 + … bytes) -/

def wpt : Bytes := (List.range 30).map UInt8.ofNat     -- 30 bytes: segments of 16 and 14 bytes
def wstream : Bytes := tinkStream toyAead 7 (List.replicate 32 1) (List.replicate 7 2) 72 wpt

/-- **Witness 1 (seekable.go).** The ciphertext cut ONE byte behind the first segment slot: the reader
derives a plaintext length of 1, authenticates the (intact, not-last) first segment, hands out all 16
bytes of it and reports a clean end — 16 of 30 bytes, no error. -/
theorem seekable_cut_behind_boundary_reads_short :
    seekRead toyAead (fun _ => 7) false 72 (wstream.take 73) 0 = .ok (wpt.take 16) := by
  decide

/-- **Witness 2 (seekable.go).** The ciphertext cut down to the 40-byte header plus 16 bytes: plaintext
length 0, nothing is ever authenticated, the part reads as EMPTY without error. -/
theorem seekable_header_plus_tag_reads_empty :
    seekRead toyAead (fun _ => 7) false 72 (wstream.take 56) 0 = .ok [] := by
  decide

/-- … both are errors for the repaired reader. -/
theorem repaired_rejects_both :
    seekRead toyAead (fun _ => 7) true 72 (wstream.take 73) 0 = .err (wpt.take 16) ∧
    seekRead toyAead (fun _ => 7) true 72 (wstream.take 56) 0 = .err [] := by
  decide

/-- **Witness 2b (seekable.go).** Bytes APPENDED to the stored stream shift the derived plaintext length
too: a 1-byte part (57 stream bytes, segment size 64) with 15 bytes appended gives 2 segments and plaintext
length 72 − 40 − 32 = 0 — the part reads as EMPTY without error; the repaired reader fails (its last
segment is 8 bytes, shorter than a tag). -/
theorem seekable_appended_bytes_read_empty :
    seekRead toyAead (fun _ => 7) false 64
      (tinkStream toyAead 7 (List.replicate 32 1) (List.replicate 7 2) 64 [0x49] ++ List.replicate 15 0x5c) 0 = .ok [] ∧
    seekRead toyAead (fun _ => 7) true 64
      (tinkStream toyAead 7 (List.replicate 32 1) (List.replicate 7 2) 64 [0x49] ++ List.replicate 15 0x5c) 0 = .err [] := by
  decide

/-- **Witness 2c (seekable.go, one reader used on after an error).** 73 bytes = segments of 16, 56 and 1
byte (segment size 72); the tag of the last segment is damaged. Read in segment 1, run into segment 2
(error — correct), seek back into segment 1 and read again: the first byte is now ZERO, without error —
`cipher.Open` cleared the start of the buffer that `segIndex` still attributes to segment 1. The repaired
`loadSegment` re-reads segment 1. -/
def wpt3 : Bytes := (List.range 73).map UInt8.ofNat
def wct3 : Bytes := (tinkStream toyAead 7 (List.replicate 32 1) (List.replicate 7 2) 72 wpt3).dropLast ++ [0xff]
def wops3 : List ROp := [.seek 16, .read 4, .seek 72, .read 4, .seek 16, .read 4]

set_option maxRecDepth 20000 in
theorem reader_used_after_failed_read_returns_zeros :
    rRun toyAead (fun _ => 7) true false 72 wct3 wops3 {} =
      [(16, .bytes [16, 17, 18, 19]), (72, .err), (16, .bytes [0, 17, 18, 19])] ∧
    rRun toyAead (fun _ => 7) true true 72 wct3 wops3 {} =
      [(16, .bytes [16, 17, 18, 19]), (72, .err), (16, .bytes [16, 17, 18, 19])] := by
  decide

/-- **Witness 3 (tink-go's sequential reader).** The same cut, one byte behind the first slot: the reader
took that byte as look-ahead, opened the first segment as "not last", and on the next read gets
`io.EOF` — a clean end after 16 of 30 bytes. Likewise a stream that ends right after its header. -/
theorem sequential_cut_behind_boundary_reads_short :
    seqRead toyAead (fun _ => 7) false 72 (wstream.take 73) = .ok (wpt.take 16) ∧
    seqRead toyAead (fun _ => 7) false 72 (wstream.take 40) = .ok [] := by
  decide

/-- … both are errors with the byte-counting guard. -/
theorem guarded_sequential_rejects_both :
    seqRead toyAead (fun _ => 7) false 72 (wstream.take 73) true = .err (wpt.take 16) ∧
    seqRead toyAead (fun _ => 7) false 72 (wstream.take 40) true = .err [] := by
  decide

/-- **Witness 4 (tink.go).** A stored stream cut to nothing, or to just its 4 length bytes, is taken for an
empty part (`io.EOF` from the lazy initialiser reads as the end of the stream). -/
theorem stored_stream_cut_to_nothing_reads_empty :
    openStored false [] = .emptyPart ∧ openStored false (be32 158) = .emptyPart ∧
    openStored true [] = .fail ∧ openStored true (be32 158) = .fail := by
  decide

end Pithos.C16
