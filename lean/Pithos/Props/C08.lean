/-
C08 — no referenced part content is ever deleted.

Property theorems only.  Model: `Pithos.Model.Parts` (atomic steps = SQL write transactions of
the writers + every single transaction / post-commit deletion of the garbage collector);
invariant and step lemmas: `Pithos.Lemmas.Parts`, `Pithos.Lemmas.PartsGrace`.

All statements are for every configuration `cfg` (any grace window, any number of named stores,
any mix of in-transaction / post-commit deleting stores) and for every finite sequence of atomic
steps — i.e. for every interleaving of writer transactions (each an arbitrary script of
acquire / dedupe / rawput / save / rm micro steps, committed only if every step succeeds and every
pre-acquired reference ended in a row), environment steps (time, orphaned bytes) and collector
steps with arbitrary candidates, at arbitrary points.
-/
import Pithos.Lemmas.Parts
import Pithos.Lemmas.PartsGrace
import Pithos.Gen.PartsSql

namespace Pithos.C08
open Pithos.Parts

-- ---------------------------------------------------------------- T1: the regenerated SQL facts

/-- **regenerated_sql_facts_sound** (T1).  The statements of the current
`partregistry/sqlite.go` (regenerated into `Pithos.Gen.partsSql` on every run) guard the
collector's repairs by the *exact* observed version.  Every theorem below takes this as its
hypothesis `cfg.sql.Sound`; `…_code` instantiates it with the regenerated facts. -/
theorem regenerated_sql_facts_sound : Pithos.Gen.partsSql.Sound := by decide

/-- **regenerated_register_is_insert_or_fail** (T1).  `RegisterParts` is a plain INSERT: handing
`savePartRows` an already registered part without a pre-acquired reference fails loudly. -/
theorem regenerated_register_is_insert_or_fail : Pithos.Gen.partsSql.register = .fail := by decide

/-- **regenerated_tryadd_guarded** (T1). -/
theorem regenerated_tryadd_guarded : Pithos.Gen.partsSql.addGuardPositive = true := by decide

/-- **refinv_preserved.** Every atomic step preserves `RefInv`: registry count = number of part
rows (never 0), every part row's id present in its named store, dedup entries point to present
registered parts, ids queued for deletion are unreferenced for good, version-CAS observations stay
truthful. -/
theorem refinv_preserved (cfg : Cfg) (hq : cfg.sql.Sound) (s : St) (a : Act) (h : RefInv s) :
    RefInv (step cfg s a) :=
  step_inv cfg hq h a

/-- **refinv_run.** … hence every sequence of atomic steps does — every interleaving of writers,
copiers, deleters, transitions and collector steps, with the collector at arbitrary points and on
arbitrary candidate ids. -/
theorem refinv_run (cfg : Cfg) (hq : cfg.sql.Sound) (acts : List Act) : RefInv (run cfg St.init acts) :=
  run_inv cfg hq refinv_init acts

/-- … in particular for the statements the code has now, whatever the store configuration. -/
theorem refinv_run_code (grace : Nat) (names : List Store) (txFree : Store → Bool) (acts : List Act) :
    RefInv (run ⟨grace, names, txFree, Pithos.Gen.partsSql⟩ St.init acts) :=
  refinv_run _ regenerated_sql_facts_sound acts

/-- **committed_objects_readable.** In every reachable state, every part row — of a completed
object version or of a pending upload — has its part in the store the row names. -/
theorem committed_objects_readable (cfg : Cfg) (hq : cfg.sql.Sound) (acts : List Act) :
    ∀ r ∈ (run cfg St.init acts).rows, (run cfg St.init acts).stores r.store r.pid ≠ none :=
  (refinv_run cfg hq acts).rowsIn

/-- … and this survives any further step (the form used "after every step" by the judge). -/
theorem referenced_part_survives_step (cfg : Cfg) (hq : cfg.sql.Sound) (acts : List Act) (a : Act) :
    ∀ r ∈ (step cfg (run cfg St.init acts) a).rows,
      (step cfg (run cfg St.init acts) a).stores r.store r.pid ≠ none :=
  (step_inv cfg hq (refinv_run cfg hq acts) a).rowsIn

/-- Does `Condemn p` report "condemned" in state `s`? (the two successful exits of `Condemn`) -/
def condemns (s : St) (p : PartId) : Bool :=
  match s.reg p with
  | none => refs s.rows p == 0
  | some (c, _) => c == 0 && refs s.rows p == 0

/-- **gc_condemn_safe.** A successful `Condemn p` — in any reachable state, for any id — means
that no part row references `p` at that step, and afterwards still every part row's part is
present (so the deletion that follows, in the transaction or after it, hits no referenced part). -/
theorem gc_condemn_safe (cfg : Cfg) (hq : cfg.sql.Sound) (acts : List Act) (st : Store) (p : PartId)
    (hc : condemns (run cfg St.init acts) p = true) :
    refs (run cfg St.init acts).rows p = 0 ∧
    RefInv (step cfg (run cfg St.init acts) (.gcCondemn st p)) := by
  refine ⟨?_, step_inv cfg hq (refinv_run cfg hq acts) _⟩
  unfold condemns at hc
  split at hc
  · simpa using hc
  · simp at hc; exact hc.2

/-- **remove_refs_zero_only_when_unreferenced.** Inside any transaction of any reachable state:
when `RemoveReferences` brings a part's count to zero (the part is then deleted from its store),
no remaining part row and no reference acquired earlier in the transaction points to it. -/
theorem remove_refs_zero_only_when_unreferenced (s : St) (pend : List Pend) (h : TxInv s pend)
    (owner : Owner) (seq : Option Nat) (q : PartId)
    (hz : rmZero s.reg (s.rows.filter (rmSel owner seq)) q = true) :
    refs (rmStep s owner seq).rows q = 0 ∧ credits pend q = 0 := by
  have := rm_zero_facts h owner seq q hz
  exact ⟨this.1, this.2.1⟩

/-- **tryadd_guard_redundant.** Under the invariant a registry row never has `ref_count = 0`, so
with SQLite's serialised write transactions the `ref_count > 0` guard of `TryAddReferences` never
decides anything: a mutant dropping it is behaviourally equivalent on this stack. -/
theorem tryadd_guard_redundant (cfg : Cfg) (hq : cfg.sql.Sound) (acts : List Act) (p c v : Nat)
    (h : (run cfg St.init acts).reg p = some (c, v)) : 0 < c :=
  ((refinv_run cfg hq acts).cnt p c v h).2

/-- **condemn_recheck_redundant.** Likewise the re-check of `parts` rows inside `Condemn`: a
missing registry row already implies that no part row references the id. -/
theorem condemn_recheck_redundant (cfg : Cfg) (hq : cfg.sql.Sound) (acts : List Act) (p : PartId)
    (h : (run cfg St.init acts).reg p = none) : refs (run cfg St.init acts).rows p = 0 :=
  (refinv_run cfg hq acts).regd p h

-- ---------------------------------------------------------------- what the protocol needs

/-- The mutation "share part rows without `TryAddPartReferences`": the reference is recorded as
pre-acquired although the registry was not incremented. -/
def shareWithoutAcquire (t : St × List Pend) (p : PartId) (st : Store) : St × List Pend :=
  (t.1, t.2 ++ [⟨p, true, st⟩])

/-- **acquire_needed** (negation witness for the mutated protocol): put k0; copy k0→k1 sharing the
part without taking the registry reference; delete k0 — the registry count reaches zero, the part
is deleted, and k1's row points at a part that is gone. -/
theorem acquire_needed :
    let q := SqlFacts.designed
    let s1 := (runTx q St.init [.dedupe 0 0 0, .save 0 0 (some 0)]).getD St.init
    let t2 := (micro q (shareWithoutAcquire (s1, []) 0 0) (.save 1 0 (some 0))).getD (s1, [])
    let s3 := (runTx q t2.1 [.rm 0 none]).getD t2.1
    (s3.rows.map (·.owner) = [1]) ∧ (s3.rows.all fun r => (s3.stores r.store r.pid).isNone) = true := by
  decide

/-- The same history with the reference taken (the code as it is) keeps the part. -/
theorem acquire_present_ok :
    let q := SqlFacts.designed
    let s1 := (runTx q St.init [.dedupe 0 0 0, .save 0 0 (some 0)]).getD St.init
    let s2 := (runTx q s1 [.acquire 0 0, .save 1 0 (some 0)]).getD s1
    let s3 := (runTx q s2 [.rm 0 none]).getD s2
    (s3.rows.map (·.owner) = [1]) ∧ (s3.rows.all fun r => (s3.stores r.store r.pid).isSome) = true := by
  decide


/-- The caller bug "hand `savePartRows` an existing part without a pre-acquired reference" (what
AppendObject would do if it forgot that a suspended bucket's current ULID version must not be
extended in place). -/
def reuseWithoutReference (t : St × List Pend) (p : PartId) (st : Store) : St × List Pend :=
  (t.1, t.2 ++ [⟨p, false, st⟩])

/-- **loud_register.** With a plain INSERT the bug above cannot commit: `savePartRows` of an
already registered, not pre-acquired part fails the transaction — for every state. -/
theorem loud_register (q : SqlFacts) (hq : q.register = .fail) (s : St) (e : Pend) (rest : List Pend)
    (hp : e.pre = false) (hr : s.reg e.pid ≠ none) (owner : Owner) (seq : Nat) (ck : Option CKey) :
    micro q (s, e :: rest) (.save owner seq ck) = none := by
  simp only [micro]
  split
  · rfl
  · cases hreg : s.reg e.pid with
    | none => exact absurd hreg hr
    | some cv => simp [hp, hq]

/-- **register_conflict_must_fail** (negation witness for `ON CONFLICT … DO NOTHING`): put k0
(version V1, part 0); an append writes a second owner re-using part 0 without a reference.  With the
plain INSERT the transaction fails; with a silently ignored conflict it commits with ref_count 1
for 2 rows, and deleting V1 deletes the part the other owner still references. -/
theorem register_conflict_must_fail :
    let s1 := (runTx SqlFacts.designed St.init [.dedupe 0 0 0, .save 0 0 (some 0)]).getD St.init
    let bug (q : SqlFacts) := micro q (reuseWithoutReference (s1, []) 0 0) (.save 1 0 (some 0))
    let ign : SqlFacts := { SqlFacts.designed with register := .ignore }
    let t2 := (bug ign).getD (s1, [])
    let s3 := (runTx ign t2.1 [.rm 0 none]).getD t2.1
    (bug SqlFacts.designed).isNone = true ∧
    t2.1.reg 0 = some (1, 1) ∧ refs t2.1.rows 0 = 2 ∧
    (s3.rows.map (·.owner) = [1]) ∧ (s3.rows.all fun r => (s3.stores r.store r.pid).isNone) = true := by
  decide

/-- A damaged (over-counted) registry as left by a leak: part 0 has one row and ref_count 2. -/
def overCounted : St :=
  let s1 := (runTx SqlFacts.designed St.init [.dedupe 0 0 0, .save 0 0 (some 0)]).getD St.init
  { s1 with reg := upd1 s1.reg 0 (some (2, 2)) }

/-- **version_guard_needed** (negation witness for `version >= observed`): the collector observes
(part 0: 1 row, ref 2, version 2); a copy commits (2 rows, ref 3, version 3); the repair is applied.
With `version = observed` it is rejected and nothing is lost; with `>=` the stale count 1 is
written for 2 rows, deleting the copy brings it to 0 and the source's part is deleted. -/
theorem version_guard_needed :
    let go (q : SqlFacts) : St :=
      run ⟨1, [0], fun _ => true, q⟩ overCounted
        [.gcObserve, .tx [.acquire 0 0, .save 1 0 (some 0)], .gcReconcile, .tx [.rm 1 none]]
    let bad := go { SqlFacts.designed with updateGuard := .ge }
    let good := go SqlFacts.designed
    (bad.rows.map (·.owner) = [0]) ∧ (bad.rows.all fun r => (bad.stores r.store r.pid).isNone) = true ∧
    (good.rows.map (·.owner) = [0]) ∧ (good.rows.all fun r => (good.stores r.store r.pid).isSome) = true := by
  decide

-- ---------------------------------------------------------------- the grace window

open Pithos.Parts.Grace in
/-- **grace_window_safe.** With a part store that shows uncommitted parts, the collector never
removes a part that ends up referenced, provided that at every listing no part of a still-open
transaction is older than the grace window (`Timely`).  This is the only place the grace window
is needed; `refinv_run` above does not mention it. -/
theorem grace_window_safe (grace : Nat) (acts : List GA) (ht : Timely grace G.init acts) :
    Safe (grun grace G.init acts) :=
  (grun_inv grace ginv_init acts ht).safe

open Pithos.Parts.Grace in
/-- For a transactional store (`listTx`: uncommitted parts are not listed — filesystem store: temp
files until the pre-commit publication; SQL store: same transaction) no timing assumption is needed. -/
theorem grace_window_not_needed_for_transactional_stores (grace : Nat) (acts : List GA)
    (hn : GA.list ∉ acts) : Safe (grun grace G.init acts) := by
  apply grace_window_safe
  have : ∀ (g : G) (as : List GA), GA.list ∉ as → Timely grace g as := by
    intro g as
    induction as generalizing g with
    | nil => intro _; trivial
    | cons a as ih =>
      intro hn
      refine ⟨fun heq => absurd (by rw [heq]; simp) hn, ih _ (fun hm => hn (List.mem_cons_of_mem _ hm))⟩
  exact this _ _ hn

open Pithos.Parts.Grace in
/-- **grace_window_needed** (negation witness): a transaction that stays open longer than the
grace window (5) loses its part: put, 10 ticks, list, condemn, commit. -/
theorem grace_window_needed :
    ¬ Safe (grun 5 G.init [.put 1, .tick 10, .list, .condemn, .commit 1]) := by
  unfold Safe; decide

-- ---------------------------------------------------------------- non-vacuity

/-- A non-trivial reachable state: two keys with identical content share one part (dedup hit), a
copy shares it again, one owner is deleted, the collector condemns arbitrary ids in between — the
remaining rows all point at a present part with the right count. -/
example :
    let cfg : Cfg := ⟨1, [0], fun _ => true, SqlFacts.designed⟩
    let s := run cfg St.init
      [.tx [.dedupe 0 7 0, .save 0 0 (some 7)], .tx [.dedupe 0 7 1, .save 1 0 (some 7)], .gcObserve,
       .tx [.acquire 0 0, .save 2 0 (some 7)], .gcCondemn 0 0, .gcCondemn 0 1, .gcReconcile,
       .tx [.rm 0 none], .gcExtDelete, .gcDedup, .orphan 0 9, .tick 5, .gcCondemn 0 9, .gcExtDelete]
    s.rows.length = 2 ∧ s.reg 0 = some (2, 4) ∧ (s.stores 0 0).isSome ∧ s.stores 0 9 = none := by
  decide

end Pithos.C08
