/-
C26 — the audit log records every operation and always verifies.

Property theorems only (model of the writer and the validator: `Pithos.Model.AuditLog`; tables of
the current code: `Pithos.Model.AuditLogCode`, `Pithos.Gen.AuditOverrides`).
The writer theorems hold for every hash function and every signature scheme whose own signatures
verify, every block size ≥ 1, every number of calls and every order in which the calls' START and
COMPLETE halves took the mutex.
-/
import Pithos.Gen.AuditOverrides
import Pithos.Model.AuditLogCode
import Pithos.Lemmas.AuditLog
namespace Pithos.C26
open Pithos.AuditLog

/-- What the writer theorems need from the tables and the keys: the stored hash and the entry
signature are not themselves hashed; the three type strings are distinct; a signature made with the
writer's key verifies (`verify (sign m) m = true`; trivially true when no verifier is configured). -/
structure WriterOK (T : Tables) (C : Crypto) (S : Signer) : Prop where
  hash_free : ∀ r, "Hash" ∉ hashedNames T r ∧ "SignatureEd25519" ∉ hashedNames T r
  log_ne_genesis : T.tLog ≠ T.tGenesis
  grounding_ne_genesis : T.tGrounding ≠ T.tGenesis
  grounding_ne_log : T.tGrounding ≠ T.tLog
  signEd_ok : ∀ m, sigOk C.vEd m (S.signEd m) = true
  signMl_ok : ∀ m, sigOk C.vMl m (S.signMl m) = true

variable {T : Tables} {C : Crypto} {S : Signer}

theorem hashInput_sealEntry (ok : WriterOK T C S) (prev : Bytes) (p : Rec) :
    hashInput T (sealEntry T C S prev p) = hashInput T (set p "PreviousHash" prev) := by
  unfold sealEntry
  rw [hashInput_set_unhashed T _ "SignatureEd25519" _ (by decide) (by decide) (ok.hash_free _).2]
  rw [hashInput_set_unhashed T _ "Hash" _ (by decide) (by decide) (ok.hash_free _).1]

theorem sealEntry_hash (prev : Bytes) (p : Rec) :
    get (sealEntry T C S prev p) "Hash" = C.H (hashInput T (set p "PreviousHash" prev)) := by
  unfold sealEntry
  rw [get_set_ne _ _ (by decide), get_set_eq]

theorem sealEntry_sig (prev : Bytes) (p : Rec) :
    get (sealEntry T C S prev p) "SignatureEd25519" = S.signEd (get (sealEntry T C S prev p) "Hash") := by
  rw [sealEntry_hash]
  unfold sealEntry
  rw [get_set_eq]

theorem sealEntry_prev (prev : Bytes) (p : Rec) :
    get (sealEntry T C S prev p) "PreviousHash" = prev := by
  unfold sealEntry
  rw [get_set_ne _ _ (by decide), get_set_ne _ _ (by decide), get_set_eq]

/-- Fields other than the three the writer fills in are the payload's. -/
theorem sealEntry_get (prev : Bytes) (p : Rec) (f : String)
    (h1 : f ≠ "PreviousHash") (h2 : f ≠ "Hash") (h3 : f ≠ "SignatureEd25519") :
    get (sealEntry T C S prev p) f = get p f := by
  unfold sealEntry
  rw [get_set_ne _ _ h3, get_set_ne _ _ h2, get_set_ne _ _ h1]

/-- The first five checks of `ValidateEntry` pass for an entry the writer sealed on top of the
validator's current state. -/
theorem stepWith_sealed (ok : WriterOK T C S) (bs : Nat) (v : VState) (p : Rec)
    (hidx : v.index = 0 → get p "Type" = T.tGenesis)
    (prev : Bytes) (hprev : prev = expectedPrev C v) :
    step T C bs v (sealEntry T C S prev p) = stepGround T C bs v (sealEntry T C S prev p) := by
  unfold step stepWith
  have hH : C.H (hashInput T (sealEntry T C S prev p)) = get (sealEntry T C S prev p) "Hash" := by
    rw [hashInput_sealEntry ok, sealEntry_hash]
  have hT : get (sealEntry T C S prev p) "Type" = get p "Type" :=
    sealEntry_get prev p "Type" (by decide) (by decide) (by decide)
  rw [if_neg (by simp [hH])]
  rw [if_neg (by rw [hT]; intro h; exact h.2 (hidx h.1))]
  rw [sealEntry_prev]
  rw [if_neg (by intro h; apply h.2; rw [hprev]; simp [expectedPrev, h.1])]
  rw [if_neg (by intro h; apply h.2; rw [hprev]; simp [expectedPrev, h.1])]
  rw [sealEntry_sig, ok.signEd_ok]
  simp

theorem runFrom_append (bs : Nat) (A B : List Rec) (s : VState) :
    runFrom T C bs s (A ++ B) =
      match runFrom T C bs s A with
      | .ok s' => runFrom T C bs s' B
      | .error e => .error e := by
  induction A generalizing s with
  | nil => rfl
  | cons a A ih =>
    simp only [List.cons_append, runFrom]
    split
    · rfl
    · exact ih _

theorem stepGround_log (bs : Nat) (v : VState) (e : Rec) (hk : kind T e = 1)
    (hroom : v.buffer.length < bs) :
    stepGround T C bs v e =
      .ok { index := v.index + 1, prev := get e "Hash", buffer := v.buffer ++ [get e "Hash"] } := by
  unfold stepGround
  rw [if_pos hk, if_neg (by simp; omega)]

theorem stepGround_grounding (ok : WriterOK T C S) (bs : Nat) (v : VState) (e : Rec) (hk : kind T e = 2)
    (hfull : v.buffer.length = bs)
    (hroot : get e "Grounding.MerkleRootHash" = merkleRoot C.H v.buffer)
    (hsEd : get e "Grounding.SignatureEd25519" = S.signEd (merkleRoot C.H v.buffer))
    (hsMl : get e "Grounding.SignatureMlDsa87" = S.signMl (merkleRoot C.H v.buffer)) :
    stepGround T C bs v e = .ok { index := v.index + 1, prev := get e "Hash", buffer := [] } := by
  unfold stepGround
  rw [if_neg (by rw [hk]; decide), if_pos hk, if_neg (by simp [hfull]), if_neg (by simp [hroot])]
  rw [hroot, hsEd, hsMl, ok.signEd_ok, ok.signMl_ok]
  simp

theorem stepGround_other (bs : Nat) (v : VState) (e : Rec) (hk : kind T e = 0) :
    stepGround T C bs v e = .ok { index := v.index + 1, prev := get e "Hash", buffer := v.buffer } := by
  unfold stepGround
  rw [if_neg (by rw [hk]; decide), if_neg (by rw [hk]; decide)]

/-- The writer and a validator reading its output are in step. -/
structure Inv (T : Tables) (C : Crypto) (bs : Nat) (w : WState) (v : VState) : Prop where
  run : runFrom T C bs {} w.out = .ok v
  idx : v.index ≠ 0
  prev : v.prev = w.lastHash
  buf : v.buffer = w.buffer
  room : w.buffer.length < bs

theorem kind_of_type_log (ok : WriterOK T C S) (e : Rec) (h : get e "Type" = T.tLog) : kind T e = 1 := by
  unfold kind; simp [h, ok.log_ne_genesis]

theorem kind_of_type_grounding (ok : WriterOK T C S) (e : Rec) (h : get e "Type" = T.tGrounding) : kind T e = 2 := by
  unfold kind; simp [h, ok.grounding_ne_genesis, ok.grounding_ne_log]

theorem kind_of_type_genesis (e : Rec) (h : get e "Type" = T.tGenesis) : kind T e = 0 := by
  unfold kind; simp [h]

theorem inv_extend (bs : Nat) (w : WState) (v v' : VState) (e : Rec)
    (hrun : runFrom T C bs {} w.out = .ok v) (hstep : step T C bs v e = .ok v') :
    runFrom T C bs {} (w.out ++ [e]) = .ok v' := by
  rw [runFrom_append, hrun]
  simp only [runFrom, hstep]

/-- One `log` call (with the grounding it may trigger) keeps writer and validator in step. -/
theorem inv_wLog (ok : WriterOK T C S) (bs : Nat) (w : WState) (v : VState) (p gmd : Rec)
    (inv : Inv T C bs w v) : ∃ v', Inv T C bs (wLog T C S bs w p gmd) v' := by
  obtain ⟨hrun, hidx, hprev, hbuf, hroom⟩ := inv
  -- the LOG entry
  let e := sealEntry T C S w.lastHash (set p "Type" T.tLog)
  have hTe : get e "Type" = T.tLog := by
    show get (sealEntry T C S w.lastHash (set p "Type" T.tLog)) "Type" = T.tLog
    rw [sealEntry_get _ _ "Type" (by decide) (by decide) (by decide), get_set_eq]
  have hstep1 : step T C bs v e = .ok { index := v.index + 1, prev := get e "Hash", buffer := v.buffer ++ [get e "Hash"] } := by
    show step T C bs v (sealEntry T C S w.lastHash (set p "Type" T.tLog)) = _
    rw [stepWith_sealed ok bs v _ (fun h => absurd h hidx) w.lastHash (by simp [expectedPrev, hidx, hprev])]
    exact stepGround_log bs v _ (kind_of_type_log ok _ hTe) (by rw [hbuf]; exact hroom)
  have hrun1 := inv_extend bs w v _ e hrun hstep1
  unfold wLog
  simp only []
  by_cases hfull : (w.buffer ++ [get e "Hash"]).length ≥ bs
  · -- the grounding entry
    rw [if_pos hfull]
    let v1 : VState := { index := v.index + 1, prev := get e "Hash", buffer := v.buffer ++ [get e "Hash"] }
    let g := sealEntry T C S (get e "Hash") (groundingPayload T C S gmd (w.buffer ++ [get e "Hash"]))
    have hg (f : String) (h1 : f ≠ "PreviousHash") (h2 : f ≠ "Hash") (h3 : f ≠ "SignatureEd25519") :
        get g f = get (groundingPayload T C S gmd (w.buffer ++ [get e "Hash"])) f :=
      sealEntry_get _ _ f h1 h2 h3
    have hTg : get g "Type" = T.tGrounding := by
      rw [hg "Type" (by decide) (by decide) (by decide)]
      unfold groundingPayload
      rw [get_set_ne _ _ (by decide), get_set_ne _ _ (by decide), get_set_ne _ _ (by decide), get_set_eq]
    have hv1buf : v1.buffer = w.buffer ++ [get e "Hash"] := by show v.buffer ++ _ = _; rw [hbuf]
    have hstep2 : step T C bs v1 g = .ok { index := v1.index + 1, prev := get g "Hash", buffer := [] } := by
      show step T C bs v1 (sealEntry T C S (get e "Hash") _) = _
      rw [stepWith_sealed ok bs v1 _ (fun h => by simp [v1] at h) (get e "Hash") (by simp [expectedPrev, v1])]
      apply stepGround_grounding ok bs v1 _ (kind_of_type_grounding ok _ hTg)
      · rw [hv1buf]; simp at hfull ⊢; omega
      · rw [hv1buf]
        show get g _ = _
        rw [hg _ (by decide) (by decide) (by decide)]
        unfold groundingPayload
        rw [get_set_ne _ _ (by decide), get_set_ne _ _ (by decide), get_set_eq]
      · rw [hv1buf]
        show get g _ = _
        rw [hg _ (by decide) (by decide) (by decide)]
        unfold groundingPayload
        rw [get_set_ne _ _ (by decide), get_set_eq]
      · rw [hv1buf]
        show get g _ = _
        rw [hg _ (by decide) (by decide) (by decide)]
        unfold groundingPayload
        rw [get_set_eq]
    refine ⟨{ index := v1.index + 1, prev := get g "Hash", buffer := [] }, ?_, ?_, rfl, rfl, ?_⟩
    · have := inv_extend bs { lastHash := get e "Hash", buffer := w.buffer ++ [get e "Hash"], out := w.out ++ [e] } v1 _ g hrun1 hstep2
      exact this
    · simp
    · simp only [List.length_nil]; omega
  · rw [if_neg hfull]
    refine ⟨_, hrun1, by simp, rfl, by show v.buffer ++ _ = w.buffer ++ _; rw [hbuf], ?_⟩
    simp only [List.length_append, List.length_cons, List.length_nil] at hfull ⊢
    omega

theorem inv_wRun (ok : WriterOK T C S) (bs : Nat) (ps : List (Rec × Rec)) (w : WState) (v : VState)
    (inv : Inv T C bs w v) : ∃ v', Inv T C bs (wRun T C S bs w ps) v' := by
  induction ps generalizing w v with
  | nil => exact ⟨v, inv⟩
  | cons pg ps ih =>
    obtain ⟨p, g⟩ := pg
    obtain ⟨v1, inv1⟩ := inv_wLog ok bs w v p g inv
    exact ih _ v1 inv1

/-- The genesis entry written by a fresh middleware puts writer and validator in step. -/
theorem inv_wInit (ok : WriterOK T C S) (bs : Nat) (hbs : 0 < bs) (md : Rec) :
    ∃ v, Inv T C bs (wInit T C S md) v := by
  let g := sealEntry T C S (C.H pithos) (set md "Type" T.tGenesis)
  have hTg : get g "Type" = T.tGenesis := by
    show get (sealEntry T C S _ _) "Type" = _
    rw [sealEntry_get _ _ "Type" (by decide) (by decide) (by decide), get_set_eq]
  have hstep : step T C bs {} g = .ok { index := 1, prev := get g "Hash", buffer := [] } := by
    show step T C bs {} (sealEntry T C S _ _) = _
    rw [stepWith_sealed ok bs {} _ (fun _ => by rw [get_set_eq]) (C.H pithos) (by simp [expectedPrev])]
    exact stepGround_other bs {} _ (kind_of_type_genesis _ hTg)
  refine ⟨{ index := 1, prev := get g "Hash", buffer := [] }, ?_, by simp, rfl, rfl, hbs⟩
  show runFrom T C bs {} [g] = _
  simp only [runFrom, hstep]

/-! ## The theorems -/

/-- **log_verifies.** For every sequence of `log` calls — in whatever order their START/COMPLETE
halves won the mutex — the validator accepts what the writer produced: chain intact, every entry
signature valid, a correctly signed Merkle grounding after every `bs` LOG entries. No bound on the
number of calls. -/
theorem log_verifies (ok : WriterOK T C S) (bs : Nat) (hbs : 0 < bs) (md : Rec) (ps : List (Rec × Rec)) :
    accepts T C bs (wRun T C S bs (wInit T C S md) ps).out = true := by
  obtain ⟨v0, inv0⟩ := inv_wInit ok bs hbs md
  obtain ⟨v, inv⟩ := inv_wRun ok bs ps _ v0 inv0
  unfold accepts run
  rw [inv.run]

/-- **Restart.** A new middleware instance that continues an existing, accepted, non-empty log from
the state `NewFileSink` recovers (`lastHash` = hash of the last entry, `hashBuffer` = the validator's
buffer) again produces an accepted log, for every further sequence of calls — provided the recovered
buffer is not already full (it cannot be after a clean stop: the grounding is written in the same
critical section as the entry that fills the block). -/
theorem log_verifies_after_restart (ok : WriterOK T C S) (bs : Nat) (L : List Rec) (v : VState)
    (hL : runFrom T C bs {} L = .ok v) (hne : v.index ≠ 0) (hroom : v.buffer.length < bs)
    (ps : List (Rec × Rec)) :
    accepts T C bs (wRun T C S bs { lastHash := v.prev, buffer := v.buffer, out := L } ps).out = true := by
  obtain ⟨v', inv⟩ := inv_wRun ok bs ps { lastHash := v.prev, buffer := v.buffer, out := L } v
    ⟨hL, hne, rfl, rfl, hroom⟩
  unfold accepts run
  rw [inv.run]

/-- Interleavings of concurrent calls: each call is the two-element list [START, COMPLETE]; a schedule
is any merge of those lists that keeps each list's internal order. -/
inductive Merge {α : Type} : List (List α) → List α → Prop where
  | done : Merge [] []
  | skip {ls : List (List α)} {out : List α} : Merge ls out → Merge ([] :: ls) out
  | take {pre post : List (List α)} {x : α} {l : List α} {out : List α} :
      Merge (pre ++ l :: post) out → Merge (pre ++ (x :: l) :: post) (x :: out)

/-- **log_verifies for every interleaving** of the START/COMPLETE pairs of any set of concurrent calls. -/
theorem log_verifies_interleaved (ok : WriterOK T C S) (bs : Nat) (hbs : 0 < bs) (md gmd : Rec)
    (calls : List (Rec × Rec)) (sched : List Rec)
    (_ : Merge (calls.map fun c => [c.1, c.2]) sched) :
    accepts T C bs (wRun T C S bs (wInit T C S md) (sched.map fun p => (p, gmd))).out = true :=
  log_verifies ok bs hbs md _

/-- In every interleaving each call's START stays before its COMPLETE. -/
theorem merge_sublist {α : Type} {ls : List (List α)} {out : List α} (h : Merge ls out) :
    ∀ l ∈ ls, l.Sublist out := by
  induction h with
  | done => intro l hl; simp at hl
  | skip _ ih =>
    intro l hl
    rcases List.mem_cons.1 hl with rfl | hl
    · exact List.nil_sublist _
    · exact ih l hl
  | @take pre post x l out _ ih =>
    intro m hm
    rw [List.mem_append, List.mem_cons] at hm
    rcases hm with hm | rfl | hm
    · exact List.Sublist.cons _ (ih m (by simp [hm]))
    · exact List.Sublist.cons_cons _ (ih l (by simp))
    · exact List.Sublist.cons _ (ih m (by simp [hm]))

/-- The LOG entries of a log, in order. -/
def logsOf (T : Tables) (out : List Rec) : List Rec := out.filter fun e => get e "Type" == T.tLog

theorem logsOf_wLog (ok : WriterOK T C S) (bs : Nat) (w : WState) (p gmd : Rec) (f : String)
    (h0 : f ≠ "Type") (h1 : f ≠ "PreviousHash") (h2 : f ≠ "Hash") (h3 : f ≠ "SignatureEd25519") :
    (logsOf T (wLog T C S bs w p gmd).out).map (get · f) = (logsOf T w.out).map (get · f) ++ [get p f] := by
  have hTe : get (sealEntry T C S w.lastHash (set p "Type" T.tLog)) "Type" = T.tLog := by
    rw [sealEntry_get _ _ "Type" (by decide) (by decide) (by decide), get_set_eq]
  have hfe : get (sealEntry T C S w.lastHash (set p "Type" T.tLog)) f = get p f := by
    rw [sealEntry_get _ _ f h1 h2 h3, get_set_ne _ _ h0]
  unfold wLog
  simp only []
  split
  · have hTg : get (sealEntry T C S (get (sealEntry T C S w.lastHash (set p "Type" T.tLog)) "Hash")
        (groundingPayload T C S gmd (w.buffer ++ [get (sealEntry T C S w.lastHash (set p "Type" T.tLog)) "Hash"]))) "Type"
        = T.tGrounding := by
      rw [sealEntry_get _ _ "Type" (by decide) (by decide) (by decide)]
      unfold groundingPayload
      rw [get_set_ne _ _ (by decide), get_set_ne _ _ (by decide), get_set_ne _ _ (by decide), get_set_eq]
    simp only [logsOf, List.filter_append, List.filter_cons, List.filter_nil, hTe, hTg, beq_self_eq_true, if_true]
    have : (T.tGrounding == T.tLog) = false := by simpa using ok.grounding_ne_log
    simp [this, hfe]
  · simp only [logsOf, List.filter_append, List.filter_cons, List.filter_nil, hTe, beq_self_eq_true, if_true]
    simp [hfe]

/-- **Every call half is recorded, in mutex order.** The LOG entries of the written log carry, field
by field (everything but the three fields the writer fills in and the forced type), exactly the
payloads of the `log` calls in the order in which they took the mutex — so a call whose START took
the mutex before its inner call and whose COMPLETE took it afterwards is bracketed in the log. -/
theorem log_records_schedule (ok : WriterOK T C S) (bs : Nat) (md : Rec) (ps : List (Rec × Rec)) (f : String)
    (h0 : f ≠ "Type") (h1 : f ≠ "PreviousHash") (h2 : f ≠ "Hash") (h3 : f ≠ "SignatureEd25519") :
    (logsOf T (wRun T C S bs (wInit T C S md) ps).out).map (get · f) = ps.map fun pg => get pg.1 f := by
  have gen : ∀ (ps : List (Rec × Rec)) (w : WState),
      (logsOf T (wRun T C S bs w ps).out).map (get · f) =
        (logsOf T w.out).map (get · f) ++ ps.map fun pg => get pg.1 f := by
    intro ps
    induction ps with
    | nil => intro w; simp [wRun]
    | cons pg ps ih =>
      intro w
      obtain ⟨p, g⟩ := pg
      simp only [wRun, List.map_cons]
      rw [ih, logsOf_wLog ok bs w p g f h0 h1 h2 h3]
      simp
  rw [gen]
  have : logsOf T (wInit T C S md).out = [] := by
    have hTg : get (sealEntry T C S (C.H pithos) (set md "Type" T.tGenesis)) "Type" = T.tGenesis := by
      rw [sealEntry_get _ _ "Type" (by decide) (by decide) (by decide), get_set_eq]
    have : (T.tGenesis == T.tLog) = false := by simpa using (Ne.symm ok.log_ne_genesis)
    simp [logsOf, wInit, hTg, this]
  rw [this]; simp

/-! ## The current code -/

open Pithos.AuditLog.Code

theorem code_hash_free : ∀ r, "Hash" ∉ hashedNames hashT r ∧ "SignatureEd25519" ∉ hashedNames hashT r := by
  have hl : ∀ v, "Hash" ∉ (Gen.AuditLog.hashLog v).map (·.1) ∧ "SignatureEd25519" ∉ (Gen.AuditLog.hashLog v).map (·.1) := by
    intro v
    match v with
    | 0 => decide
    | 1 => decide
    | 2 => decide
    | 3 => decide
    | _ + 4 =>
      exact (by decide : "Hash" ∉ (Gen.AuditLog.hashLog 4).map (·.1) ∧ "SignatureEd25519" ∉ (Gen.AuditLog.hashLog 4).map (·.1))
  have hg : "Hash" ∉ Gen.AuditLog.hashGenesis.map (·.1) ∧ "SignatureEd25519" ∉ Gen.AuditLog.hashGenesis.map (·.1) := by decide
  have hgr : "Hash" ∉ Gen.AuditLog.hashGrounding.map (·.1) ∧ "SignatureEd25519" ∉ Gen.AuditLog.hashGrounding.map (·.1) := by decide
  have hd : ∀ v k, "Hash" ∉ (hashT.details v k).map (·.1) ∧ "SignatureEd25519" ∉ (hashT.details v k).map (·.1) := by
    intro v k
    match k with
    | 0 => exact hg
    | 1 => exact hl v
    | 2 => exact hgr
    | _ + 3 => exact ⟨by simp [hashT], by simp [hashT]⟩
  intro r
  have hp : "Hash" ∉ hashT.pre.map (·.1) ∧ "SignatureEd25519" ∉ hashT.pre.map (·.1) := by decide
  have ht : "Hash" ∉ hashT.tail ∧ "SignatureEd25519" ∉ hashT.tail := by decide
  unfold hashedNames specOf
  simp only [List.map_append, List.mem_append, not_or]
  exact ⟨⟨⟨hp.1, (hd _ _).1⟩, ht.1⟩, ⟨⟨hp.2, (hd _ _).2⟩, ht.2⟩⟩

/-- The generated tables meet the writer theorems' side conditions, for any hash and any key pair
whose signatures verify. -/
theorem code_writer_ok (C : Crypto) (S : Signer)
    (hEd : ∀ m, sigOk C.vEd m (S.signEd m) = true) (hMl : ∀ m, sigOk C.vMl m (S.signMl m) = true) :
    WriterOK hashT C S :=
  ⟨code_hash_free, by decide, by decide, by decide, hEd, hMl⟩

/-- **log_verifies for the code's tables and block size (1000).** -/
theorem log_verifies_code (C : Crypto) (S : Signer)
    (hEd : ∀ m, sigOk C.vEd m (S.signEd m) = true) (hMl : ∀ m, sigOk C.vMl m (S.signMl m) = true)
    (md : Rec) (ps : List (Rec × Rec)) :
    accepts hashT C blockSize (wRun hashT C S blockSize (wInit hashT C S md) ps).out = true :=
  log_verifies (code_writer_ok C S hEd hMl) blockSize (by decide) md ps

/-- Non-vacuity: a toy hash and toy keys satisfy the hypotheses (`verify (sign m) m = true`), and a
run with block size 2 produces genesis, two LOG entries, a grounding, one more LOG entry — accepted. -/
def toyC : Crypto := { H := fun b => b, vEd := some (fun d s => s == d), vMl := some (fun d s => s == 1 :: d) }
def toyS : Signer := { signEd := fun d => d, signMl := fun d => 1 :: d }
example : ∀ m, sigOk toyC.vEd m (toyS.signEd m) = true := by intro m; simp [sigOk, toyC, toyS]
example : ∀ m, sigOk toyC.vMl m (toyS.signMl m) = true := by intro m; simp [sigOk, toyC, toyS]
def toyMd : Rec := [("Version", [0, 3]), ("Timestamp", [0, 0, 0, 0, 0, 0, 0, 9])]
def toyP (op : String) : Rec := set toyMd "Log.Operation" (ascii op)
set_option maxRecDepth 100000 in
example : ((wRun hashT toyC toyS 2 (wInit hashT toyC toyS toyMd)
    [(toyP "A", toyMd), (toyP "B", toyMd), (toyP "C", toyMd)]).out.map (kind hashT)) = [0, 1, 1, 2, 1] := by decide

/-! ## Which storage calls are recorded (T1 table `Pithos.Gen.AuditOverrides`) -/

open Pithos.Gen.AuditOverrides in
/-- Methods whose override logs START before and COMPLETE (with the call's error) after calling the
same method of the inner storage. -/
def bracketed : List String :=
  if Gen.AuditOverrides.runBrackets then
    (Gen.AuditOverrides.overrideFacts.filter fun f => f.2.2.2.1 && f.2.2.2.2.1 && f.2.2.2.2.2 == f.1).map (·.1)
  else []

/-- The storage calls the middleware does not record: it inherits `DelegatingStorage`'s pass-through.
FLIP when the overrides are added (fixes/C26-record-all-storage-calls.patch): set this list to `[]`
and delete `unrecorded_calls_witness` and `not_every_call_bracketed`. -/
def knownUnrecorded : List String := []   -- repaired in /repo da7bacf (were: the notification-configuration, tagging and transition calls)

/-- **every_call_bracketed (partial)**: every method of `storage.Storage`'s managers, except the six
listed, is overridden by a START / inner call / COMPLETE(err) bracket. `decide` over the generated
table: removing an override, or its START or COMPLETE, breaks this theorem. -/
theorem every_call_bracketed_partial :
    ∀ m ∈ Gen.AuditOverrides.storageMethods, m ∉ knownUnrecorded → m ∈ bracketed := by decide

/-- **every_call_bracketed** (full, since /repo da7bacf): every method of `storage.Storage`'s
managers is overridden by a START / inner call / COMPLETE(err) bracket. -/
theorem every_call_bracketed :
    ∀ m ∈ Gen.AuditOverrides.storageMethods, m ∈ bracketed := by decide

/-- Every operation name the overrides log is distinct per method (a log entry identifies its call kind). -/
theorem operations_distinct :
    ((Gen.AuditOverrides.overrideFacts.map (·.2.1))).Nodup := by decide

/-- The critical section of `log` and `emitGrounding` is what the writer model's `wLog` does, in one
`mu` region: previous hash := lastHash, sign, write, lastHash := hash, buffer += hash, grounding when
full (root over the buffer, both root signatures, previous hash := lastHash, sign, write, lastHash :=
hash, buffer := empty). Splitting the region or reordering these steps changes the generated list. -/
theorem critical_section_as_modelled :
    Gen.AuditOverrides.logCritical =
      ["lock", "defer-unlock", "prev:=lastHash", "sign", "write{", "lastHash:=hash", "buffer+=hash",
       "if-full:emitGrounding", "}"] ∧
    Gen.AuditOverrides.groundingCritical =
      ["root:=merkle(buffer)", "sigEd:=sign(root)", "sigMl:=sign(root)",
       "grounding{prev:=lastHash,root,sigEd,sigMl}", "sign", "write{", "lastHash:=hash", "buffer:=empty", "}"] := by
  decide
end Pithos.C26
