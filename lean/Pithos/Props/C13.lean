/-
C13 — an existing object version never changes under the caller.
-/
import Pithos.Lemmas.S3FrozenStep
import Pithos.Props.C01

namespace Pithos.C13
open Pithos.S3

/-- **version_frozen.** In a bucket whose versioning is Enabled or Suspended, take any row `r` that
carries a version id (a ULID version or a delete marker — not the null version). After ANY
operation that is not a delete — writes, copies, appends, multipart operations, tag changes,
versioning-state changes, storage-class transitions, bucket operations, reads — the bucket still
holds a row with the same row id, key, version id, delete-marker flag, parts (hence content and
size) and ETag. When Last-Modified is not bumped by mere row saves (`touchOnAnySave = false`) its
`updated` value is unchanged too. Holds for every state satisfying the row invariant, i.e. every
reachable state, for the code's append behaviour since /repo 8a5dc41 (`appendLatestInPlace = false`). -/
theorem version_frozen (q : Quirks) (hq : q.appendLatestInPlace = false) (s : State) (hinv : Inv s) (op : Op)
    (b : String) (bk : Bucket) (r : Row) (hfb : findBucket s b = some bk) (hver : bk.ver ≠ .off)
    (hr : r ∈ bk.rows) (hv : r.vid ≠ none) (hnd : ∀ b' k vid im, op ≠ .del b' k vid im) :
    ∃ bk', findBucket (step q s op).1 b = some bk' ∧ ∃ r' ∈ bk'.rows, frozenEq q r r' :=
  version_frozen_T q hq _ (inv_tick hinv) op b bk r hfb hver hr hv hnd

/-- The same after any history: the state reached by `ops` satisfies the invariant. -/
theorem version_frozen_reachable (q : Quirks) (hq : q.appendLatestInPlace = false) (ops : List Op) (op : Op)
    (b : String) (bk : Bucket) (r : Row) (hfb : findBucket (run q {} ops).1 b = some bk) (hver : bk.ver ≠ .off)
    (hr : r ∈ bk.rows) (hv : r.vid ≠ none) (hnd : ∀ b' k vid im, op ≠ .del b' k vid im) :
    ∃ bk', findBucket (step q (run q {} ops).1 op).1 b = some bk' ∧ ∃ r' ∈ bk'.rows,
      r'.parts = r.parts ∧ r'.etag = r.etag ∧ r'.vid = r.vid ∧ r'.key = r.key ∧
      (q.touchOnAnySave = false → r'.updated = r.updated) := by
  obtain ⟨bk', h1, r', h2, h3⟩ := version_frozen q hq _ (C01.reachable_inv q ops) op b bk r hfb hver hr hv hnd
  exact ⟨bk', h1, r', h2, h3.2.2.2.2.1.symm, h3.2.2.2.2.2.1.symm, h3.2.2.1.symm, h3.2.1.symm,
    fun h => (h3.2.2.2.2.2.2 h).symm⟩

/-- **Negation witness (Last-Modified), code as it is** (`Quirks.code`: `touchOnAnySave = true`):
version v0 is written, then v1 is written to the same key; v0's `updated` (Last-Modified) moves,
because clearing its `is_latest` flag is a row save. Known finding C13.version-changed.last-modified. -/
def lmOps : List Op :=
  [.mkb "b", .setVer "b" .enabled, .put "b" "k" [1] {} false .none]

theorem code_bumps_last_modified :
    (match (step Quirks.code (run Quirks.code {} lmOps).1 (.head "b" "k" (some (some 0)))).2,
           (step Quirks.code (step Quirks.code (run Quirks.code {} lmOps).1 (.put "b" "k" [2] {} false .none)).1
              (.head "b" "k" (some (some 0)))).2 with
     | .obj v, .obj v' => (v.updated, v'.updated, v.body == v'.body)
     | _, _ => (0, 0, false)) = (3, 4, true) := by
  decide

/-- …while the reference behaviour (`touchOnAnySave = false`) leaves it alone on the same history. -/
theorem reference_keeps_last_modified :
    (match (step Quirks.none (run Quirks.none {} lmOps).1 (.head "b" "k" (some (some 0)))).2,
           (step Quirks.none (step Quirks.none (run Quirks.none {} lmOps).1 (.put "b" "k" [2] {} false .none)).1
              (.head "b" "k" (some (some 0)))).2 with
     | .obj v, .obj v' => (v.updated, v'.updated)
     | _, _ => (0, 1)) = (3, 3) := by
  decide

/-- **Negation witness for the code before /repo 8a5dc41** (`appendLatestInPlace = true`): in a
suspended bucket an append extended the current ULID version in place — content of v0 changed. -/
theorem before_fix_append_mutates_version :
    let ops : List Op := [.mkb "b", .setVer "b" .enabled, .put "b" "k" [1] {} false .none, .setVer "b" .suspended,
                          .append "b" "k" [9] none]
    (match (step Quirks.beforeAppendFix (run Quirks.beforeAppendFix {} ops).1 (.get "b" "k" (some (some 0)))).2 with
     | .obj v => v.body | _ => []) = [1, 9] ∧
    (match (step Quirks.code (run Quirks.code {} ops).1 (.get "b" "k" (some (some 0)))).2 with
     | .obj v => v.body | _ => []) = [1] := by
  decide

end Pithos.C13
