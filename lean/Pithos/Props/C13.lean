/-
C13 — an existing object version never changes under the caller.
-/
import Pithos.Lemmas.S3FrozenStep
import Pithos.Lemmas.S3EditStep
import Pithos.Props.C01

namespace Pithos.C13
open Pithos.S3

/-- The deletes that may remove or replace version `r` of bucket `b`: the explicit delete of that
very version, and — only while the bucket is unversioned — a key-only delete of its key. -/
def DeletesVersion (op : Op) (b : String) (bk : Bucket) (r : Row) : Prop :=
  ∃ k' vid im, op = .del b k' vid im ∧ k' = r.key ∧ (vid = some r.vid ∨ (vid = none ∧ bk.ver = .off))

/-- **version_frozen.** Take any row `r` that carries a version id (a ULID version or a delete
marker — not the null version). After ANY operation other than the explicit delete of that very
version (and other than a key-only delete in an unversioned bucket) — writes, copies, appends,
multipart operations, tag changes, versioning-state changes, storage-class transitions, bucket
operations, reads, key-only deletes in a versioned bucket, explicit deletes of OTHER versions
including the one that makes `r` current again — the bucket still holds a row with the same row id,
key, version id, delete-marker flag, parts (hence content and size) and ETag. When Last-Modified
is not bumped by mere row saves (`touchOnAnySave = false`) its `updated` value is unchanged too.
Holds for every state satisfying the row invariant, i.e. every reachable state, for the code's
append behaviour since /repo 8a5dc41 (`appendLatestInPlace = false`). -/
theorem version_frozen (q : Quirks) (hq : q.appendLatestInPlace = false) (s : State) (hinv : Inv s) (op : Op)
    (b : String) (bk : Bucket) (r : Row) (hfb : findBucket s b = some bk)
    (hr : r ∈ bk.rows) (hv : r.vid ≠ none) (hnd : ¬ DeletesVersion op b bk r) :
    ∃ bk', findBucket (step q s op).1 b = some bk' ∧ ∃ r' ∈ bk'.rows, frozenEq q r r' := by
  refine version_frozen_T q hq _ (inv_tick hinv) op b bk r hfb hr hv ?_
  intro b' k' vid im hop hbb
  subst hbb
  constructor
  · intro h; exact hnd ⟨k', vid, im, hop, h.1, Or.inl h.2⟩
  · intro hvn hoff hk; exact hnd ⟨k', vid, im, hop, hk, Or.inr ⟨hvn, hoff⟩⟩

/-- The same after any history: the state reached by `ops` satisfies the invariant. -/
theorem version_frozen_reachable (q : Quirks) (hq : q.appendLatestInPlace = false) (ops : List Op) (op : Op)
    (b : String) (bk : Bucket) (r : Row) (hfb : findBucket (run q {} ops).1 b = some bk)
    (hr : r ∈ bk.rows) (hv : r.vid ≠ none) (hnd : ¬ DeletesVersion op b bk r) :
    ∃ bk', findBucket (step q (run q {} ops).1 op).1 b = some bk' ∧ ∃ r' ∈ bk'.rows,
      r'.parts = r.parts ∧ r'.etag = r.etag ∧ r'.vid = r.vid ∧ r'.key = r.key ∧
      (q.touchOnAnySave = false → r'.updated = r.updated) := by
  obtain ⟨bk', h1, r', h2, h3⟩ := version_frozen q hq _ (C01.reachable_inv q ops) op b bk r hfb hr hv hnd
  exact ⟨bk', h1, r', h2, h3.2.2.2.2.1.symm, h3.2.2.2.2.2.1.symm, h3.2.2.1.symm, h3.2.1.symm,
    fun h => (h3.2.2.2.2.2.2 h).symm⟩

/-- Deletes that can be recognised as harmless for version `r` of (b, key) from the operation
alone (without knowing the bucket's versioning state): anything that is not a delete, deletes in
other buckets or of other keys, and explicit deletes of other version ids. -/
def HarmlessFor (op : Op) (b key : String) (vid : Option Nat) : Prop :=
  ∀ b' k' v im, op = .del b' k' v im → b' ≠ b ∨ k' ≠ key ∨ ∃ w, v = some w ∧ w ≠ vid

/-- **version_frozen_run.** Through ANY sequence of such operations the version persists with the
same content: induction over the sequence, each step by `version_frozen_T`. -/
theorem version_frozen_run (q : Quirks) (hq : q.appendLatestInPlace = false) (ops : List Op) (b : String) (r : Row)
    (hv : r.vid ≠ none) (hops : ∀ op ∈ ops, HarmlessFor op b r.key r.vid) :
    ∀ (s : State) (bk : Bucket), Inv s → findBucket s b = some bk → (∃ r0 ∈ bk.rows, frozenEq q r r0) →
      ∃ bk', findBucket (run q s ops).1 b = some bk' ∧ ∃ r' ∈ bk'.rows, frozenEq q r r' := by
  induction ops with
  | nil => intro s bk _ hfb h; exact ⟨bk, hfb, h⟩
  | cons op ops ih =>
    intro s bk hinv hfb ⟨r0, hr0, he0⟩
    have hstep : ∃ bk1, findBucket (step q s op).1 b = some bk1 ∧ ∃ r1 ∈ bk1.rows, frozenEq q r0 r1 := by
      refine version_frozen_T q hq _ (inv_tick hinv) op b bk r0 hfb hr0 (by rw [← he0.2.2.1]; exact hv) ?_
      intro b' k' vid im hop hbb
      rcases hops op (by simp) b' k' vid im hop with h | h | ⟨w, hw, hne⟩
      · exact absurd hbb h
      · exact ⟨fun hh => h (by rw [hh.1, ← he0.2.1]), fun _ _ hk => h (by rw [hk, ← he0.2.1])⟩
      · exact ⟨fun hh => hne (by rw [hw] at hh; injection hh.2 with e; rw [e, ← he0.2.2.1]), fun hvn => by rw [hw] at hvn; cases hvn⟩
    obtain ⟨bk1, hfb1, r1, hr1, he1⟩ := hstep
    have := ih (fun o ho => hops o (List.mem_cons_of_mem _ ho)) (step q s op).1 bk1 (step_inv q s op hinv) hfb1
      ⟨r1, hr1, he0.trans he1⟩
    simpa [run] using this

/-- **version_get_stable.** What the caller sees: take any reachable state and any object version
`r` with a version id in it. After ANY further sequence of operations that does not explicitly
delete that version (`HarmlessFor`), GET with that version id returns the same bytes, the same
size and the same ETag. -/
theorem version_get_stable (q : Quirks) (hq : q.appendLatestInPlace = false) (pre ops : List Op) (b : String)
    (bk : Bucket) (r : Row) (hfb : findBucket (run q {} pre).1 b = some bk) (hr : r ∈ bk.rows)
    (hv : r.vid ≠ none) (hdm : r.dm = false) (hops : ∀ op ∈ ops, HarmlessFor op b r.key r.vid) :
    ∃ v, (step q (run q (run q {} pre).1 ops).1 (.get b r.key (some r.vid))).2 = .obj v ∧
      v.body = r.content ∧ v.size = r.size ∧ v.etag = r.etag ∧ v.vid = r.vid := by
  obtain ⟨hinv0, hvinv0⟩ := run_vinv q hq pre {} (by intro bk hbk; cases hbk) (by intro bk hbk; cases hbk)
  obtain ⟨bk', hfb', r', hr', he⟩ := version_frozen_run q hq ops b r hv hops _ bk hinv0 hfb ⟨r, hr, frozenEq.refl q r⟩
  obtain ⟨_, hvinv1⟩ := run_vinv q hq ops _ hinv0 hvinv0
  have hrow := rowByVid_of_mem (hvinv1 bk' (findBucket_mem hfb')) hr'
  rw [← he.2.1, ← he.2.2.1] at hrow
  have hfb2 : findBucket { (run q (run q {} pre).1 ops).1 with clock := (run q (run q {} pre).1 ops).1.clock + 1 } b = some bk' := hfb'
  have hdm' : r'.dm = false := by rw [← he.2.2.2.1]; exact hdm
  refine ⟨viewOf r', ?_, ?_, ?_, ?_, ?_⟩
  · simp [step, stepT, hfb2, resolve, hrow, hdm']
  · simp [viewOf, Row.content, he.2.2.2.2.1]
  · simp [viewOf, Row.size, Row.content, he.2.2.2.2.1]
  · simp [viewOf, he.2.2.2.2.2.1]
  · simp [viewOf, he.2.2.1]


/-- **Negation witness (Last-Modified), code as it is** (`Quirks.code`: `touchOnAnySave = true`):
version v0 is written, then v1 is written to the same key; v0's `updated` (Last-Modified) moves,
because clearing its `is_latest` flag is a row save. Known finding C13.version-changed.last-modified. -/
def lmOps : List Op :=
  [.mkb "b", .setVer "b" .enabled, .put "b" "k" [1] {} false .none]

theorem code_bumps_last_modified :
    (match (step Quirks.code (run Quirks.code {} lmOps).1 (.head "b" "k" (some (some 0)))).2,
           (step Quirks.code (step Quirks.code (run Quirks.code {} lmOps).1 (.put "b" "k" [2] {} false .none)).1
              (.head "b" "k" (some (some 0)))).2 with
     | .obj v, .obj v' => (v.updated, v'.updated, v.body == v'.body)
     | _, _ => (0, 0, false)) = (3, 4, true) := by
  decide

/-- …while the reference behaviour (`touchOnAnySave = false`) leaves it alone on the same history. -/
theorem reference_keeps_last_modified :
    (match (step Quirks.none (run Quirks.none {} lmOps).1 (.head "b" "k" (some (some 0)))).2,
           (step Quirks.none (step Quirks.none (run Quirks.none {} lmOps).1 (.put "b" "k" [2] {} false .none)).1
              (.head "b" "k" (some (some 0)))).2 with
     | .obj v, .obj v' => (v.updated, v'.updated)
     | _, _ => (0, 1)) = (3, 3) := by
  decide

/-- **Negation witness for the code before /repo 8a5dc41** (`appendLatestInPlace = true`): in a
suspended bucket an append extended the current ULID version in place — content of v0 changed. -/
theorem before_fix_append_mutates_version :
    let ops : List Op := [.mkb "b", .setVer "b" .enabled, .put "b" "k" [1] {} false .none, .setVer "b" .suspended,
                          .append "b" "k" [9] none]
    (match (step Quirks.beforeAppendFix (run Quirks.beforeAppendFix {} ops).1 (.get "b" "k" (some (some 0)))).2 with
     | .obj v => v.body | _ => []) = [1, 9] ∧
    (match (step Quirks.code (run Quirks.code {} ops).1 (.get "b" "k" (some (some 0)))).2 with
     | .obj v => v.body | _ => []) = [1] := by
  decide

end Pithos.C13
