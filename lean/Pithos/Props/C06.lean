/-
C06 — listings are complete, ordered, duplicate-free and prefix-exact. (theorems: work in progress)
-/
import Pithos.Model.Listing

namespace Pithos.C06
open Pithos.Listing

/-- The regenerated statement table has the one-shape-per-family form the model interprets. -/
theorem gen_consistent : genConsistent = true := by decide

end Pithos.C06
