/-
C06 — listings are complete, ordered, duplicate-free and prefix-exact.

Property theorems only. Model: `Pithos.Model.Listing` (the code as it is, prefix predicate selected
by the regenerated statement text `Pithos.Gen.ListingSql`); spec: `Pithos.Spec.S3List`; helper
lemmas: `Pithos.Lemmas.Listing`. All statements are for EVERY table, prefix, start marker and page
size ≥ 1 — no bound. `delim.length ≤ 1` = no delimiter or a one-byte delimiter.

What holds for the code as it is, and what does not:
* ListParts (storage + HTTP) ........................ full (`parts_*_pages_exact`)
* ListObjectVersions (storage = HTTP) ............... full for a byte-exact prefix predicate and
  partial for `LIKE` (`LikeSafe` prefix), both under `OrderAgree` — the `null` version sorts
  last even when it is the newest (`versions_null_order_witness`)
* ListObjects v1/v2, ListMultipartUploads over HTTP . without delimiter: as for versions
  (`objects_asis_nodelim`, `uploads_asis_nodelim`); with a delimiter the as-is paging loses and
  repeats entries (`*_delimiter_paging_*` witnesses); the full theorem is proved for the
  reference paging (`objects_reference_pages_exact`, `uploads_reference_pages_exact`)
* `LIKE` itself: `like_*_witness` (case folding, `%`, `_`), `like_exact_partial`
* delimiters of two or more bytes: `multichar_delimiter_witness`
-/
import Pithos.Lemmas.Listing

namespace Pithos.C06
open Pithos.Listing Pithos.S3List

/-! ## T1: the statement table the model was selected by -/

/-- The regenerated statement table has the one-shape-per-family form the model interprets
(same prefix predicate in find / find-with-limit / count, the recognised marker predicates, ORDER BY
and LIMIT). -/
theorem gen_consistent : genConsistent = true := by decide

/-! ## Hypotheses of the partial theorems -/

/-- The prefix predicate is byte-exact: either the statement is the exact form, or it is `LIKE`
and the prefix contains no `%`, no `_` and no ASCII letter. -/
def FilterExact (f : PrefixFilter) (pfx : Key) : Prop := f = .exact ∨ LikeSafe pfx = true

/-- Inside every key the implementation's order key (`sub`: ULID rank, `0` for `null`) orders the
rows like S3's order key (`seq`: initiation order / write sequence). For uploads this is "ULIDs
sort by creation time"; for versions additionally "the `null` version is the oldest of its key". -/
def OrderAgree (table : List Row) : Prop :=
  ∀ a ∈ table, ∀ b ∈ table, a.key = b.key → (a.sub ≤ b.sub ↔ a.seq ≤ b.seq)

/-! ## LIKE -/

/-- **like_exact_partial.** For a prefix without `%`, `_` and ASCII letters, SQLite's
`key LIKE prefix || '%'` selects exactly the keys that start with the prefix byte for byte. -/
theorem like_exact_partial (pfx : Key) (h : LikeSafe pfx = true) (k : Key) :
    matchPrefix .like pfx k = pfx.isPrefixOf k :=
  sqliteLike_eq_isPrefixOf pfx h k

/-- Negation witness: prefix `A` selects `abc`. -/
theorem like_case_insensitive_witness :
    matchPrefix .like [0x41] [0x61, 0x62, 0x63] = true ∧ List.isPrefixOf [0x41] [0x61, 0x62, 0x63] = false := by
  decide

/-- Negation witness: prefix `a%` selects `Abd` and `abc`. -/
theorem like_percent_witness :
    matchPrefix .like [0x61, 0x25] [0x41, 0x62, 0x64] = true ∧ matchPrefix .like [0x61, 0x25] [0x61, 0x62, 0x63] = true ∧
    List.isPrefixOf [0x61, 0x25] [0x61, 0x62, 0x63] = false := by
  decide

/-- Negation witness: prefix `_b` selects `éb` (`_` = one character, two bytes here). -/
theorem like_underscore_witness :
    matchPrefix .like [0x5F, 0x62] [0xC3, 0xA9, 0x62] = true ∧ List.isPrefixOf [0x5F, 0x62] [0xC3, 0xA9, 0x62] = false := by
  decide

/-- Non-vacuity of `LikeSafe`: the prefix `0/1é-` is safe. -/
example : LikeSafe [0x30, 0x2F, 0x31, 0xC3, 0xA9, 0x2D] = true := by decide

/-! ## Grouping -/

/-- For a delimiter of at most one byte, `determineCommonPrefix` and the `Contains(TrimPrefix …)`
test group exactly like S3 on every key that starts with the prefix. -/
theorem code_grouping_exact (pfx delim k : Key) (hd : delim.length ≤ 1) (hp : pfx.isPrefixOf k = true) :
    codeCP pfx delim k = groupOf pfx delim k ∧ codeKeep pfx delim k = (groupOf pfx delim k).isNone :=
  code_grouping_eq pfx delim k hd hp

/-- Negation witness for longer delimiters: prefix `a`, delimiter `aa`, key `aab` — the rest `ab`
does not contain `aa`, yet the code reports the common prefix `aa` (and lists the key as well). -/
theorem multichar_delimiter_witness :
    codeCP [0x61] [0x61, 0x61] [0x61, 0x61, 0x62] = some [0x61, 0x61] ∧
    groupOf [0x61] [0x61, 0x61] [0x61, 0x61, 0x62] = none ∧
    codeKeep [0x61] [0x61, 0x61] [0x61, 0x61, 0x62] = true := by
  decide

/-! ## ListParts (code as it is): full -/

/-- **parts_http_pages_exact.** ListParts over HTTP: following NextPartNumberMarker until
IsTruncated = false yields every part after the marker exactly once, ascending, nothing else. -/
theorem parts_http_pages_exact (parts : List Nat) (maxParts : Nat) (marker : Option Nat)
    (hmax : 1 ≤ maxParts) (hnd : parts.Nodup) :
    (followPartsHttp parts maxParts marker).2 = .done ∧
    ((followPartsHttp parts maxParts marker).1.map (·.items)).flatten = expectedParts parts (marker.getD 0) ∧
    ∀ p ∈ (followPartsHttp parts maxParts marker).1, p.items.length ≤ maxParts :=
  parts_http_follow parts maxParts marker hmax hnd

/-- **parts_storage_pages_exact.** The same at the storage API. -/
theorem parts_storage_pages_exact (parts : List Nat) (maxParts marker : Nat)
    (hmax : 1 ≤ maxParts) (hnd : parts.Nodup) :
    (followPartsStorage parts maxParts marker).2 = .done ∧
    ((followPartsStorage parts maxParts marker).1.map (·.parts)).flatten = expectedParts parts marker ∧
    ∀ p ∈ (followPartsStorage parts maxParts marker).1, p.parts.length ≤ maxParts :=
  parts_storage_follow parts maxParts marker hmax hnd

/-! ## ListObjectVersions (code as it is) -/

theorem listing_congr {α : Type} (keyOf : α → Key) (pfx delim : Key) {a1 a2 : α → Bool} (rows : List α)
    (h : ∀ r ∈ rows, a1 r = a2 r) : listing keyOf pfx delim a1 rows = listing keyOf pfx delim a2 rows := by
  simp only [listing]
  congr 2
  apply List.filter_congr
  intro r hr
  rw [h r hr]

/-- **versions_pages_exact** (partial: `FilterExact`, `OrderAgree`). ListObjectVersions — the HTTP
handler returns the storage result unchanged — for every table of versions and delete markers with
distinct `(key, version id)`, every prefix, delimiter of at most one byte, key-marker with or
without the version-id-marker of an existing version, and page size ≥ 1: following
NextKeyMarker / NextVersionIdMarker terminates with IsTruncated = false and the pages concatenate
to exactly the S3 listing; no page exceeds max-keys. -/
theorem versions_pages_exact (f : PrefixFilter) (table : List Row) (pfx delim km : Key)
    (mrow : Option Row) (maxKeys : Nat) (hmax : 1 ≤ maxKeys) (hd : delim.length ≤ 1)
    (hf : FilterExact f pfx) (hnd : (table.map fun r => (r.key, r.sub)).Nodup)
    (hagree : OrderAgree table) (hm : ∀ x, mrow = some x → x ∈ table ∧ x.key = km) :
    (followVersions f table pfx delim km ((mrow.map (·.sub)).getD 0) maxKeys).2 = .done ∧
    PagesExact maxKeys ((followVersions f table pfx delim km ((mrow.map (·.sub)).getD 0) maxKeys).1.map (·.entries))
      (expectedVersions table pfx delim km (mrow.map (·.seq))) := by
  obtain ⟨h1, h2, h3⟩ := versions_follow f table pfx delim km ((mrow.map (·.sub)).getD 0) maxKeys hmax hd hf hnd
  refine ⟨h1, ?_, ?_⟩
  · rw [h2, expectedVersions]
    have hsort : sortBy Listing.rowLeDesc table = sortBy S3List.rowLeDesc table := by
      apply sortBy_congr
      intro a ha b hb
      simp only [Listing.rowLeDesc, S3List.rowLeDesc]
      by_cases hk : a.key = b.key
      · have := hagree b hb a ha hk.symm
        simp [hk, this]
      · have : (a.key == b.key) = false := by simpa using hk
        simp [this]
    rw [hsort]
    apply listing_congr
    intro r hr
    have hrt : r ∈ table := (perm_sortBy S3List.rowLeDesc table).subset hr
    cases mrow with
    | none => simp [afterVersion, olderThan]
    | some x =>
      obtain ⟨hxt, hxk⟩ := hm x rfl
      simp only [afterVersion, olderThan, Option.map_some, Option.getD_some]
      by_cases hk : r.key = km
      · have h1 := hagree x hxt r hrt (by rw [hxk, hk])
        have : (r.sub < x.sub) ↔ (r.seq < x.seq) := by omega
        simp [hk, this]
      · have : (r.key == km) = false := by simpa using hk
        simp [this]
  · intro p hp
    obtain ⟨q, hq, rfl⟩ := List.mem_map.mp hp
    exact h3 q hq

/-- Negation witness (`OrderAgree` fails): key `k` with a ULID version written first (`seq 1`) and
the `null` version written after it (`seq 2`, e.g. a PUT while versioning is suspended). S3 lists the
`null` version first; the code lists it last. -/
theorem versions_null_order_witness :
    let table : List Row := [⟨[0x6B], 1, 1⟩, ⟨[0x6B], 0, 2⟩]
    ((followVersions .exact table [] [] [] 0 10).1.map (·.entries)).flatten
      = [.item ⟨[0x6B], 1, 1⟩, .item ⟨[0x6B], 0, 2⟩] ∧
    expectedVersions table [] [] [] none = [.item ⟨[0x6B], 0, 2⟩, .item ⟨[0x6B], 1, 1⟩] := by
  decide

/-- Non-vacuity: a table with a `null` version older than two ULID versions and a second key meets
`OrderAgree` and the distinctness hypothesis. -/
example : OrderAgree [⟨[0x6B], 0, 1⟩, ⟨[0x6B], 1, 2⟩, ⟨[0x6B], 2, 5⟩, ⟨[0x6A], 3, 4⟩] ∧
    (([⟨[0x6B], 0, 1⟩, ⟨[0x6B], 1, 2⟩, ⟨[0x6B], 2, 5⟩, ⟨[0x6A], 3, 4⟩] : List Row).map fun r => (r.key, r.sub)).Nodup := by
  refine ⟨?_, by decide⟩
  intro a ha b hb _
  simp only [List.mem_cons, List.not_mem_nil, or_false] at ha hb
  rcases ha with rfl | rfl | rfl | rfl <;> rcases hb with rfl | rfl | rfl | rfl <;> simp_all

/-! ## ListObjects -/

/-- **objects_reference_pages_exact** (full, reference variant). With a byte-exact prefix
predicate and the reference delimiter paging, ListObjects delivers exactly the S3 listing for
every key set, prefix, delimiter of at most one byte, start marker and page size ≥ 1. -/
theorem objects_reference_pages_exact (table : List Key) (pfx delim start : Key) (maxKeys : Nat)
    (hmax : 1 ≤ maxKeys) (hd : delim.length ≤ 1) (hnd : table.Nodup) :
    (followRefObjects .exact table pfx delim maxKeys start).2 = .done ∧
    PagesExact maxKeys ((followRefObjects .exact table pfx delim maxKeys start).1.map (·.entries))
      (expectedObjects table pfx delim start) := by
  obtain ⟨h1, h2, h3⟩ := refObjects_follow .exact table pfx delim start maxKeys hmax hd (Or.inl rfl) hnd
  refine ⟨h1, h2, ?_⟩
  intro p hp
  obtain ⟨q, hq, rfl⟩ := List.mem_map.mp hp
  exact h3 q hq

/-- **objects_asis_nodelim** (partial: no delimiter, `FilterExact`). ListObjects v1 and v2 as they
are (`listObjects` + `listAndFilterObjects` + handlers): without a delimiter, following NextMarker /
NextContinuationToken terminates and yields exactly the keys that start with the prefix and lie
after the start marker, each once, in byte order, and never a common prefix. -/
theorem objects_asis_nodelim (f : PrefixFilter) (table : List Key) (pfx : Key) (maxKeys : Nat)
    (start : Option Key) (hmax : 1 ≤ maxKeys) (hf : FilterExact f pfx) (hnd : table.Nodup) :
    (followObjectsHttp f table pfx [] maxKeys start).2 = .done ∧
    PagesExact maxKeys ((followObjectsHttp f table pfx [] maxKeys start).1.map fun p => p.items.map Entry.item)
      (expectedObjects table pfx [] (start.getD [])) ∧
    ∀ p ∈ (followObjectsHttp f table pfx [] maxKeys start).1, p.cps = [] := by
  obtain ⟨h1, h2, h3⟩ := objects_http_nodelim f table pfx maxKeys start hmax hf hnd
  refine ⟨h1, ⟨?_, ?_⟩, fun p hp => (h3 p hp).2⟩
  · rw [expectedObjects, listing_eq_listed, listed_nodelim]
    have : (followObjectsHttp f table pfx [] maxKeys start).1.map (fun p => p.items.map Entry.item)
        = ((followObjectsHttp f table pfx [] maxKeys start).1.map (·.items)).map (List.map Entry.item) := by
      simp [List.map_map, Function.comp_def]
    rw [this, ← List.map_flatten, h2]
    rfl
  · intro p hp
    obtain ⟨q, hq, rfl⟩ := List.mem_map.mp hp
    simpa using (h3 q hq).1

/-- The same for the prefix predicate the current statement text selects. -/
theorem objects_current_nodelim (table : List Key) (pfx : Key) (maxKeys : Nat) (start : Option Key)
    (hmax : 1 ≤ maxKeys) (hf : FilterExact objectsFilter pfx) (hnd : table.Nodup) :
    (followObjectsHttp objectsFilter table pfx [] maxKeys start).2 = .done ∧
    PagesExact maxKeys ((followObjectsHttp objectsFilter table pfx [] maxKeys start).1.map fun p => p.items.map Entry.item)
      (expectedObjects table pfx [] (start.getD [])) :=
  let h := objects_asis_nodelim objectsFilter table pfx maxKeys start hmax hf hnd
  ⟨h.1, h.2.1⟩

/-- Negation witness (LIKE): keys `abc`, `b`; prefix `A`: the code lists `abc`, S3 lists nothing. -/
theorem objects_like_witness :
    ((followObjectsHttp .like [[0x61, 0x62, 0x63], [0x62]] [0x41] [] 5 none).1.map (·.items)).flatten = [[0x61, 0x62, 0x63]] ∧
    expectedObjects [[0x61, 0x62, 0x63], [0x62]] [0x41] [] [] = [] := by
  decide

/-- Negation witness (delimiter paging, independent of LIKE): keys `a`, `b/1`, `c`, delimiter `/`,
max-keys 1: the pages are `[a]`, `[c]`, `[]` — the common prefix `b/` is never returned. -/
theorem objects_delimiter_paging_loses_prefix :
    let keys : List Key := [[0x61], [0x62, 0x2F, 0x31], [0x63]]
    (followObjectsHttp .exact keys [] [0x2F] 1 none).1.map (fun p => (p.items, p.cps, p.truncated))
      = [([[0x61]], [], true), ([[0x63]], [], true), ([], [], false)] ∧
    expectedObjects keys [] [0x2F] [] = [.item [0x61], .cp [0x62, 0x2F], .item [0x63]] := by
  decide

/-- Negation witness: keys `a/1`, `a/2`, `a/3`, `z`, delimiter `/`, max-keys 2: `z` is returned twice. -/
theorem objects_delimiter_paging_duplicates_key :
    let keys : List Key := [[0x61, 0x2F, 0x31], [0x61, 0x2F, 0x32], [0x61, 0x2F, 0x33], [0x7A]]
    ((followObjectsHttp .exact keys [] [0x2F] 2 none).1.map (·.items)).flatten = [[0x7A], [0x7A]] ∧
    expectedObjects keys [] [0x2F] [] = [.cp [0x61, 0x2F], .item [0x7A]] := by
  decide

/-- Non-vacuity of the reference theorem on the same inputs: the reference paging returns `a`,
`b/`, `c` in three pages of one. -/
example : ((followRefObjects .exact [[0x61], [0x62, 0x2F, 0x31], [0x63]] [] [0x2F] 1 []).1.map (·.entries))
    = [[.item [0x61]], [.cp [0x62, 0x2F]], [.item [0x63]]] := by decide

/-! ## ListMultipartUploads -/

theorem uploads_order_congr (table : List Row) (hagree : OrderAgree table) :
    sortBy Listing.rowLeAsc table = sortBy S3List.rowLeAsc table := by
  apply sortBy_congr
  intro a ha b hb
  simp only [Listing.rowLeAsc, S3List.rowLeAsc]
  by_cases hk : a.key = b.key
  · have := hagree a ha b hb hk
    simp [hk, this]
  · have : (a.key == b.key) = false := by simpa using hk
    simp [this]

theorem uploads_after_congr (table : List Row) (hagree : OrderAgree table) (km : Key) (mrow : Option Row)
    (hm : ∀ x, mrow = some x → x ∈ table ∧ x.key = km ∧ x.sub ≠ 0) (r : Row) (hrt : r ∈ table) :
    afterUpload km ((mrow.map (·.sub)).getD 0) r
      = (keyLt km r.key || (r.key == km && afterSeq (mrow.map (·.seq)) r.seq)) := by
  cases mrow with
  | none => simp [afterUpload, afterSeq]
  | some x =>
    obtain ⟨hxt, hxk, hx0⟩ := hm x rfl
    have hne : (x.sub != 0) = true := by simpa using hx0
    simp only [afterUpload, afterSeq, Option.map_some, Option.getD_some, hne, Bool.true_and]
    by_cases hk : r.key = km
    · have h1 := hagree r hrt x hxt (by rw [hxk, hk])
      have : (x.sub < r.sub) ↔ (x.seq < r.seq) := by omega
      simp [hk, this]
    · have : (r.key == km) = false := by simpa using hk
      simp [this]

/-- **uploads_reference_pages_exact** (full, reference variant; `OrderAgree` = upload ids sort by
initiation time). -/
theorem uploads_reference_pages_exact (table : List Row) (pfx delim km : Key) (mrow : Option Row)
    (maxUploads : Nat) (hmax : 1 ≤ maxUploads) (hd : delim.length ≤ 1)
    (hnd : (table.map fun r => (r.key, r.sub)).Nodup) (hsub : ∀ r ∈ table, r.sub ≠ 0)
    (hagree : OrderAgree table) (hm : ∀ x, mrow = some x → x ∈ table ∧ x.key = km ∧ x.sub ≠ 0) :
    (followRefUploads .exact table pfx delim maxUploads km ((mrow.map (·.sub)).getD 0)).2 = .done ∧
    PagesExact maxUploads
      ((followRefUploads .exact table pfx delim maxUploads km ((mrow.map (·.sub)).getD 0)).1.map (·.entries))
      (expectedUploads table pfx delim km (mrow.map (·.seq))) := by
  obtain ⟨h1, h2, h3⟩ := refUploads_follow .exact table pfx delim km ((mrow.map (·.sub)).getD 0) maxUploads
    hmax hd (Or.inl rfl) hnd hsub
  refine ⟨h1, ?_, ?_⟩
  · rw [h2, expectedUploads, uploads_order_congr table hagree]
    apply listing_congr
    intro r hr
    exact uploads_after_congr table hagree km mrow hm r ((perm_sortBy S3List.rowLeAsc table).subset hr)
  · intro p hp
    obtain ⟨q, hq, rfl⟩ := List.mem_map.mp hp
    exact h3 q hq

/-- **uploads_asis_nodelim** (partial: no delimiter, `FilterExact`, `OrderAgree`).
ListMultipartUploads over HTTP as it is. -/
theorem uploads_asis_nodelim (f : PrefixFilter) (table : List Row) (pfx : Key) (maxUploads : Nat)
    (km : Option Key) (mrow : Option Row) (hmax : 1 ≤ maxUploads) (hf : FilterExact f pfx)
    (hnd : (table.map fun r => (r.key, r.sub)).Nodup) (hsub : ∀ r ∈ table, r.sub ≠ 0)
    (hagree : OrderAgree table)
    (hm : ∀ x, mrow = some x → x ∈ table ∧ x.key = km.getD [] ∧ x.sub ≠ 0) :
    (followUploadsHttp f table pfx [] maxUploads km (mrow.map (·.sub))).2 = .done ∧
    PagesExact maxUploads
      ((followUploadsHttp f table pfx [] maxUploads km (mrow.map (·.sub))).1.map fun p => p.items.map Entry.item)
      (expectedUploads table pfx [] (km.getD []) (mrow.map (·.seq))) ∧
    ∀ p ∈ (followUploadsHttp f table pfx [] maxUploads km (mrow.map (·.sub))).1, p.cps = [] := by
  obtain ⟨h1, h2, h3⟩ := uploads_http_nodelim f table pfx maxUploads km (mrow.map (·.sub)) hmax hf hnd hsub
  refine ⟨h1, ⟨?_, ?_⟩, fun p hp => (h3 p hp).2⟩
  · rw [expectedUploads, ← uploads_order_congr table hagree]
    rw [listing_congr (·.key) pfx [] (sortBy Listing.rowLeAsc table)
      (fun r hr => (uploads_after_congr table hagree (km.getD []) mrow hm r
        ((perm_sortBy Listing.rowLeAsc table).subset hr)).symm)]
    rw [listing_eq_listed, listed_nodelim]
    have : (followUploadsHttp f table pfx [] maxUploads km (mrow.map (·.sub))).1.map (fun p => p.items.map Entry.item)
        = ((followUploadsHttp f table pfx [] maxUploads km (mrow.map (·.sub))).1.map (·.items)).map (List.map Entry.item) := by
      simp [List.map_map, Function.comp_def]
    rw [this, ← List.map_flatten, h2]
  · intro p hp
    obtain ⟨q, hq, rfl⟩ := List.mem_map.mp hp
    simpa using (h3 q hq).1

/-- Negation witness (delimiter paging): uploads `a`, `b/1`, `b/2`, `c` (ids in this order),
delimiter `/`, max-uploads 1: the HTTP pages are `[a]`, `[c]`, `[]` — `b/` is never returned. -/
theorem uploads_delimiter_paging_loses_prefix :
    let table : List Row := [⟨[0x61], 1, 1⟩, ⟨[0x62, 0x2F, 0x31], 2, 2⟩, ⟨[0x62, 0x2F, 0x32], 3, 3⟩, ⟨[0x63], 4, 4⟩]
    (followUploadsHttp .exact table [] [0x2F] 1 none none).1.map (fun p => (p.items.map (·.sub), p.cps, p.truncated))
      = [([1], [], true), ([4], [], true), ([], [], false)] ∧
    (expectedUploads table [] [0x2F] [] none).length = 3 := by
  decide

end Pithos.C06
