/-
C23 — replicas converge to the primary.

Property theorems about the model of the replication storage (`Pithos.Model.Replication`, tied to
/repo/internal/storage/replication/replication.go by the differential harness c23.go +
Driver/C23.lean). `s ≈ t` (`Replication.Equiv`) is equality up to timestamps; it implies that a
reader sees the same buckets, keys, contents, content types, metadata and tags (`equiv_observe`).
Every statement is for all states / all calls / all histories of any length and any number of
secondaries — nothing is bounded. "Names no version id" is the property's own restriction.

  step_respects_equiv        S3.step cannot tell ≈-states apart: same call ⇒ ≈-states, same answer
                             up to timestamps — all 20 call kinds; also for UploadPartCopy and
                             DeleteObjects (`xstep_respects_equiv`)
  forwarded_same_effect      what replication forwards (conditions / offset dropped, the
                             secondary's upload id) has the effect of the original call
  replicate_preserves_equiv  s₀ ≈ s₁, op succeeds on the primary s₀ ⇒ primary's new state ≈
                             secondary's new state, and the secondary succeeds
  failed_call_changes_nothing  a failed call (nothing is forwarded) leaves the primary ≈ itself
  replication_step_preserves_convergence / replicas_converge
                             by induction: after EVERY call of EVERY history (any length, any
                             number of secondaries) all secondaries ≈ the primary
  id_map_never_misses        the upload-id map lookup finds its entry whenever the primary accepted
                             the multipart call (no nil-slice panic within one process lifetime)
  no_secondary_ever_fails    the caller always gets the primary's answer
  id_map_loss_diverges       (outside the theorem) what a lost map — a restart with an open upload
                             — does
-/
import Pithos.Lemmas.Replication

namespace Pithos.C23
open Pithos.S3 Pithos.S3Ext Pithos.Replication

/-- `≈` is an equivalence relation. -/
theorem equiv_equivalence : Equivalence Equiv := ⟨Equiv.refl, Equiv.symm, Equiv.trans⟩

/-- **equiv_observe.** Replicas that agree up to timestamps expose the same buckets, keys, object
contents, content types, metadata and tags (and storage classes) — everything C23 names. -/
theorem equiv_observe {s t : State} (h : Equiv s t) : observe s = observe t := observe_congr h

/-- **step_respects_equiv.** For every call that names no explicit version id (all 20 kinds of
`S3.Op`): run on two states that agree up to timestamps, it leads to states that agree up to
timestamps and gives the same answer up to timestamps. -/
theorem step_respects_equiv (q : Quirks) {s t : State} (h : Equiv s t) (op : Op)
    (hv : opNamesVersion op = false) :
    Equiv (step q s op).1 (step q t op).1 ∧ eraseOut (step q s op).2 = eraseOut (step q t op).2 :=
  Replication.step_respects_equiv q h op hv

/-- … and likewise for the extended call set (UploadPartCopy, DeleteObjects). -/
theorem xstep_respects_equiv (q : Quirks) {s t : State} (h : Equiv s t) (op : XOp)
    (hv : op.namesVersion = false) :
    Equiv (xstep q s op).1 (xstep q t op).1 ∧ eraseXOut (xstep q s op).2 = eraseXOut (xstep q t op).2 :=
  Replication.xstep_respects_equiv q h op hv

/-- **forwarded_same_effect.** On a state (with unique row ids, `WF`) on which the caller's call
succeeded, the call replication forwards — PutObject / CompleteMultipartUpload without their
If-None-Match / If-Match conditions, AppendObject without its write offset, the multipart calls
with upload id `u` — has the same effect and answer, up to timestamps. -/
theorem forwarded_same_effect (q : Quirks) {s : State} (hwf : WF s) (op : XOp) (u : Nat)
    (hu : uidOf op = none ∨ uidOf op = some u) (hok : (xstep q s op).2.isErr = false) :
    Equiv (xstep q s (fwd u op)).1 (xstep q s op).1 ∧
    eraseXOut (xstep q s (fwd u op)).2 = eraseXOut (xstep q s op).2 :=
  fwd_same_effect q hwf op u hu hok

/-- **replicate_preserves_equiv.** `s₀` the primary, `s₁` a secondary, `s₀ ≈ s₁`; the call names
no version id and succeeds on the primary. Then the forwarded call succeeds on the secondary and
`step_primary s₀ ≈ step_secondary s₁`. -/
theorem replicate_preserves_equiv (q : Quirks) {s₀ s₁ : State} (hwf : WF s₀) (h : Equiv s₀ s₁) (op : XOp) (u : Nat)
    (hv : op.namesVersion = false) (hu : uidOf op = none ∨ uidOf op = some u)
    (hok : (xstep q s₀ op).2.isErr = false) :
    Equiv (xstep q s₀ op).1 (xstep q s₁ (fwd u op)).1 ∧ (xstep q s₁ (fwd u op)).2.isErr = false := by
  have h1 := forward_one q hwf h op u hv hu hok
  refine ⟨h1.1.symm, ?_⟩
  rw [← isErr_erase, h1.2, isErr_erase]; exact hok

/-- **failed_call_changes_nothing.** A call that fails on the primary (replication then forwards
nothing) leaves the primary's state as it was, up to the clock — so the replicas still agree. -/
theorem failed_call_changes_nothing (q : Quirks) (s : State) (op : XOp) (hv : op.namesVersion = false)
    (he : (xstep q s op).2.isErr = true) : Equiv (xstep q s op).1 s :=
  xstep_error_frame q s op hv he

/-- Row ids stay unique along every call (the well-formedness `forwarded_same_effect` needs). -/
theorem wf_preserved (q : Quirks) {s : State} (h : WF s) (op : XOp) (hv : op.namesVersion = false) :
    WF (xstep q s op).1 := xstep_wf q h op hv

/-- **replication_step_preserves_convergence.** One call (naming no version id) through the
replication storage, in a state satisfying the invariant `Inv2` — every secondary agrees with the
primary; row ids unique; every id-map entry maps an upload id to itself for every secondary; every
open upload of the primary has an id below the counter, one owning bucket name and an id-map
entry: afterwards the invariant holds again — whether the call failed on the primary, was a read,
or was forwarded. -/
theorem replication_step_preserves_convergence (q : Quirks) {rs : RState} (hi : Inv2 rs) (op : XOp)
    (hv : op.namesVersion = false) : Inv2 (rstep q rs op).1 := rstep_inv2 q hi op hv

/-- **id_map_never_misses.** Along every history (no version ids) from the empty state, the lookup
of a primary upload id in `primaryUploadIdToSecondaryUploadIds` finds its entry whenever the
primary accepted the multipart call: the Go code never indexes the nil slice. -/
theorem id_map_never_misses (q : Quirks) (n : Nat) (ops : List XOp)
    (hv : ∀ op ∈ ops, op.namesVersion = false) : ∀ o ∈ (rrun q (init n) ops).2, o.mapMiss = false :=
  rrun_no_miss q ops (inv2_init n) hv

/-- **no_secondary_ever_fails.** In a state reached by such a history, the caller of the next call
gets the primary's answer: no forwarded call fails on a secondary (so "successful through the
replication storage" = "successful on the primary"). -/
theorem no_secondary_ever_fails (q : Quirks) (n : Nat) (ops : List XOp) (op : XOp)
    (hv : ∀ o ∈ ops, o.namesVersion = false) (hop : op.namesVersion = false) :
    (rstep q (rrun q (init n) ops).1 op).2.out = (xstep q (rrun q (init n) ops).1.primary op).2 :=
  rstep_answer q (rrun_inv2 q ops (inv2_init n) hv) op hop

/-- **replicas_converge.** Start with `n` empty secondaries (any `n`) and run ANY history of calls
that name no version id (any length; bucket, object, multipart incl. UploadPartCopy, copy, append,
tagging, delete(s), versioning, transitions; failing calls included). At the end — hence, the
history being arbitrary, after every call — every secondary agrees with the primary up to
timestamps, and so exposes the same buckets, keys, object contents, content types, metadata and
tags. -/
theorem replicas_converge (q : Quirks) (n : Nat) (ops : List XOp)
    (hv : ∀ op ∈ ops, op.namesVersion = false) :
    Converged (rrun q (init n) ops).1 ∧
    ∀ t ∈ (rrun q (init n) ops).1.secs, observe (rrun q (init n) ops).1.primary = observe t := by
  have hinv := rrun_inv2 q ops (inv2_init n) hv
  exact ⟨hinv.conv, fun t ht => observe_congr (hinv.conv t ht)⟩

-- ---------------------------------------------------------------- non-vacuity, and the id map

def h1 : List XOp :=
  [.base (.mkb "b"), .base (.put "b" "k" [1, 2] { md := [("a", "1")], tags := [("t", "v")] } true .none),
   .base (.put "b" "k" [3] {} true .none),                       -- fails on the primary: not forwarded
   .base (.mpu "b" "m" { ct := some "x/y" }), .base (.uploadPart "b" "m" 0 1 [7]),
   .partCopy "b" "k" none "b" "m" 0 2 (some (0, 1)), .base (.complete "b" "m" 0 (some [1, 2]) true .none),
   .base (.append "b" "k" [9] (some 2)), .base (.copy "b" "m" none "b" "c" false false {}),
   .base (.setVer "b" .enabled), .delMany "b" ["k", "nokey"], .base (.del "b" "m" none .star)]

/-- The hypothesis of `replicas_converge` is met by a history that exercises conditional puts (one
failing), a three-call multipart upload with an UploadPartCopy and a conditional complete, an
append with offset, a copy, versioning and deletes (and, computed directly, it reports no miss) … -/
example : (∀ op ∈ h1, op.namesVersion = false) ∧
    (∀ o ∈ (rrun Quirks.code (init 2) h1).2, o.mapMiss = false) := by decide

/-- … and it is not about an empty world: afterwards the primary lists two objects in `b`. -/
example : (observe (rrun Quirks.code (init 2) h1).1.primary).map (fun x => (x.1, x.2.map (·.key)))
    = [("b", ["c"])] := by decide

/-- **id_map_loss_diverges.** Outside the theorem (the state is not reachable by a history within
one process lifetime): the id map is in memory only. If it is lost while an upload is open (a
restart), the next UploadPart succeeds on the primary and then indexes Go's nil slice (`mapMiss`,
a panic): the secondary is left behind. The invariant's id-map clause is what excludes this. -/
def lostMap : RState :=
  { (rrun Quirks.code (init 1) [.base (.mkb "b"), .base (.mpu "b" "m" {})]).1 with umap := [] }

theorem id_map_loss_diverges :
    Converged lostMap ∧ (rstep Quirks.code lostMap (.base (.uploadPart "b" "m" 0 1 [7]))).2.mapMiss = true ∧
    ¬ Converged (rstep Quirks.code lostMap (.base (.uploadPart "b" "m" 0 1 [7]))).1 := by
  decide

end Pithos.C23
