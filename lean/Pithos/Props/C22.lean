/-
C22 — event notifications are emitted exactly for committed mutations.

Property theorems about `Pithos.Notify` (tied to internal/storage/notification by the harness
c22.go and by the regenerated table `Pithos.Gen.NotifyOverrides`), against `Pithos.NotifyS3`.
All theorems are for every rule set, every event, every fault, every publish-outcome script of any
length; none carries a bound.

Partial (named honestly):
* the interleaving of SEVERAL dispatchers on one outbox (claim lease, version CAS) and lease expiry
  after a crashed worker are not modelled — the dispatcher theorems are about one entry under one
  dispatcher, which is what the differential run exercises;
* `AppendObject` is not overridden by the middleware (`appendObject_not_covered`), so
  `mutators_covered_partial` excludes it.
-/
import Pithos.Model.Notify
import Pithos.Spec.NotifyS3
import Pithos.Gen.NotifyOverrides

namespace Pithos.C22
open Pithos.Notify Pithos.NotifyS3

/-! ## (T1) which mutators notify, and that mutation and enqueue share one transaction -/

/-- every override reaches the inner storage only inside the closure run by runWithNotifications -/
theorem overridden_go_through_runWithNotifications :
    ∀ m ∈ Gen.NotifyOverrides.overridden, m ∈ Gen.NotifyOverrides.viaRunWithNotifications := by decide

/-- runWithNotifications opens ONE transaction on the middleware's database handle and runs the
mutation and then the enqueue inside it; the enqueue saves through that transaction. Together
with the run-time premise "the storage below uses the same database handle" (trace line
`shared 1`) this is the shared-transaction premise of `entry_iff_committed`. -/
theorem shared_transaction_shape :
    Gen.NotifyOverrides.runWithNotificationsShape =
      ["database.WithTx", "m.db", "mutate(ctx)", "m.enqueueEvents(ctx, tx, events)"] ∧
    Gen.NotifyOverrides.enqueueSaves = Gen.NotifyOverrides.enqueueSavesInTx ∧
    0 < Gen.NotifyOverrides.enqueueSaves := by decide

/-- the storage methods that change what a reader of an object sees and stand for an S3 event -/
def s3EventMutators : List String :=
  ["PutObject", "CopyObject", "CompleteMultipartUpload", "AppendObject", "DeleteObject", "DeleteObjects",
   "PutObjectTagging", "DeleteObjectTagging"]

theorem s3EventMutators_are_storage_methods :
    ∀ m ∈ s3EventMutators, m ∈ Gen.NotifyOverrides.storageMethods := by decide

/-- **mutators_covered_partial.** Every such mutator except AppendObject is overridden. -/
theorem mutators_covered_partial :
    ∀ m ∈ s3EventMutators, m ≠ "AppendObject" → m ∈ Gen.NotifyOverrides.overridden := by decide

/-- negation witness: AppendObject (creates or extends an object) falls through to the delegator,
so no outbox entry is ever written for it (replayed: harness case 4). -/
theorem appendObject_not_covered :
    "AppendObject" ∈ Gen.NotifyOverrides.storageMethods ∧ "AppendObject" ∉ Gen.NotifyOverrides.overridden := by decide

/-! ## (c) the rule matcher -/

theorem prefixName_ne_suffixName : prefixName ≠ suffixName := by decide

theorem eventPattern_spec (configured name : Str) :
    eventPatternMatches configured name = true ↔ Covers configured name := by
  unfold eventPatternMatches Covers
  simp only [Bool.or_eq_true, beq_iff_eq, Bool.and_eq_true, List.isSuffixOf_iff_suffix, List.isPrefixOf_iff_prefix]
  constructor
  · rintro (h | ⟨⟨base, hb⟩, hp⟩)
    · exact Or.inl h
    · refine Or.inr ⟨base, by simpa [colonStar] using hb.symm, ?_⟩
      have : dropLastChar configured = base ++ [':'] := by
        rw [← hb]
        simp [dropLastChar, colonStar, List.dropLast_append_of_ne_nil]
      rwa [this] at hp
  · rintro (h | ⟨base, hb, hp⟩)
    · exact Or.inl h
    · refine Or.inr ⟨⟨base, by simp [colonStar, hb]⟩, ?_⟩
      have : dropLastChar configured = base ++ [':'] := by
        rw [hb]
        simp [dropLastChar, List.dropLast_append_of_ne_nil]
      rwa [this]

theorem filterHolds_spec (f : FilterRule) (key : Str) :
    filterHolds f key = true ↔
      (f.name = prefixName → f.value <+: key) ∧ (f.name = suffixName → f.value <:+ key) := by
  unfold filterHolds
  by_cases hp : f.name = prefixName
  · have hs : f.name ≠ suffixName := by rw [hp]; exact prefixName_ne_suffixName
    simp [hp, List.isPrefixOf_iff_prefix, prefixName_ne_suffixName]
  · by_cases hs : f.name = suffixName
    · simp [hs, List.isSuffixOf_iff_suffix, Ne.symm prefixName_ne_suffixName]
    · simp [hp, hs]

/-- **matcher_spec.** `RuleMatches` selects exactly what S3's rule semantics select: one of the
rule's event types covers the event name (equal, or a `base:*` family containing it) and every
prefix / suffix filter rule holds for the key. -/
theorem matcher_spec (r : Rule) (e : Event) : ruleMatches r e = true ↔ Selects r e := by
  unfold ruleMatches Selects
  simp only [Bool.and_eq_true, List.any_eq_true, List.all_eq_true, eventPattern_spec, filterHolds_spec]

/-! ## (a) rows ⇔ committed ∧ selected -/

/-- the rows of one event: one per selecting rule, plus the EventBridge row -/
theorem mem_entriesFor (c : Config) (e : Event) (row : Row) :
    row ∈ entriesFor c e ↔
      (∃ r ∈ c.rules, Selects r e ∧ row = { dest := r.dest, event := e.name, bucket := e.bucket, key := e.key }) ∨
      (c.eventBridge = true ∧ row = { dest := eventBridgeDest e.bucket, event := e.name, bucket := e.bucket, key := e.key }) := by
  unfold entriesFor
  simp only [List.mem_append, List.mem_map, List.mem_filter, matcher_spec]
  constructor
  · rintro (⟨r, ⟨hr, hs⟩, rfl⟩ | h)
    · exact Or.inl ⟨r, hr, hs, rfl⟩
    · split at h
      · rename_i heb
        exact Or.inr ⟨heb, by simpa using h⟩
      · simp at h
  · rintro (⟨r, hr, hs, rfl⟩ | ⟨heb, rfl⟩)
    · exact Or.inl ⟨r, ⟨hr, hs⟩, rfl⟩
    · exact Or.inr (by simp [heb])

/-- **entry_iff_committed.** With mutation and outbox inserts in one transaction, for every fault
point — the mutation fails, the i-th insert fails, the commit fails, nothing fails — the rows of
the attempt that exist afterwards are exactly the demanded ones if the mutation committed and none
otherwise; and the caller is told `ok` exactly when it committed. -/
theorem entry_iff_committed (rows : List Row) (f : Fault) :
    (attempt true rows f).rows = (if (attempt true rows f).committed then rows else []) ∧
    (attempt true rows f).ok = (attempt true rows f).committed := by
  cases f with
  | none => simp [attempt]
  | mutationFails => simp [attempt]
  | commitFails => simp [attempt]
  | insertFails i =>
    by_cases h : i < rows.length <;> simp [attempt, h]

/-- … in terms of rules: a row exists iff the mutation committed and a rule OF THE EVENT'S BUCKET
selects one of its events (or that bucket has EventBridge enabled); the row names that bucket and key -/
theorem entry_iff_committed_and_selected (cfgOf : Str → Config) (es : List Event) (f : Fault) (row : Row) :
    row ∈ (attempt true (entriesForAll cfgOf es) f).rows ↔
      (attempt true (entriesForAll cfgOf es) f).committed = true ∧
      ∃ e ∈ es, (∃ r ∈ (cfgOf e.bucket).rules, Selects r e ∧ row = { dest := r.dest, event := e.name, bucket := e.bucket, key := e.key }) ∨
                ((cfgOf e.bucket).eventBridge = true ∧ row = { dest := eventBridgeDest e.bucket, event := e.name, bucket := e.bucket, key := e.key }) := by
  rw [(entry_iff_committed _ f).1]
  cases hc : (attempt true (entriesForAll cfgOf es) f).committed with
  | false => simp
  | true =>
    simp only [if_true, true_and, entriesForAll, List.mem_flatMap, mem_entriesFor]

/-- the whole outbox after any history of attempts is the concatenation of the demanded rows of
the committed ones -/
theorem outbox_eq_demanded (cfgOf : Str → Config) (ops : List (List Event × Fault)) :
    (ops.flatMap fun op => (attempt true (entriesForAll cfgOf op.1) op.2).rows) =
    (ops.flatMap fun op => op.1.flatMap (demanded cfgOf (attempt true (entriesForAll cfgOf op.1) op.2).committed)) := by
  induction ops with
  | nil => rfl
  | cons op ops ih =>
    simp only [List.flatMap_cons, ih]
    congr 1
    rw [(entry_iff_committed _ op.2).1]
    have ht : demanded cfgOf true = fun e => entriesFor (cfgOf e.bucket) e := by funext e; simp [demanded]
    have hf : ∀ l : List Event, l.flatMap (demanded cfgOf false) = [] := by
      intro l
      induction l with
      | nil => rfl
      | cons e es ihe => simp [List.flatMap_cons, ihe, demanded]
    cases (attempt true (entriesForAll cfgOf op.1) op.2).committed with
    | true => simp [ht, entriesForAll]
    | false => simp [hf]

/-! ### the event of a mutation belongs to the bucket that was mutated -/

/-- **event_addressed_to_mutated_bucket.** For every call except AppendObject the events the
middleware builds are exactly the spec's: one per mutated object, named after the mutation, and
carrying the bucket and key of the object that was MUTATED — for a copy its destination, never its
source. The bucket of the event is both the notification configuration consulted
(`entriesForAll`) and the bucket named in the payload. -/
theorem event_addressed_to_mutated_bucket (c : Call) (h : ∀ t, c ≠ .append t) :
    codeEvents c = specEvents c := by
  cases c with
  | put t => rfl
  | copy src dst => rfl
  | complete t => rfl
  | delete t m => cases m <;> rfl
  | deleteObjects b ks refused =>
    simp only [codeEvents, specEvents, mutated, List.map_map]
    apply List.map_congr_left
    intro k _
    cases hk : k.2 <;> simp [removedName, eventName, hk]
  | tagPut t => rfl
  | tagDel t => rfl
  | append t => exact absurd rfl (h t)

/-- … hence every outbox row of a call names a mutated object of that call, carries the event name
of that mutation, and was selected by the configuration of THAT object's bucket -/
theorem rows_belong_to_the_mutated_bucket (cfgOf : Str → Config) (c : Call) (row : Row)
    (h : row ∈ entriesForAll cfgOf (codeEvents c)) :
    ∃ mt ∈ mutated c, row.bucket = mt.2.bucket ∧ row.key = mt.2.key ∧ row.event = eventName mt.1 ∧
      ((∃ r ∈ (cfgOf mt.2.bucket).rules, Selects r { name := eventName mt.1, bucket := mt.2.bucket, key := mt.2.key } ∧ row.dest = r.dest) ∨
       ((cfgOf mt.2.bucket).eventBridge = true ∧ row.dest = eventBridgeDest mt.2.bucket)) := by
  have hne : ∀ t, c ≠ .append t := by
    intro t ht
    subst ht
    simp [codeEvents, entriesForAll] at h
  rw [event_addressed_to_mutated_bucket c hne] at h
  simp only [entriesForAll, specEvents, List.mem_flatMap, List.mem_map] at h
  obtain ⟨e, ⟨mt, hmt, rfl⟩, hrow⟩ := h
  rw [mem_entriesFor] at hrow
  refine ⟨mt, hmt, ?_⟩
  rcases hrow with ⟨r, hr, hs, rfl⟩ | ⟨heb, rfl⟩
  · exact ⟨rfl, rfl, rfl, Or.inl ⟨r, hr, hs, rfl⟩⟩
  · exact ⟨rfl, rfl, rfl, Or.inr ⟨heb, rfl⟩⟩

/-- **refused_batch_entries_emit_nothing.** In a bulk delete every outbox row names one of the keys
the storage reported as deleted; an entry it refused (stale If-Match ETag, If-Match on a missing
key) leaves its object in place and gets no ObjectRemoved row — whatever the rules. -/
theorem refused_batch_entries_emit_nothing (cfgOf : Str → Config) (b : Str) (ks : List (Str × Bool))
    (refused : List Str) (row : Row) (h : row ∈ entriesForAll cfgOf (codeEvents (.deleteObjects b ks refused))) :
    row.bucket = b ∧ row.key ∈ ks.map (·.1) := by
  obtain ⟨mt, hmt, hb, hk, _⟩ := rows_belong_to_the_mutated_bucket cfgOf _ row h
  simp only [mutated, List.mem_map] at hmt
  obtain ⟨k, hkin, rfl⟩ := hmt
  exact ⟨hb, by rw [hk]; exact List.mem_map.2 ⟨k, hkin, rfl⟩⟩

/-- a cross-bucket copy never produces a row for its source bucket (unless source = destination) -/
theorem copy_rows_name_destination (cfgOf : Str → Config) (src dst : Target) (row : Row)
    (h : row ∈ entriesForAll cfgOf (codeEvents (.copy src dst))) :
    row.bucket = dst.bucket ∧ row.key = dst.key := by
  obtain ⟨mt, hmt, hb, hk, _⟩ := rows_belong_to_the_mutated_bucket cfgOf _ row h
  simp only [mutated, List.mem_singleton] at hmt
  subst hmt
  exact ⟨hb, hk⟩

/-- negation witness for the best-effort mode (storage on a DIFFERENT database handle): the insert
fails after the mutation has committed on its own — a committed mutation without its row. -/
theorem split_transaction_breaks_atomicity (r : Row) :
    (attempt false [r] (.insertFails 0)).committed = true ∧ (attempt false [r] (.insertFails 0)).rows = [] := by
  simp [attempt]

/-! ## (b) the dispatcher on one entry -/

/-- **backoff_bounds.** The scheduled delay lies within the configured limits, equals
`min·2^(n−1)` as long as that does not exceed the maximum, and never decreases. -/
theorem backoff_bounds (c : DCfg) (h : c.minBackoff ≤ c.maxBackoff) (n : Nat) :
    c.minBackoff ≤ backoff c n ∧ backoff c n ≤ c.maxBackoff ∧
    (c.minBackoff * 2 ^ (n - 1) ≤ c.maxBackoff → backoff c n = c.minBackoff * 2 ^ (n - 1)) := by
  have hpow : 1 ≤ 2 ^ (n - 1) := Nat.one_le_two_pow
  have hge : c.minBackoff ≤ c.minBackoff * 2 ^ (n - 1) := Nat.le_mul_of_pos_right _ hpow
  unfold backoff
  simp only
  split
  · exact ⟨h, Nat.le_refl _, fun h' => absurd h' (by omega)⟩
  · exact ⟨hge, by omega, fun _ => rfl⟩

theorem backoff_mono (c : DCfg) (n m : Nat) (h : n ≤ m) : backoff c n ≤ backoff c m := by
  have hp : 2 ^ (n - 1) ≤ 2 ^ (m - 1) := Nat.pow_le_pow_right (by decide) (by omega)
  have hm : c.minBackoff * 2 ^ (n - 1) ≤ c.minBackoff * 2 ^ (m - 1) := Nat.mul_le_mul_left _ hp
  unfold backoff
  simp only
  split <;> split <;> omega

/-- **backoff_saturates.** However long an outage lasts: from attempt `MaxBackoff + 2` on (with a
positive minimum) the delay is exactly MaxBackoff — it never wraps, shrinks or leaves the bounds,
for every attempt count (the model is over `Nat`; the implementation's float64 / int64 path is
compared with it by the tie for attempt counts up to 1100, beyond 2^63 ns and beyond +Inf). -/
theorem backoff_saturates (c : DCfg) (hmin : 0 < c.minBackoff) (n : Nat) (hn : c.maxBackoff + 2 ≤ n) :
    backoff c n = c.maxBackoff := by
  have h1 : n - 1 < 2 ^ (n - 1) := Nat.lt_two_pow_self
  have h2 : 2 ^ (n - 1) ≤ c.minBackoff * 2 ^ (n - 1) := Nat.le_mul_of_pos_left _ hmin
  unfold backoff
  simp only
  split
  · rfl
  · omega

/-- **scheduled_delays_within_bounds.** Every backoff any run schedules — from any attempt count
`a`, however large, with or without lost reports — lies in [MinBackoff, MaxBackoff]
(`delay = 0` marks a publish after which nothing is scheduled). -/
theorem scheduled_delays_within_bounds (c : DCfg) (h : c.minBackoff ≤ c.maxBackoff) (a : Nat) (os : List PubOutcome) :
    ∀ q ∈ (runOutcomes c a os).2, q.delay = 0 ∨ (c.minBackoff ≤ q.delay ∧ q.delay ≤ c.maxBackoff) := by
  induction os generalizing a with
  | nil => intro q hq; simp [runOutcomes] at hq
  | cons o rest ih =>
    intro q hq
    cases o with
    | ok => simp [runOutcomes] at hq; subst hq; exact Or.inl rfl
    | fail =>
      by_cases hmax : (c.maxAttempts > 0 && a + 1 ≥ c.maxAttempts) = true
      · simp [runOutcomes, hmax] at hq; subst hq; exact Or.inl rfl
      · simp only [runOutcomes, hmax, Bool.false_eq_true, if_false, List.mem_cons] at hq
        rcases hq with rfl | hq
        · exact Or.inr ⟨(backoff_bounds c h (a + 1)).1, (backoff_bounds c h (a + 1)).2.1⟩
        · exact ih (a + 1) q hq
    | okLost =>
      simp only [runOutcomes, List.mem_cons] at hq
      rcases hq with rfl | hq
      · exact Or.inl rfl
      · exact ih (a + 1) q hq
    | failLost =>
      simp only [runOutcomes, List.mem_cons] at hq
      rcases hq with rfl | hq
      · exact Or.inl rfl
      · exact ih (a + 1) q hq

/-- bookkeeping of `runScript`, for an entry that has made `a` attempts so far -/
theorem runScript_spec (c : DCfg) (a : Nat) (script : List Bool) :
    let res := runScript c a script
    -- attempts are numbered consecutively from a+1, no more publishes than outcomes
    (∀ i (h : i < res.2.length), (res.2[i]).attempt = a + 1 + i) ∧ res.2.length ≤ script.length ∧
    -- delivered: the last publish, and only it, succeeded
    (res.1 = .delivered → ∃ pre p, res.2 = pre ++ [p] ∧ p.ok = true ∧ ∀ q ∈ pre, q.ok = false) ∧
    -- dead: every publish failed, MaxAttempts is configured and reached exactly (if not already exceeded)
    (res.1 = .dead → c.maxAttempts > 0 ∧ (∀ q ∈ res.2, q.ok = false) ∧ c.maxAttempts ≤ a + res.2.length ∧
      (a < c.maxAttempts → a + res.2.length = c.maxAttempts)) ∧
    -- pending: every outcome was consumed and failed, and the limit is not reached
    (∀ k, res.1 = .pending k → k = a + script.length ∧ res.2.length = script.length ∧ (∀ q ∈ res.2, q.ok = false) ∧
      (c.maxAttempts = 0 ∨ k < c.maxAttempts ∨ script = [])) ∧
    -- every failed publish that is followed by another one scheduled exactly `backoff c attempt`
    (∀ q ∈ res.2, q.ok = false → q.delay = 0 ∨ q.delay = backoff c q.attempt) := by
  induction script generalizing a with
  | nil => simp [runScript]
  | cons ok rest ih =>
    cases ok with
    | true =>
      simp only [runScript, if_true]
      refine ⟨?_, by simp, ?_, by simp, by simp, by simp⟩
      · intro i h
        have : i = 0 := by simpa using h
        subst this; simp
      · intro _
        exact ⟨[], _, rfl, rfl, by simp⟩
    | false =>
      by_cases hmax : (c.maxAttempts > 0 && a + 1 ≥ c.maxAttempts) = true
      · simp only [runScript, Bool.false_eq_true, if_false, hmax, if_true]
        simp only [Bool.and_eq_true, decide_eq_true_eq] at hmax
        refine ⟨?_, by simp, by simp, ?_, by simp, by simp⟩
        · intro i h
          have : i = 0 := by simpa using h
          subst this; simp
        · intro _
          refine ⟨hmax.1, by simp, by simp; omega, ?_⟩
          intro ha; simp; omega
      · have hstep : runScript c a (false :: rest) =
            ((runScript c (a + 1) rest).1, { attempt := a + 1, ok := false, delay := backoff c (a + 1) } :: (runScript c (a + 1) rest).2) := by
          simp only [runScript, Bool.false_eq_true, if_false, hmax]
        have hmax' : ¬ (c.maxAttempts > 0 ∧ a + 1 ≥ c.maxAttempts) := by
          simpa [Bool.and_eq_true, decide_eq_true_eq] using hmax
        obtain ⟨h1, h2, h3, h4, h5, h6⟩ := ih (a + 1)
        simp only [hstep]
        refine ⟨?_, by simp; omega, ?_, ?_, ?_, ?_⟩
        · intro i h
          cases i with
          | zero => simp
          | succ j =>
            simp only [List.length_cons] at h
            have := h1 j (by omega)
            simp only [List.getElem_cons_succ]
            omega
        · intro hd
          obtain ⟨pre, p, hp, hok, hall⟩ := h3 hd
          refine ⟨{ attempt := a + 1, ok := false, delay := backoff c (a + 1) } :: pre, p, by simp [hp], hok, ?_⟩
          intro q hq
          rcases List.mem_cons.1 hq with rfl | hq
          · rfl
          · exact hall q hq
        · intro hd
          obtain ⟨hm, hall, hle, heq⟩ := h4 hd
          refine ⟨hm, ?_, by simp; omega, ?_⟩
          · intro q hq
            rcases List.mem_cons.1 hq with rfl | hq
            · rfl
            · exact hall q hq
          · intro ha
            have : a + 1 < c.maxAttempts := by omega
            have := heq this
            simp; omega
        · intro k hk
          obtain ⟨hk1, hk2, hall, hlim⟩ := h5 k hk
          refine ⟨by simp; omega, by simp [hk2], ?_, ?_⟩
          · intro q hq
            rcases List.mem_cons.1 hq with rfl | hq
            · rfl
            · exact hall q hq
          · rcases hlim with h | h | h
            · exact Or.inl h
            · exact Or.inr (Or.inl h)
            · subst h
              simp only [List.length_nil] at hk1
              by_cases hz : c.maxAttempts = 0
              · exact Or.inl hz
              · exact Or.inr (Or.inl (by omega))
        · intro q hq hf
          rcases List.mem_cons.1 hq with rfl | hq
          · exact Or.inr rfl
          · exact h6 q hq hf

/-- **deadletter_after_max.** A fresh entry is dead-lettered only with MaxAttempts configured,
after exactly MaxAttempts publishes, all of them failed — never earlier — and whatever outcomes
would follow are not consumed: it is never retried afterwards. -/
theorem deadletter_after_max (c : DCfg) (script : List Bool) (h : (runScript c 0 script).1 = .dead) :
    c.maxAttempts > 0 ∧ (runScript c 0 script).2.length = c.maxAttempts ∧
    (∀ q ∈ (runScript c 0 script).2, q.ok = false) ∧
    ∀ more, runScript c 0 (script ++ more) = runScript c 0 script := by
  obtain ⟨_, _, _, h4, _, _⟩ := runScript_spec c 0 script
  obtain ⟨hm, hall, _, heq⟩ := h4 h
  refine ⟨hm, by simpa using heq hm, hall, ?_⟩
  -- a settled run ignores further outcomes
  have key : ∀ (a : Nat) (s more : List Bool), (∀ k, (runScript c a s).1 ≠ .pending k) →
      runScript c a (s ++ more) = runScript c a s := by
    intro a s
    induction s generalizing a with
    | nil => intro more hp; exact absurd rfl (hp a)
    | cons ok rest ih =>
      intro more hp
      cases ok with
      | true => simp [runScript]
      | false =>
        by_cases hmax : (c.maxAttempts > 0 && a + 1 ≥ c.maxAttempts) = true
        · simp [runScript, hmax]
        · have hrec : ∀ k, (runScript c (a + 1) rest).1 ≠ .pending k := by
            intro k hk
            apply hp k
            simp only [runScript, Bool.false_eq_true, if_false, hmax]
            exact hk
          simp only [List.cons_append, runScript, Bool.false_eq_true, if_false, hmax, ih (a + 1) more hrec]
  exact fun more => key 0 script more (by intro k hk; rw [h] at hk; cases hk)

/-- a delivered entry is likewise never published again -/
theorem delivered_is_final (c : DCfg) (script more : List Bool) (h : (runScript c 0 script).1 = .delivered) :
    runScript c 0 (script ++ more) = runScript c 0 script := by
  have key : ∀ (a : Nat) (s more : List Bool), (∀ k, (runScript c a s).1 ≠ .pending k) →
      runScript c a (s ++ more) = runScript c a s := by
    intro a s
    induction s generalizing a with
    | nil => intro more hp; exact absurd rfl (hp a)
    | cons ok rest ih =>
      intro more hp
      cases ok with
      | true => simp [runScript]
      | false =>
        by_cases hmax : (c.maxAttempts > 0 && a + 1 ≥ c.maxAttempts) = true
        · simp [runScript, hmax]
        · have hrec : ∀ k, (runScript c (a + 1) rest).1 ≠ .pending k := by
            intro k hk
            apply hp k
            simp only [runScript, Bool.false_eq_true, if_false, hmax]
            exact hk
          simp only [List.cons_append, runScript, Bool.false_eq_true, if_false, hmax, ih (a + 1) more hrec]
  exact key 0 script more (by intro k hk; rw [h] at hk; cases hk)

/-- **delivered_at_least_once_or_deadlettered.** There is no stuck state: after any sequence of
publish outcomes an entry is delivered (exactly one successful publish, the last), dead-lettered,
or pending with a finite next attempt (`backoff` of its attempt count, which `backoff_bounds`
bounds by MaxBackoff) — and with MaxAttempts configured it cannot stay pending for MaxAttempts
outcomes: it is settled after at most MaxAttempts publishes. -/
theorem delivered_at_least_once_or_deadlettered (c : DCfg) (script : List Bool) :
    ((runScript c 0 script).1 = .delivered ∧
        ∃ pre p, (runScript c 0 script).2 = pre ++ [p] ∧ p.ok = true ∧ ∀ q ∈ pre, q.ok = false) ∨
    (runScript c 0 script).1 = .dead ∨
    ((runScript c 0 script).1 = .pending script.length ∧ (c.maxAttempts = 0 ∨ script.length < c.maxAttempts)) := by
  obtain ⟨_, _, h3, _, h5, _⟩ := runScript_spec c 0 script
  cases hf : (runScript c 0 script).1 with
  | delivered => exact Or.inl ⟨rfl, h3 hf⟩
  | dead => exact Or.inr (Or.inl rfl)
  | pending k =>
    obtain ⟨hk, _, _, hlim⟩ := h5 k hf
    have hk' : k = script.length := by simpa using hk
    subst hk'
    refine Or.inr (Or.inr ⟨rfl, ?_⟩)
    rcases hlim with h | h | h
    · exact Or.inl h
    · exact Or.inr h
    · subst h
      by_cases hz : c.maxAttempts = 0
      · exact Or.inl hz
      · exact Or.inr (by simp; omega)

/-- settled within MaxAttempts publishes -/
theorem settles_within_max (c : DCfg) (script : List Bool) (hm : c.maxAttempts > 0)
    (hl : c.maxAttempts ≤ script.length) :
    (runScript c 0 script).1 = .delivered ∨ (runScript c 0 script).1 = .dead := by
  rcases delivered_at_least_once_or_deadlettered c script with h | h | ⟨_, h⟩
  · exact Or.inl h.1
  · exact Or.inr h
  · omega

/-! ## (b′) bounded retries over ALL dispatcher schedules (claims, reports, crashes, lease expiry) -/

/-- invariant of `dstep`: while an entry is not terminal its attempt count is bounded by
`max (MaxAttempts − 1) a₀ + lost` when pending and by one more while claimed, where `a₀` is the count
it started with and `lost` the number of reports that never landed -/
def Bounded (c : DCfg) (a0 : Nat) (st : DState) : Prop :=
  (st.phase = .pending → st.attempts ≤ max (c.maxAttempts - 1) a0 + st.lost) ∧
  (st.phase = .claimed → st.attempts ≤ max (c.maxAttempts - 1) a0 + st.lost + 1)

theorem bounded_step (c : DCfg) (hM : c.maxAttempts > 0) (a0 : Nat) (st : DState) (step : DStep)
    (h : Bounded c a0 st) : Bounded c a0 (dstep c st step) := by
  obtain ⟨hp, hc⟩ := h
  have hmax : c.maxAttempts - 1 ≤ max (c.maxAttempts - 1) a0 := Nat.le_max_left _ _
  cases step with
  | claim =>
    by_cases hph : st.phase = .pending
    · have := hp hph
      simp only [dstep, hph, if_true]
      exact ⟨by simp, fun _ => by simp only; omega⟩
    · simp only [dstep, hph, if_false]; exact ⟨hp, hc⟩
  | reportOk =>
    by_cases hph : st.phase = .claimed
    · simp only [dstep, hph, if_true]; exact ⟨by simp, by simp⟩
    · simp only [dstep, hph, if_false]; exact ⟨hp, hc⟩
  | reportFail =>
    by_cases hph : st.phase = .claimed
    · by_cases hex : (decide (c.maxAttempts > 0) && decide (st.attempts ≥ c.maxAttempts)) = true
      · simp only [dstep, hph, if_true, hex]; exact ⟨by simp, by simp⟩
      · have hlt : st.attempts < c.maxAttempts := by
          simp only [Bool.and_eq_true, decide_eq_true_eq, not_and, Nat.not_le] at hex
          exact hex hM
        simp only [dstep, hph, if_true, hex]
        refine ⟨fun _ => ?_, by simp⟩
        simp only [Bool.false_eq_true, if_false]
        omega
    · simp only [dstep, hph, if_false]; exact ⟨hp, hc⟩
  | lose =>
    by_cases hph : st.phase = .claimed
    · have := hc hph
      simp only [dstep, hph, if_true]
      exact ⟨fun _ => by simp only; omega, by simp⟩
    · simp only [dstep, hph, if_false]; exact ⟨hp, hc⟩

/-- **bounded_retries.** For EVERY schedule of claims, reports and lost reports (worker crashes
between claim and report, lease expiry, failing ReleaseClaim / DeadLetter / Delete updates), from
any starting attempt count `a₀` (a lowered MaxAttempts): an entry that is not yet terminal has
`attempts ≤ max (MaxAttempts − 1) a₀ + lost + 1`. With no lost report and a fresh entry this is
`attempts ≤ MaxAttempts`: the attempt counter never passes the bound without the entry being
terminal, except by one per report that was lost. -/
theorem bounded_retries (c : DCfg) (hM : c.maxAttempts > 0) (a0 : Nat) (steps : List DStep) :
    ((drun c { phase := .pending, attempts := a0, lost := 0 } steps).phase = .pending ∨
     (drun c { phase := .pending, attempts := a0, lost := 0 } steps).phase = .claimed) →
    (drun c { phase := .pending, attempts := a0, lost := 0 } steps).attempts ≤
      max (c.maxAttempts - 1) a0 + (drun c { phase := .pending, attempts := a0, lost := 0 } steps).lost + 1 := by
  have key : ∀ (steps : List DStep) (st : DState), Bounded c a0 st → Bounded c a0 (drun c st steps) := by
    intro steps
    induction steps with
    | nil => intro st h; exact h
    | cons x xs ih => intro st h; exact ih _ (bounded_step c hM a0 st x h)
  have h0 : Bounded c a0 { phase := .pending, attempts := a0, lost := 0 } :=
    ⟨fun _ => by simp; exact Nat.le_max_right _ _, fun h => by simp at h⟩
  have hb := key steps _ h0
  intro hph
  rcases hph with h | h
  · have := hb.1 h; omega
  · exact hb.2 h

/-- **exhausted_failure_is_terminal.** A reported failure of an attempt numbered MaxAttempts or
higher dead-letters the entry — also when the counter has moved PAST MaxAttempts (after a crash on
the last permitted attempt, a failed DeadLetter update, or a lowered MaxAttempts). -/
theorem exhausted_failure_is_terminal (c : DCfg) (hM : c.maxAttempts > 0) (st : DState)
    (hc : st.phase = .claimed) (ha : c.maxAttempts ≤ st.attempts) :
    (dstep c st .reportFail).phase = .dead := by
  simp [dstep, hc, hM, ha]

/-- delivered and dead are absorbing: no step publishes, releases or re-claims such an entry -/
theorem terminal_is_absorbing (c : DCfg) (st : DState) (step : DStep)
    (h : st.phase = .delivered ∨ st.phase = .dead) : dstep c st step = st := by
  rcases h with h | h <;> cases step <;> simp [dstep, h]

/-- `runOutcomes` without lost reports is `runScript` -/
theorem runOutcomes_eq_runScript (c : DCfg) (a : Nat) (script : List Bool) :
    runOutcomes c a (script.map fun b => if b then .ok else .fail) = runScript c a script := by
  induction script generalizing a with
  | nil => rfl
  | cons b rest ih =>
    cases b with
    | true => simp [runOutcomes, runScript]
    | false =>
      by_cases hmax : (c.maxAttempts > 0 && a + 1 ≥ c.maxAttempts) = true
      · simp [runOutcomes, runScript, hmax]
      · simp only [List.map_cons, Bool.false_eq_true, if_false, runOutcomes, runScript, hmax, ih (a + 1)]

/-- the number of Publish calls of a fresh entry never exceeds MaxAttempts + the number of lost reports -/
theorem publishes_bounded (c : DCfg) (hM : c.maxAttempts > 0) (a : Nat) (os : List PubOutcome) :
    a + (runOutcomes c a os).2.length ≤
      max c.maxAttempts (a + 1) + (os.filter fun o => o == .okLost || o == .failLost).length ∨
    (runOutcomes c a os).2 = [] := by
  induction os generalizing a with
  | nil => exact Or.inr rfl
  | cons o rest ih =>
    left
    cases o with
    | ok => simp [runOutcomes]; omega
    | fail =>
      by_cases hmax : (c.maxAttempts > 0 && a + 1 ≥ c.maxAttempts) = true
      · simp [runOutcomes, hmax]; omega
      · have hlt : a + 1 < c.maxAttempts := by
          simp only [Bool.and_eq_true, decide_eq_true_eq, not_and, Nat.not_le] at hmax
          exact hmax hM
        simp only [runOutcomes, hmax, Bool.false_eq_true, if_false, List.length_cons]
        rcases ih (a + 1) with h | h
        · simp only [List.filter_cons] at h ⊢
          simp at h ⊢
          omega
        · rw [h]; simp; omega
    | okLost =>
      simp only [runOutcomes, List.length_cons]
      rcases ih (a + 1) with h | h
      · simp at h ⊢; omega
      · rw [h]; simp; omega
    | failLost =>
      simp only [runOutcomes, List.length_cons]
      rcases ih (a + 1) with h | h
      · simp at h ⊢; omega
      · rw [h]; simp; omega

/-! ## non-vacuity -/

example :
    runScript { maxAttempts := 3, minBackoff := 40, maxBackoff := 100 } 0 [false, false, false, true] =
      (.dead, [⟨1, false, 40⟩, ⟨2, false, 80⟩, ⟨3, false, 0⟩]) := by decide

example :
    runScript { maxAttempts := 5, minBackoff := 30, maxBackoff := 200 } 0 [false, false, false, false, true] =
      (.delivered, [⟨1, false, 30⟩, ⟨2, false, 60⟩, ⟨3, false, 120⟩, ⟨4, false, 200⟩, ⟨5, true, 0⟩]) := by decide

example :
    ruleMatches { dest := [], events := ["s3:ObjectCreated:*".toList], filters := [⟨prefixName, "img/".toList⟩] }
      { name := "s3:ObjectCreated:Put".toList, bucket := "b".toList, key := "img/a.jpg".toList } = true := by decide

/-- a crash on the last permitted attempt (MaxAttempts = 2): one more claim, then dead — attempts = 3 = 2 + 1 lost -/
example :
    drun { maxAttempts := 2, minBackoff := 1, maxBackoff := 1 } { phase := .pending, attempts := 0, lost := 0 }
      [.claim, .reportFail, .claim, .lose, .claim, .reportFail] = { phase := .dead, attempts := 3, lost := 1 } := by decide

example :
    runOutcomes { maxAttempts := 2, minBackoff := 1, maxBackoff := 1 } 0 [.fail, .failLost, .fail, .fail] =
      (.dead, [⟨1, false, 1⟩, ⟨2, false, 0⟩, ⟨3, false, 0⟩]) := by decide

end Pithos.C22
