/-
C22 — event notifications are emitted exactly for committed mutations.

Property theorems about `Pithos.Notify` (tied to internal/storage/notification by the harness
c22.go and by the regenerated table `Pithos.Gen.NotifyOverrides`), against `Pithos.NotifyS3`.
All theorems are for every rule set, every event, every fault, every publish-outcome script of any
length; none carries a bound.

Partial (named honestly):
* the interleaving of SEVERAL dispatchers on one outbox (claim lease, version CAS) and lease expiry
  after a crashed worker are not modelled — the dispatcher theorems are about one entry under one
  dispatcher, which is what the differential run exercises;
* `AppendObject` is not overridden by the middleware (`appendObject_not_covered`), so
  `mutators_covered_partial` excludes it.
-/
import Pithos.Model.Notify
import Pithos.Spec.NotifyS3
import Pithos.Gen.NotifyOverrides

namespace Pithos.C22
open Pithos.Notify Pithos.NotifyS3

/-! ## (T1) which mutators notify, and that mutation and enqueue share one transaction -/

/-- every override reaches the inner storage only inside the closure run by runWithNotifications -/
theorem overridden_go_through_runWithNotifications :
    ∀ m ∈ Gen.NotifyOverrides.overridden, m ∈ Gen.NotifyOverrides.viaRunWithNotifications := by decide

/-- runWithNotifications opens ONE transaction on the middleware's database handle and runs the
mutation and then the enqueue inside it; the enqueue saves through that transaction. Together
with the run-time premise "the storage below uses the same database handle" (trace line
`shared 1`) this is the shared-transaction premise of `entry_iff_committed`. -/
theorem shared_transaction_shape :
    Gen.NotifyOverrides.runWithNotificationsShape =
      ["database.WithTx", "m.db", "mutate(ctx)", "m.enqueueEvents(ctx, tx, events)"] ∧
    Gen.NotifyOverrides.enqueueSaves = Gen.NotifyOverrides.enqueueSavesInTx ∧
    0 < Gen.NotifyOverrides.enqueueSaves := by decide

/-- the storage methods that change what a reader of an object sees and stand for an S3 event -/
def s3EventMutators : List String :=
  ["PutObject", "CopyObject", "CompleteMultipartUpload", "AppendObject", "DeleteObject", "DeleteObjects",
   "PutObjectTagging", "DeleteObjectTagging"]

theorem s3EventMutators_are_storage_methods :
    ∀ m ∈ s3EventMutators, m ∈ Gen.NotifyOverrides.storageMethods := by decide

/-- **mutators_covered_partial.** Every such mutator except AppendObject is overridden. -/
theorem mutators_covered_partial :
    ∀ m ∈ s3EventMutators, m ≠ "AppendObject" → m ∈ Gen.NotifyOverrides.overridden := by decide

/-- negation witness: AppendObject (creates or extends an object) falls through to the delegator,
so no outbox entry is ever written for it (replayed: harness case 4). -/
theorem appendObject_not_covered :
    "AppendObject" ∈ Gen.NotifyOverrides.storageMethods ∧ "AppendObject" ∉ Gen.NotifyOverrides.overridden := by decide

/-! ## (c) the rule matcher -/

theorem prefixName_ne_suffixName : prefixName ≠ suffixName := by decide

theorem eventPattern_spec (configured name : Str) :
    eventPatternMatches configured name = true ↔ Covers configured name := by
  unfold eventPatternMatches Covers
  simp only [Bool.or_eq_true, beq_iff_eq, Bool.and_eq_true, List.isSuffixOf_iff_suffix, List.isPrefixOf_iff_prefix]
  constructor
  · rintro (h | ⟨⟨base, hb⟩, hp⟩)
    · exact Or.inl h
    · refine Or.inr ⟨base, by simpa [colonStar] using hb.symm, ?_⟩
      have : dropLastChar configured = base ++ [':'] := by
        rw [← hb]
        simp [dropLastChar, colonStar, List.dropLast_append_of_ne_nil]
      rwa [this] at hp
  · rintro (h | ⟨base, hb, hp⟩)
    · exact Or.inl h
    · refine Or.inr ⟨⟨base, by simp [colonStar, hb]⟩, ?_⟩
      have : dropLastChar configured = base ++ [':'] := by
        rw [hb]
        simp [dropLastChar, List.dropLast_append_of_ne_nil]
      rwa [this]

theorem filterHolds_spec (f : FilterRule) (key : Str) :
    filterHolds f key = true ↔
      (f.name = prefixName → f.value <+: key) ∧ (f.name = suffixName → f.value <:+ key) := by
  unfold filterHolds
  by_cases hp : f.name = prefixName
  · have hs : f.name ≠ suffixName := by rw [hp]; exact prefixName_ne_suffixName
    simp [hp, List.isPrefixOf_iff_prefix, prefixName_ne_suffixName]
  · by_cases hs : f.name = suffixName
    · simp [hs, List.isSuffixOf_iff_suffix, Ne.symm prefixName_ne_suffixName]
    · simp [hp, hs]

/-- **matcher_spec.** `RuleMatches` selects exactly what S3's rule semantics select: one of the
rule's event types covers the event name (equal, or a `base:*` family containing it) and every
prefix / suffix filter rule holds for the key. -/
theorem matcher_spec (r : Rule) (e : Event) : ruleMatches r e = true ↔ Selects r e := by
  unfold ruleMatches Selects
  simp only [Bool.and_eq_true, List.any_eq_true, List.all_eq_true, eventPattern_spec, filterHolds_spec]

/-! ## (a) rows ⇔ committed ∧ selected -/

/-- the rows of one event: one per selecting rule, plus the EventBridge row -/
theorem mem_entriesFor (c : Config) (e : Event) (row : Row) :
    row ∈ entriesFor c e ↔
      (∃ r ∈ c.rules, Selects r e ∧ row = { dest := r.dest, event := e.name }) ∨
      (c.eventBridge = true ∧ row = { dest := eventBridgeDest c.bucket, event := e.name }) := by
  unfold entriesFor
  simp only [List.mem_append, List.mem_map, List.mem_filter, matcher_spec]
  constructor
  · rintro (⟨r, ⟨hr, hs⟩, rfl⟩ | h)
    · exact Or.inl ⟨r, hr, hs, rfl⟩
    · split at h
      · rename_i heb
        exact Or.inr ⟨heb, by simpa using h⟩
      · simp at h
  · rintro (⟨r, hr, hs, rfl⟩ | ⟨heb, rfl⟩)
    · exact Or.inl ⟨r, ⟨hr, hs⟩, rfl⟩
    · exact Or.inr (by simp [heb])

/-- **entry_iff_committed.** With mutation and outbox inserts in one transaction, for every fault
point — the mutation fails, the i-th insert fails, the commit fails, nothing fails — the rows of
the attempt that exist afterwards are exactly the demanded ones if the mutation committed and none
otherwise; and the caller is told `ok` exactly when it committed. -/
theorem entry_iff_committed (rows : List Row) (f : Fault) :
    (attempt true rows f).rows = (if (attempt true rows f).committed then rows else []) ∧
    (attempt true rows f).ok = (attempt true rows f).committed := by
  cases f with
  | none => simp [attempt]
  | mutationFails => simp [attempt]
  | commitFails => simp [attempt]
  | insertFails i =>
    by_cases h : i < rows.length <;> simp [attempt, h]

/-- … in terms of rules: a row exists iff the mutation committed and a rule selects one of its
events (or the bucket has EventBridge enabled) -/
theorem entry_iff_committed_and_selected (c : Config) (es : List Event) (f : Fault) (row : Row) :
    row ∈ (attempt true (entriesForAll c es) f).rows ↔
      (attempt true (entriesForAll c es) f).committed = true ∧
      ∃ e ∈ es, (∃ r ∈ c.rules, Selects r e ∧ row = { dest := r.dest, event := e.name }) ∨
                (c.eventBridge = true ∧ row = { dest := eventBridgeDest c.bucket, event := e.name }) := by
  rw [(entry_iff_committed _ f).1]
  cases hc : (attempt true (entriesForAll c es) f).committed with
  | false => simp
  | true =>
    simp only [if_true, true_and, entriesForAll, List.mem_flatMap, mem_entriesFor]

/-- the whole outbox after any history of attempts is the concatenation of the demanded rows of
the committed ones -/
theorem outbox_eq_demanded (c : Config) (ops : List (List Event × Fault)) :
    (ops.flatMap fun op => (attempt true (entriesForAll c op.1) op.2).rows) =
    (ops.flatMap fun op => op.1.flatMap (demanded c (attempt true (entriesForAll c op.1) op.2).committed)) := by
  induction ops with
  | nil => rfl
  | cons op ops ih =>
    simp only [List.flatMap_cons, ih]
    congr 1
    rw [(entry_iff_committed _ op.2).1]
    have ht : demanded c true = entriesFor c := by funext e; simp [demanded]
    have hf : ∀ l : List Event, l.flatMap (demanded c false) = [] := by
      intro l
      induction l with
      | nil => rfl
      | cons e es ihe => simp [List.flatMap_cons, ihe, demanded]
    cases (attempt true (entriesForAll c op.1) op.2).committed with
    | true => simp [ht, entriesForAll]
    | false => simp [hf]

/-- negation witness for the best-effort mode (storage on a DIFFERENT database handle): the insert
fails after the mutation has committed on its own — a committed mutation without its row. -/
theorem split_transaction_breaks_atomicity (r : Row) :
    (attempt false [r] (.insertFails 0)).committed = true ∧ (attempt false [r] (.insertFails 0)).rows = [] := by
  simp [attempt]

/-! ## (b) the dispatcher on one entry -/

/-- **backoff_bounds.** The scheduled delay lies within the configured limits, equals
`min·2^(n−1)` as long as that does not exceed the maximum, and never decreases. -/
theorem backoff_bounds (c : DCfg) (h : c.minBackoff ≤ c.maxBackoff) (n : Nat) :
    c.minBackoff ≤ backoff c n ∧ backoff c n ≤ c.maxBackoff ∧
    (c.minBackoff * 2 ^ (n - 1) ≤ c.maxBackoff → backoff c n = c.minBackoff * 2 ^ (n - 1)) := by
  have hpow : 1 ≤ 2 ^ (n - 1) := Nat.one_le_two_pow
  have hge : c.minBackoff ≤ c.minBackoff * 2 ^ (n - 1) := Nat.le_mul_of_pos_right _ hpow
  unfold backoff
  simp only
  split
  · exact ⟨h, Nat.le_refl _, fun h' => absurd h' (by omega)⟩
  · exact ⟨hge, by omega, fun _ => rfl⟩

theorem backoff_mono (c : DCfg) (n m : Nat) (h : n ≤ m) : backoff c n ≤ backoff c m := by
  have hp : 2 ^ (n - 1) ≤ 2 ^ (m - 1) := Nat.pow_le_pow_right (by decide) (by omega)
  have hm : c.minBackoff * 2 ^ (n - 1) ≤ c.minBackoff * 2 ^ (m - 1) := Nat.mul_le_mul_left _ hp
  unfold backoff
  simp only
  split <;> split <;> omega

/-- bookkeeping of `runScript`, for an entry that has made `a` attempts so far -/
theorem runScript_spec (c : DCfg) (a : Nat) (script : List Bool) :
    let res := runScript c a script
    -- attempts are numbered consecutively from a+1, no more publishes than outcomes
    (∀ i (h : i < res.2.length), (res.2[i]).attempt = a + 1 + i) ∧ res.2.length ≤ script.length ∧
    -- delivered: the last publish, and only it, succeeded
    (res.1 = .delivered → ∃ pre p, res.2 = pre ++ [p] ∧ p.ok = true ∧ ∀ q ∈ pre, q.ok = false) ∧
    -- dead: every publish failed, MaxAttempts is configured and reached exactly (if not already exceeded)
    (res.1 = .dead → c.maxAttempts > 0 ∧ (∀ q ∈ res.2, q.ok = false) ∧ c.maxAttempts ≤ a + res.2.length ∧
      (a < c.maxAttempts → a + res.2.length = c.maxAttempts)) ∧
    -- pending: every outcome was consumed and failed, and the limit is not reached
    (∀ k, res.1 = .pending k → k = a + script.length ∧ res.2.length = script.length ∧ (∀ q ∈ res.2, q.ok = false) ∧
      (c.maxAttempts = 0 ∨ k < c.maxAttempts ∨ script = [])) ∧
    -- every failed publish that is followed by another one scheduled exactly `backoff c attempt`
    (∀ q ∈ res.2, q.ok = false → q.delay = 0 ∨ q.delay = backoff c q.attempt) := by
  induction script generalizing a with
  | nil => simp [runScript]
  | cons ok rest ih =>
    cases ok with
    | true =>
      simp only [runScript, if_true]
      refine ⟨?_, by simp, ?_, by simp, by simp, by simp⟩
      · intro i h
        have : i = 0 := by simpa using h
        subst this; simp
      · intro _
        exact ⟨[], _, rfl, rfl, by simp⟩
    | false =>
      by_cases hmax : (c.maxAttempts > 0 && a + 1 ≥ c.maxAttempts) = true
      · simp only [runScript, Bool.false_eq_true, if_false, hmax, if_true]
        simp only [Bool.and_eq_true, decide_eq_true_eq] at hmax
        refine ⟨?_, by simp, by simp, ?_, by simp, by simp⟩
        · intro i h
          have : i = 0 := by simpa using h
          subst this; simp
        · intro _
          refine ⟨hmax.1, by simp, by simp; omega, ?_⟩
          intro ha; simp; omega
      · have hstep : runScript c a (false :: rest) =
            ((runScript c (a + 1) rest).1, { attempt := a + 1, ok := false, delay := backoff c (a + 1) } :: (runScript c (a + 1) rest).2) := by
          simp only [runScript, Bool.false_eq_true, if_false, hmax]
        have hmax' : ¬ (c.maxAttempts > 0 ∧ a + 1 ≥ c.maxAttempts) := by
          simpa [Bool.and_eq_true, decide_eq_true_eq] using hmax
        obtain ⟨h1, h2, h3, h4, h5, h6⟩ := ih (a + 1)
        simp only [hstep]
        refine ⟨?_, by simp; omega, ?_, ?_, ?_, ?_⟩
        · intro i h
          cases i with
          | zero => simp
          | succ j =>
            simp only [List.length_cons] at h
            have := h1 j (by omega)
            simp only [List.getElem_cons_succ]
            omega
        · intro hd
          obtain ⟨pre, p, hp, hok, hall⟩ := h3 hd
          refine ⟨{ attempt := a + 1, ok := false, delay := backoff c (a + 1) } :: pre, p, by simp [hp], hok, ?_⟩
          intro q hq
          rcases List.mem_cons.1 hq with rfl | hq
          · rfl
          · exact hall q hq
        · intro hd
          obtain ⟨hm, hall, hle, heq⟩ := h4 hd
          refine ⟨hm, ?_, by simp; omega, ?_⟩
          · intro q hq
            rcases List.mem_cons.1 hq with rfl | hq
            · rfl
            · exact hall q hq
          · intro ha
            have : a + 1 < c.maxAttempts := by omega
            have := heq this
            simp; omega
        · intro k hk
          obtain ⟨hk1, hk2, hall, hlim⟩ := h5 k hk
          refine ⟨by simp; omega, by simp [hk2], ?_, ?_⟩
          · intro q hq
            rcases List.mem_cons.1 hq with rfl | hq
            · rfl
            · exact hall q hq
          · rcases hlim with h | h | h
            · exact Or.inl h
            · exact Or.inr (Or.inl h)
            · subst h
              simp only [List.length_nil] at hk1
              by_cases hz : c.maxAttempts = 0
              · exact Or.inl hz
              · exact Or.inr (Or.inl (by omega))
        · intro q hq hf
          rcases List.mem_cons.1 hq with rfl | hq
          · exact Or.inr rfl
          · exact h6 q hq hf

/-- **deadletter_after_max.** A fresh entry is dead-lettered only with MaxAttempts configured,
after exactly MaxAttempts publishes, all of them failed — never earlier — and whatever outcomes
would follow are not consumed: it is never retried afterwards. -/
theorem deadletter_after_max (c : DCfg) (script : List Bool) (h : (runScript c 0 script).1 = .dead) :
    c.maxAttempts > 0 ∧ (runScript c 0 script).2.length = c.maxAttempts ∧
    (∀ q ∈ (runScript c 0 script).2, q.ok = false) ∧
    ∀ more, runScript c 0 (script ++ more) = runScript c 0 script := by
  obtain ⟨_, _, _, h4, _, _⟩ := runScript_spec c 0 script
  obtain ⟨hm, hall, _, heq⟩ := h4 h
  refine ⟨hm, by simpa using heq hm, hall, ?_⟩
  -- a settled run ignores further outcomes
  have key : ∀ (a : Nat) (s more : List Bool), (∀ k, (runScript c a s).1 ≠ .pending k) →
      runScript c a (s ++ more) = runScript c a s := by
    intro a s
    induction s generalizing a with
    | nil => intro more hp; exact absurd rfl (hp a)
    | cons ok rest ih =>
      intro more hp
      cases ok with
      | true => simp [runScript]
      | false =>
        by_cases hmax : (c.maxAttempts > 0 && a + 1 ≥ c.maxAttempts) = true
        · simp [runScript, hmax]
        · have hrec : ∀ k, (runScript c (a + 1) rest).1 ≠ .pending k := by
            intro k hk
            apply hp k
            simp only [runScript, Bool.false_eq_true, if_false, hmax]
            exact hk
          simp only [List.cons_append, runScript, Bool.false_eq_true, if_false, hmax, ih (a + 1) more hrec]
  exact fun more => key 0 script more (by intro k hk; rw [h] at hk; cases hk)

/-- a delivered entry is likewise never published again -/
theorem delivered_is_final (c : DCfg) (script more : List Bool) (h : (runScript c 0 script).1 = .delivered) :
    runScript c 0 (script ++ more) = runScript c 0 script := by
  have key : ∀ (a : Nat) (s more : List Bool), (∀ k, (runScript c a s).1 ≠ .pending k) →
      runScript c a (s ++ more) = runScript c a s := by
    intro a s
    induction s generalizing a with
    | nil => intro more hp; exact absurd rfl (hp a)
    | cons ok rest ih =>
      intro more hp
      cases ok with
      | true => simp [runScript]
      | false =>
        by_cases hmax : (c.maxAttempts > 0 && a + 1 ≥ c.maxAttempts) = true
        · simp [runScript, hmax]
        · have hrec : ∀ k, (runScript c (a + 1) rest).1 ≠ .pending k := by
            intro k hk
            apply hp k
            simp only [runScript, Bool.false_eq_true, if_false, hmax]
            exact hk
          simp only [List.cons_append, runScript, Bool.false_eq_true, if_false, hmax, ih (a + 1) more hrec]
  exact key 0 script more (by intro k hk; rw [h] at hk; cases hk)

/-- **delivered_at_least_once_or_deadlettered.** There is no stuck state: after any sequence of
publish outcomes an entry is delivered (exactly one successful publish, the last), dead-lettered,
or pending with a finite next attempt (`backoff` of its attempt count, which `backoff_bounds`
bounds by MaxBackoff) — and with MaxAttempts configured it cannot stay pending for MaxAttempts
outcomes: it is settled after at most MaxAttempts publishes. -/
theorem delivered_at_least_once_or_deadlettered (c : DCfg) (script : List Bool) :
    ((runScript c 0 script).1 = .delivered ∧
        ∃ pre p, (runScript c 0 script).2 = pre ++ [p] ∧ p.ok = true ∧ ∀ q ∈ pre, q.ok = false) ∨
    (runScript c 0 script).1 = .dead ∨
    ((runScript c 0 script).1 = .pending script.length ∧ (c.maxAttempts = 0 ∨ script.length < c.maxAttempts)) := by
  obtain ⟨_, _, h3, _, h5, _⟩ := runScript_spec c 0 script
  cases hf : (runScript c 0 script).1 with
  | delivered => exact Or.inl ⟨rfl, h3 hf⟩
  | dead => exact Or.inr (Or.inl rfl)
  | pending k =>
    obtain ⟨hk, _, _, hlim⟩ := h5 k hf
    have hk' : k = script.length := by simpa using hk
    subst hk'
    refine Or.inr (Or.inr ⟨rfl, ?_⟩)
    rcases hlim with h | h | h
    · exact Or.inl h
    · exact Or.inr h
    · subst h
      by_cases hz : c.maxAttempts = 0
      · exact Or.inl hz
      · exact Or.inr (by simp; omega)

/-- settled within MaxAttempts publishes -/
theorem settles_within_max (c : DCfg) (script : List Bool) (hm : c.maxAttempts > 0)
    (hl : c.maxAttempts ≤ script.length) :
    (runScript c 0 script).1 = .delivered ∨ (runScript c 0 script).1 = .dead := by
  rcases delivered_at_least_once_or_deadlettered c script with h | h | ⟨_, h⟩
  · exact Or.inl h.1
  · exact Or.inr h
  · omega

/-! ## non-vacuity -/

example :
    runScript { maxAttempts := 3, minBackoff := 40, maxBackoff := 100 } 0 [false, false, false, true] =
      (.dead, [⟨1, false, 40⟩, ⟨2, false, 80⟩, ⟨3, false, 0⟩]) := by decide

example :
    runScript { maxAttempts := 5, minBackoff := 30, maxBackoff := 200 } 0 [false, false, false, false, true] =
      (.delivered, [⟨1, false, 30⟩, ⟨2, false, 60⟩, ⟨3, false, 120⟩, ⟨4, false, 200⟩, ⟨5, true, 0⟩]) := by decide

example :
    ruleMatches { dest := [], events := ["s3:ObjectCreated:*".toList], filters := [⟨prefixName, "img/".toList⟩] }
      { name := "s3:ObjectCreated:Put".toList, key := "img/a.jpg".toList } = true := by decide

end Pithos.C22
