import Pithos.Model.S3
namespace Pithos.C01
open Pithos.S3
theorem placeholder_run_nil (q : Quirks) (s : State) : (run q s []).2 = [] := rfl
end Pithos.C01
