/-
C01 — acknowledged object writes are read back exactly.

Theorems about the storage model `Pithos.S3` (tied to /repo by the differential harness `s3h`).
They hold for every setting `q` of the quirk switches, i.e. both for the code as it is
(`Quirks.code`) and for the reference behaviour, in every state satisfying the row invariant
`Inv` — and `reachable_inv` shows that is every state reachable by any finite history.
-/
import Pithos.Lemmas.S3Read

namespace Pithos.C01
open Pithos.S3

/-- Every state reachable from the empty storage by any finite operation sequence satisfies the
row invariant (distinct row ids below the counter; at most one `latest` row per key). -/
theorem reachable_inv (q : Quirks) (ops : List Op) : Inv (run q {} ops).1 := by
  have gen : ∀ (s : State), Inv s → Inv (run q s ops).1 := by
    induction ops with
    | nil => intro s h; exact h
    | cons op ops ih =>
      intro s h
      have := ih (step q s op).1 (step_inv q s op h)
      simpa [run] using this
  exact gen {} (by intro bk hbk; cases hbk)

/-- Shape of an acknowledged PutObject. -/
theorem put_ack {q : Quirks} {s s1 : State} {b k : String} {body : Bytes} {o : WriteOpts} {inm : Bool} {im : IfMatch}
    {vid : Option Nat} {e : ETag} (h : step q s (.put b k body o inm im) = (s1, .wrote vid e)) :
    ∃ bk, findBucket { s with clock := s.clock + 1 } b = some bk ∧
      putRow q { s with clock := s.clock + 1 } bk k { parts := [body], etag := singleETag body, o := o } inm im = .ok (s1, vid) := by
  simp only [step, stepT] at h
  cases hfb : findBucket { s with clock := s.clock + 1 } b with
  | none => simp [hfb] at h
  | some bk =>
    simp only [hfb] at h
    cases hp : putRow q { s with clock := s.clock + 1 } bk k { parts := [body], etag := singleETag body, o := o } inm im with
    | error err => simp [hp] at h
    | ok x =>
      simp only [hp] at h
      obtain ⟨s', v'⟩ := x
      simp only [Prod.mk.injEq, Out.wrote.injEq] at h
      obtain ⟨h1, h2, _⟩ := h
      exact ⟨bk, rfl, by rw [hp, h1, h2]⟩

/-- **read_after_put.** In every state satisfying the invariant (hence in every reachable state),
an acknowledged PutObject of `body` with content type `o.ct` is read back by the next
GetObject/HeadObject of that key exactly: same bytes, same size, same content type. Bodies are
arbitrary byte lists — empty and arbitrarily large included. -/
theorem read_after_put (q : Quirks) (s s1 : State) (hinv : Inv s) (b k : String) (body : Bytes) (o : WriteOpts)
    (inm : Bool) (im : IfMatch) (vid : Option Nat) (e : ETag)
    (hack : step q s (.put b k body o inm im) = (s1, .wrote vid e)) :
    ∃ v, (step q s1 (.get b k none)).2 = .obj v ∧ (step q s1 (.head b k none)).2 = .obj v ∧
      v.body = body ∧ v.size = body.length ∧ v.ct = o.ct ∧ v.vid = vid := by
  obtain ⟨bk, hfb, hp⟩ := put_ack hack
  obtain ⟨bk', row, hfb', hl, _, hdm, hparts, _, hct, _, _, _, hvid, _⟩ :=
    putRow_current (h := inv_tick hinv) hfb hp
  obtain ⟨hg, hh⟩ := get_current (q := q) hfb' hl hdm
  refine ⟨viewOf row, hg, hh, ?_, ?_, ?_, ?_⟩
  · simp [viewOf, Row.content, hparts]
  · simp [viewOf, Row.size, Row.content, hparts]
  · simp [viewOf, hct]
  · simp [viewOf, hvid]

/-- For every history: the state it reaches reads back the next acknowledged put. -/
theorem read_after_put_reachable (q : Quirks) (ops : List Op) (b k : String) (body : Bytes) (o : WriteOpts)
    (inm : Bool) (im : IfMatch) (s1 : State) (vid : Option Nat) (e : ETag)
    (hack : step q (run q {} ops).1 (.put b k body o inm im) = (s1, .wrote vid e)) :
    ∃ v, (step q s1 (.get b k none)).2 = .obj v ∧ v.body = body ∧ v.size = body.length ∧ v.ct = o.ct := by
  obtain ⟨v, hg, _, h1, h2, h3, _⟩ := read_after_put q _ s1 (reachable_inv q ops) b k body o inm im vid e hack
  exact ⟨v, hg, h1, h2, h3⟩

/-- NoSuchBucket exactly when the bucket is absent. -/
theorem get_nosuchbucket_iff (q : Quirks) (s : State) (b k : String) :
    (step q s (.get b k none)).2 = .err .noSuchBucket ↔ findBucket s b = none := by
  have hfb : findBucket { s with clock := s.clock + 1 } b = findBucket s b := rfl
  simp only [step, stepT, hfb]
  cases hf : findBucket s b with
  | none => simp
  | some bk =>
    simp only []
    cases hr : resolve bk k none with
    | error e =>
      simp only [resolve] at hr
      cases hl : latestRow bk k with
      | none => simp [hl] at hr; subst hr; simp
      | some r =>
        simp only [hl] at hr
        by_cases hd : r.dm = true
        · simp [hd] at hr; subst hr; simp
        · simp [hd] at hr
    | ok r => simp

/-- NoSuchKey exactly when the bucket exists and the key has no current version that is an object
(no row flagged latest, or the latest row is a delete marker). -/
theorem get_nosuchkey_iff (q : Quirks) (s : State) (b k : String) :
    (step q s (.get b k none)).2 = .err .noSuchKey ↔
      ∃ bk, findBucket s b = some bk ∧ (latestRow bk k = none ∨ ∃ r, latestRow bk k = some r ∧ r.dm = true) := by
  have hfb : findBucket { s with clock := s.clock + 1 } b = findBucket s b := rfl
  simp only [step, stepT, hfb]
  cases hf : findBucket s b with
  | none => simp
  | some bk =>
    simp only [resolve]
    cases hl : latestRow bk k with
    | none => simp [hl]
    | some r =>
      by_cases hd : r.dm = true
      · simp [hd, hl]
      · simp [hd, hl]

/-- **delete_bucket_ok_iff_empty.** DeleteBucket succeeds exactly for an existing bucket holding no
object rows at all (no versions, no delete markers) and no pending uploads. -/
theorem delete_bucket_ok_iff_empty (q : Quirks) (s : State) (b : String) :
    (step q s (.rmb b)).2 = .unit ↔ ∃ bk, findBucket s b = some bk ∧ bk.rows = [] ∧ bk.uploads = [] := by
  have hfb : findBucket { s with clock := s.clock + 1 } b = findBucket s b := rfl
  simp only [step, stepT, hfb]
  cases hf : findBucket s b with
  | none => simp
  | some bk =>
    simp only []
    by_cases hr : bk.rows = []
    · by_cases hu : bk.uploads = []
      · simp [hr, hu]
      · simp [hr, hu]
    · simp [hr]

/-- Reads do not change the stored buckets (so interleaved reads never disturb a later read). -/
theorem reads_preserve_buckets (q : Quirks) (s : State) (b k : String) (vid : Option (Option Nat)) :
    (step q s (.get b k vid)).1.buckets = s.buckets ∧ (step q s (.head b k vid)).1.buckets = s.buckets := by
  constructor <;>
  · simp only [step, stepT]
    cases findBucket { s with clock := s.clock + 1 } b with
    | none => rfl
    | some bk => simp only []; cases resolve bk k vid <;> rfl

/-- Non-vacuity: a concrete history (create bucket, put an empty object, overwrite it) reaches a state
from which the hypotheses of `read_after_put` are met and the read returns the bytes. -/
example : (step Quirks.code (run Quirks.code {} [.mkb "b", .put "b" "k" [] {} false .none]).1
    (.put "b" "k" [1, 2, 3] { ct := some "text/plain" } false .none)).2 = .wrote none (singleETag [1, 2, 3]) := by
  decide

end Pithos.C01
