/-
C01 — acknowledged object writes are read back exactly.

Theorems about the storage model `Pithos.S3` (tied to /repo by the differential harness `s3h`).
They hold for every setting `q` of the quirk switches, i.e. both for the code as it is
(`Quirks.code`) and for the reference behaviour, in every state satisfying the row invariant
`Inv` — and `reachable_inv` shows that is every state reachable by any finite history.
-/
import Pithos.Lemmas.S3FrameStep

namespace Pithos.C01
open Pithos.S3

/-- Every state reachable from the empty storage by any finite operation sequence satisfies the
row invariant (distinct row ids below the counter; at most one `latest` row per key). -/
theorem reachable_inv (q : Quirks) (ops : List Op) : Inv (run q {} ops).1 := by
  have gen : ∀ (s : State), Inv s → Inv (run q s ops).1 := by
    induction ops with
    | nil => intro s h; exact h
    | cons op ops ih =>
      intro s h
      have := ih (step q s op).1 (step_inv q s op h)
      simpa [run] using this
  exact gen {} (by intro bk hbk; cases hbk)

/-- Shape of an acknowledged PutObject. -/
theorem put_ack {q : Quirks} {s s1 : State} {b k : String} {body : Bytes} {o : WriteOpts} {inm : Bool} {im : IfMatch}
    {vid : Option Nat} {e : ETag} (h : step q s (.put b k body o inm im) = (s1, .wrote vid e)) :
    ∃ bk, findBucket { s with clock := s.clock + 1 } b = some bk ∧
      putRow q { s with clock := s.clock + 1 } bk k { parts := [body], etag := singleETag body, o := o } inm im = .ok (s1, vid) := by
  simp only [step, stepT] at h
  cases hfb : findBucket { s with clock := s.clock + 1 } b with
  | none => simp [hfb] at h
  | some bk =>
    simp only [hfb] at h
    cases hp : putRow q { s with clock := s.clock + 1 } bk k { parts := [body], etag := singleETag body, o := o } inm im with
    | error err => simp [hp] at h
    | ok x =>
      simp only [hp] at h
      obtain ⟨s', v'⟩ := x
      simp only [Prod.mk.injEq, Out.wrote.injEq] at h
      obtain ⟨h1, h2, _⟩ := h
      exact ⟨bk, rfl, by rw [hp, h1, h2]⟩

/-- **read_after_put.** In every state satisfying the invariant (hence in every reachable state),
an acknowledged PutObject of `body` with content type `o.ct` is read back by the next
GetObject/HeadObject of that key exactly: same bytes, same size, same content type. Bodies are
arbitrary byte lists — empty and arbitrarily large included. -/
theorem read_after_put (q : Quirks) (s s1 : State) (hinv : Inv s) (b k : String) (body : Bytes) (o : WriteOpts)
    (inm : Bool) (im : IfMatch) (vid : Option Nat) (e : ETag)
    (hack : step q s (.put b k body o inm im) = (s1, .wrote vid e)) :
    ∃ v, (step q s1 (.get b k none)).2 = .obj v ∧ (step q s1 (.head b k none)).2 = .obj v ∧
      v.body = body ∧ v.size = body.length ∧ v.ct = o.ct ∧ v.vid = vid := by
  obtain ⟨bk, hfb, hp⟩ := put_ack hack
  obtain ⟨bk', row, hfb', hl, _, hdm, hparts, _, hct, _, _, _, hvid, _⟩ :=
    putRow_current (h := inv_tick hinv) hfb hp
  obtain ⟨hg, hh⟩ := get_current (q := q) hfb' hl hdm
  refine ⟨viewOf row, hg, hh, ?_, ?_, ?_, ?_⟩
  · simp [viewOf, Row.content, hparts]
  · simp [viewOf, Row.size, Row.content, hparts]
  · simp [viewOf, hct]
  · simp [viewOf, hvid]

/-- For every history: the state it reaches reads back the next acknowledged put. -/
theorem read_after_put_reachable (q : Quirks) (ops : List Op) (b k : String) (body : Bytes) (o : WriteOpts)
    (inm : Bool) (im : IfMatch) (s1 : State) (vid : Option Nat) (e : ETag)
    (hack : step q (run q {} ops).1 (.put b k body o inm im) = (s1, .wrote vid e)) :
    ∃ v, (step q s1 (.get b k none)).2 = .obj v ∧ v.body = body ∧ v.size = body.length ∧ v.ct = o.ct := by
  obtain ⟨v, hg, _, h1, h2, h3, _⟩ := read_after_put q _ s1 (reachable_inv q ops) b k body o inm im vid e hack
  exact ⟨v, hg, h1, h2, h3⟩

/-- NoSuchBucket exactly when the bucket is absent. -/
theorem get_nosuchbucket_iff (q : Quirks) (s : State) (b k : String) :
    (step q s (.get b k none)).2 = .err .noSuchBucket ↔ findBucket s b = none := by
  have hfb : findBucket { s with clock := s.clock + 1 } b = findBucket s b := rfl
  simp only [step, stepT, hfb]
  cases hf : findBucket s b with
  | none => simp
  | some bk =>
    simp only []
    cases hr : resolve bk k none with
    | error e =>
      simp only [resolve] at hr
      cases hl : latestRow bk k with
      | none => simp [hl] at hr; subst hr; simp
      | some r =>
        simp only [hl] at hr
        by_cases hd : r.dm = true
        · simp [hd] at hr; subst hr; simp
        · simp [hd] at hr
    | ok r => simp

/-- NoSuchKey exactly when the bucket exists and the key has no current version that is an object
(no row flagged latest, or the latest row is a delete marker). -/
theorem get_nosuchkey_iff (q : Quirks) (s : State) (b k : String) :
    (step q s (.get b k none)).2 = .err .noSuchKey ↔
      ∃ bk, findBucket s b = some bk ∧ (latestRow bk k = none ∨ ∃ r, latestRow bk k = some r ∧ r.dm = true) := by
  have hfb : findBucket { s with clock := s.clock + 1 } b = findBucket s b := rfl
  simp only [step, stepT, hfb]
  cases hf : findBucket s b with
  | none => simp
  | some bk =>
    simp only [resolve]
    cases hl : latestRow bk k with
    | none => simp [hl]
    | some r =>
      by_cases hd : r.dm = true
      · simp [hd, hl]
      · simp [hd, hl]

/-- **delete_bucket_ok_iff_empty.** DeleteBucket succeeds exactly for an existing bucket holding no
object rows at all (no versions, no delete markers) and no pending uploads. -/
theorem delete_bucket_ok_iff_empty (q : Quirks) (s : State) (b : String) :
    (step q s (.rmb b)).2 = .unit ↔ ∃ bk, findBucket s b = some bk ∧ bk.rows = [] ∧ bk.uploads = [] := by
  have hfb : findBucket { s with clock := s.clock + 1 } b = findBucket s b := rfl
  simp only [step, stepT, hfb]
  cases hf : findBucket s b with
  | none => simp
  | some bk =>
    simp only []
    by_cases hr : bk.rows = []
    · by_cases hu : bk.uploads = []
      · simp [hr, hu]
      · simp [hr, hu]
    · simp [hr]

/-- Reads do not change the stored buckets (so interleaved reads never disturb a later read). -/
theorem reads_preserve_buckets (q : Quirks) (s : State) (b k : String) (vid : Option (Option Nat)) :
    (step q s (.get b k vid)).1.buckets = s.buckets ∧ (step q s (.head b k vid)).1.buckets = s.buckets := by
  constructor <;>
  · simp only [step, stepT]
    cases findBucket { s with clock := s.clock + 1 } b with
    | none => rfl
    | some bk => simp only []; cases resolve bk k vid <;> rfl

/-- Non-vacuity: a concrete history (create bucket, put an empty object, overwrite it) reaches a state
from which the hypotheses of `read_after_put` are met and the read returns the bytes. -/
example : (step Quirks.code (run Quirks.code {} [.mkb "b", .put "b" "k" [] {} false .none]).1
    (.put "b" "k" [1, 2, 3] { ct := some "text/plain" } false .none)).2 = .wrote none (singleETag [1, 2, 3]) := by
  decide

/-- What a successful plain GET shows, in terms of the current-version view. -/
theorem get_obj_cur {q : Quirks} {s : State} {b k : String} {v : ObjView}
    (h : (step q s (.get b k none)).2 = .obj v) :
    ∃ c, curView s b k = some c ∧ c.dm = false ∧ v.body = c.parts.flatten ∧ v.ct = c.ct ∧ v.md = c.md ∧
      v.etag = c.etag ∧ v.vid = c.vid := by
  have hfb : findBucket { s with clock := s.clock + 1 } b = findBucket s b := rfl
  simp only [step, stepT, hfb] at h
  unfold curView
  cases hf : findBucket s b with
  | none => simp [hf] at h
  | some bk =>
    simp only [hf, resolve] at h
    cases hl : latestRow bk k with
    | none => simp [hl] at h
    | some r =>
      simp only [hl] at h
      by_cases hd : r.dm = true
      · simp [hd] at h
      · simp only [hd, Bool.false_eq_true, if_false] at h
        injection h with h
        refine ⟨cv r, ?_, by simpa [cv] using hd, ?_⟩
        · simp only [Option.bind_some, CVr, ← latestRow_pk, hl, Option.map_some]
        · subst h; simp [viewOf, cv, Row.content]

theorem get_of_cur {q : Quirks} {s : State} {b k : String} {c : CV}
    (h : curView s b k = some c) (hdm : c.dm = false) :
    ∃ v, (step q s (.get b k none)).2 = .obj v ∧ v.body = c.parts.flatten ∧ v.size = c.parts.flatten.length ∧
      v.ct = c.ct ∧ v.md = c.md ∧ v.etag = c.etag ∧ v.vid = c.vid := by
  unfold curView at h
  cases hf : findBucket s b with
  | none => simp [hf] at h
  | some bk =>
    simp only [hf, Option.bind_some, CVr, ← latestRow_pk] at h
    cases hl : latestRow bk k with
    | none => simp [hl] at h
    | some r =>
      simp only [hl, Option.map_some, Option.some.injEq] at h
      subst h
      obtain ⟨hg, _⟩ := get_current (q := q) hf hl (by simpa [cv] using hdm)
      exact ⟨viewOf r, hg, by simp [viewOf, cv, Row.content], by simp [viewOf, cv, Row.size, Row.content],
        by simp [viewOf, cv], by simp [viewOf, cv], by simp [viewOf, cv], by simp [viewOf, cv]⟩

/-- **get_stable (frame).** Whatever a plain GET of (b, k) returns in a state satisfying the
invariant, it still returns — same bytes, size, content type, user metadata, ETag and version id —
after ANY sequence of operations none of which writes (b, k): operations on other keys and other
buckets (puts, deletes, copies, appends, multipart uploads, versioning changes, bucket creation and
deletion), reads, listings, and tagging / storage-class transitions of (b, k) itself. -/
theorem get_stable (q : Quirks) (s : State) (hinv : Inv s) (b k : String) (v : ObjView)
    (hget : (step q s (.get b k none)).2 = .obj v) (ops : List Op) (hnw : ∀ op ∈ ops, ¬ Writes op b k) :
    ∃ v', (step q (run q s ops).1 (.get b k none)).2 = .obj v' ∧ v'.body = v.body ∧ v'.size = v.body.length ∧
      v'.ct = v.ct ∧ v'.md = v.md ∧ v'.etag = v.etag ∧ v'.vid = v.vid := by
  obtain ⟨c, hc, hdm, h1, h2, h3, h4, h5⟩ := get_obj_cur hget
  have hc' : curView (run q s ops).1 b k = some c := by rw [frame_run q ops b k hnw s hinv, hc]
  obtain ⟨v', hg, g1, g2, g3, g4, g5, g6⟩ := get_of_cur (q := q) hc' hdm
  exact ⟨v', hg, by rw [g1, h1], by rw [g2, h1], by rw [g3, h2], by rw [g4, h3], by rw [g5, h4], by rw [g6, h5]⟩

/-- **last_write_wins.** After an acknowledged PutObject of `body` to (b, k), and any further
operations that do not write (b, k), a GET of (b, k) returns exactly `body` (with its size and
content type): the last acknowledged write to a key determines what is read, whatever happens to
other keys and buckets in between. -/
theorem last_write_wins (q : Quirks) (s s1 : State) (hinv : Inv s) (b k : String) (body : Bytes) (o : WriteOpts)
    (inm : Bool) (im : IfMatch) (vid : Option Nat) (e : ETag)
    (hack : step q s (.put b k body o inm im) = (s1, .wrote vid e))
    (ops : List Op) (hnw : ∀ op ∈ ops, ¬ Writes op b k) :
    ∃ v, (step q (run q s1 ops).1 (.get b k none)).2 = .obj v ∧ v.body = body ∧ v.size = body.length ∧
      v.ct = o.ct ∧ v.vid = vid := by
  obtain ⟨v, hg, _, hb, hs, hct, hvid⟩ := read_after_put q s s1 hinv b k body o inm im vid e hack
  have hinv1 : Inv s1 := by have := step_inv q s (.put b k body o inm im) hinv; rw [hack] at this; exact this
  obtain ⟨v', hg', h1, h2, h3, _, _, h6⟩ := get_stable q s1 hinv1 b k v hg ops hnw
  exact ⟨v', hg', by rw [h1, hb], by rw [h2, hb], by rw [h3, hct], by rw [h6, hvid]⟩

/-- The same from the empty storage: for every history `pre`, every acknowledged put after it and
every continuation `ops` that does not write (b, k). -/
theorem last_write_wins_reachable (q : Quirks) (pre : List Op) (b k : String) (body : Bytes) (o : WriteOpts)
    (inm : Bool) (im : IfMatch) (s1 : State) (vid : Option Nat) (e : ETag)
    (hack : step q (run q {} pre).1 (.put b k body o inm im) = (s1, .wrote vid e))
    (ops : List Op) (hnw : ∀ op ∈ ops, ¬ Writes op b k) :
    ∃ v, (step q (run q s1 ops).1 (.get b k none)).2 = .obj v ∧ v.body = body ∧ v.size = body.length ∧ v.ct = o.ct := by
  obtain ⟨v, hg, h1, h2, h3, _⟩ := last_write_wins q _ s1 (reachable_inv q pre) b k body o inm im vid e hack ops hnw
  exact ⟨v, hg, h1, h2, h3⟩

/-- Non-vacuity of the frame: a continuation with writes to another key and another bucket, a
versioning change, tagging and a transition of the key itself satisfies the hypothesis, and the
model indeed reads the bytes back. -/
example :
    let ops : List Op := [.put "b" "other" [9] {} false .none, .mkb "c", .put "c" "k" [8] {} false .none,
      .setVer "b" .enabled, .putTags "b" "k" none [("a", "b")], .transition "b" "k" "GLACIER" none, .del "b" "other" none .none]
    (∀ op ∈ ops, ¬ Writes op "b" "k") ∧
    ((step Quirks.code (run Quirks.code {} ([.mkb "b", .put "b" "k" [1, 2, 3] {} false .none] ++ ops)).1 (.get "b" "k" none)).2
      matches .obj { body := [1, 2, 3], .. }) := by
  decide


end Pithos.C01
