/-
C40 — downloads never silently mix or truncate content.

Property theorems about the lazy part-sequence reader (`Pithos.Model.LazyReader`, helper lemmas in
`Pithos.Lemmas.LazyReader`). They quantify over every resolved version (any part ranges, any part
contents), every buffer size of every read and every interleaving of reads with store changes —
no bound on any of them.

Hypotheses, both explicit:
 * `StoreOK` — a part id of the resolved version is absent or holds its original bytes (part ids
   are unique, a part file is never rewritten; checked on every run by the harness, `parts` line);
 * an opened part keeps its bytes (open descriptors survive rename/unlink) — built into the model.
-/
import Pithos.Model.LazyReader
import Pithos.Lemmas.LazyReader
import Pithos.Gen.PartIds

namespace Pithos.C40
open Pithos.LazyReader

/-- The premises of the model and of `StoreOK`, read from the current sources (T1, regenerated on
every run): every part the storage layer writes gets a fresh random id; the filesystem store
publishes a part by renaming a temporary file and never truncates an existing one; a missing part
file is an error (not an empty reader); the sequence reader hands that error to the caller of Read
and has already advanced past the failed range. -/
theorem store_invariant_premises :
    Gen.PartIds.putPartCalls = Gen.PartIds.putPartCallsWithFreshId ∧ 0 < Gen.PartIds.putPartCalls ∧
    Gen.PartIds.fsPublishesByRename = true ∧ Gen.PartIds.fsMissingPartIsError = true ∧
    Gen.PartIds.lazyReaderPropagatesOpenError = true ∧ Gen.PartIds.lazyReaderAdvancesBeforeOpen = true := by
  decide

/-- **stream_prefix_or_error** (transaction-free part stores). For every interleaving of reads (any
buffer sizes) and store changes that keep each part of the resolved version absent or unchanged:
the bytes delivered are a prefix of the resolved version's bytes, and end-of-file is reported only
when all of them were delivered — otherwise the stream ended with an error or has not ended. -/
theorem stream_prefix_or_error (orig : PartId → Bytes) (ps : List PartRange) (store0 : Store) (evs : List Ev)
    (h0 : StoreOK orig ps store0) (hev : ∀ e ∈ evs, EvOK orig ps e) :
    (run false store0 ⟨ps, none⟩ {} evs).delivered <+: target orig ps ∧
    ((run false store0 ⟨ps, none⟩ {} evs).ended = some true →
      (run false store0 ⟨ps, none⟩ {} evs).delivered = target orig ps) := by
  have hg : Good orig ps ⟨ps, none⟩ {} := ⟨fun p hp => hp, by simp [remaining]⟩
  have hev' : ∀ e ∈ evs, EvOK' false orig ps e := by
    intro e he
    have := hev e he
    cases e with
    | read n => exact this
    | store s => exact Or.inr this
  obtain ⟨r', h⟩ := run_good orig ps evs false hev' store0 ⟨ps, none⟩ {} h0 hg
  exact good_prefix h

/-- A snapshot reader over a store in which every part of the resolved version is present with its
original bytes: never an error, a prefix at every moment, the full content at end-of-file, and
end-of-file after at most `length + 1` reads. Store changes made by others do not reach it. -/
theorem snapshot_stream_full_of_present (orig : PartId → Bytes) (ps : List PartRange) (store : Store) (evs : List Ev)
    (hpres : ∀ p ∈ ps, store p.id = some (orig p.id))
    (hev : ∀ e ∈ evs, ∀ n, e = .read n → 0 < n) :
    (run true store ⟨ps, none⟩ {} evs).ended ≠ some false ∧
    (run true store ⟨ps, none⟩ {} evs).delivered <+: target orig ps ∧
    ((run true store ⟨ps, none⟩ {} evs).ended = some true →
      (run true store ⟨ps, none⟩ {} evs).delivered = target orig ps) ∧
    ((target orig ps).length < readCount evs →
      (run true store ⟨ps, none⟩ {} evs).ended = some true ∧
      (run true store ⟨ps, none⟩ {} evs).delivered = target orig ps) := by
  have hg : Good orig ps ⟨ps, none⟩ {} := ⟨fun p hp => hp, by simp [remaining]⟩
  have hst : StoreOK orig ps store := fun p hp => Or.inr (hpres p hp)
  have hev' : ∀ e ∈ evs, EvOK' true orig ps e := by
    intro e he
    cases e with
    | read n => exact hev _ he n rfl
    | store s => exact Or.inl rfl
  obtain ⟨r', h⟩ := run_good orig ps evs true hev' store ⟨ps, none⟩ {} hst hg
  have hp := good_prefix h
  have hne : ∀ p ∈ (⟨ps, none⟩ : Reader).todo, store p.id ≠ none := by
    intro p hp h0
    rw [hpres p hp] at h0
    exact absurd h0 (by simp)
  have hprog := run_snapshot_progress store evs hev ⟨ps, none⟩ {} hne (by simp)
  refine ⟨hprog.1, hp.1, hp.2, ?_⟩
  intro hlt
  have hended : (run true store ⟨ps, none⟩ {} evs).ended = some true := by
    rcases hprog.2 with h1 | h1
    · cases he : (run true store ⟨ps, none⟩ {} evs).ended with
      | none => rw [he] at h1; simp at h1
      | some b =>
        cases b with
        | true => rfl
        | false => exact absurd he hprog.1
    · have hle := hp.1.length_le
      simp only [List.length_nil, Nat.zero_add] at h1
      omega
  exact ⟨hended, hp.2 hended⟩

/-- **snapshot_stream_full** (SQL-backed part stores, the code since the repair 6ff38ea): the
reader reads through the transaction that resolved the version, so whatever overwrites, deletes and
garbage collections run meanwhile, it delivers the full old content — never an error, never a
short body. -/
theorem snapshot_stream_full (orig : PartId → Bytes) (ps : List PartRange) (evs : List Ev)
    (hev : ∀ e ∈ evs, ∀ n, e = .read n → 0 < n) :
    (run true (snapshotStore false orig) ⟨ps, none⟩ {} evs).ended ≠ some false ∧
    (run true (snapshotStore false orig) ⟨ps, none⟩ {} evs).delivered <+: target orig ps ∧
    ((run true (snapshotStore false orig) ⟨ps, none⟩ {} evs).ended = some true →
      (run true (snapshotStore false orig) ⟨ps, none⟩ {} evs).delivered = target orig ps) ∧
    ((target orig ps).length < readCount evs →
      (run true (snapshotStore false orig) ⟨ps, none⟩ {} evs).ended = some true ∧
      (run true (snapshotStore false orig) ⟨ps, none⟩ {} evs).delivered = target orig ps) :=
  snapshot_stream_full_of_present orig ps (snapshotStore false orig) evs (fun p _ => by simp [snapshotStore]) hev

/-- What held before the repair (`emptyAbsent = true`: the SQL store kept no row for an empty
part): the same, provided no part of the resolved version is empty. -/
theorem snapshot_stream_full_before_fix_partial (orig : PartId → Bytes) (ps : List PartRange) (evs : List Ev)
    (hne : ∀ p ∈ ps, orig p.id ≠ [])
    (hev : ∀ e ∈ evs, ∀ n, e = .read n → 0 < n) :
    (run true (snapshotStore true orig) ⟨ps, none⟩ {} evs).ended ≠ some false ∧
    ((run true (snapshotStore true orig) ⟨ps, none⟩ {} evs).ended = some true →
      (run true (snapshotStore true orig) ⟨ps, none⟩ {} evs).delivered = target orig ps) := by
  have h := snapshot_stream_full_of_present orig ps (snapshotStore true orig) evs
    (fun p hp => by
      have := hne p hp
      simp [snapshotStore, this]) hev
  exact ⟨h.1, h.2.2.1⟩

/-- Negation witness for the code before the repair: an object with an empty middle part
(sizes 1, 0, 1), nothing else happening; the SQL-backed download delivers the first byte and then
fails — the full content is not delivered. (Replayed on the implementation: directed cases 0, 1 of
c40.go; fixed in /repo by 6ff38ea.) -/
theorem empty_part_broke_sql_download :
    let orig : PartId → Bytes := fun i => if i == 1 then [] else [UInt8.ofNat i]
    let ps := planFrom false 0 2 0 0 [1, 0, 1]
    run true (snapshotStore true orig) ⟨ps, none⟩ {} [.read 4, .read 4, .read 4]
      = { delivered := [0], ended := some false } := by
  decide

/-- … and the same download after the repair (both halves of it: the store keeps the empty part,
and the range plan no longer opens it). -/
example :
    let orig : PartId → Bytes := fun i => if i == 1 then [] else [UInt8.ofNat i]
    run true (snapshotStore false orig) ⟨plan [1, 0, 1] 0 2, none⟩ {} [.read 4, .read 4, .read 4]
      = { delivered := [0, 2], ended := some true } := by
  decide

/-- Why `StoreOK` is needed (the reader does not check part lengths): if a part of the resolved
version could be replaced by a shorter one under the same id, the stream would report end-of-file
after fewer bytes than promised. No storage operation does that (unique part ids; parts are
published by rename and never rewritten) and the harness checks it on every run. -/
theorem short_part_would_report_eof :
    let orig : PartId → Bytes := fun i => [UInt8.ofNat i, UInt8.ofNat i]
    let ps : List PartRange := [⟨0, 0, 2⟩, ⟨1, 0, 2⟩]
    let truncated : Store := fun i => if i == 1 then some [1] else some (orig i)
    target orig ps = [0, 0, 1, 1] ∧
    run false truncated ⟨ps, none⟩ {} [.read 8, .read 8, .read 8]
      = { delivered := [0, 0, 1], ended := some true } := by
  decide

/-- **plan_target**: the part ranges computed by `createRangeReader` for `[lo, hi)` select exactly
that slice of the version's content — so `target` *is* "the bytes of the version that was resolved
when the request began", for every part splitting and every range. -/
theorem plan_selects_requested_slice (orig : PartId → Bytes) (cs : List Bytes) (lo hi : Nat)
    (horig : ∀ j (h : j < cs.length), orig j = cs[j]) :
    target orig (plan (cs.map List.length) lo hi) = (cs.flatten.drop lo).take (hi - lo) :=
  plan_target orig cs lo hi horig

/-- Non-vacuity: a schedule that meets the hypotheses of `stream_prefix_or_error` and ends with an
error after a proper prefix (part 1 is removed while part 0 is being read). -/
example :
    let orig : PartId → Bytes := fun i => [UInt8.ofNat i, UInt8.ofNat i]
    let ps : List PartRange := [⟨0, 0, 2⟩, ⟨1, 0, 2⟩]
    let all : Store := fun i => some (orig i)
    let gone : Store := fun i => if i == 0 then some (orig i) else none
    run false all ⟨ps, none⟩ {} [.read 1, .store gone, .read 8, .read 8]
      = { delivered := [0, 0], ended := some false } := by
  decide

end Pithos.C40
