/-
C27 — audit log tampering is always detected.

Property theorems only (model: `Pithos.Model.AuditLog`, instantiated with the tables regenerated from
/repo in `Pithos.Model.AuditLogCode`; helper lemmas: `Pithos.Lemmas.AuditLog`).
All chain theorems quantify over every log, every position and every block size; the hash is an
arbitrary function with the explicit hypothesis `CollisionFree`, signatures are arbitrary functions.
-/
import Pithos.Model.AuditLogCode
import Pithos.Lemmas.AuditLog
namespace Pithos.C27
open Pithos.AuditLog Pithos.AuditLog.Code

/-- Idealised hash: no two inputs collide. Always an explicit hypothesis, never an axiom. -/
def CollisionFree (H : Bytes → Bytes) : Prop := ∀ a b, H a = H b → a = b

/-- Side conditions of the chain theorems on a hash table: `TablesOK`, the previous hash is what is
written last, and the part before the details is longer than the 6 bytes of "pithos". -/
structure ChainTables (T : Tables) : Prop where
  ok : TablesOK T
  prev_hashed : T.tail = ["PreviousHash"]
  pre_long : 6 < minLen T.pre

theorem hashInput_ne_pithos {T : Tables} (ct : ChainTables T) (e : Rec) (w : wfH T e = true) :
    hashInput T e ≠ pithos := by
  intro h
  unfold wfH specOf at w
  rw [wf_append] at w
  have hl := encFields_length_ge T.pre e w.1
  have := congrArg List.length h
  unfold hashInput at this
  simp only [List.length_append, pithos, List.length_cons, List.length_nil] at this
  have := ct.pre_long
  omega

/-- Entries with the same stored hash have the same previous-hash pointer (given collision freedom). -/
theorem prev_of_hash {T : Tables} (ct : ChainTables T) {C : Crypto} (cf : CollisionFree C.H) {a b : Rec}
    (wa : wfH T a = true) (wb : wfH T b = true)
    (ha : C.H (hashInput T a) = hashOf a) (hb : C.H (hashInput T b) = hashOf b)
    (h : hashOf a = hashOf b) : prevOf a = prevOf b := by
  have hin : hashInput T a = hashInput T b := cf _ _ (by rw [ha, hb, h])
  obtain ⟨_, hall⟩ := hashInput_inj T ct.ok a b wa wb hin
  apply hall
  unfold hashedNames
  rw [ct.prev_hashed]; simp

/-- **Only prefixes verify (the tamper-evidence theorem).** Let `L` be a log the validator accepts
and `L'` any other accepted log whose entry hashes all occur in `L` (`pool`: the tamperer re-uses,
drops, repeats or reorders entries; with a configured verifier this follows from unforgeability,
see `pool_of_signatures`). Then `L'` agrees with `L` position by position — in the stored hash and in
every hashed field: `L'` is `L` with a suffix cut off. No bound on the logs. -/
theorem only_prefixes_verify {T : Tables} (ct : ChainTables T) {C : Crypto} (cf : CollisionFree C.H)
    (bs : Nat) (L L' : List Rec)
    (wfL : ∀ e ∈ L, wfH T e = true) (wfL' : ∀ e ∈ L', wfH T e = true)
    (hL : accepts T C bs L = true) (hL' : accepts T C bs L' = true)
    (pool : ∀ e' ∈ L', ∃ e ∈ L, hashOf e' = hashOf e) :
    ∀ (k : Nat) (e' : Rec), L'[k]? = some e' →
      ∃ e, L[k]? = some e ∧ hashOf e' = hashOf e ∧ ∀ f ∈ hashedNames T e', get e' f = get e f := by
  obtain ⟨hH, hc, _⟩ := accepts_facts hL
  obtain ⟨hH', hc', _⟩ := accepts_facts hL'
  have wfAll : ∀ a, (a ∈ L ∨ a ∈ L') → wfH T a = true ∧ C.H (hashInput T a) = hashOf a := by
    intro a ha
    rcases ha with ha | ha
    · exact ⟨wfL a ha, hH a ha⟩
    · exact ⟨wfL' a ha, hH' a ha⟩
  have hI : ∀ a b, (a ∈ L ∨ a ∈ L') → (b ∈ L ∨ b ∈ L') → hashOf a = hashOf b → prevOf a = prevOf b := by
    intro a b ha hb h
    exact prev_of_hash ct cf (wfAll a ha).1 (wfAll b hb).1 (wfAll a ha).2 (wfAll b hb).2 h
  have hS : ∀ a ∈ L, hashOf a ≠ C.H pithos := by
    intro a ha h
    rw [← hH a ha] at h
    exact hashInput_ne_pithos ct a (wfL a ha) (cf _ _ h)
  intro k e' he'
  obtain ⟨e, he, heq⟩ := chain_prefix hashOf prevOf (C.H pithos) L L' hI hS hc hc' pool k e' he'
  refine ⟨e, he, heq, ?_⟩
  have m' := List.mem_of_getElem? he'
  have m := List.mem_of_getElem? he
  have hin : hashInput T e' = hashInput T e := cf _ _ (by rw [hH' e' m', hH e m, heq])
  exact (hashInput_inj T ct.ok e' e (wfL' e' m') (wfL e m) hin).2

/-- With a configured Ed25519 verifier the `pool` hypothesis is what unforgeability gives: if the only
hashes for which the tamperer can present a verifying signature are those the writer signed as
entries of `L`, every entry of an accepted `L'` carries a hash of `L`. -/
theorem pool_of_signatures {T : Tables} {C : Crypto} {bs : Nat} {L L' : List Rec}
    (v : Bytes → Bytes → Bool) (hv : C.vEd = some v)
    (unforgeable : ∀ e' ∈ L', v (hashOf e') (sigOf e') = true → ∃ e ∈ L, hashOf e' = hashOf e)
    (hL' : accepts T C bs L' = true) :
    ∀ e' ∈ L', ∃ e ∈ L, hashOf e' = hashOf e := by
  obtain ⟨_, _, hs⟩ := accepts_facts hL'
  intro e' he'
  have := hs e' he'
  rw [hv] at this
  exact unforgeable e' he' (by simpa [sigOk] using this)

/-- All stored hashes of an accepted log are pairwise distinct. -/
theorem accepted_hashes_distinct {T : Tables} (ct : ChainTables T) {C : Crypto} (cf : CollisionFree C.H)
    (bs : Nat) (L : List Rec) (wfL : ∀ e ∈ L, wfH T e = true) (hL : accepts T C bs L = true) :
    ∀ (i j : Nat) (a b : Rec), i < j → L[i]? = some a → L[j]? = some b → hashOf a ≠ hashOf b := by
  obtain ⟨hH, hc, _⟩ := accepts_facts hL
  apply chain_distinct hashOf prevOf (C.H pithos) L _ _ hc
  · intro a ha b hb h
    exact prev_of_hash ct cf (wfL a ha) (wfL b hb) (hH a ha) (hH b hb) h
  · intro a ha h
    rw [← hH a ha] at h
    exact hashInput_ne_pithos ct a (wfL a ha) (cf _ _ h)

/-- **Deletion is detected**: removing an entry that is not the last one makes the validator reject. -/
theorem delete_detected {T : Tables} (ct : ChainTables T) {C : Crypto} (cf : CollisionFree C.H)
    (bs : Nat) (L : List Rec) (wfL : ∀ e ∈ L, wfH T e = true) (hL : accepts T C bs L = true)
    (i : Nat) (hi : i + 1 < L.length) : accepts T C bs (L.eraseIdx i) = false := by
  apply Bool.eq_false_iff.2
  intro hacc
  have hsub : ∀ e ∈ L.eraseIdx i, e ∈ L := fun e he => List.mem_of_mem_eraseIdx he
  have hk : (L.eraseIdx i)[i]? = some L[i+1] := by
    rw [List.getElem?_eraseIdx]; simp [List.getElem?_eq_getElem hi]
  obtain ⟨e, he, heq, _⟩ := only_prefixes_verify ct cf bs L (L.eraseIdx i) wfL
    (fun e he => wfL e (hsub e he)) hL hacc (fun e he => ⟨e, hsub e he, rfl⟩) i _ hk
  exact accepted_hashes_distinct ct cf bs L wfL hL i (i+1) e L[i+1] (by omega) he
    (List.getElem?_eq_getElem hi) heq.symm

/-- **Insertion and duplication are detected**: inserting, anywhere, an entry whose hash already
occurs in the log (a copy of any entry — adjacent or distant) makes the validator reject. -/
theorem insert_copy_detected {T : Tables} (ct : ChainTables T) {C : Crypto} (cf : CollisionFree C.H)
    (bs : Nat) (L : List Rec) (wfL : ∀ e ∈ L, wfH T e = true) (hL : accepts T C bs L = true)
    (i : Nat) (hi : i ≤ L.length) (x : Rec) (wx : wfH T x = true) (hx : ∃ e ∈ L, hashOf x = hashOf e) :
    accepts T C bs (L.insertIdx i x) = false := by
  apply Bool.eq_false_iff.2
  intro hacc
  have hmem : ∀ e ∈ L.insertIdx i x, e = x ∨ e ∈ L := fun e he => (List.mem_insertIdx hi).1 he
  have hlen : (L.insertIdx i x).length = L.length + 1 := List.length_insertIdx_of_le_length hi x
  have hlast : (L.insertIdx i x)[L.length]? = some (L.insertIdx i x)[L.length] :=
    List.getElem?_eq_getElem (by omega)
  obtain ⟨e, he, _⟩ := only_prefixes_verify ct cf bs L (L.insertIdx i x) wfL
    (fun e he => by rcases hmem e he with rfl | h; exact wx; exact wfL e h) hL hacc
    (fun e he => by rcases hmem e he with rfl | h; exact hx; exact ⟨e, h, rfl⟩) L.length _ hlast
  rw [List.getElem?_eq_none (Nat.le_refl _)] at he
  cases he

/-- **A foreign entry inserted before the end is detected** even without signatures: the entry after
it still points to its old predecessor. -/
theorem insert_foreign_detected {T : Tables} {C : Crypto}
    (bs : Nat) (L : List Rec) (hL : accepts T C bs L = true)
    (i : Nat) (hi : i < L.length) (x : Rec) (hx : ∀ e ∈ L, hashOf x ≠ hashOf e)
    (seedx : hashOf x ≠ C.H pithos) :
    accepts T C bs (L.insertIdx i x) = false := by
  apply Bool.eq_false_iff.2
  intro hacc
  obtain ⟨_, hc, _⟩ := accepts_facts hL
  obtain ⟨_, hc', _⟩ := accepts_facts hacc
  have h1 : (L.insertIdx i x)[i]? = some x := by
    rw [List.getElem?_insertIdx]; simp; omega
  have h2 : (L.insertIdx i x)[i+1]? = some L[i] := by
    rw [List.getElem?_insertIdx]
    have : ¬ (i + 1 < i) := by omega
    simp [this, List.getElem?_eq_getElem hi]
  have hp := hc'.2 i x L[i] h1 h2
  cases i with
  | zero =>
    have := hc.1 L[0] (List.getElem?_eq_getElem hi)
    exact seedx (by rw [← hp, this])
  | succ j =>
    have hj : j < L.length := by omega
    have := hc.2 j L[j] L[j+1] (List.getElem?_eq_getElem hj) (List.getElem?_eq_getElem hi)
    exact hx L[j] (List.getElem_mem hj) (by rw [← hp, this])

/-- **Reordering is detected**: any accepted log built from the entries of `L` that has the same
length carries, at every position, the hash `L` has there; so a rearrangement that moves some entry
(exchanges two entries, adjacent or distant; rotates; …) is rejected. -/
theorem reorder_detected {T : Tables} (ct : ChainTables T) {C : Crypto} (cf : CollisionFree C.H)
    (bs : Nat) (L L' : List Rec) (wfL : ∀ e ∈ L, wfH T e = true) (hL : accepts T C bs L = true)
    (hsub : ∀ e ∈ L', e ∈ L)
    (k : Nat) (a b : Rec) (ha : L[k]? = some a) (hb : L'[k]? = some b) (hne : hashOf b ≠ hashOf a) :
    accepts T C bs L' = false := by
  apply Bool.eq_false_iff.2
  intro hacc
  obtain ⟨e, he, heq, _⟩ := only_prefixes_verify ct cf bs L L' wfL (fun e he => wfL e (hsub e he)) hL hacc
    (fun e he => ⟨e, hsub e he, rfl⟩) k b hb
  rw [ha] at he
  cases he
  exact hne heq

/-- Exchanging the entries at positions `i < j` (adjacent or distant) is rejected. -/
theorem swap_detected {T : Tables} (ct : ChainTables T) {C : Crypto} (cf : CollisionFree C.H)
    (bs : Nat) (L : List Rec) (wfL : ∀ e ∈ L, wfH T e = true) (hL : accepts T C bs L = true)
    (i j : Nat) (hij : i < j) (hj : j < L.length) :
    accepts T C bs ((L.set i L[j]).set j (L[i]'(by omega))) = false := by
  have hi : i < L.length := by omega
  apply reorder_detected ct cf bs L _ wfL hL ?_ i L[i] L[j] (List.getElem?_eq_getElem hi)
  · rw [List.getElem?_set_ne (by omega), List.getElem?_set_self hi]
  · exact (accepted_hashes_distinct ct cf bs L wfL hL i j L[i] L[j] hij
      (List.getElem?_eq_getElem hi) (List.getElem?_eq_getElem hj)).symm
  · intro e he
    rcases List.mem_or_eq_of_mem_set he with h | rfl
    · rcases List.mem_or_eq_of_mem_set h with h | rfl
      · exact h
      · exact List.getElem_mem hj
    · exact List.getElem_mem hi


/-- Under collision freedom, changing any hashed field of a well-formed entry changes its hash. -/
theorem hashed_field_change_changes_hash {T : Tables} (ok : TablesOK T) {C : Crypto} (cf : CollisionFree C.H)
    (e e' : Rec) (we : wfH T e = true) (we' : wfH T e' = true)
    (f : String) (hf : f ∈ hashedNames T e) (hne : get e f ≠ get e' f) :
    C.H (hashInput T e) ≠ C.H (hashInput T e') := by
  intro h
  exact hne ((hashInput_inj T ok e e' we we' (cf _ _ h)).2 f hf)

/-- **A changed hashed field is detected**: replace entry `i` of an accepted log by `e'`, which keeps
the stored hash (and anything else) but differs in some field the hash covers: rejected. -/
theorem field_change_detected {T : Tables} (ok : TablesOK T) {C : Crypto} (cf : CollisionFree C.H)
    (bs : Nat) (L : List Rec) (hL : accepts T C bs L = true)
    (i : Nat) (e e' : Rec) (hi : L[i]? = some e) (we : wfH T e = true) (we' : wfH T e' = true)
    (hsame : hashOf e' = hashOf e)
    (f : String) (hf : f ∈ hashedNames T e) (hne : get e f ≠ get e' f) :
    accepts T C bs (L.set i e') = false := by
  apply Bool.eq_false_iff.2
  intro hacc
  obtain ⟨hH, _, _⟩ := accepts_facts hL
  obtain ⟨hH', _, _⟩ := accepts_facts hacc
  have hlt : i < L.length := by
    rcases Nat.lt_or_ge i L.length with h | h
    · exact h
    · rw [List.getElem?_eq_none h] at hi; cases hi
  have m' : e' ∈ L.set i e' := List.mem_of_getElem? (List.getElem?_set_self hlt)
  have h1 := hH e (List.mem_of_getElem? hi)
  have h2 := hH' e' m'
  exact hashed_field_change_changes_hash ok cf e e' we we' f hf hne (by rw [h1, h2, hsame])

/-- **…also when the tamperer recomputes the entry's hash**: if the replaced entry is not the last
one, its successor still points to the old hash. -/
theorem rehashed_change_detected {T : Tables} {C : Crypto}
    (bs : Nat) (L : List Rec) (hL : accepts T C bs L = true)
    (i : Nat) (hi : i + 1 < L.length) (e' : Rec) (hnew : hashOf e' ≠ hashOf (L[i]'(by omega))) :
    accepts T C bs (L.set i e') = false := by
  apply Bool.eq_false_iff.2
  intro hacc
  obtain ⟨_, hc, _⟩ := accepts_facts hL
  obtain ⟨_, hc', _⟩ := accepts_facts hacc
  have hi0 : i < L.length := by omega
  have h1 : (L.set i e')[i]? = some e' := List.getElem?_set_self hi0
  have h2 : (L.set i e')[i+1]? = some L[i+1] := by
    rw [List.getElem?_set_ne (by omega)]; exact List.getElem?_eq_getElem hi
  have hp := hc'.2 i e' L[i+1] h1 h2
  have hq := hc.2 i L[i] L[i+1] (List.getElem?_eq_getElem hi0) (List.getElem?_eq_getElem hi)
  exact hnew (by rw [← hp, hq])

/-- …and for the last entry (or an appended one) the signature decides: an entry whose signature
does not verify is rejected when a verifier is configured. -/
theorem unsigned_entry_rejected {T : Tables} {C : Crypto} (bs : Nat) (L : List Rec)
    (v : Bytes → Bytes → Bool) (hv : C.vEd = some v)
    (e : Rec) (he : e ∈ L) (hbad : v (hashOf e) (sigOf e) = false) :
    accepts T C bs L = false := by
  apply Bool.eq_false_iff.2
  intro hacc
  obtain ⟨_, _, hs⟩ := accepts_facts hacc
  have := hs e he
  rw [hv] at this
  simp [sigOk, hbad] at this

theorem runFrom_append_ok {T : Tables} {C : Crypto} {bs : Nat} (A B : List Rec) (s s' : VState)
    (h : runFrom T C bs s (A ++ B) = .ok s') : ∃ s1, runFrom T C bs s A = .ok s1 := by
  induction A generalizing s with
  | nil => exact ⟨s, rfl⟩
  | cons a A ih =>
    simp only [List.cons_append, runFrom] at h ⊢
    split at h
    · cases h
    · rename_i s1 hs1
      exact ih s1 h

/-- The exemption is real: cutting off a suffix of an accepted log leaves an accepted log. -/
theorem suffix_cut_accepted {T : Tables} {C : Crypto} (bs : Nat) (L : List Rec) (n : Nat)
    (hL : accepts T C bs L = true) : accepts T C bs (L.take n) = true := by
  unfold accepts run at hL ⊢
  split at hL
  · rename_i s' hs
    rw [← List.take_append_drop n L] at hs
    obtain ⟨s1, h1⟩ := runFrom_append_ok _ _ _ _ hs
    rw [h1]
  · cases hL

/-! ### where it fails: a field the hash does not cover -/

/-- The validator cannot see a field that is neither hashed nor read by `ValidateEntry`. -/
theorem step_set_unhashed (T : Tables) (C : Crypto) (bs : Nat) (s : VState) (e : Rec) (f : String) (v : Bytes)
    (hf : f ∉ hashedNames T e)
    (hv : f ∉ ["Version", "Type", "Hash", "PreviousHash", "SignatureEd25519", "Grounding.MerkleRootHash",
      "Grounding.SignatureEd25519", "Grounding.SignatureMlDsa87"]) :
    step T C bs s (set e f v) = step T C bs s e := by
  simp only [List.mem_cons, List.not_mem_nil, or_false, not_or] at hv
  obtain ⟨h1, h2, h3, h4, h5, h6, h7, h8⟩ := hv
  have hk : kind T (set e f v) = kind T e := by unfold kind; rw [get_set_ne e v (Ne.symm h2)]
  unfold step stepWith stepGround
  rw [hashInput_set_unhashed T e f v h1 h2 hf, hk]
  rw [get_set_ne e v (Ne.symm h2), get_set_ne e v (Ne.symm h3), get_set_ne e v (Ne.symm h4),
    get_set_ne e v (Ne.symm h5), get_set_ne e v (Ne.symm h6), get_set_ne e v (Ne.symm h7),
    get_set_ne e v (Ne.symm h8)]

theorem runFrom_congr_at {T : Tables} {C : Crypto} {bs : Nat} (A B : List Rec) (a b : Rec)
    (h : ∀ s, step T C bs s a = step T C bs s b) (s : VState) :
    runFrom T C bs s (A ++ a :: B) = runFrom T C bs s (A ++ b :: B) := by
  induction A generalizing s with
  | nil => simp only [List.nil_append, runFrom, h s]
  | cons x A ih =>
    simp only [List.cons_append, runFrom]
    split
    · rfl
    · exact ih _

/-- **Negation witness, validator level.** In any accepted log, the value of a field that the hash
does not cover can be replaced by anything and the log is still accepted. -/
theorem unhashed_change_accepted (T : Tables) (C : Crypto) (bs : Nat) (A B : List Rec) (e : Rec)
    (f : String) (v : Bytes) (hf : f ∉ hashedNames T e)
    (hv : f ∉ ["Version", "Type", "Hash", "PreviousHash", "SignatureEd25519", "Grounding.MerkleRootHash",
      "Grounding.SignatureEd25519", "Grounding.SignatureMlDsa87"])
    (hL : accepts T C bs (A ++ e :: B) = true) : accepts T C bs (A ++ set e f v :: B) = true := by
  unfold accepts run at hL ⊢
  rw [runFrom_congr_at A B (set e f v) e (fun s => step_set_unhashed T C bs s e f v hf hv)]
  exact hL

/-! ## The current code (tables regenerated by the T1 extractor `auditlog`) -/

/-- The generated `CalculateHash` table meets the side conditions of all theorems above. -/
theorem code_tables_ok : ChainTables hashT :=
  ⟨⟨by decide, by decide, by decide⟩, by decide, by decide⟩

/-- **encode_injective** for the field list of the current code: two well-formed entries with the
same `CalculateHash` input agree on every field that list contains. If a field is missing from the
list, injectivity fails exactly there (`unhashed_field_collision`). -/
theorem encode_injective (r1 r2 : Rec) (w1 : wfH hashT r1 = true) (w2 : wfH hashT r2 = true)
    (h : hashInput hashT r1 = hashInput hashT r2) :
    ∀ f ∈ hashedNames hashT r1, get r1 f = get r2 f :=
  (hashInput_inj hashT code_tables_ok.ok r1 r2 w1 w2 h).2

/-- Injectivity fails exactly at a field that is not in the list: any two records that differ only
there have the same hash input. -/
theorem unhashed_field_collision (T : Tables) (r : Rec) (f : String) (v : Bytes)
    (hv : f ≠ "Version") (ht : f ≠ "Type") (hf : f ∉ hashedNames T r) :
    hashInput T (set r f v) = hashInput T r :=
  hashInput_set_unhashed T r f v hv ht hf

/-- The copy-source fields: recorded (and serialised) but not hashed. FLIP when the code hashes them:
set this list to `[]` and delete `hash_misses_copy_source` / `copy_source_collision` /
`copy_source_change_accepted`. -/
def knownUnhashed : List String := ["Log.Resource.SourceBucket", "Log.Resource.SourceKey"]

/-- **hash_covers_all_fields (partial)**: every recorded field of a LOG entry of the current
version — and every hash-input field of the entry header — is fed to the hash, *except* the copy
source. `decide` over the generated tables: dropping any other `writeString` from `CalculateHash`
breaks this theorem. -/
theorem hash_covers_all_fields_partial :
    ∀ f ∈ recordedEntry ++ recordedLog, f ∉ knownUnhashed →
      f ∈ hashedLogNames Gen.AuditLog.currentVersion := by decide

/-- …and every recorded field of a GROUNDING entry. -/
theorem hash_covers_all_grounding_fields :
    ∀ f ∈ recordedEntry ++ recordedGrounding, f ∈ hashedGroundingNames := by decide

/-- The property speaks of: operation, phase, resource including copy source, actor, request,
outcome, timestamp, version. Nothing recorded is outside that list's struct fields. -/
theorem recorded_fields_nonempty : recordedLog.length = 18 ∧ recordedEntry.length = 4 := by decide

/-- **Negation witness (table level)**: the full statement `hash_covers_all_fields` is false for
the current code. -/
theorem hash_misses_copy_source :
    ¬ (∀ f ∈ recordedLog, f ∈ hashedLogNames Gen.AuditLog.currentVersion) := by decide

/-- The fields that are missing are exactly the copy source. -/
theorem unhashed_are_exactly_copy_source :
    recordedLog.filter (fun f => !(hashedLogNames Gen.AuditLog.currentVersion).contains f) = knownUnhashed := by
  decide

def witness1 : Rec :=
  [("Version", [0, 3]), ("Timestamp", [0, 0, 0, 0, 0, 0, 0, 1]), ("Type", ascii "LOG"),
   ("Log.Operation", ascii "CopyObject"), ("Log.Phase", ascii "COMPLETE"),
   ("Log.Resource.Bucket", ascii "dst"), ("Log.Resource.Key", ascii "k"),
   ("Log.Resource.SourceBucket", ascii "src"), ("Log.Resource.SourceKey", ascii "secret-a"),
   ("Log.Resource.PartNumber", [0, 0, 0, 0]), ("Log.Outcome.StatusCode", [0, 0, 0, 200]),
   ("Log.Outcome.DurationMs", [0, 0, 0, 0, 0, 0, 0, 0])]
def witness2 : Rec := set witness1 "Log.Resource.SourceKey" (ascii "secret-b")

/-- **Negation witness (encoding level)**: two well-formed version-3 CopyObject entries that differ
in the recorded `SourceKey` and have the same `CalculateHash` input. The harness replays this pair
through the real `CalculateHash` and `Validator` (known finding C27.unhashed-field.SourceKey). -/
theorem copy_source_collision :
    hashInput hashT witness1 = hashInput hashT witness2 ∧
    get witness1 "Log.Resource.SourceKey" ≠ get witness2 "Log.Resource.SourceKey" ∧
    wfH hashT witness1 = true ∧ wfH hashT witness2 = true := by decide

/-- **Negation witness (validator level)**: in every accepted log, the copy source of any current-version
LOG entry can be rewritten at will and the log is still accepted. -/
theorem copy_source_change_accepted (C : Crypto) (bs : Nat) (A B : List Rec) (e : Rec) (v : Bytes)
    (f : String) (hf : f ∈ knownUnhashed)
    (hver : version e = Gen.AuditLog.currentVersion) (hk : kind hashT e = 1)
    (hL : accepts hashT C bs (A ++ e :: B) = true) : accepts hashT C bs (A ++ set e f v :: B) = true := by
  have hnot : f ∉ hashedNames hashT e := by
    unfold hashedNames specOf
    rw [hver, hk]
    have : ∀ g ∈ knownUnhashed, g ∉ (hashT.pre ++ hashT.details Gen.AuditLog.currentVersion 1).map (·.1) ++ hashT.tail := by
      decide
    exact this f hf
  have hv : f ∉ ["Version", "Type", "Hash", "PreviousHash", "SignatureEd25519", "Grounding.MerkleRootHash",
      "Grounding.SignatureEd25519", "Grounding.SignatureMlDsa87"] := by
    have : ∀ g ∈ knownUnhashed, g ∉ ["Version", "Type", "Hash", "PreviousHash", "SignatureEd25519",
        "Grounding.MerkleRootHash", "Grounding.SignatureEd25519", "Grounding.SignatureMlDsa87"] := by decide
    exact this f hf
  exact unhashed_change_accepted hashT C bs A B e f v hnot hv hL

/-- Non-vacuity of `CollisionFree`: the identity is collision free (toy instance), and with it two
entries that differ in a hashed field get different hashes while the copy-source pair collides. -/
example : CollisionFree (fun b => b) := fun _ _ h => h
example : hashInput hashT witness1 ≠ hashInput hashT (set witness1 "Log.Resource.Key" (ascii "other")) := by decide

/-- Non-vacuity of the chain theorems: a concrete three-entry log (genesis, START, COMPLETE) built by
the writer model with the toy hash `id` is accepted,
every entry is well formed, and deleting its second entry is rejected;
with block size 2 the same calls produce a grounding entry and are accepted too. -/
def toyC : Crypto := { H := fun b => b, vEd := some (fun d s => s == d), vMl := some (fun d s => s == 1 :: d) }
def toyS : Signer := { signEd := fun d => d, signMl := fun d => 1 :: d }
def toyMeta : Rec := [("Version", [0, 3]), ("Timestamp", [0, 0, 0, 0, 0, 0, 0, 7])]
def toyLog (bs : Nat) : List Rec :=
  (wRun hashT toyC toyS bs (wInit hashT toyC toyS toyMeta)
    [(witness1, toyMeta), (witness2, toyMeta)]).out

set_option maxRecDepth 100000 in
example : accepts hashT toyC 5 (toyLog 5) = true ∧ (toyLog 5).length = 3 ∧ (toyLog 5).all (wfH hashT) = true := by
  decide
set_option maxRecDepth 100000 in
example : accepts hashT toyC 5 ((toyLog 5).eraseIdx 1) = false := by decide
set_option maxRecDepth 100000 in
example : accepts hashT toyC 2 (toyLog 2) = true ∧ (toyLog 2).length = 4 := by decide

/-! ## Serializers of the current code -/

/-- The binary decoder reads exactly the fields the binary encoder writes, in the same order with the
same widths — for every version and kind. -/
theorem binary_reads_what_it_writes :
    binW.pre = binR.pre ∧ (∀ v k, binW.details v k = binR.details v k) ∧ binW.tail = binR.tail := by
  have hg : Gen.AuditLog.binGenesisW = Gen.AuditLog.binGenesisR := by decide
  have hgr : Gen.AuditLog.binGroundingW = Gen.AuditLog.binGroundingR := by decide
  have hl : ∀ v, Gen.AuditLog.binLogW v = Gen.AuditLog.binLogR v := by
    intro v
    match v with
    | 0 => decide
    | 1 => decide
    | 2 => decide
    | 3 => decide
    | _ + 4 => rfl
  refine ⟨by decide, ?_, by decide⟩
  intro v k
  show binDetails _ _ _ v k = binDetails _ _ _ v k
  unfold binDetails
  split
  · exact hg
  · exact hl v
  · exact hgr
  · rfl

theorem binW_eq_binR : binW = binR := by
  obtain ⟨h1, h2, h3⟩ := binary_reads_what_it_writes
  have hd : binW.details = binR.details := funext fun v => funext fun k => h2 v k
  have e : ∀ A B : BinTables, A.pre = B.pre → A.details = B.details → A.tail = B.tail →
      A.tGenesis = B.tGenesis → A.tLog = B.tLog → A.tGrounding = B.tGrounding → A = B := by
    intro A B a b c d e f
    cases A; cases B; simp only [BinTables.mk.injEq] at *; exact ⟨a, b, c, d, e, f⟩
  exact e _ _ h1 hd h3 rfl rfl rfl

/-- Every recorded field of a current-version LOG / GROUNDING entry (header included, with Hash and
signature) is written by the binary encoder. -/
theorem binary_writes_all_fields :
    (∀ f ∈ Gen.AuditLog.entryFields.map (·.1) ++ recordedLog,
      f ∈ (binW.pre ++ (binW.details Gen.AuditLog.currentVersion 1 ++ binW.tail)).map (·.1)) ∧
    (∀ f ∈ Gen.AuditLog.entryFields.map (·.1) ++ recordedGrounding,
      f ∈ (binW.pre ++ (binW.details Gen.AuditLog.currentVersion 2 ++ binW.tail)).map (·.1)) := by
  decide

/-- **Binary round trip**: `decode (encode e ++ rest) = (e, rest)` on all fields of the entry's
version and kind, for every well-formed entry; and for whole files (`binary_file_roundtrip`). -/
theorem binary_roundtrip (r : Rec) (hw : wf (binSpec binW r) r = true) (rest : Bytes) :
    binDecode binR (binEncode binW r ++ rest) = some (proj (binSpec binW r) r, rest) ∧
    ∀ f ∈ (binSpec binW r).map (·.1), get (proj (binSpec binW r) r) f = get r f := by
  rw [← binW_eq_binR]
  exact ⟨binDecode_binEncode binW (by decide) (by decide) r hw rest, get_proj_all _ r⟩

theorem binary_file_roundtrip (L : List Rec) (hw : ∀ r ∈ L, wf (binSpec binW r) r = true) :
    binDecodeAll binR L.length (L.flatMap (binEncode binW)) = some (L.map fun r => proj (binSpec binW r) r) := by
  rw [← binW_eq_binR]
  exact binDecodeAll_roundtrip binW (by decide) (by decide) (by decide) L hw

/-- JSON: no path is used twice, every field the decoder reads is written under the same path with
the same codec, every recorded field is read, and `omitempty` is only applied where the omitted
value is the Go zero value of the field's type — for the current version's LOG and GROUNDING layouts
(and GENESIS, which has no details). -/
theorem json_tables_consistent :
    ∀ k ∈ [0, 1, 2],
      ((jsonW Gen.AuditLog.currentVersion k).map (·.2.1)).Nodup ∧
      (∀ x ∈ jsonR Gen.AuditLog.currentVersion k, ∃ om, (x.1, x.2.1, om, x.2.2.2) ∈ jsonW Gen.AuditLog.currentVersion k) ∧
      (∀ x ∈ jsonW Gen.AuditLog.currentVersion k, x.2.2.1 = true →
        (x.2.2.2 = "num" ∧ 0 < widthOf x.1) ∨ (x.2.2.2 ≠ "num" ∧ widthOf x.1 = 0)) := by
  decide

theorem json_reads_all_fields :
    (∀ f ∈ Gen.AuditLog.entryFields.map (·.1) ++ recordedLog, f ∈ (jsonR Gen.AuditLog.currentVersion 1).map (·.1)) ∧
    (∀ f ∈ Gen.AuditLog.entryFields.map (·.1) ++ recordedGrounding, f ∈ (jsonR Gen.AuditLog.currentVersion 2).map (·.1)) := by
  decide

theorem all_zero_replicate (b : Bytes) (h : b.all (· == 0) = true) : b = List.replicate b.length 0 := by
  induction b with
  | nil => rfl
  | cons a b ih =>
    simp only [List.all_cons, Bool.and_eq_true, beq_iff_eq] at h
    simp only [List.length_cons, List.replicate_succ]
    rw [← ih h.2, h.1]

/-- **JSON round trip** for the current version (kind `k` = 0 genesis, 1 log, 2 grounding): with
round-tripping leaf codecs, every field the decoder reads comes back unchanged, provided integer
fields have their declared width. -/
theorem json_roundtrip_code (lf : Leaf) (hleaf : ∀ c b, lf.dec c (lf.enc c b) = b)
    (k : Nat) (hk : k ∈ [0, 1, 2]) (r : Rec)
    (hwid : ∀ x ∈ jsonW Gen.AuditLog.currentVersion k, 0 < widthOf x.1 → (get r x.1).length = widthOf x.1) :
    ∀ f ∈ (jsonR Gen.AuditLog.currentVersion k).map (·.1),
      get (jsonRead lf zeroOf (jsonR Gen.AuditLog.currentVersion k)
            (jsonWrite lf (jsonW Gen.AuditLog.currentVersion k) r)) f = get r f := by
  obtain ⟨hnd, hsub, hom⟩ := json_tables_consistent k hk
  apply json_roundtrip lf zeroOf _ _ r hleaf hnd hsub
  intro x hx hox hzero
  unfold omitted at hzero
  rcases hom x hx hox with ⟨hc, hw⟩ | ⟨hc, hw⟩
  · simp only [hc, beq_self_eq_true, if_true] at hzero
    have := all_zero_replicate _ hzero
    rw [hwid x hx hw] at this
    simpa [zeroOf] using this
  · have hcb : (x.2.2.2 == "num") = false := by simpa using hc
    simp only [hcb, Bool.false_eq_true, if_false, List.isEmpty_iff] at hzero
    simp [zeroOf, hw, hzero]

/-! ## Timestamps: instants, for every zone -/

/-- **Timestamps are handled as instants everywhere** (T1): the hash and the binary serializer use
`UnixNano` / `time.Unix(0, ns)`; the JSON writer converts to UTC before it formats with the layout
whose zone designator is the literal "Z", and the reader parses RFC 3339. -/
theorem timestamp_codecs_are_instants :
    Gen.AuditLog.hashTime = "UnixNano" ∧ Gen.AuditLog.binTimeW = "UnixNano" ∧ Gen.AuditLog.binTimeR = "Unix(0,ns)" ∧
    jsonTimeUTC = true ∧ Gen.AuditLog.jsonTimeLayout = "2006-01-02T15:04:05.999999999Z" ∧
    Gen.AuditLog.jsonTimeRead = ["Parse", "RFC3339Nano"] := by decide

/-- With the UTC conversion the timestamp leaf round-trips **for every zone offset**. -/
theorem zone_leaf_roundtrip (offNs : Nat) (c : String) (b : Bytes) :
    (zoneLeaf jsonTimeUTC offNs).dec c ((zoneLeaf jsonTimeUTC offNs).enc c b) = b := by
  have h : jsonTimeUTC = true := timestamp_codecs_are_instants.2.2.2.1
  simp [zoneLeaf, h]

/-- …and without it it does not: the written reading is the instant shifted by the offset (here +02:00). -/
example : (zoneLeaf false 7200000000000).dec "time" ((zoneLeaf false 7200000000000).enc "time" [0, 0, 0, 0, 0, 0, 0, 1])
    ≠ [0, 0, 0, 0, 0, 0, 0, 1] := by decide

/-- **JSON round trip for all zones**: whatever Location the entry's timestamp carries, every field the
decoder reads — the timestamp as an instant included — comes back unchanged. -/
theorem json_roundtrip_all_zones (offNs : Nat) (k : Nat) (hk : k ∈ [0, 1, 2]) (r : Rec)
    (hwid : ∀ x ∈ jsonW Gen.AuditLog.currentVersion k, 0 < widthOf x.1 → (get r x.1).length = widthOf x.1) :
    ∀ f ∈ (jsonR Gen.AuditLog.currentVersion k).map (·.1),
      get (jsonRead (zoneLeaf jsonTimeUTC offNs) zeroOf (jsonR Gen.AuditLog.currentVersion k)
            (jsonWrite (zoneLeaf jsonTimeUTC offNs) (jsonW Gen.AuditLog.currentVersion k) r)) f = get r f :=
  json_roundtrip_code _ (zone_leaf_roundtrip offNs) k hk r hwid

/-- Everything the hash covers is read back by the JSON decoder / written by the binary encoder. -/
theorem hashed_fields_are_serialised :
    ∀ k ∈ [0, 1, 2],
      (∀ f ∈ (hashT.pre ++ hashT.details Gen.AuditLog.currentVersion k).map (·.1) ++ hashT.tail,
        f ∈ (jsonR Gen.AuditLog.currentVersion k).map (·.1)) ∧
      (∀ f ∈ (hashT.pre ++ hashT.details Gen.AuditLog.currentVersion k).map (·.1) ++ hashT.tail,
        f ∈ (binW.pre ++ (binW.details Gen.AuditLog.currentVersion k ++ binW.tail)).map (·.1)) := by decide

/-- **hash (decode (encode e)) = hash e, JSON, all zones**: a genuinely produced current-version entry
still hashes to its recorded hash after the JSON round trip, whatever zone its timestamp carries. -/
theorem hash_preserved_by_json_roundtrip (offNs : Nat) (k : Nat) (hk : k ∈ [0, 1, 2]) (r : Rec)
    (hv : version r = Gen.AuditLog.currentVersion) (hkind : kind hashT r = k)
    (hwid : ∀ x ∈ jsonW Gen.AuditLog.currentVersion k, 0 < widthOf x.1 → (get r x.1).length = widthOf x.1) :
    hashInput hashT (jsonRead (zoneLeaf jsonTimeUTC offNs) zeroOf (jsonR Gen.AuditLog.currentVersion k)
        (jsonWrite (zoneLeaf jsonTimeUTC offNs) (jsonW Gen.AuditLog.currentVersion k) r)) = hashInput hashT r := by
  have hall := json_roundtrip_all_zones offNs k hk r hwid
  have hsub := (hashed_fields_are_serialised k hk).1
  have hnames : ∀ f ∈ hashedNames hashT r, f ∈ (jsonR Gen.AuditLog.currentVersion k).map (·.1) := by
    intro f hf
    unfold hashedNames specOf at hf
    rw [hv, hkind] at hf
    exact hsub f hf
  apply hashInput_congr
  · exact hall "Version" (hnames "Version" (by unfold hashedNames specOf; simp [hashT, Gen.AuditLog.hashPre]))
  · exact hall "Type" (hnames "Type" (by unfold hashedNames specOf; simp [hashT, Gen.AuditLog.hashPre]))
  · exact fun f hf => hall f (hnames f hf)

/-- **hash (decode (encode e)) = hash e, binary** (the binary format stores the instant). -/
theorem hash_preserved_by_binary_roundtrip (k : Nat) (hk : k ∈ [0, 1, 2]) (r : Rec)
    (hv : version r = Gen.AuditLog.currentVersion) (hkind : kind hashT r = k) :
    hashInput hashT (proj (binSpec binW r) r) = hashInput hashT r := by
  have hkb : binW.kind r = kind hashT r := rfl
  have hsub := (hashed_fields_are_serialised k hk).2
  have hnames : ∀ f ∈ hashedNames hashT r, f ∈ (binSpec binW r).map (·.1) := by
    intro f hf
    unfold hashedNames specOf at hf
    rw [hv, hkind] at hf
    unfold binSpec
    rw [hkb, hv, hkind]
    exact hsub f hf
  apply hashInput_congr
  · exact get_proj _ r _ (hnames "Version" (by unfold hashedNames specOf; simp [hashT, Gen.AuditLog.hashPre]))
  · exact get_proj _ r _ (hnames "Type" (by unfold hashedNames specOf; simp [hashT, Gen.AuditLog.hashPre]))
  · exact fun f hf => get_proj _ r f (hnames f hf)

end Pithos.C27
