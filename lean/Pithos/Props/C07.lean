/-
C07 — conditional writes are atomic under concurrency. Property theorems.

 (i)   the sequential specification `S3.step` (what a conditional write means, one at a time):
       `cond_write_spec` (all states), `inm_at_most_one_winner`, `inm_puts_exactly_first`
       (all reachable states) — proofs in Pithos.Lemmas.CondWrite; with the negation witness
       `inm_refused_on_absent_key_before_fix` for the code before the repair 373419f;
 (ii)  `atomic_ops_linearizable`, `checkCert_sound` — linearizability w.r.t. an arbitrary sequential
       specification (Pithos.Model.Linearize); the premise "every storage call takes effect atomically"
       is, for SQLite, the regenerated fact table `Pithos.Gen.TxFacts` (T1) — obligations below;
       `linearizable_inm_at_most_one_winner` joins (i) and (ii);
 (iii) `cas_no_lost_update` on `Pithos.MetaFine`, the statement-level model of the optimistic-lock
       protocol, for arbitrary interleavings (what matters off SQLite) — proofs in
       Pithos.Lemmas.MetaFine. The append theorems of the same model are in Props/C12Concurrent.lean.
 (iv)  the DATA FLOW of the real conditional write paths, regenerated from the sources
       (`Pithos.Gen.CondPaths`): `if_match_commits_only_on_the_compared_row` on `Pithos.CondProto`
       (one If-Match writer of an arbitrary path shape against an arbitrary environment) says which
       shapes are safe; `extracted_if_match_paths_lock_the_compared_row` decides that the extracted
       ones are; `reread_without_recompare_overwrites` is what happens otherwise.
-/
import Pithos.Model.Linearize
import Pithos.Lemmas.Linearize
import Pithos.Gen.TxFacts
import Pithos.Model.S3
import Pithos.Lemmas.CondWrite
import Pithos.Model.MetaFine
import Pithos.Lemmas.MetaFine
import Pithos.Model.CondProto
import Pithos.Lemmas.CondProto
import Pithos.Gen.CondPaths

namespace Pithos.C07
open Pithos.Lin Pithos.Gen.TxFacts

-- ---------------------------------------------------------------- (i) the sequential specification

section Spec
open Pithos.S3

/-- **cond_write_spec** (every state, every quirk setting). An If-Match put, complete or delete
succeeds only if the key's current object has that ETag; an If-None-Match put or complete succeeds
only if the key holds no object; a conditional write that fails changes nothing but the clock. -/
theorem cond_write_spec (q : Quirks) (s : State) (b k : String) :
    (∀ body o inm e vid et, (step q s (.put b k body o inm (.etag e))).2 = .wrote vid et →
      ∃ bk r, findBucket s b = some bk ∧ latestRow bk k = some r ∧ r.dm = false ∧ r.etag = e) ∧
    (∀ uid declared inm e vid et, (step q s (.complete b k uid declared inm (.etag e))).2 = .wrote vid et →
      ∃ bk r, findBucket s b = some bk ∧ latestRow bk k = some r ∧ r.dm = false ∧ r.etag = e) ∧
    (∀ e vid dm, (step q s (.del b k none (.etag e))).2 = .deleted vid dm →
      ∃ bk r, findBucket s b = some bk ∧ latestRow bk k = some r ∧ r.dm = false ∧ r.etag = e) ∧
    (∀ body o im vid et, (step q s (.put b k body o true im)).2 = .wrote vid et → present s b k = false) ∧
    (∀ uid declared im vid et, (step q s (.complete b k uid declared true im)).2 = .wrote vid et → present s b k = false) ∧
    (∀ body o inm im e, (step q s (.put b k body o inm im)).2 = .err e →
      (step q s (.put b k body o inm im)).1 = { s with clock := s.clock + 1 }) ∧
    (∀ uid declared inm im e, (step q s (.complete b k uid declared inm im)).2 = .err e →
      (step q s (.complete b k uid declared inm im)).1 = { s with clock := s.clock + 1 }) :=
  ⟨fun body o inm e vid et h => put_if_match_spec q s b k body o inm e vid et h,
   fun uid declared inm e vid et h => complete_if_match_spec q s b k uid declared inm e vid et h,
   fun e vid dm h => del_if_match_spec q s b k e vid dm h,
   fun body o im vid et h => put_inm_spec q s b k body o im vid et h,
   fun uid declared im vid et h => complete_inm_spec q s b k uid declared im vid et h,
   fun body o inm im e h => put_err_state q s b k body o inm im e h,
   fun uid declared inm im e h => complete_err_state q s b k uid declared inm im e h⟩

/-- Well-formedness (distinct row ids below the counter, at most one latest row per key) holds in
every reachable state: it is preserved by EVERY operation of the specification. -/
theorem wf_reachable (q : Quirks) (ops : List Op) : WF (run q {} ops).1 := S3.wf_reachable q ops

/-- **inm_at_most_one_winner.** From any well-formed state, among ANY sequence of If-None-Match
writes (puts and completes, in any order, with any further If-Match argument) to one key at most
one succeeds, and after a success every later one fails. -/
theorem inm_at_most_one_winner (q : Quirks) (s : State) (b k : String) (ops : List Op) (hwf : WF s)
    (hops : ∀ op ∈ ops, IsInmWrite b k op) :
    ((run q s ops).2.filter Out.isWrote).length ≤ 1 ∧
    (run q s ops).2.Pairwise (fun o o' => o.isWrote = true → o'.isWrote = false) :=
  ⟨S3.inm_at_most_one_winner q s b k ops hwf hops, S3.inm_winner_then_all_fail q s b k ops hwf hops⟩

/-- **inm_puts_exactly_first** — full strength, the code since the repair 373419f. In EVERY
reachable state (after any history `pre` from the empty store, whatever versioning modes, delete
markers and null versions it left behind), on an absent key of an existing bucket, of any non-empty
sequence of If-None-Match puts exactly the first succeeds and all others are refused. -/
theorem inm_puts_exactly_first (q : Quirks) (pre : List Op) (b k : String) (bodies : List (Bytes × WriteOpts))
    (hb : (findBucket (run q {} pre).1 b).isSome = true) (ha : present (run q {} pre).1 b k = false)
    (hne : bodies ≠ []) :
    (run q (run q {} pre).1 (bodies.map fun (body, o) => Op.put b k body o true .none)).2
      = .wrote (if ((findBucket (run q {} pre).1 b).map (·.ver)) = some .enabled
                then some (run q {} pre).1.nextVid else none)
            (singleETag (bodies.head hne).1)
          :: List.replicate (bodies.length - 1) (.err .preconditionFailed) :=
  S3.inm_puts_exactly_first_reachable q pre b k bodies hb ha hne

/-- The same from an arbitrary state, with the two facts it rests on as explicit hypotheses:
well-formedness and "no delete marker is a null version" — both are invariants of every operation
(`wf_reachable`, `markers_versioned_reachable`). -/
theorem inm_puts_exactly_first_of_invariants (q : Quirks) (s : State) (b k : String) (bodies : List (Bytes × WriteOpts))
    (hwf : WF s) (hb : (findBucket s b).isSome = true) (ha : present s b k = false)
    (hm : NoNullMarker s b k) (hne : bodies ≠ []) :
    (run q s (bodies.map fun (body, o) => Op.put b k body o true .none)).2
      = .wrote (if ((findBucket s b).map (·.ver)) = some .enabled then some s.nextVid else none)
            (singleETag (bodies.head hne).1)
          :: List.replicate (bodies.length - 1) (.err .preconditionFailed) :=
  S3.inm_puts_exactly_first q s b k bodies hwf hb ha hm hne

theorem markers_versioned_reachable (q : Quirks) (ops : List Op) : MarkersVersioned (run q {} ops).1 :=
  S3.mv_reachable q ops

/-- Negation witness for the code BEFORE the repair 373419f (`putRowAsIs`: the write path with the
old test "a null version of the key exists"): a well-formed state in which the key is absent — a
delete marker is current, a null version lies underneath, the bucket is suspended — where the old
path refused an If-None-Match write (zero winners for any number of racers) and the repaired one
accepts it. The state is reachable: put; enable versioning; delete; suspend versioning. Replayed
on the implementation by directed histories 6/14/22 of c07.go (finding
`C07.inm.refused-on-absent-key-hidden-null-version`, fixed). -/
theorem inm_refused_on_absent_key_before_fix :
    present hiddenNullState "b" "k" = false ∧
    (putRowAsIs Quirks.code hiddenNullState hiddenNullBucket "k" { parts := [[2]], etag := singleETag [2] } true .none).toBool
      = false ∧
    (putRow Quirks.code hiddenNullState hiddenNullBucket "k" { parts := [[2]], etag := singleETag [2] } true .none).toBool
      = true ∧
    ((run Quirks.code {} [.mkb "b", .put "b" "k" [1] {} false .none, .setVer "b" .enabled,
        .del "b" "k" none .none, .setVer "b" .suspended]).1.buckets.map (fun bk => (bk.ver, bk.rows.map fun r => (r.vid, r.dm, r.latest))))
      = [(Versioning.suspended, [(none, false, false), (some 0, true, true)])] := by
  decide

/-- Non-vacuity and the repaired behaviour on that very history: the first If-None-Match put wins,
the second is refused. -/
example :
    (run Quirks.code {} [.mkb "b", .put "b" "k" [1] {} false .none, .setVer "b" .enabled,
      .del "b" "k" none .none, .setVer "b" .suspended, .put "b" "k" [2] {} true .none,
      .put "b" "k" [3] {} true .none]).2.map Out.isWrote
      = [false, true, false, false, false, true, false] := by
  decide

end Spec

-- ---------------------------------------------------------------- (ii) the premise, from the current sources

/-- The storage methods the property is about. -/
def namedMutators : List String :=
  ["PutObject", "CompleteMultipartUpload", "DeleteObject", "DeleteObjects", "AppendObject"]

/-- Each of them runs exactly one transaction, a writable one on the storage's database, performs
every metadata-store / part-store call inside it, and starts no goroutine. -/
theorem named_mutators_run_in_one_writable_tx :
    ∀ n ∈ namedMutators, ∃ m ∈ methods, m.name = n ∧ m.withTx = 1 ∧ m.writable = 1 ∧
      m.storeCallsOutside = 0 ∧ m.goStmts = 0 ∧ 0 < m.storeCallsInside := by
  decide

/-- … and so does every other method of the storage that opens a writable transaction. -/
theorem every_writing_method_runs_in_one_tx :
    ∀ m ∈ methods, 1 ≤ m.writable → m.withTx = 1 ∧ m.writable = 1 ∧ m.storeCallsOutside = 0 ∧ m.goStmts = 0 := by
  decide

/-- SQLite: writable transactions begin on a pool of ONE connection whose transactions are
`BEGIN IMMEDIATE` — they are serialised, each is one atomic step. -/
theorem sqlite_write_transactions_serialised :
    writablePoolMaxOpenConns = 1 ∧ writableTxLock = "immediate" ∧ writeTxOnWritablePool = true := by
  decide

/-- The statements `Pithos.MetaFine` models have the modelled shape: guarded compare-and-swap
update/delete on (id, optimistic_lock_version), every update bumps the version, and a unique index
allows one latest completed row per key. -/
theorem cas_statements_have_the_modelled_shape :
    casUpdateGuarded = true ∧ casUpdateBumpsVersion = true ∧ casUpdateReportsRowsAffected = true ∧
    plainUpdateBumpsVersion = true ∧ casDeleteGuarded = true ∧
    latestUniqueIndex = some ("bucket_name,key,upload_status,is_latest", "upload_status = 'COMPLETED' AND is_latest = 1") ∧
    appendCasFailureIsInvalidWriteOffset = true := by
  decide

/-- … and they are used where the model uses them. -/
theorem cas_is_used_where_modelled :
    (∀ n ∈ ["PutObject", "CompleteMultipartUpload", "DeleteObject", "AppendObject"],
      ∃ m ∈ sqlMethods, m.name = n ∧ 1 ≤ m.casUpdates) ∧
    (∀ n ∈ ["PutObject", "CompleteMultipartUpload"], ∃ m ∈ sqlMethods, m.name = n ∧ 1 ≤ m.uniqueMapped) ∧
    (∀ n ∈ ["DeleteObject", "CompleteMultipartUpload"], ∃ m ∈ sqlMethods, m.name = n ∧ 1 ≤ m.casDeletes) := by
  decide

-- ---------------------------------------------------------------- (ii) the standard argument

/-- **atomic_ops_linearizable.** If every operation of a concurrent history takes effect atomically
at a point between its invocation and its response — `order` lists the operations by effect point
and is sequentially legal for the specification `step` — then the history is linearizable with
respect to `step`. (Any specification, any state and operation types.) -/
theorem atomic_ops_linearizable {St Op Out Obs : Type} (step : St → Op → St × Out) (agree : Out → Obs → Bool)
    (s : St) (h order : List (Ev Op Obs)) (pt : Ev Op Obs → Nat)
    (hperm : order.Perm h)
    (hsorted : order.Pairwise (fun a b => pt a < pt b))
    (hwithin : ∀ e ∈ h, e.inv ≤ pt e ∧ pt e ≤ e.resp)
    (hlegal : Legal step agree s order) :
    Linearizable step agree s h :=
  Lin.atomic_ops_linearizable step agree s h order pt hperm hsorted hwithin hlegal

/-- **checkCert_sound.** The driver validates every linearization its search finds with
`Lin.checkCert`; an accepted order proves the recorded history linearizable. -/
theorem checkCert_sound {St Op Out Obs : Type} (step : St → Op → St × Out) (agree : Out → Obs → Bool) (s : St)
    (h : List (Ev Op Obs)) (order : List Nat) (hc : checkCert step agree s h order = true) :
    Linearizable step agree s h :=
  Lin.checkCert_sound step agree s h order hc

/-- Non-vacuity of the definition: a two-operation history of a register-like specification that is
linearizable only in the order opposite to the invocation order (overlapping calls), and one that
is not linearizable at all (the second call began after the first returned). -/
example :
    let step : Nat → Nat → Nat × Nat := fun s x => (x, s)      -- write x, return the old value
    let agree : Nat → Nat → Bool := fun a b => a == b
    checkCert step agree 0 [⟨1, 4, 7, 9⟩, ⟨2, 3, 9, 0⟩] [1, 0] = true ∧
    checkCert step agree 0 [⟨1, 4, 7, 9⟩, ⟨2, 3, 9, 0⟩] [0, 1] = false ∧
    checkCert step agree 0 [⟨1, 2, 7, 9⟩, ⟨3, 4, 9, 0⟩] [1, 0] = false := by
  decide

-- ---------------------------------------------------------------- (i)+(ii): linearizable ⇒ one winner

section Join
open Pithos.S3

/-- Observation of a recorded call for the winner count: did it succeed? -/
def wroteAgree (o : S3.Out) (b : Bool) : Bool := o.isWrote == b

theorem legal_obs_eq_run (q : Quirks) (s : State) (lin : List (Ev Op Bool))
    (h : legalB (step q) wroteAgree s lin = true) :
    lin.map (·.obs) = (run q s (lin.map (·.op))).2.map Out.isWrote := by
  induction lin generalizing s with
  | nil => simp [run]
  | cons e es ih =>
    simp only [legalB, Bool.and_eq_true] at h
    have h1 : (step q s e.op).2.isWrote = e.obs := by simpa [wroteAgree] using h.1
    have := ih (step q s e.op).1 h.2
    simp only [List.map_cons, run]
    rw [this, h1]

/-- **linearizable_inm_at_most_one_winner.** A concurrent history that consists of If-None-Match
writes to one key and is linearizable with respect to the specification from a reachable
(well-formed) state has at most one successful call — whatever the interleaving was. Together with
`atomic_ops_linearizable` and the T1 facts this is the property's first sentence for SQLite; the
driver establishes the premise `Linearizable` for each recorded history (`checkCert_sound`). -/
theorem linearizable_inm_at_most_one_winner (q : Quirks) (s : State) (b k : String) (h : List (Ev Op Bool))
    (hwf : WF s) (hops : ∀ e ∈ h, IsInmWrite b k e.op)
    (hlin : Linearizable (step q) wroteAgree s h) :
    (h.filter (·.obs)).length ≤ 1 := by
  obtain ⟨lin, hperm, _, hlegal⟩ := hlin
  have hobs := legal_obs_eq_run q s lin hlegal
  have hops' : ∀ op ∈ lin.map (·.op), IsInmWrite b k op := by
    intro op hop
    obtain ⟨e, he, rfl⟩ := List.mem_map.1 hop
    exact hops e (hperm.subset he)
  have hw := S3.inm_at_most_one_winner q s b k (lin.map (·.op)) hwf hops'
  have hcount : (h.filter (·.obs)).length = (lin.filter (·.obs)).length := (hperm.filter _).length_eq.symm
  have hmap : (lin.filter (·.obs)).length = ((lin.map (·.obs)).filter id).length := by
    rw [List.filter_map]; simp [Function.comp_def]
  have hmap2 : (((run q s (lin.map (·.op))).2.map Out.isWrote).filter id).length
      = ((run q s (lin.map (·.op))).2.filter Out.isWrote).length := by
    rw [List.filter_map]; simp [Function.comp_def]
  rw [hcount, hmap, hobs, hmap2]
  exact hw

end Join

-- ---------------------------------------------------------------- (iii) the optimistic-lock protocol, statement level

section Fine
open Pithos.MetaFine

/-- **cas_no_lost_update.** In `MetaFine`, for ARBITRARY interleavings of the reads and guarded
commits of any number of writers (puts/completes, deletes, appends; conditional or not): every
committed If-Match put/complete and If-Match delete replaced exactly a row with the parts (= ETag)
it named — the version compare-and-swap rules out that the row changed between the writer's read
and its commit; a committed If-None-Match writer replaced nothing (the unique index on the latest
row). So no acknowledged write is overwritten by a conditional writer that saw an older ETag. -/
theorem cas_no_lost_update (sz : PartId → Nat) (row : Option Cell) (nextId : Nat) (progs : List Prog) (sched : List Nat)
    (hid : ∀ c, row = some c → c.id < nextId) :
    ∀ cm ∈ (exec sz (init row nextId progs) sched).log,
      (∀ new e, progs[cm.tid]? = some (.put new (.im e)) → ∃ b, cm.before = some b ∧ b.parts = e) ∧
      (∀ e, progs[cm.tid]? = some (.del (some e)) → ∃ b, cm.before = some b ∧ b.parts = e) ∧
      (∀ new, progs[cm.tid]? = some (.put new .inm) → cm.before = none) :=
  MetaFine.cas_no_lost_update sz row nextId progs sched hid

/-- The row's history is exactly the chain of logged commits (nothing changes it silently), every
writer commits at most once, and an acknowledged put is in the log with its content. -/
theorem commits_form_the_row_history (sz : PartId → Nat) (row : Option Cell) (nextId : Nat) (progs : List Prog) (sched : List Nat) :
    Chain row (exec sz (init row nextId progs) sched).log (exec sz (init row nextId progs) sched).db.row ∧
    ((exec sz (init row nextId progs) sched).log.map (·.tid)).Nodup ∧
    (∀ (i : Nat) (t : Thread) (new : List PartId) (c : Cond),
      (exec sz (init row nextId progs) sched).threads[i]? = some t → t.prog = .put new c → t.loc = .done .ok →
      ∃ cm ∈ (exec sz (init row nextId progs) sched).log, cm.tid = i ∧ ∃ a, cm.after = some a ∧ a.parts = new) :=
  ⟨MetaFine.log_chain sz row nextId progs sched, MetaFine.commit_once sz row nextId progs sched,
   fun i t new c ht hp hl => MetaFine.ack_put_committed sz row nextId progs sched i t new c ht hp hl⟩

/-- Non-vacuity: two writers that both read the same version and both name its ETag; whatever the
interleaving of their commits, exactly one is acknowledged (here: the second one to commit loses). -/
example :
    (exec (fun _ => 1) (init (some ⟨0, 1, [1]⟩) 1 [.put [5] (.im [1]), .put [6] (.im [1])]) [0, 1, 1, 0]).threads.map (·.loc)
      = [.done .precondition, .done .ok] ∧
    (exec (fun _ => 1) (init (some ⟨0, 1, [1]⟩) 1 [.put [5] (.im [1]), .put [6] (.im [1])]) [0, 1, 0, 1]).threads.map (·.loc)
      = [.done .ok, .done .precondition] := by
  decide

end Fine

-- ---------------------------------------------------------------- (iv) the extracted data flow of the conditional paths

section Paths
open Pithos.CondProto Pithos.Gen.CondPaths

/-- **if_match_commits_only_on_the_compared_row.** One If-Match writer whose code path reads the
latest row `reads` times, compares the ETag after the reads in `compared`, and takes the optimistic
lock with the (id, version) of read `lockGen`; between any two of its statements ANY other writers
may commit (updates that bump the version, deletes, inserts under fresh ids). If the lock-supplying
read is one of the compared reads (`Spec.Safe`), then for EVERY such interleaving the write commits
only by replacing a row that has the ETag it named. -/
theorem if_match_commits_only_on_the_compared_row (sp : Spec) (hs : sp.Safe) (e new : List Nat) (d : Db)
    (hd : ∀ r, d.row = some r → r.id < d.nextId) (evs : List Ev) :
    ∀ b, (run sp e new (d, {}) evs).2.st = .committed b → ∃ c, b = some c ∧ c.parts = e :=
  (inv_run new hs evs (inv_init sp e d hs hd)).done

/-- Negation witness for an unsafe shape — two reads, the ETag compared after the first only, the
lock taken with the version of the second (a "refresh before locking" that forgets to compare
again): the writer reads ETag [1]; another writer commits [5] (resp. deletes the key); the writer
re-reads, locks the NEW row (resp. takes no lock at all) and commits — it overwrites an
acknowledged write it never saw (resp. re-creates a deleted key), although nothing ever had the
ETag it named at that moment. -/
theorem reread_without_recompare_overwrites :
    (run ⟨2, [1], 2⟩ [1] [9] (⟨some ⟨0, 1, [1]⟩, 1⟩, {}) [.a, .env (.update 0 [5]), .a, .a])
      = (⟨some ⟨0, 5, [9]⟩, 1⟩, { pc := 2, lockSeen := some (some ⟨0, 2, [5]⟩), st := .committed (some ⟨0, 2, [5]⟩) }) ∧
    (run ⟨2, [1], 2⟩ [1] [9] (⟨some ⟨0, 1, [1]⟩, 1⟩, {}) [.a, .env .delete, .a, .a])
      = (⟨some ⟨1, 1, [9]⟩, 2⟩, { pc := 2, lockSeen := some none, st := .committed none }) ∧
    -- the safe shape (one read, compared, locked) on the same schedules: refused both times
    (run ⟨1, [1], 1⟩ [1] [9] (⟨some ⟨0, 1, [1]⟩, 1⟩, {}) [.a, .env (.update 0 [5]), .a]).2.st = .failed ∧
    (run ⟨1, [1], 1⟩ [1] [9] (⟨some ⟨0, 1, [1]⟩, 1⟩, {}) [.a, .env .delete, .a]).2.st = .failed := by
  decide

/-- The `CondProto` shape of an extracted path. -/
def specOf (p : CondPath) : Spec := ⟨p.reads, p.etagCompared, p.lockVersionGen.getD 0⟩

/-- Every conditional path the extractor is expected to find was found (it fails closed otherwise). -/
theorem extracted_paths_present :
    ∀ fk ∈ [("PutObject", "im"), ("PutObject", "imstar"), ("PutObject", "inm"), ("CompleteMultipartUpload", "im"),
            ("CompleteMultipartUpload", "imstar"), ("CompleteMultipartUpload", "inm"), ("DeleteObject", "im"),
            ("DeleteObject", "imstar"), ("AppendObject", "append")],
      ∃ p ∈ condPaths, (p.fn, p.kind) = fk ∧ p.lockVersionGen.isSome = true := by
  decide

/-- **extracted_if_match_paths_lock_the_compared_row** (T1, the code as it is now). In every
If-Match path of PutObject, CompleteMultipartUpload and DeleteObject the read whose
optimistic_lock_version guards the lock is a read whose ETag was compared with the If-Match value;
the locked row id comes from the same read; the lock is skipped only if THAT read found no row (which
the comparison has excluded); a guarded delete uses the same read. -/
theorem extracted_if_match_paths_lock_the_compared_row :
    ∀ p ∈ condPaths, p.kind = "im" →
      (specOf p).Safe ∧ p.lockEntityGen = p.lockVersionGen ∧
      (p.lockOnlyIfRowGen = none ∨ p.lockOnlyIfRowGen = p.lockVersionGen) ∧
      (p.casDeleteVersionGen = none ∨ p.casDeleteVersionGen = p.lockVersionGen) := by
  decide

/-- The same for `If-Match: *` and `If-None-Match: *`: the lock-supplying read is one whose
existence / delete-marker state was tested as the precondition — for If-None-Match it is the LAST
read (the re-read is also re-tested). -/
theorem extracted_star_and_inm_paths_lock_the_checked_row :
    ∀ p ∈ condPaths, (p.kind = "imstar" ∨ p.kind = "inm") →
      (∃ g, p.lockVersionGen = some g ∧ p.existChecked.contains g = true ∧ 1 ≤ g ∧ g ≤ p.reads ∧
        (p.kind = "inm" → g = p.reads)) ∧
      p.lockEntityGen = p.lockVersionGen ∧
      (p.lockOnlyIfRowGen = none ∨ p.lockOnlyIfRowGen = p.lockVersionGen) := by
  decide

/-- AppendObject (metadata store): the guarded update uses the version of the row whose part rows
were read for the prefix check, and the prefix check is there. -/
theorem extracted_append_path_locks_the_row_it_read :
    ∀ p ∈ condPaths, p.kind = "append" →
      p.lockVersionGen.isSome = true ∧ p.lockVersionGen = p.partsReadGen ∧ p.lockEntityGen = p.lockVersionGen ∧
      p.prefixChecked = true ∧ p.prefixCheckUnconditional = true := by
  decide

/-- **inm_commits_only_on_absent_key.** The create-if-absent writer whose LAST guard tests the
freshly read null version, against an arbitrary environment of other committing writers: for every
interleaving it commits only when there is no row — it never replaces an acknowledged write. -/
theorem inm_commits_only_on_absent_key (reads : Nat) (new : List Nat) (d : Db) (evs : List Ev) :
    ∀ b, (runInm reads true new (d, {}) evs).2.st = .committed b → b = none :=
  (invI_run reads new evs (d, {}) ⟨rfl, by intro b hb; simp at hb⟩).done

/-- Negation witness for the other shape — the last guard re-uses the boolean computed from an EARLIER
existence read: both reads see no object, another create-if-absent writer commits [5], the null
version lookup finds it, the stale flag still says "absent", and the writer replaces the acknowledged
write: two If-None-Match winners. -/
theorem stale_existence_flag_gives_two_winners :
    (runInm 2 false [9] (⟨none, 0⟩, {}) [.a, .a, .env (.insert [5]), .a, .a]).2.st = .committed (some ⟨0, 1, [5]⟩) ∧
    (runInm 2 true [9] (⟨none, 0⟩, {}) [.a, .a, .env (.insert [5]), .a, .a]).2.st = .failed := by
  decide

/-- **extracted_inm_paths_test_the_fresh_read** (T1). In the If-None-Match paths of PutObject and
CompleteMultipartUpload every read of the latest row is tested for absence, and the LAST precondition
guard tests the is_latest flag of the null version read just before it (a generation ≥ 101) and no
boolean computed from an earlier read. -/
theorem extracted_inm_paths_test_the_fresh_read :
    ∀ p ∈ condPaths, p.kind = "inm" →
      (∀ g ∈ List.range p.reads, p.existChecked.contains (g + 1) = true) ∧
      ∃ last, p.guards.getLast? = some last ∧
        last.any (fun f => f.1 == "latest" && decide (101 ≤ f.2)) = true ∧
        last.all (fun f => f.1 != "snapshot") = true := by
  decide

/-- **outbox_writes_through_iff_any_condition** (T1). The storage outbox runs a PutObject, a
DeleteObject and a bulk DeleteObjects synchronously as soon as the request — for the bulk form: ANY of
its entries — carries a condition; nothing lowers that decision again; the synchronous branch drains
the pending entries of the key (bulk: the bucket) and hands the original options/entries to the inner
storage. -/
theorem outbox_writes_through_iff_any_condition :
    ∀ m ∈ ["PutObject", "DeleteObject", "DeleteObjects"], ∃ d ∈ Gen.TxFacts.outboxDecisions,
      d.method = m ∧ d.syncIfConditional = true ∧ d.monotone = true ∧ d.drains = true ∧ d.writesThrough = true := by
  decide

/-- Hence, for the If-Match paths of the code as it is: for every interleaving with other
writers' commits, an If-Match write commits only by replacing a row with the ETag it named. -/
theorem extracted_if_match_paths_safe :
    ∀ p ∈ condPaths, p.kind = "im" → ∀ (e new : List Nat) (d : Db), (∀ r, d.row = some r → r.id < d.nextId) →
      ∀ (evs : List Ev) b, (run (specOf p) e new (d, {}) evs).2.st = .committed b → ∃ c, b = some c ∧ c.parts = e :=
  fun p hp hk e new d hd evs =>
    if_match_commits_only_on_the_compared_row (specOf p) (extracted_if_match_paths_lock_the_compared_row p hp hk).1 e new d hd evs

end Paths

end Pithos.C07
