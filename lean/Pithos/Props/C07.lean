/-
C07 — conditional writes are atomic under concurrency. Property theorems.

 (ii)  `atomic_ops_linearizable`, `checkCert_sound` — linearizability w.r.t. an arbitrary sequential
       specification (Pithos.Model.Linearize); the premise "every storage call takes effect atomically"
       is, for SQLite, the regenerated fact table `Pithos.Gen.TxFacts` (T1) — obligations below.
-/
import Pithos.Model.Linearize
import Pithos.Lemmas.Linearize
import Pithos.Gen.TxFacts

namespace Pithos.C07
open Pithos.Lin Pithos.Gen.TxFacts

-- ---------------------------------------------------------------- (ii) the premise, from the current sources

/-- The storage methods the property is about. -/
def namedMutators : List String :=
  ["PutObject", "CompleteMultipartUpload", "DeleteObject", "DeleteObjects", "AppendObject"]

/-- Each of them runs exactly one transaction, a writable one on the storage's database, performs
every metadata-store / part-store call inside it, and starts no goroutine. -/
theorem named_mutators_run_in_one_writable_tx :
    ∀ n ∈ namedMutators, ∃ m ∈ methods, m.name = n ∧ m.withTx = 1 ∧ m.writable = 1 ∧
      m.storeCallsOutside = 0 ∧ m.goStmts = 0 ∧ 0 < m.storeCallsInside := by
  decide

/-- … and so does every other method of the storage that opens a writable transaction. -/
theorem every_writing_method_runs_in_one_tx :
    ∀ m ∈ methods, 1 ≤ m.writable → m.withTx = 1 ∧ m.writable = 1 ∧ m.storeCallsOutside = 0 ∧ m.goStmts = 0 := by
  decide

/-- SQLite: writable transactions begin on a pool of ONE connection whose transactions are
`BEGIN IMMEDIATE` — they are serialised, each is one atomic step. -/
theorem sqlite_write_transactions_serialised :
    writablePoolMaxOpenConns = 1 ∧ writableTxLock = "immediate" ∧ writeTxOnWritablePool = true := by
  decide

/-- The statements `Pithos.MetaFine` models have the modelled shape: guarded compare-and-swap
update/delete on (id, optimistic_lock_version), every update bumps the version, and a unique index
allows one latest completed row per key. -/
theorem cas_statements_have_the_modelled_shape :
    casUpdateGuarded = true ∧ casUpdateBumpsVersion = true ∧ casUpdateReportsRowsAffected = true ∧
    plainUpdateBumpsVersion = true ∧ casDeleteGuarded = true ∧
    latestUniqueIndex = some ("bucket_name,key,upload_status,is_latest", "upload_status = 'COMPLETED' AND is_latest = 1") ∧
    appendCasFailureIsInvalidWriteOffset = true := by
  decide

/-- … and they are used where the model uses them. -/
theorem cas_is_used_where_modelled :
    (∀ n ∈ ["PutObject", "CompleteMultipartUpload", "DeleteObject", "AppendObject"],
      ∃ m ∈ sqlMethods, m.name = n ∧ 1 ≤ m.casUpdates) ∧
    (∀ n ∈ ["PutObject", "CompleteMultipartUpload"], ∃ m ∈ sqlMethods, m.name = n ∧ 1 ≤ m.uniqueMapped) ∧
    (∀ n ∈ ["DeleteObject", "CompleteMultipartUpload"], ∃ m ∈ sqlMethods, m.name = n ∧ 1 ≤ m.casDeletes) := by
  decide

-- ---------------------------------------------------------------- (ii) the standard argument

/-- **atomic_ops_linearizable.** If every operation of a concurrent history takes effect atomically
at a point between its invocation and its response — `order` lists the operations by effect point
and is sequentially legal for the specification `step` — then the history is linearizable with
respect to `step`. (Any specification, any state and operation types.) -/
theorem atomic_ops_linearizable {St Op Out Obs : Type} (step : St → Op → St × Out) (agree : Out → Obs → Bool)
    (s : St) (h order : List (Ev Op Obs)) (pt : Ev Op Obs → Nat)
    (hperm : order.Perm h)
    (hsorted : order.Pairwise (fun a b => pt a < pt b))
    (hwithin : ∀ e ∈ h, e.inv ≤ pt e ∧ pt e ≤ e.resp)
    (hlegal : Legal step agree s order) :
    Linearizable step agree s h :=
  Lin.atomic_ops_linearizable step agree s h order pt hperm hsorted hwithin hlegal

/-- **checkCert_sound.** The driver validates every linearization its search finds with
`Lin.checkCert`; an accepted order proves the recorded history linearizable. -/
theorem checkCert_sound {St Op Out Obs : Type} (step : St → Op → St × Out) (agree : Out → Obs → Bool) (s : St)
    (h : List (Ev Op Obs)) (order : List Nat) (hc : checkCert step agree s h order = true) :
    Linearizable step agree s h :=
  Lin.checkCert_sound step agree s h order hc

/-- Non-vacuity of the definition: a two-operation history of a register-like specification that is
linearizable only in the order opposite to the invocation order (overlapping calls), and one that
is not linearizable at all (the second call began after the first returned). -/
example :
    let step : Nat → Nat → Nat × Nat := fun s x => (x, s)      -- write x, return the old value
    let agree : Nat → Nat → Bool := fun a b => a == b
    checkCert step agree 0 [⟨1, 4, 7, 9⟩, ⟨2, 3, 9, 0⟩] [1, 0] = true ∧
    checkCert step agree 0 [⟨1, 4, 7, 9⟩, ⟨2, 3, 9, 0⟩] [0, 1] = false ∧
    checkCert step agree 0 [⟨1, 2, 7, 9⟩, ⟨3, 4, 9, 0⟩] [1, 0] = false := by
  decide

end Pithos.C07
