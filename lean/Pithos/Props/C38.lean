/-
C38 — the S3 client backend behaves like the storage it forwards to.

Claimed at translation-validation strength: the behavioural claim rests on the differential run
(lean/Driver/C38.lean). What Lean contributes, over the tables regenerated from the Go source on
every run (`Pithos.Gen.S3ClientMap`, `Pithos.Gen.S3ErrorTables`):
  * the error-kind path storage → server → wire → SDK → client as a total function; that every kind is
    preserved by the current client for every method the histories observe (`error_kinds_preserved`);
    that the server's and the client's tables are inverse (`errors_roundtrip_except`,
    `no_code_two_sentinels`, `delete_markers_roundtrip`);
  * field coverage of the response translations.
-/
import Pithos.Model.S3Client

namespace Pithos.C38
open Pithos.S3 Pithos.S3Client Pithos.Gen.S3ClientMap

/-- A complete translation is injective on the kinds the endpoint can answer with: two different
kinds never look the same to the caller, in whichever form the server puts them on the wire of a
non-HEAD request (coded body, bodyless 304, or bodyless with the delete-marker header). -/
theorem ideal_translation_injective :
    ∀ e1 ∈ allKinds, ∀ e2 ∈ allKinds, ∀ w1 ∈ wires genTables e1 false, ∀ w2 ∈ wires genTables e2 false,
      idealClientKind w1 = idealClientKind w2 → e1 = e2 := by decide

/-- … and it reports every kind as itself. -/
theorem ideal_translation_faithful :
    ∀ e ∈ allKinds, ∀ w ∈ wires genTables e false, idealClientKind w = e := by decide

/-- What no client can do: on a HEAD request a missing key and a missing bucket are the same reply
(bare 404) — the wire does not carry the distinction (the client asks HeadBucket). -/
theorem head_wire_conflates_missing_key_and_bucket :
    Wire.bare "404" ∈ wires genTables .noSuchKey true ∧ wires genTables .noSuchBucket true = [Wire.bare "404"] := by decide

/-- **error_kinds_preserved.** Since /repo commit 7a2631f every (method, kind) pair of
`observedMethods × relevantKinds` is reported as itself by the client backend, in whichever form the
server puts it on the wire (coded body, bodyless status, delete-marker headers; HEAD requests never
have a body). Checked against the regenerated tables on every run. -/
theorem error_kinds_preserved :
    (observedMethods.flatMap fun (m, h) => ((relevantKinds m).filter fun e => !preserved genTables m h e).map fun e => (m, e.toString))
    = [] := by decide

/-- The client before that commit (`preFixTables`: method-specific clauses only, HeadObject mapping every
bodyless 404 to a missing bucket): the exact 33 (method, kind) pairs it did not preserve. -/
theorem preFix_error_kinds_preserved_except :
    (observedMethods.flatMap fun (m, h) => ((relevantKinds m).filter fun e => !preserved preFixTables m h e).map fun e => (m, e.toString))
    = [("PutBucketVersioningConfiguration", "NoSuchBucket"), ("PutObject", "NoSuchBucket"),
       ("HeadObject", "NoSuchKey"), ("HeadObject", "MethodNotAllowed"),
       ("GetObject", "NoSuchBucket"), ("GetObject", "NoSuchKey"), ("GetObject", "MethodNotAllowed"),
       ("DeleteObject", "NoSuchBucket"), ("DeleteObject", "PreconditionFailed"),
       ("CopyObject", "NoSuchKey"), ("CopyObject", "MethodNotAllowed"), ("TransitionObjectStorageClass", "NoSuchKey"),
       ("CreateMultipartUpload", "NoSuchBucket"), ("UploadPart", "NoSuchBucket"), ("UploadPart", "NoSuchKey"),
       ("CompleteMultipartUpload", "NoSuchBucket"), ("CompleteMultipartUpload", "NoSuchKey"),
       ("CompleteMultipartUpload", "InvalidPart"), ("CompleteMultipartUpload", "InvalidPartOrder"),
       ("CompleteMultipartUpload", "PreconditionFailed"),
       ("AbortMultipartUpload", "NoSuchBucket"), ("AbortMultipartUpload", "NoSuchKey"),
       ("GetObjectTagging", "NoSuchBucket"), ("GetObjectTagging", "NoSuchKey"), ("GetObjectTagging", "MethodNotAllowed"),
       ("PutObjectTagging", "NoSuchBucket"), ("PutObjectTagging", "NoSuchKey"), ("PutObjectTagging", "MethodNotAllowed"),
       ("DeleteObjectTagging", "NoSuchBucket"), ("DeleteObjectTagging", "NoSuchKey"), ("DeleteObjectTagging", "MethodNotAllowed"),
       ("ListObjects", "NoSuchBucket"), ("ListObjectVersions", "NoSuchBucket")] := by decide

/-- Witness (before the repair): `HeadObject` of a missing key in an existing bucket was reported as a
missing bucket; now it is reported as a missing key. -/
theorem head_missing_key :
    roundTrip preFixTables "HeadObject" true .noSuchKey = [.noSuchBucket] ∧
    roundTrip genTables "HeadObject" true .noSuchKey = [.noSuchKey] := by decide

/-! ### The server's and the client's tables are inverse to each other -/

open Pithos.Gen.S3ErrorTables in
/-- **errors_roundtrip.** For every storage sentinel `handleError` can render — with the status and
S3 error code it writes (a 304 bodyless) — every part of the client that decodes that reply (the
general `storageErrorsByS3Code`/status translation and every method-specific code clause) yields the
same sentinel again, and at least one does: `decode (encode e) = e`. The single exception is
`ErrInvalidBucketName`, whose text — and therefore the code the server writes — is
"invalid bucket name", which the client's table (key `InvalidBucketName`) does not contain. -/
theorem errors_roundtrip_except :
    ((serverEncode.filter fun entry => !roundTrips genTables clientMethodClauses entry).map (·.1))
    = ["ErrInvalidBucketName"] := by decide

open Pithos.Gen.S3ErrorTables in
/-- The two delete-marker errors (bodyless, marked by the `x-amz-delete-marker` header the server
sets) are rebuilt as the same error types. -/
theorem delete_markers_roundtrip :
    ∀ entry ∈ Gen.S3ErrorTables.serverBodyless,
      lookup genTables.deleteMarker entry.2.1 = some entry.1 ∧ entry.2.2.contains "deleteMarkerHeader" = true := by decide

open Pithos.Gen.S3ErrorTables in
/-- **no_code_two_sentinels.** No S3 error code is decoded to two different sentinels: the keys of the
general table are distinct, every method-specific clause agrees with the general table where both know
the code, and the server never writes the same code for two sentinels. -/
theorem no_code_two_sentinels :
    (clientDecode.map (·.1)).Nodup ∧
    (∀ c ∈ clientMethodClauses, ∀ s, lookup clientDecode c.2.1 = some s → s = c.2.2) ∧
    (serverEncode.map (·.2.2)).Nodup ∧ (serverEncode.map (·.1)).Nodup := by decide

/-! ### Field coverage of the response translations -/

def fieldsOf (m ty : String) : List String :=
  (responseFields.filter fun r => r.1 == m && r.2.1 == ty).flatMap (·.2.2)

/-- Every attribute a HEAD/GET object response carries is copied into `storage.Object`
(the tag set is not on the wire: only `x-amz-tagging-count`). -/
theorem head_object_fields_covered :
    (∀ f ∈ ["Key", "ContentType", "LastModified", "VersionID", "IsDeleteMarker", "ETag", "ChecksumCRC32", "ChecksumCRC32C",
            "ChecksumCRC64NVME", "ChecksumSHA1", "ChecksumSHA256", "ChecksumType", "Size", "StorageClass", "Metadata"],
        f ∈ fieldsOf "HeadObject" "Object") ∧
    (∀ f ∈ ["CacheControl", "ContentDisposition", "ContentEncoding", "ContentLanguage", "Expires", "WebsiteRedirectLocation", "UserMetadata"],
        f ∈ fieldsOf "HeadObject" "ObjectMetadata") := by decide

theorem list_fields_covered :
    (∀ f ∈ ["Key", "LastModified", "ETag", "Size", "StorageClass"], f ∈ fieldsOf "ListObjects" "Object") ∧
    (∀ f ∈ ["Key", "VersionID", "IsDeleteMarker", "IsLatest", "LastModified"], f ∈ fieldsOf "ListObjectVersions" "ObjectVersion") ∧
    (∀ f ∈ ["VersionID", "IsDeleteMarker"], f ∈ fieldsOf "DeleteObject" "DeleteObjectResult") ∧
    (∀ f ∈ ["VersionID", "ETag"], f ∈ fieldsOf "CompleteMultipartUpload" "CompleteMultipartUploadResult") ∧
    (∀ f ∈ ["VersionID", "ETag"], f ∈ fieldsOf "CopyObject" "result.*") := by decide

/-- Since /repo commit a758c2b the PutObject translation returns the version id and forwards the tag
set, and GetObject's HeadObject pre-flight addresses the requested version (before, each of the three
was a recorded deviation). -/
theorem put_object_result_has_version_id : "VersionID" ∈ fieldsOf "PutObject" "PutObjectResult" := by decide
theorem put_object_forwards_tags : "Tagging" ∈ putObjectInputFields := by decide
theorem get_object_preflight_uses_version : getObjectHeadOptions ≠ "nil" := by decide

/-- Negation witness (current source): AppendObject is not implemented by the client backend. -/
theorem append_not_implemented : ("AppendObject", "always") ∈ notImplemented := by decide

/-! ### Request translation of copies -/

/-- The metadata and tagging directives are forwarded exactly when the caller asks for a replacement —
not only when the replacement set is non-empty — so "replace with the empty set" reaches the endpoint. -/
theorem copy_directives_forwarded_whenever_requested :
    ("MetadataDirective", "opts.ReplaceMetadata") ∈ copyObjectGuards ∧
    ("TaggingDirective", "opts.ReplaceTags") ∈ copyObjectGuards ∧
    ("Tagging", "opts.ReplaceTags") ∈ copyObjectGuards := by decide

/-- The source version id is appended to `x-amz-copy-source` whenever one is given (the literal
`null` included), by `CopyObject` and `UploadPartCopy` alike. -/
theorem copy_source_version_always_forwarded :
    copySourceVersionGuard = "sourceVersionID != nil" ∧
    ("CopyObject", "opts.SourceVersionID") ∈ copySourceVersionArgs ∧
    ("UploadPartCopy", "opts.SourceVersionID") ∈ copySourceVersionArgs := by decide

/-- What the reference (the model of `S3ClientStorage ∘ server` is the storage model itself) says about
the two corners: the copy source addressed as version `null` is the null version of the key, whatever
the current version is … -/
theorem copy_source_null_is_the_null_version (bk : Bucket) (k : String) (r : Row)
    (h : resolve bk k (some none) = .ok r) : r.vid = none ∧ r.key = k := by
  have h' : (match rowByVid bk k none with
      | none => Except.error Err.noSuchKey
      | some r => if r.dm then Except.error Err.methodNotAllowed else Except.ok r) = Except.ok r := h
  unfold rowByVid at h'
  split at h'
  · cases h'
  · rename_i r' hf
    have hp := List.find?_some hf
    simp only [Bool.and_eq_true, beq_iff_eq] at hp
    split at h'
    · cases h'
    · injection h' with h2; subst h2; exact ⟨hp.2, hp.1⟩

def outTags : Out → Option Pairs
  | .tags t => some t
  | _ => none

def outBody : Out → Option Bytes
  | .obj v => some v.body
  | _ => none

/-- … and a copy that replaces the tags with the empty set leaves the destination without tags, and a
copy from `null` under a newer version copies the pre-versioning bytes (two concrete histories, the
ones the directed cases replay on both sides). -/
theorem spec_copy_replace_with_empty_tags :
    ((S3.run Quirks.code {} [.mkb "b", .put "b" "k" [1] { tags := [("t", "v")] } false .none,
        .copy "b" "k" none "b" "k2" false true {}, .getTags "b" "k2" none]).2.getLast?.bind outTags) = some [] := by
  decide

theorem spec_copy_from_null_under_newer_version :
    ((S3.run Quirks.code {} [.mkb "b", .put "b" "k" [1] {} false .none, .setVer "b" .enabled,
        .put "b" "k" [2] {} false .none, .copy "b" "k" (some none) "b" "k2" false false {},
        .get "b" "k2" none]).2.getLast?.bind outBody) = some [1] := by
  decide

end Pithos.C38
