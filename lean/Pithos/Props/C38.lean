/-
C38 — the S3 client backend behaves like the storage it forwards to.

Claimed at translation-validation strength: the behavioural claim rests on the differential run
(lean/Driver/C38.lean). What Lean contributes, over the tables regenerated from the Go source on
every run (`Pithos.Gen.S3ClientMap`):
  * the error-kind path storage → server → wire → SDK → client as a total function, the proof that a
    complete translation is injective on the kinds `S3.Err` distinguishes, and the exact list of
    (method, kind) pairs the current client does not preserve;
  * field coverage of the response translations.
-/
import Pithos.Model.S3Client

namespace Pithos.C38
open Pithos.S3 Pithos.S3Client Pithos.Gen.S3ClientMap

/-- A complete translation is injective on the kinds the endpoint can answer with: two different
kinds never look the same to the caller, in whichever form the server puts them on the wire of a
non-HEAD request (every kind has a coded form; `NoSuchKey` and `MethodNotAllowed` also arrive bare). -/
theorem ideal_translation_injective :
    ∀ e1 ∈ allKinds, ∀ e2 ∈ allKinds, ∀ w1 ∈ wires genTables e1 false, ∀ w2 ∈ wires genTables e2 false,
      idealClientKind w1 = idealClientKind w2 → e1 = e2 := by decide

/-- … and it reports every kind as itself. -/
theorem ideal_translation_faithful :
    ∀ e ∈ allKinds, ∀ w ∈ wires genTables e false, idealClientKind w = e := by decide

/-- What no client can do: on a HEAD request a missing key and a missing bucket are the same reply
(bare 404) — the wire does not carry the distinction. -/
theorem head_wire_conflates_missing_key_and_bucket :
    wires genTables .noSuchKey true = wires genTables .noSuchBucket true := by decide

/-- **The current gaps of the error translation** (code as it is): exactly these (method, kind)
pairs are not reported as themselves by the client backend. Everything else in
`observedMethods × relevantKinds` is preserved. The list is checked against the regenerated tables
on every run; it shrinks as translations are added. -/
theorem error_kinds_preserved_except :
    (observedMethods.flatMap fun (m, h) => ((relevantKinds m).filter fun e => !preserved genTables m h e).map fun e => (m, e.toString))
    = [("PutBucketVersioningConfiguration", "NoSuchBucket"), ("PutObject", "NoSuchBucket"),
       ("HeadObject", "NoSuchKey"), ("HeadObject", "MethodNotAllowed"),
       ("GetObject", "NoSuchBucket"), ("GetObject", "NoSuchKey"), ("GetObject", "MethodNotAllowed"),
       ("DeleteObject", "NoSuchBucket"), ("DeleteObject", "PreconditionFailed"),
       ("CopyObject", "NoSuchKey"), ("CopyObject", "MethodNotAllowed"), ("TransitionObjectStorageClass", "NoSuchKey"),
       ("CreateMultipartUpload", "NoSuchBucket"), ("UploadPart", "NoSuchBucket"), ("UploadPart", "NoSuchKey"),
       ("CompleteMultipartUpload", "NoSuchBucket"), ("CompleteMultipartUpload", "NoSuchKey"),
       ("CompleteMultipartUpload", "InvalidPart"), ("CompleteMultipartUpload", "InvalidPartOrder"),
       ("CompleteMultipartUpload", "PreconditionFailed"),
       ("AbortMultipartUpload", "NoSuchBucket"), ("AbortMultipartUpload", "NoSuchKey"),
       ("GetObjectTagging", "NoSuchBucket"), ("GetObjectTagging", "NoSuchKey"), ("GetObjectTagging", "MethodNotAllowed"),
       ("PutObjectTagging", "NoSuchBucket"), ("PutObjectTagging", "NoSuchKey"), ("PutObjectTagging", "MethodNotAllowed"),
       ("DeleteObjectTagging", "NoSuchBucket"), ("DeleteObjectTagging", "NoSuchKey"), ("DeleteObjectTagging", "MethodNotAllowed"),
       ("ListObjects", "NoSuchBucket"), ("ListObjectVersions", "NoSuchBucket")] := by decide

/-- Negation witness: through the client, `HeadObject` of a missing key in an existing bucket is
reported as a missing bucket. -/
theorem head_missing_key_reported_as_missing_bucket :
    roundTrip genTables "HeadObject" true .noSuchKey = [.noSuchBucket] := by decide

/-! ### Field coverage of the response translations -/

def fieldsOf (m ty : String) : List String :=
  (responseFields.filter fun r => r.1 == m && r.2.1 == ty).flatMap (·.2.2)

/-- Every attribute a HEAD/GET object response carries is copied into `storage.Object`
(the tag set is not on the wire: only `x-amz-tagging-count`). -/
theorem head_object_fields_covered :
    (∀ f ∈ ["Key", "ContentType", "LastModified", "VersionID", "IsDeleteMarker", "ETag", "ChecksumCRC32", "ChecksumCRC32C",
            "ChecksumCRC64NVME", "ChecksumSHA1", "ChecksumSHA256", "ChecksumType", "Size", "StorageClass", "Metadata"],
        f ∈ fieldsOf "HeadObject" "Object") ∧
    (∀ f ∈ ["CacheControl", "ContentDisposition", "ContentEncoding", "ContentLanguage", "Expires", "WebsiteRedirectLocation", "UserMetadata"],
        f ∈ fieldsOf "HeadObject" "ObjectMetadata") := by decide

theorem list_fields_covered :
    (∀ f ∈ ["Key", "LastModified", "ETag", "Size", "StorageClass"], f ∈ fieldsOf "ListObjects" "Object") ∧
    (∀ f ∈ ["Key", "VersionID", "IsDeleteMarker", "IsLatest", "LastModified"], f ∈ fieldsOf "ListObjectVersions" "ObjectVersion") ∧
    (∀ f ∈ ["VersionID", "IsDeleteMarker"], f ∈ fieldsOf "DeleteObject" "DeleteObjectResult") ∧
    (∀ f ∈ ["VersionID", "ETag"], f ∈ fieldsOf "CompleteMultipartUpload" "CompleteMultipartUploadResult") ∧
    (∀ f ∈ ["VersionID", "ETag"], f ∈ fieldsOf "CopyObject" "result.*") := by decide

/-- Since /repo commit a758c2b the PutObject translation returns the version id and forwards the tag
set, and GetObject's HeadObject pre-flight addresses the requested version (before, each of the three
was a recorded deviation). -/
theorem put_object_result_has_version_id : "VersionID" ∈ fieldsOf "PutObject" "PutObjectResult" := by decide
theorem put_object_forwards_tags : "Tagging" ∈ putObjectInputFields := by decide
theorem get_object_preflight_uses_version : getObjectHeadOptions ≠ "nil" := by decide

/-- Negation witness (current source): AppendObject is not implemented by the client backend. -/
theorem append_not_implemented : ("AppendObject", "always") ∈ notImplemented := by decide

end Pithos.C38
