/-
C29 — requests signed by standard SigV4 clients are accepted.

Model: `Pithos.Model.Http.SigV4` (`serverCanon` = `generateCanonicalRequest` of pithos,
`sdkCanon` = the canonical request of the AWS SDK for Go v2 signer with the S3 client's settings).
Statements are for *every* request in the image of the S3 client + HTTP transport (`SdkShaped`):
all byte strings as keys, all query multisets, all header lists — no bound.

Deviations found (both replayed on the implementation by the harness):
 * runs of spaces inside a signed header value were not collapsed — repaired in /repo e6080ab
   (fixes/C29-collapse-header-spaces.patch); the current tree is `Fix.patched`, `Fix.asIs` is the
   tree before that commit;
 * the canonical query is ordered by percent-encoded key/value, the Go SDK orders by decoded
   key/value (recorded as a known finding; no patch proposed).
-/
import Pithos.Lemmas.SigV4

namespace Pithos.C29
open Pithos.SigV4

/-- the SDK's and the server's query orders agree on the pairs present -/
def encOrderAgrees (q : List (Bytes × Bytes)) : Bool :=
  q.all fun a => q.all fun b =>
    pairLe a b == pairLe (uriEncode a.1, uriEncode a.2) (uriEncode b.1, uriEncode b.2)

/-- the query as the server looks at it (the signature parameter itself is never signed) -/
def signedQuery (q : List (Bytes × Bytes)) : List (Bytes × Bytes) := q.filter (fun p => p.1 != amzSignatureKey)

/-- A request the S3 client can have produced and the HTTP transport can have delivered:
the path is the smithy escaping of some byte string; header values arrive without white space at
either end (the transport trims it); the host has no stray spaces; `x-amz-content-sha256` is what
the S3 client sets (a literal such as `UNSIGNED-PAYLOAD`, or the hash of the body); a header-signed
request has no query parameter that is itself called `X-Amz-Signature`. -/
structure SdkShaped (c : Crypto) (r : Req) (presigned : Bool) : Prop where
  path : ∃ p, r.path = sdkEscapePath p
  values : ∀ h ∈ r.headers, valuesOK h.2 = true
  host : headOK r.host = true ∧ lastOK r.host = true ∧ collapse r.host = r.host
  payload : presigned = true ∨ specialPayloads.contains (headerGet r contentSHA256Header) = true ∨
    headerGet r contentSHA256Header = c.sha256hex r.body
  sigParam : presigned = true ∨ ∀ q ∈ r.query, q.1 ≠ amzSignatureKey

/-- **canonical_uri_eq_sdk.** For every byte string the S3 client writes into the URL (object keys
with spaces, `+`, `%`, `~`, `*`, quotes, `//`, non-ASCII …), the server's canonical URI is the
SDK's canonical URI. -/
theorem canonical_uri_eq_sdk (p : Bytes) : canonicalURI (sdkEscapePath p) = sdkURI (sdkEscapePath p) := by
  unfold canonicalURI sdkURI
  split
  · rfl
  · exact canonURILoop_sdkEscapePath p

theorem query_eq_sdk (fx : Fix) (presigned : Bool) (q : List (Bytes × Bytes))
    (hs : presigned = true ∨ ∀ p ∈ q, p.1 ≠ amzSignatureKey)
    (ho : fx.sortDecoded = true ∨ encOrderAgrees (signedQuery q) = true) :
    canonicalQuery fx q = sdkQuery presigned q := by
  have hf : (if presigned then q.filter (fun p => p.1 != amzSignatureKey) else q) = signedQuery q := by
    cases presigned with
    | true => rfl
    | false =>
      simp only [Bool.false_eq_true, if_false, signedQuery]
      symm
      apply List.filter_eq_self.2
      intro p hp
      rcases hs with h | h
      · exact absurd h (by simp)
      · simpa using h p hp
  unfold canonicalQuery sdkQuery
  simp only [hf]
  by_cases hd : fx.sortDecoded = true
  · simp only [hd, if_true]; rfl
  · have hd' : fx.sortDecoded = false := by simpa using hd
    simp only [hd', Bool.false_eq_true, if_false]
    have ha : encOrderAgrees (signedQuery q) = true := by
      rcases ho with h | h
      · exact absurd h hd
      · exact h
    show renderQuery (sortBy pairLe ((signedQuery q).map _)) = renderQuery (_)
    congr 1
    apply sortBy_map (fun p : Bytes × Bytes => (uriEncode p.1, uriEncode p.2)) pairLe pairLe
    intro a haq b hbq
    have := List.all_eq_true.1 (List.all_eq_true.1 ha a haq) b hbq
    simpa using this

theorem headers_eq_sdk (fx : Fix) (r : Req) (S : List Bytes)
    (hv : ∀ h ∈ r.headers, valuesOK h.2 = true)
    (hh : headOK r.host = true ∧ lastOK r.host = true ∧ collapse r.host = r.host)
    (hc : fx.collapseSpaces = true ∨ ∀ h ∈ r.headers, noSpaceRuns h.2 = true) :
    collectSignedHeaders fx r S = sdkHeaders r S := by
  unfold collectSignedHeaders sdkHeaders
  have hhost : trimSpace r.host = stripExcess r.host := by
    rw [trimSpace_of_OK _ hh.1 hh.2.1]
    unfold stripExcess
    rw [trim32_of_OK _ hh.1 hh.2.1, hh.2.2]
  rw [hhost]
  congr 2
  apply filterMap_congr_mem
  intro h hm
  split
  · congr 2
    obtain ⟨cs, sd⟩ := fx
    cases cs with
    | true => exact headerValue_collapse_eq_sdk sd h.2 (hv h hm)
    | false =>
      rcases hc with hc | hc
      · exact absurd hc (by simp)
      · exact headerValue_asIs_eq_sdk sd h.2 (hv h hm) (hc h hm)
  · rfl

theorem payload_eq_sdk (c : Crypto) (r : Req) (presigned : Bool)
    (h : presigned = true ∨ specialPayloads.contains (headerGet r contentSHA256Header) = true ∨
      headerGet r contentSHA256Header = c.sha256hex r.body) :
    payloadPart c r presigned = sdkPayload r presigned := by
  unfold payloadPart sdkPayload
  cases presigned with
  | true => rfl
  | false =>
    simp only [Bool.false_eq_true, if_false]
    rcases h with h | h | h
    · exact absurd h (by simp)
    · rw [if_pos h]
    · split
      · rfl
      · exact h.symm

/-- The general form: which switch needs which side condition. -/
theorem serverCanon_eq_sdkCanon (c : Crypto) (fx : Fix) (r : Req) (S : List Bytes) (presigned : Bool)
    (h : SdkShaped c r presigned)
    (hc : fx.collapseSpaces = true ∨ ∀ h ∈ r.headers, noSpaceRuns h.2 = true)
    (ho : fx.sortDecoded = true ∨ encOrderAgrees (signedQuery r.query) = true) :
    serverCanon c fx r S presigned = sdkCanon r S presigned := by
  obtain ⟨p, hp⟩ := h.path
  unfold serverCanon sdkCanon
  rw [hp, canonical_uri_eq_sdk, query_eq_sdk fx presigned r.query h.sigParam ho,
    headers_eq_sdk fx r S h.values h.host hc, payload_eq_sdk c r presigned h.payload]

/-- **canonical_eq_sdk** (ideal server: inner spaces collapsed, query ordered like the SDK).
For every request the S3 client can produce and every choice of signed headers, the server's
canonical request — hence its string to sign and expected signature — is the SDK's. -/
theorem canonical_eq_sdk (c : Crypto) (r : Req) (S : List Bytes) (presigned : Bool)
    (h : SdkShaped c r presigned) :
    canonicalRequest c Fix.ideal r S presigned = (sdkCanon r S presigned).render := by
  unfold canonicalRequest
  rw [serverCanon_eq_sdkCanon c Fix.ideal r S presigned h (Or.inl rfl) (Or.inl rfl)]

/-- **canonical_eq_sdk_patched** (the current tree, /repo e6080ab and later): only the query order
remains as a side condition. -/
theorem canonical_eq_sdk_patched (c : Crypto) (r : Req) (S : List Bytes) (presigned : Bool)
    (h : SdkShaped c r presigned) (ho : encOrderAgrees (signedQuery r.query) = true) :
    canonicalRequest c Fix.patched r S presigned = (sdkCanon r S presigned).render := by
  unfold canonicalRequest
  rw [serverCanon_eq_sdkCanon c Fix.patched r S presigned h (Or.inl rfl) (Or.inr ho)]

/-- **canonical_eq_sdk_partial** (the tree before e6080ab): equality holds when no signed header value
contains a run of spaces and the two query orders agree. -/
theorem canonical_eq_sdk_partial (c : Crypto) (r : Req) (S : List Bytes) (presigned : Bool)
    (h : SdkShaped c r presigned)
    (hc : ∀ h ∈ r.headers, noSpaceRuns h.2 = true)
    (ho : encOrderAgrees (signedQuery r.query) = true) :
    canonicalRequest c Fix.asIs r S presigned = (sdkCanon r S presigned).render := by
  unfold canonicalRequest
  rw [serverCanon_eq_sdkCanon c Fix.asIs r S presigned h (Or.inr hc) (Or.inr ho)]

/-- **sdk_signed_accepted** (ideal server). A request of the S3 client's shape that carries the
credential of a configured key for the configured region, a timestamp inside the window, the
SDK's list of signed headers (containing `host` and every `x-amz-*` / `Content-MD5` header it
sent) and the signature the SDK computes with that key's secret is authenticated as that key —
whatever its path, query string, headers and payload mode. -/
theorem sdk_signed_accepted (c : Crypto) (cfg : Config) (r : Req) (p : SigParams)
    (ak secret date : Bytes) (t : Int)
    (hp : parseSigParams r = .ok p) (halg : p.alg = algV4)
    (hcred : p.credential = join [47] [ak, date, cfg.region, b! "s3", b! "aws4_request"])
    (hak : (47 : UInt8) ∉ ak) (hdt : (47 : UInt8) ∉ date) (hrg : (47 : UInt8) ∉ cfg.region)
    (hkey : cfg.creds.find? (fun k => k.accessKey == ak) = some ⟨ak, secret⟩)
    (hts : parseTimestamp p.timestamp = some t) (hdate : date = p.timestamp.take 8)
    (hwin : t - 900 ≤ cfg.now ∧ cfg.now ≤ t + (p.expires : Int))
    (hhost : (parseSignedHeaders p.signedHeaders).contains hostKey = true)
    (hsens : ∀ h ∈ r.headers, mustBeSigned (lower h.1) = true →
      (parseSignedHeaders p.signedHeaders).contains (lower h.1) = true)
    (hshape : SdkShaped c r p.presigned)
    (hstream : ¬ (headerGet r contentSHA256Header = streamingECDSA ∨ headerGet r contentSHA256Header = streamingECDSATrailer))
    (hsig : p.signature = sdkSignature c secret date cfg.region p.timestamp r (parseSignedHeaders p.signedHeaders) p.presigned) :
    checkAuth c Fix.ideal cfg r =
      .ok { accessKey := ak, params := p,
            scope := join [47] [date, cfg.region, b! "s3", b! "aws4_request"],
            signed := parseSignedHeaders p.signedHeaders } :=
  accepted_of_canonical_eq c Fix.ideal cfg r p ak secret date t hp halg hcred hak hdt hrg hkey hts hdate hwin hhost
    hsens (canonical_eq_sdk c r _ p.presigned hshape) hstream hsig

/-- **sdk_signed_accepted_patched** (the current tree): the same, when the two query orders agree. -/
theorem sdk_signed_accepted_patched (c : Crypto) (cfg : Config) (r : Req) (p : SigParams)
    (ak secret date : Bytes) (t : Int)
    (hp : parseSigParams r = .ok p) (halg : p.alg = algV4)
    (hcred : p.credential = join [47] [ak, date, cfg.region, b! "s3", b! "aws4_request"])
    (hak : (47 : UInt8) ∉ ak) (hdt : (47 : UInt8) ∉ date) (hrg : (47 : UInt8) ∉ cfg.region)
    (hkey : cfg.creds.find? (fun k => k.accessKey == ak) = some ⟨ak, secret⟩)
    (hts : parseTimestamp p.timestamp = some t) (hdate : date = p.timestamp.take 8)
    (hwin : t - 900 ≤ cfg.now ∧ cfg.now ≤ t + (p.expires : Int))
    (hhost : (parseSignedHeaders p.signedHeaders).contains hostKey = true)
    (hsens : ∀ h ∈ r.headers, mustBeSigned (lower h.1) = true →
      (parseSignedHeaders p.signedHeaders).contains (lower h.1) = true)
    (hshape : SdkShaped c r p.presigned)
    (horder : encOrderAgrees (signedQuery r.query) = true)
    (hstream : ¬ (headerGet r contentSHA256Header = streamingECDSA ∨ headerGet r contentSHA256Header = streamingECDSATrailer))
    (hsig : p.signature = sdkSignature c secret date cfg.region p.timestamp r (parseSignedHeaders p.signedHeaders) p.presigned) :
    checkAuth c Fix.patched cfg r =
      .ok { accessKey := ak, params := p,
            scope := join [47] [date, cfg.region, b! "s3", b! "aws4_request"],
            signed := parseSignedHeaders p.signedHeaders } :=
  accepted_of_canonical_eq c Fix.patched cfg r p ak secret date t hp halg hcred hak hdt hrg hkey hts hdate hwin hhost
    hsens (canonical_eq_sdk_patched c r _ p.presigned hshape horder) hstream hsig

/-- **sdk_signed_accepted_partial** (the tree before e6080ab): the same, when no signed header value
contains a run of spaces and the two query orders agree. -/
theorem sdk_signed_accepted_partial (c : Crypto) (cfg : Config) (r : Req) (p : SigParams)
    (ak secret date : Bytes) (t : Int)
    (hp : parseSigParams r = .ok p) (halg : p.alg = algV4)
    (hcred : p.credential = join [47] [ak, date, cfg.region, b! "s3", b! "aws4_request"])
    (hak : (47 : UInt8) ∉ ak) (hdt : (47 : UInt8) ∉ date) (hrg : (47 : UInt8) ∉ cfg.region)
    (hkey : cfg.creds.find? (fun k => k.accessKey == ak) = some ⟨ak, secret⟩)
    (hts : parseTimestamp p.timestamp = some t) (hdate : date = p.timestamp.take 8)
    (hwin : t - 900 ≤ cfg.now ∧ cfg.now ≤ t + (p.expires : Int))
    (hhost : (parseSignedHeaders p.signedHeaders).contains hostKey = true)
    (hsens : ∀ h ∈ r.headers, mustBeSigned (lower h.1) = true →
      (parseSignedHeaders p.signedHeaders).contains (lower h.1) = true)
    (hshape : SdkShaped c r p.presigned)
    (hruns : ∀ h ∈ r.headers, noSpaceRuns h.2 = true)
    (horder : encOrderAgrees (signedQuery r.query) = true)
    (hstream : ¬ (headerGet r contentSHA256Header = streamingECDSA ∨ headerGet r contentSHA256Header = streamingECDSATrailer))
    (hsig : p.signature = sdkSignature c secret date cfg.region p.timestamp r (parseSignedHeaders p.signedHeaders) p.presigned) :
    checkAuth c Fix.asIs cfg r =
      .ok { accessKey := ak, params := p,
            scope := join [47] [date, cfg.region, b! "s3", b! "aws4_request"],
            signed := parseSignedHeaders p.signedHeaders } :=
  accepted_of_canonical_eq c Fix.asIs cfg r p ak secret date t hp halg hcred hak hdt hrg hkey hts hdate hwin hhost
    hsens (canonical_eq_sdk_partial c r _ p.presigned hshape hruns horder) hstream hsig

/-- The order condition is met whenever no key or value needs escaping … -/
theorem encOrderAgrees_of_unreserved (q : List (Bytes × Bytes))
    (h : ∀ p ∈ q, p.1.all isUnreserved = true ∧ p.2.all isUnreserved = true) : encOrderAgrees q = true := by
  have enc_id : ∀ s : Bytes, s.all isUnreserved = true → uriEncode s = s := by
    intro s hs
    induction s with
    | nil => rfl
    | cons c t ih =>
      simp only [List.all_cons, Bool.and_eq_true] at hs
      simp only [uriEncode, List.flatMap_cons, hs.1, if_true, List.singleton_append]
      congr 1
      exact ih hs.2
  unfold encOrderAgrees
  apply List.all_eq_true.2
  intro a ha
  apply List.all_eq_true.2
  intro b hb
  rw [enc_id _ (h a ha).1, enc_id _ (h a ha).2, enc_id _ (h b hb).1, enc_id _ (h b hb).2]
  simp

-- ---------------------------------------------------------------- negation witnesses (code as it is)

/-- a toy instance of the primitives, only to evaluate concrete requests -/
def toy : Crypto := { sha256hex := fun b => b, hmac := fun k m => k ++ m }

/-- GET /b/obj with `x-amz-meta-a: hello   world` (the request replayed by the harness as case d0) -/
def spacesReq : Req :=
  { method := b! "GET", path := b! "/b/obj", query := [], host := b! "s3.verif.test",
    headers := [(b! "X-Amz-Content-Sha256", [b! "UNSIGNED-PAYLOAD"]), (b! "X-Amz-Meta-A", [b! "hello   world"])],
    body := [] }

def spacesSigned : List Bytes := [b! "host", b! "x-amz-content-sha256", b! "x-amz-meta-a"]

/-- **Negation witness 1.** As the code is, the canonical request of an SDK-signed GET carrying a
header value with a run of inner spaces differs from what the SDK signed (so the signature check
fails and the request is answered 401) … -/
theorem asIs_inner_spaces_witness :
    canonicalRequest toy Fix.asIs spacesReq spacesSigned false ≠ (sdkCanon spacesReq spacesSigned false).render := by
  decide

/-- … while with the patch it is equal (instance of `canonical_eq_sdk_patched`, evaluated). -/
theorem patched_inner_spaces_equal :
    canonicalRequest toy Fix.patched spacesReq spacesSigned false = (sdkCanon spacesReq spacesSigned false).render := by
  decide

/-- GET /b/obj?z=1&ä=1 (harness case d1; the pair of the repository's own unit test) -/
def orderReq : Req :=
  { method := b! "GET", path := b! "/b/obj", query := [(b! "z", b! "1"), (b! "ä", b! "1")], host := b! "s3.verif.test",
    headers := [(b! "X-Amz-Content-Sha256", [b! "UNSIGNED-PAYLOAD"])], body := [] }

/-- **Negation witness 2.** The server orders the canonical query by encoded key (`%C3%A4` < `z`),
the Go SDK by decoded key (`z` < `ä`). -/
theorem asIs_query_order_witness :
    canonicalRequest toy Fix.asIs orderReq [b! "host"] false ≠ (sdkCanon orderReq [b! "host"] false).render ∧
    canonicalRequest toy Fix.patched orderReq [b! "host"] false ≠ (sdkCanon orderReq [b! "host"] false).render := by
  decide

-- ---------------------------------------------------------------- non-vacuity

/-- Both witnesses are requests the S3 client can produce (`SdkShaped`), and each one violates
exactly the side condition it is about. -/
example : SdkShaped toy spacesReq false ∧ (∃ h ∈ spacesReq.headers, noSpaceRuns h.2 = false) ∧
    encOrderAgrees (signedQuery spacesReq.query) = true := by
  refine ⟨⟨⟨b! "/b/obj", by decide⟩, by decide, by decide, by decide, by decide⟩, ?_, by decide⟩
  exact ⟨(b! "X-Amz-Meta-A", [b! "hello   world"]), by decide, by decide⟩

example : SdkShaped toy orderReq false ∧ encOrderAgrees (signedQuery orderReq.query) = false := by
  refine ⟨⟨⟨b! "/b/obj", by decide⟩, by decide, by decide, by decide, by decide⟩, by decide⟩

/-- a non-trivial request: a key with a space, `+`, `%` and a non-ASCII letter and `//`, a repeated
query key, a value needing escapes, a two-valued header -/
def richReq : Req :=
  { method := b! "PUT", path := sdkEscapePath (b! "/b/a b+c%ä//x"),
    query := [(b! "prefix", b! "p q"), (b! "tag", b! "1"), (b! "tag", b! "0")],
    host := b! "s3.verif.test:9000",
    headers := [(b! "X-Amz-Content-Sha256", [b! "UNSIGNED-PAYLOAD"]), (b! "X-Amz-Meta-M", [b! "one two", b! "three"])],
    body := b! "data" }

/-- it meets every hypothesis of `canonical_eq_sdk_partial` -/
example : SdkShaped toy richReq false ∧ (∀ h ∈ richReq.headers, noSpaceRuns h.2 = true) ∧
    encOrderAgrees (signedQuery richReq.query) = true := by
  refine ⟨⟨⟨b! "/b/a b+c%ä//x", rfl⟩, by decide, by decide, by decide, by decide⟩, by decide, by decide⟩

-- a concrete SDK-signed request (toy primitives): accepted by the code as it is

def toyCfg : Config := { creds := [⟨b! "AK", b! "secret"⟩], region := b! "eu", now := 1718454645 }

def sdkToyBase : Req :=
  { method := b! "PUT", path := sdkEscapePath (b! "/b/a b+c"), query := [(b! "prefix", b! "p q"), (b! "tag", b! "1")],
    host := b! "s3.verif.test",
    headers := [(b! "X-Amz-Content-Sha256", [b! "UNSIGNED-PAYLOAD"]), (b! "X-Amz-Date", [b! "20240615T123045Z"]),
                (b! "X-Amz-Meta-M", [b! "one two", b! "three"])],
    body := b! "data" }

def sdkToyNames : List Bytes := [b! "host", b! "x-amz-content-sha256", b! "x-amz-date", b! "x-amz-meta-m"]

/-- the same request with the Authorization header the SDK model produces -/
def sdkToyReq : Req :=
  { sdkToyBase with headers :=
      (b! "Authorization", [b! "AWS4-HMAC-SHA256 Credential=AK/20240615/eu/s3/aws4_request, SignedHeaders=host;x-amz-content-sha256;x-amz-date;x-amz-meta-m, Signature=" ++
        sdkSignature toy (b! "secret") (b! "20240615") (b! "eu") (b! "20240615T123045Z") sdkToyBase sdkToyNames false]) ::
      sdkToyBase.headers }

set_option maxRecDepth 1000000 in
/-- Non-vacuity of `sdk_signed_accepted_partial`: the request signed by the SDK model is accepted
by the model of the code as it is. -/
example : (checkAuth toy Fix.asIs toyCfg sdkToyReq).toOption.map (·.accessKey) = some (b! "AK") := by
  decide

end Pithos.C29
