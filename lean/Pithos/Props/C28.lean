/-
C28 — SigV4 authentication cannot be satisfied by an altered request.

Model: `Pithos.Model.Http.SigV4.checkAuth` (= `checkAuthentication` of signature.go).
SHA-256 and HMAC-SHA256 are parameters; their idealisations are explicit hypotheses
(`CollisionFree`, `Unforgeable`), instantiated by a toy pair in the `example`s at the end.
All statements hold for every request, every configuration and both model variants (`fx`).
-/
import Pithos.Lemmas.SigV4

namespace Pithos.C28
open Pithos.SigV4

/-- **canonical_injective.** The canonical request is an injective encoding of the signed
components: method, canonical URI, canonical query string, the list of signed headers with their
canonical values, and the payload hash. -/
theorem canonical_injective (k k' : Canon) (w : CanonWF k) (w' : CanonWF k') (e : k.render = k'.render) :
    k = k' :=
  render_injective k k' w w' e

/-- The canonical request the server computes for a request that `net/http` can deliver is well
formed, so `canonical_injective` applies to it. -/
theorem server_canonical_wellformed (c : Crypto) (fx : Fix) (r : Req) (S : List Bytes) (presigned : Bool)
    (w : ReqWF r) : CanonWF (serverCanon c fx r S presigned) :=
  serverCanon_wf c fx r S presigned w

/-- **canonical_uri_denotes_path.** The canonical URI determines the path the router acts on
(percent-decoding commutes with the canonicalisation), so two requests with the same canonical
URI address the same object. -/
theorem canonical_uri_denotes_path (p : Bytes) (h : p ≠ []) : pctDecode (canonicalURI p) = pctDecode p := by
  unfold canonicalURI
  cases p with
  | nil => exact absurd rfl h
  | cons c t => simpa using pctDecode_canonURILoop (c :: t)

/-- **canonical_query_determines_parameters.** Two requests with the same canonical query string
carry the same multiset of (decoded) query parameters, the signature parameter itself aside —
added, removed, duplicated or altered parameters change the canonical request. -/
theorem canonical_query_determines_parameters (fx : Fix) (q1 q2 : List (Bytes × Bytes))
    (e : canonicalQuery fx q1 = canonicalQuery fx q2) :
    (q1.filter (fun p => p.1 != amzSignatureKey)).Perm (q2.filter (fun p => p.1 != amzSignatureKey)) :=
  canonicalQuery_determines fx q1 q2 e

/-- **accepted_components_signed.** Let a request be accepted as some access key. If its signature
is a tag the holder of a key `key0` computed for (timestamp `ts0`, scope `scope0`, canonical
request of components `k0`), then — hashes collision free, MAC unforgeable — the accepted request
has exactly that timestamp, that credential scope and those components, and `key0` is the signing
key derived from the accepted key's secret. -/
theorem accepted_components_signed (c : Crypto) (hcf : CollisionFree c.sha256hex) (hunf : Unforgeable c.hmac)
    (fx : Fix) (cfg : Config) (r : Req) (a : Accepted)
    (hacc : checkAuth c fx cfg r = .ok a) (hr : ReqWF r) (hregion : (10 : UInt8) ∉ cfg.region)
    (key0 ts0 scope0 : Bytes) (k0 : Canon) (w0 : CanonWF k0)
    (hts0 : (10 : UInt8) ∉ ts0) (hscope0 : (10 : UInt8) ∉ scope0)
    (hsig : a.params.signature = signature c key0 (stringToSign c algV4 ts0 scope0 k0.render)) :
    a.params.timestamp = ts0 ∧ a.scope = scope0 ∧
    serverCanon c fx r a.signed a.params.presigned = k0 ∧
    (∃ secret, cfg.creds.find? (fun k => k.accessKey == a.accessKey) = some ⟨a.accessKey, secret⟩ ∧
      key0 = signingKey c secret (a.params.timestamp.take 8) cfg.region (b! "s3") (b! "aws4_request")) := by
  have f := checkAuth_ok c fx cfg r a hacc
  obtain ⟨date, secret, _, hfind, hdate, hscope, hs⟩ := f.cred
  obtain ⟨t, ht, _, _⟩ := f.time
  rw [hsig, f.alg] at hs
  unfold signature at hs
  obtain ⟨hk, hm⟩ := hunf _ _ _ _ (hexL_injective _ _ hs)
  -- the two strings to sign are equal: peel off algorithm, timestamp, scope
  unfold stringToSign at hm
  simp only [List.append_assoc, List.singleton_append] at hm
  have hm := List.append_cancel_left hm
  simp only [List.cons_append, List.cons.injEq, true_and] at hm
  have hts : (10 : UInt8) ∉ a.params.timestamp := parseTimestamp_no_newline _ _ ht
  obtain ⟨e1, hm⟩ := split_unique 10 _ _ _ _ hts hts0 hm
  have hsc : (10 : UInt8) ∉ a.scope := by
    rw [hscope]
    intro hx
    rcases mem_join _ _ _ hx with hx | ⟨x, hx, hb⟩
    · simp at hx
    · simp only [List.mem_cons, List.not_mem_nil, or_false] at hx
      rcases hx with rfl | rfl | rfl | rfl
      · rw [hdate] at hb; exact hts (List.mem_of_mem_take hb)
      · exact hregion hb
      · revert hb; decide
      · revert hb; decide
  obtain ⟨e2, hm⟩ := split_unique 10 _ _ _ _ hsc hscope0 hm
  have e3 := hcf _ _ hm
  have e4 := render_injective _ _ (serverCanon_wf c fx r a.signed a.params.presigned hr) w0 e3
  refine ⟨e1, e2, e4, secret, hfind, ?_⟩
  rw [← hk, hdate]

/-- **unsigned_sensitive_header_rejected.** A request carrying an `x-amz-*` or `Content-MD5`
header that is not listed in `SignedHeaders` is never accepted. -/
theorem unsigned_sensitive_header_rejected (c : Crypto) (fx : Fix) (cfg : Config) (r : Req)
    (h : Bytes × List Bytes) (hm : h ∈ r.headers) (hs : mustBeSigned (lower h.1) = true)
    (p : SigParams) (hp : parseSigParams r = .ok p)
    (hu : (parseSignedHeaders p.signedHeaders).contains (lower h.1) = false) :
    ∀ a, checkAuth c fx cfg r ≠ .ok a := by
  intro a hacc
  have f := checkAuth_ok c fx cfg r a hacc
  have hp' : a.params = p := by
    have := f.params
    rw [hp] at this
    injection this with this
    exact this.symm
  have := f.sensitive h hm hs
  rw [f.signed, hp', hu] at this
  contradiction

/-- **sensitive_headers_are_in_the_signed_request.** In an accepted request every `x-amz-*` /
`Content-MD5` header occurs, with its canonical value, in the canonical request that was verified. -/
theorem sensitive_headers_are_signed (c : Crypto) (fx : Fix) (cfg : Config) (r : Req) (a : Accepted)
    (hacc : checkAuth c fx cfg r = .ok a) (h : Bytes × List Bytes) (hm : h ∈ r.headers)
    (hs : mustBeSigned (lower h.1) = true) :
    (lower h.1, headerValue fx h.2) ∈ (serverCanon c fx r a.signed a.params.presigned).headers := by
  have f := checkAuth_ok c fx cfg r a hacc
  have hc := f.sensitive h hm hs
  simp only [serverCanon, collectSignedHeaders]
  apply (mem_sortBy _ _ _).2
  apply List.mem_cons_of_mem
  apply List.mem_filterMap.2
  have hc' : lower h.1 ∈ a.signed := by simpa using hc
  exact ⟨h, hm, by simp [hc']⟩

/-- **accepted_within_window.** An accepted request's timestamp parses and the server's clock lies
between 15 minutes before it and its validity (5 minutes, or `X-Amz-Expires` ≤ 7 days) after it;
the credential scope names the configured region, service `s3`, terminator `aws4_request`, the
timestamp's own date, and an access key the server knows. -/
theorem accepted_within_window (c : Crypto) (fx : Fix) (cfg : Config) (r : Req) (a : Accepted)
    (hacc : checkAuth c fx cfg r = .ok a) :
    (∃ t, parseTimestamp a.params.timestamp = some t ∧ t - 900 ≤ cfg.now ∧ cfg.now ≤ t + (a.params.expires : Int)) ∧
    a.scope = join [47] [a.params.timestamp.take 8, cfg.region, b! "s3", b! "aws4_request"] ∧
    (∃ secret, (⟨a.accessKey, secret⟩ : Cred) ∈ cfg.creds) := by
  have f := checkAuth_ok c fx cfg r a hacc
  obtain ⟨date, secret, _, hfind, hdate, hscope, _⟩ := f.cred
  refine ⟨f.time, ?_, secret, List.mem_of_find?_eq_some hfind⟩
  rw [hscope, hdate]

/-- The validity of a presigned URL is bounded by seven days. -/
theorem presigned_validity_bounded (r : Req) (p : SigParams) (hp : parseSigParams r = .ok p)
    (hpre : p.presigned = true) : 1 ≤ p.expires ∧ p.expires ≤ 604800 := by
  unfold parseSigParams at hp
  simp only at hp
  split at hp
  · split at hp
    · contradiction
    · split at hp
      · contradiction
      · rename_i e he
        split at hp
        · contradiction
        · rename_i hb
          injection hp with hp
          subst hp
          simp only [Bool.or_eq_true, decide_eq_true_eq, not_or] at hb
          simp only
          omega
  · split at hp
    · contradiction
    · split at hp
      · contradiction
      · split at hp
        · split at hp
          · injection hp with hp
            subst hp
            simp at hpre
          · contradiction
        · contradiction

-- ---------------------------------------------------------------- toy instances (non-vacuity)

example : CollisionFree toySha := toySha_collisionFree

example : Unforgeable toyMac := toyMac_unforgeable

def toy : Crypto := { sha256hex := toySha, hmac := toyMac }

def toyCfg : Config := { creds := [⟨b! "AK", b! "secret"⟩], region := b! "eu", now := 1718454645 }

/-- a request signed under the toy primitives: GET /b/k with a signed `x-amz-meta-a` header -/
def toyReq (sig : Bytes) : Req :=
  { method := b! "GET", path := b! "/b/k", query := [(b! "versionId", b! "v1")], host := b! "h",
    headers := [(b! "Authorization", [b! "AWS4-HMAC-SHA256 Credential=AK/20240615/eu/s3/aws4_request, SignedHeaders=host;x-amz-date;x-amz-meta-a, Signature=" ++ sig]),
                (b! "X-Amz-Date", [b! "20240615T123045Z"]), (b! "X-Amz-Meta-A", [b! "v"])],
    body := [] }

def toySignedHeaders : List Bytes := [b! "host", b! "x-amz-date", b! "x-amz-meta-a"]

/-- the signature the key holder computes for it -/
def toySig : Bytes :=
  signature toy (signingKey toy (b! "secret") (b! "20240615") (b! "eu") (b! "s3") (b! "aws4_request"))
    (stringToSign toy algV4 (b! "20240615T123045Z") (b! "20240615/eu/s3/aws4_request")
      (canonicalRequest toy Fix.asIs (toyReq []) toySignedHeaders false))

set_option maxRecDepth 1000000 in
/-- Non-vacuity of `accepted_components_signed` / `accepted_within_window`: the correctly signed toy
request is accepted … -/
example : (checkAuth toy Fix.asIs toyCfg (toyReq toySig)).toOption.map (·.accessKey) = some (b! "AK") := by
  decide

set_option maxRecDepth 1000000 in
/-- … and each single change of a signed component, of the credential scope, of the clock, or an
added unsigned sensitive header makes the same check fail. -/
example :
    (checkAuth toy Fix.asIs toyCfg { toyReq toySig with method := b! "PUT" }).toOption = none ∧
    (checkAuth toy Fix.asIs toyCfg { toyReq toySig with path := b! "/b/k2" }).toOption = none ∧
    (checkAuth toy Fix.asIs toyCfg { toyReq toySig with query := [] }).toOption = none ∧
    (checkAuth toy Fix.asIs toyCfg { toyReq toySig with host := b! "h2" }).toOption = none ∧
    (checkAuth toy Fix.asIs toyCfg { toyReq toySig with body := b! "x" }).toOption = none ∧
    (checkAuth toy Fix.asIs { toyCfg with now := 1718454645 + 301 } (toyReq toySig)).toOption = none ∧
    (checkAuth toy Fix.asIs { toyCfg with region := b! "us" } (toyReq toySig)).toOption = none ∧
    (checkAuth toy Fix.asIs toyCfg
      { toyReq toySig with headers := (toyReq toySig).headers ++ [(b! "X-Amz-Acl", [b! "public-read"])] }).toOption = none := by
  decide

end Pithos.C28
