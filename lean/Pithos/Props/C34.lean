/-
C34 — CORS headers are granted only by a matching rule.

Property theorems over the middleware model `Pithos.Cors.respond` and the spec predicate
`Pithos.Cors.Spec.allowed`, for arbitrary rule lists (any number of rules, any patterns — also
patterns the PUT-time validation would reject) and arbitrary requests.
-/
import Pithos.Lemmas.Cors

namespace Pithos.C34
open Pithos.Ascii Pithos.Cors Pithos.Cors.Spec

/-! ### The wildcard matcher -/

/-- **wildcardMatch, patterns with at most one star** (what S3 documents and PUT accepts): the
pattern matches exactly the values obtained by replacing the star with an arbitrary string; a
star-free pattern matches only itself. Matching is case-sensitive here — the callers lower-case
both sides (origins, header names) first. -/
theorem wildcardMatch_one_star (p v : List Char) (h1 : p.count '*' ≤ 1) :
    wildcardMatch p v = true ↔
      ('*' ∉ p ∧ v = p) ∨ (∃ pre suf m, p = pre ++ '*' :: suf ∧ v = pre ++ m ++ suf) := by
  rw [wildcardMatch_iff]
  constructor
  · rintro (h | ⟨pre, suf, m, hp, _, hv⟩)
    · exact Or.inl h
    · exact Or.inr ⟨pre, suf, m, hp, hv⟩
  · rintro (h | ⟨pre, suf, m, hp, hv⟩)
    · exact Or.inl h
    · refine Or.inr ⟨pre, suf, m, hp, ?_, hv⟩
      intro hm
      have : p.count '*' ≥ 2 := by
        rw [hp, List.count_append, List.count_cons_self]
        have := List.count_pos_iff.2 hm
        omega
      omega

/-- **wildcardMatch, any pattern**: only the FIRST star is a wildcard; what follows it — further
stars included — is a literal suffix. -/
theorem wildcardMatch_any (p v : List Char) :
    wildcardMatch p v = true ↔
      ('*' ∉ p ∧ v = p) ∨
      (∃ pre suf m, p = pre ++ '*' :: suf ∧ '*' ∉ pre ∧ v = pre ++ m ++ suf) :=
  wildcardMatch_iff p v

/-- The code's matcher never accepts more than the documented reading "each star = any sequence",
and coincides with it on patterns with at most one star. -/
theorem wildcardMatch_sound (p v : List Char) (h : wildcardMatch p v = true) : glob p v = true :=
  glob_of_wildcardMatch p v h

theorem wildcardMatch_exact_one_star (p v : List Char) (h1 : p.count '*' ≤ 1) :
    wildcardMatch p v = glob p v :=
  wildcardMatch_eq_glob_of_one_star p v h1

/-- With two stars the code is stricter than the glob reading (such patterns are rejected at
PUT time): the second star is literal. -/
theorem two_stars_second_is_literal :
    wildcardMatch "a*b*c".toList "axbyc".toList = false ∧ glob "a*b*c".toList "axbyc".toList = true ∧
    wildcardMatch "a*b*c".toList "axb*c".toList = true := by
  decide

/-! ### From the code's rule match to the spec's -/

theorem lower_star : toLower star = star := by decide

theorem glob_star_all (v : List Char) : glob star v = true := by
  simpa [star] using (glob_star_iff [] v).2 ⟨v.length, Nat.le_refl _, by simp [glob]⟩

theorem originAllowed_of_matchOrigin (r : Rule) (o pat : List Char)
    (h : matchOrigin r.origins o = some pat) : originAllowed r o = true := by
  simp only [matchOrigin] at h
  have hm := List.mem_of_find?_eq_some h
  have hp := List.find?_some h
  simp only [originAllowed, List.any_eq_true]
  exact ⟨pat, hm, glob_of_wildcardMatch _ _ hp⟩

theorem headersAllowed_of_match (r : Rule) (hs : List (List Char))
    (h : matchRequestedHeaders r.headers hs = true) : headersAllowed r hs = true := by
  simp only [matchRequestedHeaders] at h
  simp only [headersAllowed, List.all_eq_true, List.any_eq_true]
  intro x hx
  split at h
  · rename_i he; simp only [List.isEmpty_iff] at he; subst he; simp at hx
  · split at h
    · rename_i hc
      refine ⟨star, by simpa using hc, ?_⟩
      rw [lower_star]; exact glob_star_all _
    · simp only [List.all_eq_true, List.any_eq_true] at h
      obtain ⟨a, ha, hw⟩ := h x hx
      exact ⟨a, ha, glob_of_wildcardMatch _ _ hw⟩

/-- Whatever rule `findMatchingRule` returns is a rule of the configuration that matches the
request in the spec's sense. -/
theorem findMatchingRule_sound (rules : List Rule) (o m : List Char) (hs : List (List Char))
    (pre : Bool) (r : Rule) (pat : List Char)
    (h : findMatchingRule rules o m hs pre = some (r, pat)) :
    r ∈ rules ∧ ruleMatches r o m hs pre = true := by
  induction rules with
  | nil => simp [findMatchingRule] at h
  | cons r0 rest ih =>
    simp only [findMatchingRule] at h
    cases ho : matchOrigin r0.origins o with
    | none =>
      rw [ho] at h
      obtain ⟨hm, hr⟩ := ih h
      exact ⟨List.mem_cons_of_mem _ hm, hr⟩
    | some pat0 =>
      rw [ho] at h
      simp only at h
      split at h
      · obtain ⟨hm, hr⟩ := ih h
        exact ⟨List.mem_cons_of_mem _ hm, hr⟩
      · rename_i hmeth
        split at h
        · obtain ⟨hm, hr⟩ := ih h
          exact ⟨List.mem_cons_of_mem _ hm, hr⟩
        · rename_i hhdr
          simp only [Option.some.injEq, Prod.mk.injEq] at h
          obtain ⟨rfl, rfl⟩ := h
          refine ⟨List.mem_cons_self, ?_⟩
          have h1 := originAllowed_of_matchOrigin r0 o pat0 ho
          have h2 : methodAllowed r0 m = true := by
            simpa [methodAllowed, matchMethod] using hmeth
          have h3 : (!pre || headersAllowed r0 hs) = true := by
            cases pre with
            | false => rfl
            | true =>
              have : matchRequestedHeaders r0.headers hs = true := by simpa using hhdr
              simp [headersAllowed_of_match r0 hs this]
          simp [ruleMatches, h1, h2, h3]

/-- The spec predicate fails ⇒ the code finds no rule. -/
theorem findMatchingRule_none_of_not_allowed (rules : List Rule) (req : Request)
    (hc : isCors req = true) (h : allowed rules req = false) :
    findMatchingRule rules (trimSpace req.origin) (requestedMethod req) (parseHeaderList req.acrh)
      (isPreflight req) = none := by
  cases hf : findMatchingRule rules (trimSpace req.origin) (requestedMethod req)
      (parseHeaderList req.acrh) (isPreflight req) with
  | none => rfl
  | some x =>
    obtain ⟨r, pat⟩ := x
    obtain ⟨hm, hr⟩ := findMatchingRule_sound _ _ _ _ _ _ _ hf
    have : allowed rules req = true := by
      simp only [allowed, hc, Bool.true_and, List.any_eq_true]
      exact ⟨r, hm, hr⟩
    rw [this] at h; exact absurd h (by simp)

/-! ### The property -/

/-- **allow_origin_only_if_rule_matches.** If the middleware puts `Access-Control-Allow-Origin` on
the response — on an actual request or on a preflight — then the bucket's configuration has a rule
matching the request's origin, method and (preflight) requested headers. -/
theorem allow_origin_only_if_rule_matches (rules : List Rule) (req : Request)
    (h : (respond rules req).allowOrigin.isSome = true) : allowed rules req = true := by
  cases ha : allowed rules req with
  | true => rfl
  | false =>
    exfalso
    by_cases hc : isCors req = true
    · have hf := findMatchingRule_none_of_not_allowed rules req hc ha
      have ho : (trimSpace req.origin).isEmpty = false := by simpa [isCors] using hc
      simp only [respond, ho, hf] at h
      by_cases hr : rules.isEmpty = true
      · cases hpf : isPreflight req <;> simp [hr, hpf] at h
      · cases hpf : isPreflight req <;> simp [hr, hpf] at h
    · have ho : (trimSpace req.origin).isEmpty = true := by simpa [isCors] using hc
      simp [respond, ho] at h

/-- **preflight_succeeds_only_if_rule_matches.** The middleware answers 200 only under a
matching rule. -/
theorem preflight_succeeds_only_if_rule_matches (rules : List Rule) (req : Request)
    (h : (respond rules req).status = some 200) : allowed rules req = true := by
  cases ha : allowed rules req with
  | true => rfl
  | false =>
    exfalso
    by_cases hc : isCors req = true
    · have hf := findMatchingRule_none_of_not_allowed rules req hc ha
      have ho : (trimSpace req.origin).isEmpty = false := by simpa [isCors] using hc
      simp only [respond, ho, hf] at h
      by_cases hr : rules.isEmpty = true
      · cases hpf : isPreflight req <;> simp [hr, hpf] at h
      · cases hpf : isPreflight req <;> simp [hr, hpf] at h
    · have ho : (trimSpace req.origin).isEmpty = true := by simpa [isCors] using hc
      simp [respond, ho] at h

/-- **preflight_rejected_without_rule.** A preflight (OPTIONS with an Origin and an
Access-Control-Request-Method) for which no rule matches is answered 403 by the middleware itself:
no `Access-Control-Allow-*` header, and the wrapped handler does not run. -/
theorem preflight_rejected_without_rule (rules : List Rule) (req : Request)
    (hc : isCors req = true) (hp : isPreflight req = true) (h : allowed rules req = false) :
    (respond rules req).status = some 403 ∧ (respond rules req).next = false ∧
    (respond rules req).allowOrigin = none ∧ (respond rules req).allowMethods = none ∧
    (respond rules req).allowHeaders = none ∧ (respond rules req).maxAge = none := by
  have hf := findMatchingRule_none_of_not_allowed rules req hc h
  have ho : (trimSpace req.origin).isEmpty = false := by simpa [isCors] using hc
  rw [hp] at hf
  by_cases hr : rules.isEmpty = true
  · simp [respond, ho, hr, hp]
  · simp [respond, ho, hr, hp, hf]

/-- **non_cors_unaffected.** A request without an `Origin` (absent, empty or blank) is handed to
the wrapped handler and the middleware adds nothing: no status, no `Access-Control-*`, no `Vary`. -/
theorem non_cors_unaffected (rules : List Rule) (req : Request) (h : isCors req = false) :
    respond rules req = { next := true } := by
  have ho : (trimSpace req.origin).isEmpty = true := by simpa [isCors] using h
  simp [respond, ho]

/-- An actual (non-preflight) CORS request always reaches the wrapped handler; without a matching
rule it gets no `Access-Control-*` header. -/
theorem actual_request_always_served (rules : List Rule) (req : Request)
    (hp : isPreflight req = false) : (respond rules req).next = true := by
  simp only [respond, hp]
  split
  · rfl
  · split
    · simp
    · split <;> simp

/-! ### Non-vacuity / concrete behaviour -/

def ruleA : Rule :=
  { origins := ["https://*.example.com".toList], methods := ["GET".toList, "PUT".toList],
    headers := ["x-amz-*".toList, "content-type".toList], expose := ["ETag".toList], maxAge := some 600 }

/-- A wildcard origin + wildcard header rule grants a matching preflight, refuses one asking for
a header outside the rule, and grants the actual request. -/
example :
    let pre : Request := { method := "OPTIONS".toList, origin := "https://App.Example.com".toList,
                           acrm := "put".toList, acrh := "X-Amz-Date, Content-Type".toList }
    (respond [ruleA] pre).status = some 200 ∧
    (respond [ruleA] pre).allowOrigin = some "https://App.Example.com".toList ∧
    allowed [ruleA] pre = true ∧
    (respond [ruleA] { pre with acrh := "x-amz-date, authorization".toList }).status = some 403 ∧
    allowed [ruleA] { pre with acrh := "x-amz-date, authorization".toList } = false ∧
    (respond [ruleA] { pre with method := "GET".toList, acrm := [] }).allowOrigin.isSome = true ∧
    (respond [ruleA] { pre with origin := "https://example.org".toList }).status = some 403 := by
  decide

end Pithos.C34
