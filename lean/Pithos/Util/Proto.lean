/-
Line protocol shared by every driver (core Lean only — no Mathlib — so drivers link natively).

Harness → driver (stdin):
  case <k> <caseseed>      start of a self-contained case
  <property-specific lines, space-separated tokens, byte strings hex-encoded ("-" = empty)>
  end                      end of the case

Driver → check (stdout):
  case <k> <ok|diverge|violation> <nontrivial 0|1> <fingerprint>
  diverge <k> <message>                 model and implementation disagree on this case
  violation <k> <signature> <message>   the property predicate itself fails on the observed trace
  stat <name> <n>                       summed counters (printed once, at the end)
  sample <k> <text>
-/
namespace Pithos.Proto

def hexDigit (n : Nat) : Char :=
  if n < 10 then Char.ofNat (48 + n) else Char.ofNat (87 + n)

def hexVal (c : Char) : Option Nat :=
  if '0' ≤ c ∧ c ≤ '9' then some (c.toNat - 48)
  else if 'a' ≤ c ∧ c ≤ 'f' then some (c.toNat - 87)
  else if 'A' ≤ c ∧ c ≤ 'F' then some (c.toNat - 55)
  else none

def unhexChars : List Char → Option (List UInt8)
  | [] => some []
  | [_] => none
  | a :: b :: rest => do
    let x ← hexVal a
    let y ← hexVal b
    let r ← unhexChars rest
    pure (UInt8.ofNat (x * 16 + y) :: r)

/-- "-" encodes the empty byte string. -/
def unhex (s : String) : Option (List UInt8) :=
  if s == "-" then some [] else unhexChars s.toList

def toHex (bs : List UInt8) : String :=
  if bs.isEmpty then "-" else
  String.ofList (bs.flatMap fun b => [hexDigit (b.toNat / 16), hexDigit (b.toNat % 16)])

def tokens (line : String) : List String :=
  (line.splitOn " ").filter (· ≠ "")

def bytesToString (bs : List UInt8) : String :=
  String.ofList (bs.map fun b => Char.ofNat b.toNat)

/-- Decode a hex token as a Latin-1 string (used for ASCII-only fields). -/
def unhexStr (s : String) : Option String := (unhex s).map bytesToString

structure Verdict where
  diverge : List String := []
  violations : List (String × String) := []
  nontrivial : Bool := false
  fingerprint : UInt64 := 0
  stats : List (String × Nat) := []
  samples : List String := []

def Verdict.status (v : Verdict) : String :=
  if !v.violations.isEmpty then "violation"
  else if !v.diverge.isEmpty then "diverge" else "ok"

def addStats (acc : List (String × Nat)) (xs : List (String × Nat)) : List (String × Nat) :=
  xs.foldl (fun acc (k, n) =>
    if acc.any (·.1 == k) then acc.map (fun (k', m) => if k' == k then (k', m + n) else (k', m))
    else acc ++ [(k, n)]) acc

def fpLines (ls : List String) : UInt64 :=
  ls.foldl (fun h l => mixHash h (hash l)) 7

partial def readAll (h : IO.FS.Stream) (acc : Array String) : IO (Array String) := do
  let line ← h.getLine
  if line.isEmpty then return acc
  let l := if line.endsWith "\n" then (line.dropEnd 1).toString else line
  readAll h (acc.push l)

/-- Generic driver loop: group stdin into cases and hand each to `judge`. -/
def runDriver (judge : Nat → List String → Verdict) : IO Unit := do
  let stdin ← IO.getStdin
  let out ← IO.getStdout
  let lines ← readAll stdin #[]
  let mut cur : Option (Nat × Array String) := none
  let mut stats : List (String × Nat) := []
  let mut ncases := 0
  let mut nsamples := 0
  for l in lines do
    match tokens l with
    | "case" :: k :: _ => cur := some (k.toNat!, #[])
    | ["end"] =>
      match cur with
      | none => out.putStrLn "diverge 0 protocol-error-end-without-case"
      | some (k, body) =>
        let v := judge k body.toList
        ncases := ncases + 1
        out.putStrLn s!"case {k} {v.status} {if v.nontrivial then 1 else 0} {v.fingerprint}"
        for d in v.diverge do out.putStrLn s!"diverge {k} {d}"
        for (s, m) in v.violations do out.putStrLn s!"violation {k} {s} {m}"
        for s in v.samples do
          if nsamples < 5 then
            out.putStrLn s!"sample {k} {s}"
            nsamples := nsamples + 1
        stats := addStats stats v.stats
        cur := none
    | _ =>
      match cur with
      | some (k, body) => cur := some (k, body.push l)
      | none => pure ()
  if cur.isSome then out.putStrLn "diverge 0 protocol-error-unterminated-case"
  for (k, n) in stats do out.putStrLn s!"stat {k} {n}"
  out.putStrLn s!"stat cases {ncases}"
  out.flush

end Pithos.Proto
