/-
Driver logic for the routing half of C14 (the S3-level half stays `S3Driver.judgeCase "C14"`).

Extra trace lines of a case on the "route" stack (harness/cmd/verifharness/s3hist_routing.go):
  rcfg stores=-,ia,cold map=<cls>:<store>,…|~
  rop remap map=…   /  rop gc        followed by   rres ok | rres err <hex>
  rt obj <b> <k> <vid> latest=<0|1> cls=<hex|~> read=<ok|err> dig=<fnv1a64> len=<n> parts=<seq>:<pid>@<store>/<size>,…|~
  rt up <u> cls=<hex|~> parts=…
  rt reg <pid>:<ref_count>,…|~      rt idx <store>:<pid>,…|~      rt store <name> <pid>,…|~      rt end

Per case
 * the object model `S3.step Quirks.code` runs along on the S3 operations and RESOLVES which
   `objects` row each successful call writes (its answers are tied by `S3Driver.judgeCase`);
 * TIE: the routing model `ClassRouting.apply` runs on the resolved operations, remaps and
   collector passes; after every observation its state is compared with the implementation's:
   class, part rows (sequence numbers, recorded stores, sharing structure of the part ids up to a
   bijection), registry counts, dedup index, physical contents of every store, read-back digest
   → `diverge route:…`;
 * JUDGE (on the implementation's observations alone): after a successful transition every part
   row of the version records the store mapped to the class; every recorded store physically
   holds its part; ref_count ≥ number of referencing rows; every version reads back; transitions,
   remaps, collector passes and deletes of other versions leave every surviving version's
   content unchanged → `violation C14.routing.<what>`.
Core Lean only.
-/
import Pithos.Util.S3Driver
import Pithos.Model.ClassRouting

namespace Pithos.C14Driver
open Pithos Pithos.Proto Pithos.S3 Pithos.S3Ext Pithos.S3Driver

abbrev RState := ClassRouting.State
abbrev ROp := ClassRouting.Op

-- ---------------------------------------------------------------- observations

structure ObsPart where
  seq : Nat
  pid : Nat
  store : String
  size : Nat
  deriving Repr, Inhabited

structure ObsEnt where
  ident : String            -- "<b> <k> <vid>" or "up <u>"
  b : String := ""
  k : String := ""
  vid : String := ""
  isUp : Bool := false
  latest : Bool := false
  cls : Option String := none
  readOk : Bool := true
  dig : String := ""
  len : Nat := 0
  parts : List ObsPart := []
  deriving Repr, Inhabited

structure Obs where
  ents : List ObsEnt := []
  reg : List (Nat × Nat) := []
  idx : List (String × Nat) := []
  stores : List (String × List Nat) := []
  failed : Bool := false
  deriving Repr, Inhabited

def storeOfTok (t : String) : String := if t == "-" then "" else t
def storeTok (s : String) : String := if s == "" then "-" else s

def splitList (tok : String) : List String := if tok == "~" || tok == "" then [] else tok.splitOn ","

def parsePart (it : String) : Option ObsPart :=
  match it.splitOn ":" with
  | [seq, rest] =>
    match rest.splitOn "@" with
    | [pid, r2] =>
      match r2.splitOn "/" with
      | [st, size] => some { seq := seq.toNat!, pid := pid.toNat!, store := storeOfTok st, size := size.toNat! }
      | _ => none
    | _ => none
  | _ => none

def parseObs (lines : List String) : Obs := Id.run do
  let mut o : Obs := {}
  for l in lines do
    let t := tokens l
    match t with
    | "rt" :: "obj" :: b :: k :: vid :: _ =>
      let e : ObsEnt :=
        { ident := s!"{b} {k} {vid}", b := b, k := k, vid := vid
          latest := kvOf t "latest" == "1", cls := optStr (kvOf t "cls"), readOk := kvOf t "read" == "ok"
          dig := kvOf t "dig", len := (kvOf t "len").toNat!
          parts := (splitList (kvOf t "parts")).filterMap parsePart }
      o := { o with ents := o.ents ++ [e] }
    | "rt" :: "up" :: u :: _ =>
      let e : ObsEnt :=
        { ident := s!"up {u}", isUp := true, cls := optStr (kvOf t "cls")
          parts := (splitList (kvOf t "parts")).filterMap parsePart }
      o := { o with ents := o.ents ++ [e] }
    | ["rt", "reg", items] =>
      o := { o with reg := (splitList items).filterMap fun it =>
        match it.splitOn ":" with | [p, n] => some (p.toNat!, n.toNat!) | _ => none }
    | ["rt", "idx", items] =>
      o := { o with idx := (splitList items).filterMap fun it =>
        match it.splitOn ":" with | [s, p] => some (storeOfTok s, p.toNat!) | _ => none }
    | ["rt", "store", name, items] =>
      o := { o with stores := o.stores ++ [(storeOfTok name, (splitList items).map String.toNat!)] }
    | "rt" :: "error" :: _ => o := { o with failed := true }
    | _ => pure ()
  return o

def parseMap (tok : String) : List (String × String) :=
  (splitList tok).filterMap fun it =>
    match it.splitOn ":" with | [c, s] => some (c, s) | _ => none

def fnv1a (bs : List UInt8) : UInt64 :=
  bs.foldl (fun h b => (h ^^^ b.toUInt64) * 1099511628211) 14695981039346656037

def hex16 (v : UInt64) : String :=
  String.ofList ((List.range 16).map fun i => hexDigit ((v.toNat >>> (4 * (15 - i))) % 16))

-- ---------------------------------------------------------------- resolving S3 calls to routing operations

def intern (cs : List Bytes) (b : Bytes) : List Bytes × Nat :=
  match cs.findIdx? (· == b) with
  | some i => (cs, i)
  | none => (cs ++ [b], cs.length)

def objId (rowId : Nat) : Nat := 2 * rowId
def upId (uid : Nat) : Nat := 2 * uid + 1

def latestOf (s : State) (b k : String) : Option Row := (findBucket s b).bind fun bk => latestRow bk k

/-- Index of the source part a copy range covers exactly (`findWhollyCoveredPart`). -/
def coveredPart (parts : List Bytes) (a e : Nat) : Option Nat := Id.run do
  let mut off := 0
  let mut i := 0
  for p in parts do
    if a == off && e == off + p.length then return some i
    off := off + p.length
    i := i + 1
  return none

/-- The routing operations of one successful S3 call (`s` before, `s'` after). -/
def derive (cs : List Bytes) (s s' : State) (op : XOp) (out : Out) : Except String (List Bytes × List ROp) :=
  match op with
  | .base (.put b k body o _ _) =>
    match latestOf s' b k with
    | some r => let (cs1, c) := intern cs body; .ok (cs1, [.put (objId r.rowId) o.cls c])
    | none => .error "put:no-current-row"
  | .base (.copy sb sk svid db dk _ _ o) =>
    match readSource s sb sk svid, latestOf s' db dk with
    | .ok src, some r => .ok (cs, [.copy (objId src.rowId) (objId r.rowId) o.cls])
    | _, _ => .error "copy:unresolved"
  | .base (.append b k body _) =>
    let existing : Option Row := match latestOf s b k with | some r => if r.dm then none else some r | none => none
    match latestOf s' b k with
    | none => .error "append:no-current-row"
    | some r =>
      let (cs1, c) := intern cs body
      match existing with
      | none => .ok (cs1, [.put (objId r.rowId) none c])
      | some e => if e.rowId == r.rowId then .ok (cs1, [.append (objId r.rowId) c])
                  else .ok (cs1, [.appendNew (objId e.rowId) (objId r.rowId) c])
  | .base (.transition b k cls vid) =>
    match findBucket s b with
    | none => .error "transition:no-bucket"
    | some bk =>
      match (match vid with | none => latestRow bk k | some v => rowByVid bk k v) with
      | some r => .ok (cs, [.transition (objId r.rowId) cls])
      | none => .error "transition:unresolved"
  | .base (.del b _ _ _) =>
    match findBucket s b with
    | none => .ok (cs, [])
    | some bk =>
      let after : List Row := match findBucket s' b with | some bk' => bk'.rows | none => []
      .ok (cs, (bk.rows.filter fun r => !r.dm && !(after.any (·.rowId == r.rowId))).map fun r => .delete (objId r.rowId))
  | .base (.mpu _ _ o) =>
    match out with
    | .upload uid => .ok (cs, [.mpu (upId uid) o.cls])
    | _ => .error "mpu:no-upload-id"
  | .base (.uploadPart _ _ uid n body) =>
    let (cs1, c) := intern cs body
    .ok (cs1, [.uploadPart (upId uid) n c])
  | .partCopy sb sk svid _ _ uid n range =>
    match readSource s sb sk svid with
    | .error _ => .error "uppc:unresolved"
    | .ok src =>
      match sliceOf src.content range with
      | .error _ => .error "uppc:range"
      | .ok body =>
        let total := src.content.length
        let (a, e) := match range with | none => (0, total) | some (a, b) => (a, min b total)
        let (cs1, c) := intern cs body
        .ok (cs1, [.uploadPartCopy (upId uid) n (objId src.rowId) (coveredPart src.parts a e) c])
  | .base (.complete b k uid _ _ _) =>
    match latestOf s' b k with
    | some r => .ok (cs, [.complete (upId uid) (objId r.rowId)])
    | none => .error "complete:no-current-row"
  | .base (.abort _ _ uid) => .ok (cs, [.delete (upId uid)])
  | _ => .ok (cs, [])

-- ---------------------------------------------------------------- comparing model and implementation

def rowOfId (s : State) (rowId : Nat) : Option (String × Row) :=
  s.buckets.findSome? fun bk => (bk.rows.find? (·.rowId == rowId)).map fun r => (bk.name, r)

/-- Model entities with the identity the implementation prints, and the expected content. -/
def modelEnts (s : State) (rs : RState) : List (String × ClassRouting.Ent × Option Bytes) :=
  rs.ents.map fun e =>
    if e.id % 2 == 1 then (s!"up {e.id / 2}", e, none)
    else match rowOfId s (e.id / 2) with
      | some (b, r) => (s!"{b} {r.key} {vidTok r.vid}", e, some r.content)
      | none => (s!"row {e.id / 2} (not in the object model)", e, none)

structure Bij where
  pairs : List (Nat × Nat) := []       -- (implementation pid, model pid)
  bad : List String := []

def Bij.add (b : Bij) (ip mp : Nat) (where_ : String) : Bij :=
  match b.pairs.find? (·.1 == ip) with
  | some (_, m) => if m == mp then b else { b with bad := b.bad ++ [s!"{where_}:impl-shares-part-model-does-not(pid{ip})"] }
  | none =>
    if b.pairs.any (·.2 == mp) then { b with bad := b.bad ++ [s!"{where_}:model-shares-part-impl-does-not(pid{ip})"] }
    else { b with pairs := b.pairs ++ [(ip, mp)] }

def sortNat (l : List Nat) : List Nat := sortBy (· < ·) l
def sortPairs (l : List (String × Nat)) : List (String × Nat) :=
  sortBy (fun a b => a.1 < b.1 || (a.1 == b.1 && a.2 < b.2)) l

def compareState (s : State) (rs : RState) (ncontents : Nat) (contents : List Bytes) (o : Obs) : List String := Id.run do
  let mut out : List String := []
  let ments := modelEnts s rs
  let midents := ments.map (·.1)
  let iidents := o.ents.map (·.ident)
  for i in iidents do
    if !midents.contains i then out := out ++ [s!"impl-has-entity-model-has-not({i})"]
  for m in midents do
    if !iidents.contains m then out := out ++ [s!"model-has-entity-impl-has-not({m})"]
  let mut bij : Bij := {}
  for (ident, e, content) in ments do
    match o.ents.find? (·.ident == ident) with
    | none => pure ()
    | some ie =>
      if e.cls != ie.cls then out := out ++ [s!"class({ident}):model={optTok e.cls},impl={optTok ie.cls}"]
      if e.parts.length != ie.parts.length then
        out := out ++ [s!"part-count({ident}):model={e.parts.length},impl={ie.parts.length}"]
      else
        for (mp, ip) in e.parts.zip ie.parts do
          if mp.seq != ip.seq then out := out ++ [s!"seq({ident}):model={mp.seq},impl={ip.seq}"]
          if mp.store != ip.store then out := out ++ [s!"store({ident},seq{ip.seq}):model={storeTok mp.store},impl={storeTok ip.store}"]
          if (contents.getD mp.content []).length != ip.size then out := out ++ [s!"part-size({ident},seq{ip.seq})"]
          bij := bij.add ip.pid mp.pid s!"{ident},seq{ip.seq}"
      match content with
      | some body =>
        if ie.readOk && (ie.len != body.length || ie.dig != hex16 (fnv1a body)) then
          out := out ++ [s!"read-back({ident}):content-differs-from-object-model"]
      | none => pure ()
  out := out ++ bij.bad
  let toModel (ip : Nat) : Option Nat := (bij.pairs.find? (·.1 == ip)).map (·.2)
  let image := bij.pairs.map (·.2)
  let allPids := List.range rs.next
  -- registry
  for (ip, n) in o.reg do
    match toModel ip with
    | some m => if rs.reg m != n then out := out ++ [s!"ref_count(pid{ip}):model={rs.reg m},impl={n}"]
    | none => if n != 0 then out := out ++ [s!"ref_count(pid{ip}):impl={n}-for-a-part-without-rows"]
  for (ip, m) in bij.pairs do
    if !(o.reg.any (·.1 == ip)) && rs.reg m != 0 then out := out ++ [s!"ref_count(pid{ip}):model={rs.reg m},impl=no-row"]
  for p in allPids do
    if rs.reg p != 0 && !image.contains p then out := out ++ [s!"ref_count:model={rs.reg p}-for-a-part-without-rows"]
  -- dedup index
  let implIdx := sortPairs (o.idx.filterMap fun (st, ip) => (toModel ip).map fun m => (st, m))
  if implIdx.length != o.idx.length then out := out ++ ["dedup-index:impl-indexes-a-part-without-rows"]
  let modelIdx := sortPairs (rs.stores.flatMap fun st => (List.range ncontents).filterMap fun c => (rs.idx st c).map fun p => (st, p))
  if implIdx != modelIdx then
    out := out ++ [s!"dedup-index:model={modelIdx.map fun (s, p) => (storeTok s, p)},impl(model-ids)={implIdx.map fun (s, p) => (storeTok s, p)}"]
  -- physical contents of the stores
  for (st, ips) in o.stores do
    let mapped := sortNat (ips.filterMap toModel)
    let orphans := ips.length - mapped.length
    let held := allPids.filter fun p => (rs.phys st p).isSome
    let mheld := sortNat (held.filter image.contains)
    let morph := held.length - mheld.length
    if mapped != mheld then out := out ++ [s!"store({storeTok st}):model-holds={mheld},impl-holds(model-ids)={mapped}"]
    if orphans != morph then out := out ++ [s!"store({storeTok st}):unreferenced-parts:model={morph},impl={orphans}"]
  return out

-- ---------------------------------------------------------------- the property predicate on observations

structure Pending where
  kind : String := ""                 -- trans | keep (content of survivors must not change) | other
  b : String := ""
  k : String := ""
  vid : String := ""
  cls : String := ""
  deriving Inhabited

def judgeObs (stores : List String) (cmap : List (String × String)) (prev : Option Obs) (p : Pending) (o : Obs) :
    List (String × String) := Id.run do
  let mut vio : List (String × String) := []
  let allParts := o.ents.flatMap fun e => e.parts.map fun q => (e.ident, q)
  for (ident, q) in allParts do
    if !stores.contains q.store then
      vio := vio ++ [("C14.routing.unknown-store", s!"{ident},seq{q.seq}:recorded-store-{storeTok q.store}-is-not-configured")]
    else
      let held := ((o.stores.find? (·.1 == q.store)).map (·.2)).getD []
      if !held.contains q.pid then
        vio := vio ++ [("C14.routing.recorded-store-lacks-part", s!"{ident},seq{q.seq}:store-{storeTok q.store}-does-not-hold-part-{q.pid}")]
    let n := (allParts.filter fun (_, x) => x.pid == q.pid).length
    let rc := ((o.reg.find? (·.1 == q.pid)).map (·.2)).getD 0
    if rc < n && !(vio.any fun v => v.1 == "C14.routing.refcount-below-rows") then
      vio := vio ++ [("C14.routing.refcount-below-rows", s!"part-{q.pid}:ref_count={rc},referencing-rows={n}")]
  for e in o.ents do
    if !e.isUp && !e.readOk then vio := vio ++ [("C14.routing.unreadable", s!"{e.ident}:GetObject-fails")]
  let prevOf (ident : String) : Option ObsEnt := prev.bind fun po => po.ents.find? (·.ident == ident)
  if p.kind == "trans" then
    let target := o.ents.find? fun e => !e.isUp && e.b == p.b && e.k == p.k && (if p.vid == "~" then e.latest else e.vid == p.vid)
    match target with
    | none => pure ()
    | some e =>
      let want := ClassRouting.storeFor cmap p.cls
      for q in e.parts do
        if q.store != want then
          vio := vio ++ [("C14.routing.transition-wrong-store", s!"{e.ident},seq{q.seq}:class-{p.cls}-maps-to-{storeTok want},part-row-records-{storeTok q.store}")]
      match prevOf e.ident with
      | some pe =>
        if pe.parts.map (·.size) != e.parts.map (·.size) then
          vio := vio ++ [("C14.routing.transition-changed-parts", s!"{e.ident}:part-sizes-before={pe.parts.map (·.size)},after={e.parts.map (·.size)}")]
      | none => pure ()
  if p.kind == "trans" || p.kind == "keep" then
    for e in o.ents do
      if !e.isUp && e.readOk then
        match prevOf e.ident with
        | some pe =>
          if pe.readOk && (pe.dig != e.dig || pe.len != e.len) then
            vio := vio ++ [("C14.routing.content-changed", s!"{e.ident}:content-differs-after-{p.kind}")]
        | none => pure ()
  return vio

-- ---------------------------------------------------------------- part-store faults in the trace

def isFaultTok (t : String) : Bool :=
  t.startsWith "fstep=" || t.startsWith "fkind=" || t.startsWith "fclose=" || t.startsWith "fired="

/-- Fold `rop fault …` / `rres ok` / `op …` / `res …` / `rfault fired=…` into the operation's lines with
an annotated result: `res … fstep=<j> fkind=<kind> fclose=<0|1> fired=<0|1>`. -/
def normalize (lines : List String) : List String := Id.run do
  let mut out : Array String := #[]
  let mut spec : Option String := none
  let mut dropRres := false
  let mut held : Option String := none
  for l in lines do
    if l.startsWith "rop fault" then
      let t := tokens l
      spec := some s!"fstep={kvOf t "step"} fkind={kvOf t "kind"} fclose={kvOf t "close"}"
      dropRres := true
    else if dropRres && l.startsWith "rres" then dropRres := false
    else if spec.isSome && l.startsWith "res " then held := some l
    else if l.startsWith "rfault" then
      match held, spec with
      | some r, some sp => out := out.push s!"{r} {sp} fired={kvOf (tokens l) "fired"}"
      | _, _ => pure ()
      held := none
      spec := none
    else out := out.push l
  return out.toList

/-- The trace as the S3-level judge sees it: an operation that failed because the armed fault
struck is left out (the object model knows no faults: a failed call changes nothing there), every
other faulted operation appears as an ordinary one. -/
def forS3 (lines : List String) : List String := Id.run do
  let mut out : Array String := #[]
  let mut pendingOp : Option String := none
  for l in lines do
    if l.startsWith "op " then
      match pendingOp with
      | some o => out := out.push o
      | none => pure ()
      pendingOp := some l
    else if l.startsWith "res " then
      let t := tokens l
      if kvOf t "fired" == "1" && l.startsWith "res err" then
        pendingOp := none
      else
        match pendingOp with
        | some o => out := out.push o
        | none => pure ()
        pendingOp := none
        out := out.push (String.intercalate " " (t.filter fun x => !isFaultTok x))
    else out := out.push l
  match pendingOp with
  | some o => out := out.push o
  | none => pure ()
  return out.toList

def faultOf (t : List String) : Option ClassRouting.Fault :=
  let k := kvOf t "fkind"
  if k == "~" then none else
  let kind : ClassRouting.FKind := match k with
    | "open" => .open | "read" => .read | "close" => .close | _ => .put
  some { step := (kvOf t "fstep").toNat!, kind := kind, closeToo := kvOf t "fclose" == "1" }

-- ---------------------------------------------------------------- the case loop

def judgeRouting (_k : Nat) (lines : List String) : Verdict := Id.run do
  let onRoute := lines.any fun l => l.startsWith "cfg " && kvOf (tokens l) "stack" == "route"
  let some cfgLine := lines.find? (·.startsWith "rcfg ")
    | return (if onRoute then { diverge := ["route:case-on-the-route-stack-without-routing-configuration-line"] } else {})
  let ct := tokens cfgLine
  let stores := (splitList (kvOf ct "stores")).map storeOfTok
  let mut cmap := parseMap (kvOf ct "map")
  let mut rs : RState := ClassRouting.init stores cmap
  let mut ctx : Ctx := {}
  let mut st : State := {}
  let mut contents : List Bytes := []
  let mut tie := true
  let mut div : List String := []
  let mut vio : List (String × String) := []
  let mut curOp : Option String := none
  let mut obsLines : List String := []
  let mut prev : Option Obs := none
  let mut pend : Pending := {}
  let mut idx := 0
  let mut stats : List (String × Nat) := []
  let mut nobs := 0
  for l in lines do
    if l.startsWith "op " || l.startsWith "rop " then
      curOp := some l
    else if l.startsWith "res " then
      match curOp with
      | none => pure ()
      | some o =>
        curOp := none
        pend := { kind := "other" }
        match parseXOp ctx o with
        | none => tie := false
        | some op =>
          let (st', xout) := xstep Quirks.code st op
          let out : Out := match xout with | .base o => o | .many _ => .unit
          let (ctx', _) := compareOut ctx out l
          ctx := ctx'
          let implOk := l.startsWith "res ok"
          let modelOk := match out with | .err _ => false | _ => true
          let t := tokens o
          let flt := faultOf (tokens l)
          if flt.isSome then
            stats := addStats stats [("rt_fault_armed", 1), (if kvOf (tokens l) "fired" == "1" then "rt_fault_fired" else "rt_fault_not_reached", 1),
              (if implOk then "rt_fault_op_ok" else "rt_fault_op_err", 1)]
          if implOk then
            match op with
            | .base (.transition b k cls _) =>
              pend := { kind := "trans", b := b, k := k, vid := kvOf t "vid", cls := cls }
            | .base (.del ..) | .base (.abort ..) => pend := { kind := "keep" }
            | _ => pure ()
          else if flt.isSome then pend := { kind := "keep" }   -- a FAILED faulted call must leave every version as it was
          if tie then
            if flt.isSome && modelOk then
              -- the routing model decides whether the fault plan aborts the call
              match derive contents st st' op out with
              | .error e => div := div ++ [s!"route:op{idx}:cannot-resolve:{e}"]; tie := false
              | .ok (cs1, rops) =>
                let mut rs1 := rs
                let mut aborted := false
                for rop in rops do
                  match ClassRouting.applyF rs1 rop flt with
                  | some x => rs1 := x
                  | none => aborted := true
                if aborted then
                  if implOk then
                    div := div ++ [s!"route:op{idx}[{t.getD 1 "?"}]:fault({kvOf (tokens l) "fstep"},{kvOf (tokens l) "fkind"}):model-aborts-the-call,implementation-reports-success"]
                    tie := false
                else if !implOk then
                  div := div ++ [s!"route:op{idx}[{t.getD 1 "?"}]:fault({kvOf (tokens l) "fstep"},{kvOf (tokens l) "fkind"}):model-succeeds,implementation-fails"]
                  tie := false
                else
                  rs := rs1
                  contents := cs1
                  match op with
                  | .base (.transition ..) => stats := addStats stats [("rt_transition_ok", 1)]
                  | _ => pure ()
            else if implOk != modelOk then
              tie := false     -- the object model and the implementation disagree: reported by the S3-level tie
            else if implOk then
              match derive contents st st' op out with
              | .error e => div := div ++ [s!"route:op{idx}:cannot-resolve:{e}"]; tie := false
              | .ok (cs1, rops) =>
                contents := cs1
                for rop in rops do
                  match ClassRouting.apply rs rop with
                  | some rs' =>
                    rs := rs'
                    match rop with
                    | .transition .. => stats := addStats stats [("rt_transition_ok", 1)]
                    | .copy .. => stats := addStats stats [("rt_copy_ok", 1)]
                    | .appendNew .. => stats := addStats stats [("rt_append_new_row", 1)]
                    | .append .. => stats := addStats stats [("rt_append_in_place", 1)]
                    | .uploadPartCopy .. => stats := addStats stats [("rt_part_copy", 1)]
                    | .complete .. => stats := addStats stats [("rt_complete", 1)]
                    | _ => pure ()
                  | none =>
                    div := div ++ [s!"route:op{idx}[{t.getD 1 "?"}]:routing-model-fails-where-the-implementation-succeeds"]
                    tie := false
          -- a call that failed because the fault struck changes nothing in the object model either
          if !(flt.isSome && modelOk && !implOk) then st := st'
        idx := idx + 1
    else if l.startsWith "rres " then
      match curOp with
      | none => pure ()
      | some o =>
        curOp := none
        let t := tokens o
        let implOk := l.startsWith "rres ok"
        pend := { kind := "keep" }
        match t with
        | "rop" :: "remap" :: _ =>
          let m := parseMap (kvOf t "map")
          if implOk then cmap := m
          stats := addStats stats [("rt_remap", 1)]
          if tie then
            match ClassRouting.apply rs (.remap m) with
            | some rs' => if implOk then rs := rs' else div := div ++ [s!"route:op{idx}[remap]:model=ok,impl=err"]; tie := false
            | none => if implOk then div := div ++ [s!"route:op{idx}[remap]:model=err,impl=ok"]; tie := false
        | "rop" :: "gc" :: _ =>
          stats := addStats stats [("rt_gc", 1)]
          if tie then
            if implOk then rs := ClassRouting.gc rs
            else div := div ++ [s!"route:op{idx}[gc]:collector-pass-failed"]; tie := false
        | _ => pure ()
        idx := idx + 1
    else if l == "rt end" then
      let o := parseObs obsLines
      obsLines := []
      nobs := nobs + 1
      if o.failed then
        div := div ++ [s!"route:after-op{idx - 1}:observation-failed"]
        tie := false
      else
        if tie && div.length < 6 then
          let ms := compareState st rs contents.length contents o
          if !ms.isEmpty then
            div := div ++ [s!"route:after-op{idx - 1}:" ++ String.intercalate ";" (ms.take 4)]
            tie := false
        for v in judgeObs stores cmap prev pend o do
          if !(vio.any fun x => x.1 == v.1) then vio := vio ++ [(v.1, s!"after-op{idx - 1}:{v.2}")]
        -- distribution
        let allPids := o.ents.flatMap fun e => e.parts.map (·.pid)
        let sharedAcross := o.ents.any fun e => e.parts.any fun q =>
          o.ents.any fun e2 => e2.ident != e.ident && e2.parts.any (·.pid == q.pid)
        let repeated := o.ents.any fun e => e.parts.any fun q => (e.parts.filter (·.pid == q.pid)).length > 1
        let mixed := o.ents.any fun e => match e.parts with
          | [] => false
          | q :: qs => qs.any (·.store != q.store)
        stats := addStats stats [("rt_obs", 1), ("rt_obs_shared_across_objects", if sharedAcross then 1 else 0),
          ("rt_obs_repeated_in_object", if repeated then 1 else 0), ("rt_obs_mixed_stores", if mixed then 1 else 0),
          ("rt_part_rows", allPids.length)]
        if pend.kind == "trans" then
          -- same-store (part ids kept) or cross-store (new ids) as observed
          let target := o.ents.find? fun e => !e.isUp && e.b == pend.b && e.k == pend.k && (if pend.vid == "~" then e.latest else e.vid == pend.vid)
          match target, prev with
          | some e, some po =>
            match po.ents.find? (·.ident == e.ident) with
            | some pe =>
              let kept := (e.parts.zip pe.parts).filter fun (a, b) => a.pid == b.pid
              stats := addStats stats [(if e.parts.isEmpty then "rt_trans_empty"
                else if kept.length == e.parts.length then "rt_trans_same_store"
                else if kept.isEmpty then "rt_trans_cross_store" else "rt_trans_mixed", 1)]
            | none => pure ()
          | _, _ => pure ()
        prev := some o
      pend := { kind := "other" }
    else if l.startsWith "rt " then
      obsLines := obsLines ++ [l]
  if nobs == 0 && idx > 1 then div := div ++ ["route:no-routing-observation-in-a-routing-case"]
  return { diverge := div, violations := vio, nontrivial := nobs ≥ 3,
           stats := stats ++ [("rt_cases", 1), ("rt_tie_complete", if tie then 1 else 0)] }

/-- Both halves of C14 on one case: the S3-level verdict and the routing verdict. -/
def merge (a r : Verdict) : Verdict :=
  { diverge := a.diverge ++ r.diverge, violations := a.violations ++ r.violations,
    nontrivial := a.nontrivial, fingerprint := a.fingerprint,
    stats := addStats a.stats r.stats, samples := a.samples }

end Pithos.C14Driver
