/-
Shared driver logic for the storage-history properties (C01, C02, C11, C12, C13, C14).

Trace lines of one case (harness/cmd/verifharness/s3hist.go):
  cfg stack=<name> mode=<name>
  op <name> <args…>          the operation (see `parseOp`)
  res ok <fields…> | res err <Kind> | res panic <hex>

Per case the driver
 * TIE: steps `S3.step Quirks.code` on the same operations and compares every result field
   (ETags through a symbolic↔concrete bijection, Last-Modified through a per-row order-preserving
   map, version ids as creation ordinals) → `diverge`;
 * JUDGE: for property P, projects the implementation's results onto P's observables and compares
   them with the reference model `S3.step Quirks.none`. A difference is a violation; its
   signature names the smallest set of code quirks that explains it, or `unexplained`.
-/
import Pithos.Util.Proto
import Pithos.Model.S3
import Pithos.Model.S3Ext

namespace Pithos.S3Driver
open Pithos Pithos.Proto Pithos.S3 Pithos.S3Ext

def kvOf (toks : List String) (k : String) : String :=
  match toks.find? (fun t => t.startsWith (k ++ "=")) with
  | some t => (t.drop (k.length + 1)).toString
  | none => "~"

def optStr (tok : String) : Option String :=
  if tok == "~" then none else (unhexStr tok)

def parsePairs (tok : String) : Pairs :=
  if tok == "~" then [] else
  (tok.splitOn ",").filterMap fun p =>
    match p.splitOn ":" with
    | [a, b] => match unhexStr a, unhexStr b with
      | some x, some y => some (x, y)
      | _, _ => none
    | _ => none

def parseVid (tok : String) : Option (Option Nat) :=
  if tok == "~" then none
  else if tok == "null" then some none
  else some (some (tok.drop 1).toString.toNat!)

def bytesOf (tok : String) : Bytes := (unhex tok).getD []

structure Ctx where
  etags : List (ETag × String) := []        -- symbolic ↔ concrete
  lms : List ((Nat × Nat) × Nat) := []      -- (rowId, updatedSeq) ↦ unix nanos

def Ctx.symOf (c : Ctx) (conc : String) : Option ETag := (c.etags.find? (·.2 == conc)).map (·.1)

def parseIm (c : Ctx) (tok : String) : IfMatch :=
  if tok == "~" then .none else if tok == "*" then .star else if tok == "bogus" then .bogus
  else match c.symOf tok with
    | some e => .etag e
    | none => .bogus

def parseOpts (t : List String) : WriteOpts :=
  { ct := optStr (kvOf t "ct"), md := parsePairs (kvOf t "md"), tags := parsePairs (kvOf t "tags"),
    cls := optStr (kvOf t "cls") }

def parseOp (c : Ctx) (line : String) : Option Op :=
  let t := tokens line
  match t with
  | "op" :: "mkb" :: b :: _ => some (.mkb b)
  | "op" :: "rmb" :: b :: _ => some (.rmb b)
  | "op" :: "ver" :: b :: v :: _ => some (.setVer b (if v == "E" then .enabled else .suspended))
  | "op" :: "put" :: b :: k :: body :: _ =>
    some (.put b k (bytesOf body) (parseOpts t) (kvOf t "inm" == "1") (parseIm c (kvOf t "im")))
  | "op" :: "get" :: b :: k :: _ => some (.get b k (parseVid (kvOf t "vid")))
  | "op" :: "head" :: b :: k :: _ => some (.head b k (parseVid (kvOf t "vid")))
  | "op" :: "del" :: b :: k :: _ => some (.del b k (parseVid (kvOf t "vid")) (parseIm c (kvOf t "im")))
  | "op" :: "cp" :: sb :: sk :: db :: dk :: _ =>
    some (.copy sb sk (parseVid (kvOf t "svid")) db dk (kvOf t "mdir" == "R") (kvOf t "tdir" == "R") (parseOpts t))
  | "op" :: "app" :: b :: k :: body :: _ =>
    let off := kvOf t "off"
    some (.append b k (bytesOf body) (if off == "~" then none else some off.toNat!))
  | "op" :: "mpu" :: b :: k :: _ => some (.mpu b k (parseOpts t))
  | "op" :: "upp" :: b :: k :: u :: n :: body :: _ => some (.uploadPart b k u.toNat! n.toNat! (bytesOf body))
  | "op" :: "cmpl" :: b :: k :: u :: _ =>
    let ps := kvOf t "parts"
    some (.complete b k u.toNat! (if ps == "~" then none else some ((ps.splitOn ",").map String.toNat!))
      (kvOf t "inm" == "1") (parseIm c (kvOf t "im")))
  | "op" :: "abort" :: b :: k :: u :: _ => some (.abort b k u.toNat!)
  | "op" :: "gtag" :: b :: k :: _ => some (.getTags b k (parseVid (kvOf t "vid")))
  | "op" :: "ptag" :: b :: k :: _ => some (.putTags b k (parseVid (kvOf t "vid")) (parsePairs (kvOf t "tags")))
  | "op" :: "dtag" :: b :: k :: _ => some (.delTags b k (parseVid (kvOf t "vid")))
  | "op" :: "trans" :: b :: k :: cls :: _ => some (.transition b k cls (parseVid (kvOf t "vid")))
  | "op" :: "ls" :: b :: _ => some (.list b)
  | "op" :: "lsv" :: b :: _ => some (.listVersions b)
  | ["op", "lsb"] => some .listBuckets
  | _ => none

-- ---------------------------------------------------------------- rendering / comparing

def vidTok : Option Nat → String
  | none => "null"
  | some n => s!"v{n}"

def optTok : Option String → String
  | none => "~"
  | some s => toHex (s.toList.map fun c => UInt8.ofNat c.toNat)

def pairsTok (p : Pairs) : String :=
  if p.isEmpty then "~" else
  String.intercalate "," (p.map fun (k, v) => optTok (some k) ++ ":" ++ optTok (some v))

/-- Bind or check a symbolic/concrete ETag pair; returns the updated context and an error text. -/
def bindEtag (c : Ctx) (sym : ETag) (conc : String) : Ctx × Option String :=
  match c.etags.find? (·.1 == sym) with
  | some (_, conc') => if conc' == conc then (c, none) else (c, some s!"etag:model-same-content-impl-differs({conc'}≠{conc})")
  | none =>
    match c.etags.find? (·.2 == conc) with
    | some _ => (c, some s!"etag:impl-same-etag-for-different-content({conc})")
    | none => ({ c with etags := (sym, conc) :: c.etags }, none)

def bindLm (c : Ctx) (rowId seq nanos : Nat) : Ctx × Option String :=
  let same := c.lms.filter (·.1.1 == rowId)
  match same.find? (·.1.2 == seq) with
  | some (_, n) => if n == nanos then (c, none) else (c, some s!"lm:model-unchanged-impl-changed(row{rowId})")
  | none =>
    let bad := same.any fun ((_, s), n) => (s < seq && !(n < nanos)) || (s > seq && !(n > nanos))
    ({ c with lms := ((rowId, seq), nanos) :: c.lms },
     if bad then some s!"lm:model-changed-impl-order-differs(row{rowId})" else none)

/-- Compare one model output with the implementation's result line. Returns updated ctx and the
list of mismatches (empty = agree). -/
def compareOut (c : Ctx) (out : Out) (res : String) : Ctx × List String :=
  let t := tokens res
  match out, t with
  | .err e, "res" :: "err" :: k :: _ => (c, if e.toString == k then [] else [s!"err:model={e.toString},impl={k}"])
  | .err e, _ => (c, [s!"model=err:{e.toString},impl={res}"])
  | _, "res" :: "err" :: k :: _ => (c, [s!"model=ok,impl=err:{k}"])
  | _, "res" :: "panic" :: _ => (c, ["impl-panic"])
  | .unit, ["res", "ok"] => (c, [])
  | .wrote vid etag, "res" :: "ok" :: _ =>
    let (c1, e1) := bindEtag c etag (kvOf t "etag")
    (c1, (if vidTok vid == kvOf t "vid" then [] else [s!"vid:model={vidTok vid},impl={kvOf t "vid"}"]) ++ e1.toList)
  | .obj v, "res" :: "ok" :: _ =>
    let (c1, e1) := bindEtag c v.etag (kvOf t "etag")
    let (c2, e2) := bindLm c1 v.rowId v.updated (kvOf t "lm").toNat!
    let chk (name a b : String) : List String := if a == b then [] else [s!"{name}:model={a},impl={b}"]
    let body := kvOf t "body"
    (c2, (if body == "?" then [] else chk "body" (toHex v.body) body)
      ++ chk "size" (toString v.size) (kvOf t "size") ++ chk "ct" (optTok v.ct) (kvOf t "ct")
      ++ chk "md" (pairsTok v.md) (kvOf t "md") ++ chk "tags" (pairsTok v.tags) (kvOf t "tags")
      ++ chk "cls" (optTok v.cls) (kvOf t "cls") ++ chk "vid" (vidTok v.vid) (kvOf t "vid")
      ++ e1.toList ++ e2.toList)
  | .deleted vid dm, "res" :: "ok" :: _ =>
    let vt := match vid with | none => "~" | some v => vidTok v
    (c, (if vt == kvOf t "vid" then [] else [s!"vid:model={vt},impl={kvOf t "vid"}"])
      ++ (if (if dm then "1" else "0") == kvOf t "dm" then [] else [s!"dm:model={dm},impl={kvOf t "dm"}"]))
  | .appended etag size, "res" :: "ok" :: _ =>
    let (c1, e1) := bindEtag c etag (kvOf t "etag")
    (c1, (if toString size == kvOf t "size" then [] else [s!"size:model={size},impl={kvOf t "size"}"]) ++ e1.toList)
  | .upload uid, "res" :: "ok" :: _ =>
    (c, if toString uid == kvOf t "u" then [] else [s!"upload:model={uid},impl={kvOf t "u"}"])
  | .part etag, "res" :: "ok" :: _ =>
    let (c1, e1) := bindEtag c etag (kvOf t "etag")
    (c1, e1.toList)
  | .tags p, "res" :: "ok" :: _ =>
    (c, if pairsTok p == kvOf t "tags" then [] else [s!"tags:model={pairsTok p},impl={kvOf t "tags"}"])
  | .listing l, ["res", "ok", items] =>
    let its := if items == "~" then [] else items.splitOn ","
    if its.length != l.length then (c, [s!"listing-length:model={l.length},impl={its.length}"]) else
    (l.zip its).foldl (fun (acc : Ctx × List String) ((k, size, etag, cls), it) =>
      match it.splitOn ":" with
      | [ik, isz, iet, icls] =>
        let (c1, e1) := bindEtag acc.1 etag iet
        (c1, acc.2 ++ (if k == ik && toString size == isz && optTok cls == icls then [] else [s!"listing-item:model={k}:{size}:{optTok cls},impl={it}"]) ++ e1.toList)
      | _ => (acc.1, acc.2 ++ ["listing-item-unparsable"])) (c, [])
  | .versions l, ["res", "ok", items] =>
    let its := if items == "~" then [] else items.splitOn ","
    if its.length != l.length then (c, [s!"versions-length:model={l.length},impl={its.length}"]) else
    (l.zip its).foldl (fun (acc : Ctx × List String) (v, it) =>
      match it.splitOn ":" with
      | [ik, ivid, ilat, idm, isz, ilm, icls] =>
        let (c1, e1) := bindLm acc.1 v.rowId v.updated ilm.toNat!
        let ok := v.key == ik && vidTok v.vid == ivid && (if v.latest then "1" else "0") == ilat
          && (if v.dm then "1" else "0") == idm && toString v.size == isz && optTok v.cls == icls
        (c1, acc.2 ++ (if ok then [] else [s!"version-item:model={v.key}:{vidTok v.vid}:{v.latest}:{v.dm}:{v.size},impl={it}"]) ++ e1.toList)
      | _ => (acc.1, acc.2 ++ ["version-item-unparsable"])) (c, [])
  | .buckets l, ["res", "ok", items] =>
    let its := if items == "~" then [] else items.splitOn ","
    (c, if its == l then [] else [s!"buckets:model={l},impl={its}"])
  | _, _ => (c, [s!"shape:impl={res}"])

-- ---------------------------------------------------------------- judges

/-- The observable projection of an operation's result that property `p` constrains.
`none` = this operation's result is not constrained by `p`. -/
def project (p : String) (op : Op) (out : Out) : Option String :=
  let errOr (f : Unit → String) : String := match out with | .err e => "err:" ++ e.toString | _ => f ()
  match p, op, out with
  -- C01: content, size, content type of reads; NoSuchKey/NoSuchBucket; bucket deletion
  | "C01", .get .., .obj v => some s!"{toHex v.body}|{v.size}|{optTok v.ct}"
  | "C01", .head .., .obj v => some s!"{v.size}|{optTok v.ct}"
  | "C01", .get .., .err e => some ("err:" ++ e.toString)
  | "C01", .head .., .err e => some ("err:" ++ e.toString)
  | "C01", .rmb .., _ => some (errOr fun _ => "ok")
  | "C01", .list .., .listing l => some (toString (l.map fun (k, sz, _, _) => (k, sz)))
  -- C02: which version is current / addressable, delete markers
  | "C02", .get _ _ _, .obj v => some s!"{toHex v.body}|{vidTok v.vid}"
  | "C02", .get .., .err e => some ("err:" ++ e.toString)
  | "C02", .del .., .deleted vid dm => some s!"{match vid with | none => "~" | some v => vidTok v}|{dm}"
  | "C02", .del .., .err e => some ("err:" ++ e.toString)
  | "C02", .listVersions .., .versions l => some (toString (l.map fun v => (v.key, vidTok v.vid, v.latest, v.dm, v.size)))
  -- C11: metadata, tags, storage class as read back
  | "C11", .head .., .obj v => some s!"{optTok v.ct}|{pairsTok v.md}|{pairsTok v.tags}|{optTok v.cls}"
  | "C11", .get .., .obj v => some s!"{optTok v.ct}|{pairsTok v.md}|{pairsTok v.tags}|{optTok v.cls}"
  | "C11", .getTags .., .tags t => some (pairsTok t)
  | "C11", .list .., .listing l => some (toString (l.map fun (k, _, _, cls) => (k, optTok cls)))
  -- C12 (sequential): append results and content afterwards
  | "C12", .append .., .appended _ size => some s!"ok|{size}"
  | "C12", .append .., .err e => some ("err:" ++ e.toString)
  | "C12", .get _ _ none, .obj v => some (toHex v.body)
  -- C14: transitions preserve everything but the class
  | "C14", .transition .., _ => some (errOr fun _ => "ok")
  | "C14", .get .., .obj v => some s!"{toHex v.body}|{vidTok v.vid}|{optTok v.ct}|{pairsTok v.md}|{pairsTok v.tags}|{optTok v.cls}"
  | "C14", .head .., .obj v => some s!"{v.size}|{vidTok v.vid}|{optTok v.cls}"
  | _, _, _ => none

/-- Reconstruct the implementation's `Out` for projection purposes from its result line, using the
model's output only for the *shape* (which fields exist). ETags are left symbolic from the model
(they are judged by the tie and by C04), Last-Modified is handled by the C13 judge separately. -/
def implOut (modelOut : Out) (res : String) : Out :=
  let t := tokens res
  match t with
  | "res" :: "err" :: k :: _ =>
    let e : Err := match k with
      | "NoSuchBucket" => .noSuchBucket | "NoSuchKey" => .noSuchKey | "BucketAlreadyExists" => .bucketAlreadyExists
      | "BucketNotEmpty" => .bucketNotEmpty | "PreconditionFailed" => .preconditionFailed
      | "MethodNotAllowed" => .methodNotAllowed | "InvalidWriteOffset" => .invalidWriteOffset
      | "InvalidPart" => .invalidPart | "InvalidPartOrder" => .invalidPartOrder | "InvalidRange" => .invalidRange
      | "NotModified" => .notModified | _ => .other
    .err e
  | "res" :: "panic" :: _ => .err .other
  | "res" :: "ok" :: rest =>
    let has (k : String) : Bool := rest.any (·.startsWith (k ++ "="))
    let vidOf (tok : String) : Option Nat := if tok == "null" then none else some (tok.drop 1).toString.toNat!
    if has "body" then
      let body := kvOf t "body"
      .obj { body := if body == "?" then [] else bytesOf body, size := (kvOf t "size").toNat!, ct := optStr (kvOf t "ct"),
             md := parsePairs (kvOf t "md"), tags := parsePairs (kvOf t "tags"), cls := optStr (kvOf t "cls"),
             etag := ⟨false, []⟩, vid := vidOf (kvOf t "vid"), updated := 0, rowId := 0 }
    else if has "dm" then
      let v := kvOf t "vid"
      .deleted (if v == "~" then none else some (vidOf v)) (kvOf t "dm" == "1")
    else if has "size" then .appended ⟨false, []⟩ (kvOf t "size").toNat!
    else if has "tags" then .tags (parsePairs (kvOf t "tags"))
    else if has "u" then .upload (kvOf t "u").toNat!
    else if has "vid" then .wrote (vidOf (kvOf t "vid")) ⟨false, []⟩
    else if has "etag" then .part ⟨false, []⟩
    else match modelOut, rest with
      | .listing _, [items] =>
        .listing ((if items == "~" then [] else items.splitOn ",").filterMap fun it =>
          match it.splitOn ":" with
          | [k, sz, _, cls] => some (k, sz.toNat!, ⟨false, []⟩, optStr cls)
          | _ => none)
      | .versions _, [items] =>
        .versions ((if items == "~" then [] else items.splitOn ",").filterMap fun it =>
          match it.splitOn ":" with
          | [k, vid, lat, dm, sz, _, cls] =>
            some { key := k, vid := vidOf vid, latest := lat == "1", dm := dm == "1", size := sz.toNat!, updated := 0, rowId := 0, cls := optStr cls }
          | _ => none)
      | .buckets _, [items] => .buckets (if items == "~" then [] else items.splitOn ",")
      | _, _ => .unit
  | _ => .unit

def allQuirkSets : List Quirks :=
  [false, true].flatMap fun a => [false, true].flatMap fun b => [false, true].flatMap fun c =>
    [false, true].map fun d => ⟨a, b, c, d⟩

def quirkNames (q : Quirks) : List String :=
  (if q.promoteByCreated then ["promoteByCreated"] else []) ++ (if q.touchOnAnySave then ["touchOnAnySave"] else [])
  ++ (if q.appendLatestInPlace then ["appendLatestInPlace"] else []) ++ (if q.appendEnabledDropsMeta then ["appendEnabledDropsMeta"] else [])

def quirkSubset (a b : Quirks) : Bool :=
  (!a.promoteByCreated || b.promoteByCreated) && (!a.touchOnAnySave || b.touchOnAnySave)
  && (!a.appendLatestInPlace || b.appendLatestInPlace) && (!a.appendEnabledDropsMeta || b.appendEnabledDropsMeta)

/-- Run the model under quirk set `q` over the parsed ops (ops were parsed with the tie's ctx, so
If-Match arguments are already symbolic) and return the projections for property `p`. -/
def projections (p : String) (q : Quirks) (ops : List Op) : List (Option String) :=
  ((S3.run q {} ops).2.zip ops).map fun (o, op) => project p op o

/-- An op line of the s3h harness including the server-side part copy
`op uppc <sb> <sk> <db> <dk> <u> <n> range=<a>-<b>|~` (b exclusive). -/
def parseXOp (c : Ctx) (line : String) : Option XOp :=
  let t := tokens line
  match t with
  | "op" :: "uppc" :: sb :: sk :: db :: dk :: u :: n :: _ =>
    let r := kvOf t "range"
    let range : Option (Nat × Nat) := if r == "~" then none else
      match r.splitOn "-" with
      | [a, b] => some (a.toNat!, b.toNat!)
      | _ => none
    some (.partCopy sb sk none db dk u.toNat! n.toNat! range)
  | _ => (parseOp c line).map .base

def xproject (p : String) : XOp → XOut → Option String
  | .base op, .base o => project p op o
  | _, _ => none

def xprojections (p : String) (q : Quirks) (ops : List XOp) : List (Option String) :=
  ((xrun q {} ops).2.zip ops).map fun (o, op) => xproject p op o

/-- C13 judge data: for every read of an explicit, non-null version id the implementation's
(content, size, etag, lm) must equal its first observation. -/
def nullSentinel : Nat := 4000000000

def c13Key (op : XOp) : Option (String × String × Nat) :=
  match op with
  | .base (.get b k (some (some n))) => some (b, k, n)
  | .base (.head b k (some (some n))) => some (b, k, n)
  | .base (.get b k (some none)) => some (b, k, nullSentinel)
  | .base (.head b k (some none)) => some (b, k, nullSentinel)
  | _ => none

structure CaseResult where
  verdict : Verdict

def judgeCase (prop : String) (_k : Nat) (lines : List String) : Verdict := Id.run do
  let body := lines.filter fun l => !(l.startsWith "cfg")
  -- pair op/res lines
  let mut pairs : List (String × String) := []
  let mut cur : Option String := none
  for l in body do
    if l.startsWith "op " then cur := some l
    else if l.startsWith "res " then
      match cur with
      | some o => pairs := pairs ++ [(o, l)]; cur := none
      | none => pure ()
  if pairs.isEmpty then return { diverge := ["empty-or-unparsable-case"] }
  -- TIE
  let mut ctx : Ctx := {}
  let mut st : State := {}
  let mut div : List String := []
  let mut ops : List XOp := []
  let mut implOuts : List XOut := []
  let mut idx := 0
  let mut nOk := 0
  let mut nErr := 0
  let mut stats : List (String × Nat) := []
  for (o, r) in pairs do
    match parseXOp ctx o with
    | none => div := div ++ [s!"op{idx}:unparsable:{o}"]
    | some op =>
      let (st', xout) := xstep Quirks.code st op
      let out : Out := match xout with | .base o => o | .many _ => .unit
      let (ctx', ms) := compareOut ctx out r
      if !ms.isEmpty && div.length < 6 then
        div := div ++ [s!"op{idx}[{(tokens o).getD 1 "?"}]:" ++ String.intercalate ";" ms]
      ctx := ctx'
      st := st'
      ops := ops ++ [op]
      implOuts := implOuts ++ [XOut.base (implOut out r)]
      if r.startsWith "res ok" then nOk := nOk + 1 else nErr := nErr + 1
      stats := addStats stats [("op_" ++ (tokens o).getD 1 "?", 1)]
      if r.startsWith "res err" then stats := addStats stats [("err_" ++ (tokens r).getD 2 "?", 1)]
    idx := idx + 1
  -- JUDGE
  let mut vio : List (String × String) := []
  if prop == "C13" then
    -- first observation of each explicit version id vs every later one
    let mut seen : List ((String × String × Nat) × String) := []
    let mut i := 0
    -- the null version (sentinel id `nullSentinel`) is judged too, but it may legitimately be
    -- replaced: by writes to its key while the bucket is not versioning-enabled, by its explicit
    -- delete, and it disappears with its bucket. The versioning state is read off the trace.
    let mut vers : List (String × Versioning) := []
    for (op, (_, r)) in ops.zip pairs do
      let ok := r.startsWith "res ok"
      let enabledOf (b : String) : Bool := (vers.find? (·.1 == b)).map (·.2) == some Versioning.enabled
      match op with
      | .base (.setVer b v) => if ok then vers := (b, v) :: vers.filter (·.1 != b)
      | .base (.rmb b) => if ok then
          vers := vers.filter (·.1 != b)
          seen := seen.filter (fun e => e.1.1 != b)
      | _ => pure ()
      let replacesNull : Option (String × String) := match op with
        | .base (.put b k ..) | .base (.append b k ..) | .base (.complete b k ..) => if enabledOf b then none else some (b, k)
        | .base (.copy _ _ _ db dk ..) => if enabledOf db then none else some (db, dk)
        | .base (.del b k vid _) => (match vid with
            | some none => some (b, k)
            | none => if enabledOf b then none else some (b, k)
            | _ => none)
        | _ => none
      match replacesNull with
      | some (b, k) => if ok then seen := seen.filter (fun e => !(e.1.1 == b && e.1.2.1 == k && e.1.2.2 == nullSentinel))
      | none => pure ()
      match c13Key op with
      | some key =>
        if r.startsWith "res ok" then
          let t := tokens r
          let hasBody := kvOf t "body" != "?"
          let curObs := s!"size={kvOf t "size"} etag={kvOf t "etag"} lm={kvOf t "lm"}"
          let curB := if hasBody then some (kvOf t "body") else none
          match seen.find? (·.1 == key) with
          | none => seen := (key, curObs ++ (match curB with | some b => " body=" ++ b | none => "")) :: seen
          | some (_, first) =>
            let ft := tokens first
            let changed : List String :=
              (if kvOf ft "size" != kvOf t "size" then ["size"] else [])
              ++ (if kvOf ft "etag" != kvOf t "etag" then ["etag"] else [])
              ++ (if kvOf ft "lm" != kvOf t "lm" then ["last-modified"] else [])
              ++ (match curB with
                  | some b => if kvOf ft "body" != "~" && kvOf ft "body" != b then ["content"] else []
                  | none => [])
            for ch in changed do
              vio := vio ++ [(s!"C13.version-changed.{ch}", s!"op{i}:version-v{key.2.2}-of-{key.1}/{key.2.1}:{ch}-differs-from-first-observation")]
        else
          -- a version that was readable must stay readable until deleted: judged by C02
          pure ()
      | none => pure ()
      i := i + 1
  else
    let implProj := (implOuts.zip ops).map fun (o, op) => xproject prop op o
    let projections := xprojections
    -- the reference for property P switches off exactly the deviations P is about; deviations
    -- that belong to another property (e.g. next-latest promotion, judged by C01/C02) follow the code
    let cq := Quirks.code
    let refQ : Quirks := match prop with
      | "C01" | "C02" => { cq with promoteByCreated := false, appendLatestInPlace := false }
      | "C11" => { cq with appendEnabledDropsMeta := false, appendLatestInPlace := false }
      | "C12" => { cq with appendLatestInPlace := false }
      | _ => cq
    let refProj := projections prop refQ ops
    if implProj != refProj then
      -- smallest explaining quirk set
      let cands := allQuirkSets.filter fun q => quirkSubset refQ q && quirkSubset q Quirks.beforeAppendFix && projections prop q ops == implProj
      let best := cands.foldl (fun (acc : Option Quirks) q =>
        match acc with
        | none => some q
        | some a => if (quirkNames q).length < (quirkNames a).length then some q else some a) none
      let firstDiff := ((implProj.zip refProj).zipIdx.find? fun ((a, b), _) => a != b).map (·.2)
      let where_ := match firstDiff with | some i => s!"op{i}[{(tokens (pairs.getD i ("", "")).1).getD 1 "?"}]" | none => "?"
      match best with
      | some q =>
        for n in (quirkNames q).filter (fun n => !(quirkNames refQ).contains n) do
          vio := vio ++ [(s!"{prop}.quirk.{n}", s!"{where_}:implementation-differs-from-reference-S3-model;explained-by-code-quirk-{n}")]
      | none =>
        vio := vio ++ [(s!"{prop}.unexplained", s!"{where_}:implementation-differs-from-reference-S3-model")]
  let writes := (ops.filter fun op => match op with
    | .base (.put ..) | .base (.copy ..) | .base (.append ..) | .base (.complete ..) | .base (.del ..) => true
    | _ => false).length
  return {
    diverge := div, violations := vio,
    nontrivial := nOk ≥ 5 && writes ≥ 2,
    fingerprint := fpLines (pairs.map (·.1)),
    stats := stats ++ [("ops", pairs.length), ("ok", nOk), ("err", nErr)],
    samples := [String.intercalate " ; " ((pairs.take 8).map (·.1))]
  }

end Pithos.S3Driver
