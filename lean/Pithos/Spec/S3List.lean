/-
S3 listing semantics — the reference the C06 theorems and the C06 judge refer to.
Core Lean only. Meant to be read in a few minutes.

A bucket listing is determined by
* the rows of the bucket **in S3 order** (keys bytewise ascending = UTF-8 binary order; inside one
  key: uploads oldest first, versions newest first),
* the request: `prefix`, `delimiter` (`[]` = none), the position after which the listing starts.

The listing selects the rows whose key starts **byte for byte** with the prefix and lies after the
start position, replaces every row whose key contains the delimiter after the prefix by its
common prefix (`prefix ++ bytes up to and including the first delimiter`), and keeps each common
prefix once, at its first position. Following continuation markers must deliver exactly this list,
split into pages of at most `max-keys` entries (a common prefix counts once).

S3 keys are never empty; `marker = []` therefore means "from the start".
-/
namespace Pithos.S3List

abbrev Key := List UInt8

/-- Strict bytewise order (memcmp, the shorter string first): S3's UTF-8 binary order and SQLite's
`BINARY` collation. -/
def keyLt : Key → Key → Bool
  | [], [] => false
  | [], _ :: _ => true
  | _ :: _, [] => false
  | a :: as, b :: bs => if a < b then true else if b < a then false else keyLt as bs

def keyLe (a b : Key) : Bool := !keyLt b a

/-- Insertion sort (structural, so that small instances evaluate inside the kernel). -/
def insertBy (le : α → α → Bool) (a : α) : List α → List α
  | [] => [a]
  | b :: bs => if le a b then a :: b :: bs else b :: insertBy le a bs

def sortBy (le : α → α → Bool) : List α → List α
  | [] => []
  | a :: as => insertBy le a (sortBy le as)

/-- One listed entry: a row of the bucket or a common prefix. -/
inductive Entry (α : Type) where
  | item (a : α)
  | cp (c : Key)
  deriving DecidableEq, Repr

/-- The bytes of `s` up to and including the first occurrence of `delim` (`delim ≠ []`). -/
def throughDelim (delim : Key) : Key → Option Key
  | [] => none
  | c :: cs => if delim.isPrefixOf (c :: cs) then some delim else (throughDelim delim cs).map (c :: ·)

/-- The common prefix a key that starts with `pfx` rolls up into, if any. -/
def groupOf (pfx delim : Key) (k : Key) : Option Key :=
  if delim.isEmpty then none else (throughDelim delim (k.drop pfx.length)).map (pfx ++ ·)

def entryOf (keyOf : α → Key) (pfx delim : Key) (r : α) : Entry α :=
  match groupOf pfx delim (keyOf r) with
  | some c => .cp c
  | none => .item r

/-- Keep every item; keep a common prefix only the first time it occurs. -/
def dedupCPs : List Key → List (Entry α) → List (Entry α)
  | _, [] => []
  | seen, .item a :: es => .item a :: dedupCPs seen es
  | seen, .cp c :: es => if seen.contains c then dedupCPs seen es else .cp c :: dedupCPs (c :: seen) es

/-- **The S3 listing** of `rows` (given in S3 order) for a request. -/
def listing (keyOf : α → Key) (pfx delim : Key) (after : α → Bool) (rows : List α) : List (Entry α) :=
  dedupCPs [] ((rows.filter fun r => pfx.isPrefixOf (keyOf r) && after r).map (entryOf keyOf pfx delim))

/-- What following the continuation markers must deliver. -/
def PagesExact (maxKeys : Nat) (pages : List (List (Entry α))) (expected : List (Entry α)) : Prop :=
  pages.flatten = expected ∧ ∀ p ∈ pages, p.length ≤ maxKeys

/-! ### The five listings -/

/-- Row of an uploads / versions table.
* `seq` — S3's order inside one key: uploads are listed in initiation order (ascending `seq`),
  versions and delete markers newest first (descending `seq` = write sequence number).
* `sub` — the stand-in the *implementation* orders by (rank of the upload id; for versions `0` for
  the `null` version and `1 +` rank of the ULID otherwise). The spec never looks at it. -/
structure Row where
  key : Key
  sub : Nat
  seq : Nat
  deriving DecidableEq, Repr

def rowLeAsc (a b : Row) : Bool := keyLt a.key b.key || (a.key == b.key && a.seq ≤ b.seq)
def rowLeDesc (a b : Row) : Bool := keyLt a.key b.key || (a.key == b.key && b.seq ≤ a.seq)

/-- ListObjects (v1 `marker`, v2 `start-after` / `continuation-token`): keys after `marker`. -/
def expectedObjects (keys : List Key) (pfx delim marker : Key) : List (Entry Key) :=
  listing id pfx delim (keyLt marker) (sortBy keyLe keys)

/-- `s` lies after the optional marker sequence number (ascending listings). -/
def afterSeq (m : Option Nat) (s : Nat) : Bool :=
  match m with
  | some x => x < s
  | none => false

/-- `s` lies after the optional marker sequence number in a newest-first listing. -/
def olderThan (m : Option Nat) (s : Nat) : Bool :=
  match m with
  | some x => s < x
  | none => false

/-- ListMultipartUploads: uploads ordered by key, then by initiation; `key-marker` alone starts
after every upload of that key, together with `upload-id-marker` (`um = some s`, the `seq` of that
upload) after that upload. -/
def expectedUploads (rows : List Row) (pfx delim km : Key) (um : Option Nat) : List (Entry Row) :=
  listing (·.key) pfx delim
    (fun r => keyLt km r.key || (r.key == km && afterSeq um r.seq))
    (sortBy rowLeAsc rows)

/-- ListObjectVersions: versions and delete markers ordered by key, newest first;
`key-marker` alone starts after every version of that key, together with `version-id-marker`
(`vm = some s`, the `seq` of that version) after that version. -/
def expectedVersions (rows : List Row) (pfx delim km : Key) (vm : Option Nat) : List (Entry Row) :=
  listing (·.key) pfx delim
    (fun r => keyLt km r.key || (r.key == km && olderThan vm r.seq))
    (sortBy rowLeDesc rows)

/-- ListParts: part numbers greater than the marker, ascending. -/
def expectedParts (parts : List Nat) (marker : Nat) : List Nat :=
  (sortBy (fun a b => decide (a ≤ b)) parts).filter (marker < ·)

end Pithos.S3List
