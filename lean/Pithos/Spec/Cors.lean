/-
Spec for C34 (S3 CORS evaluation, "How does Amazon S3 evaluate the CORS configuration"):

  a rule matches a request when
  * the request's Origin matches one of the rule's AllowedOrigin elements,
  * the request method (for a preflight: the Access-Control-Request-Method) is one of the rule's
    AllowedMethod elements,
  * for a preflight: every header named in Access-Control-Request-Headers matches one of the
    rule's AllowedHeader elements;
  AllowedOrigin / AllowedHeader may contain '*' which stands for any (possibly empty) sequence of
  characters (S3 documents at most one per element).

`glob` is that wildcard reading for ANY number of stars (each star = any sequence), so that the
judge never demands more than the documentation for patterns the documentation leaves undefined.
Origins (scheme + host) and header names are compared case-insensitively (ASCII), methods as
upper-cased tokens, the header list is split at commas with optional white space, empty elements
ignored (RFC 9110 §5.6.1).  Core Lean only.
-/
import Pithos.Model.Cors

namespace Pithos.Cors.Spec
open Pithos.Ascii Pithos.Cors

/-- `'*'` matches any sequence of characters, every other character itself. -/
def glob : List Char → List Char → Bool
  | [], v => v.isEmpty
  | c :: p, v =>
    if c == '*' then (List.range (v.length + 1)).any fun k => glob p (v.drop k)
    else match v with
      | [] => false
      | d :: v' => c == d && glob p v'

def originAllowed (r : Rule) (origin : List Char) : Bool :=
  r.origins.any fun a => glob (toLower a) (toLower origin)

def methodAllowed (r : Rule) (method : List Char) : Bool :=
  r.methods.any fun a => a == toUpper (trimSpace method)

def headersAllowed (r : Rule) (requested : List (List Char)) : Bool :=
  requested.all fun h => r.headers.any fun a => glob (toLower a) (toLower h)

def ruleMatches (r : Rule) (origin method : List Char) (requested : List (List Char))
    (preflight : Bool) : Bool :=
  originAllowed r origin && methodAllowed r method && (!preflight || headersAllowed r requested)

/-- Is the request a CORS request at all (has an Origin)? -/
def isCors (req : Request) : Bool := !(trimSpace req.origin).isEmpty

/-- **The property's predicate**: some rule of the bucket's CORS configuration matches the
request's origin, method and (preflight) requested headers. -/
def allowed (rules : List Rule) (req : Request) : Bool :=
  isCors req &&
  rules.any fun r =>
    ruleMatches r (trimSpace req.origin) (requestedMethod req) (parseHeaderList req.acrh)
      (isPreflight req)

end Pithos.Cors.Spec
