/-
Spec for the configuration glue of C32.

What an operator wrote for the trusted-proxy list at one layer (command line flag value,
environment variable) is one of
  * `unset`       — flag not given / variable absent or empty;
  * `allProxies`  — given, but blank (the documented "empty means all proxies");
  * `configured`  — given and not blank: its comma-separated, trimmed, non-blank items (possibly none,
                    as for `","` — a configured but unusable list).
The effective setting is that of the highest-precedence layer that is not `unset`
(defaults < command line < environment, the order of `mergeSettings(cmdArgs, env)`); likewise for
the trust switch (default off). The exposed client IP / scheme may differ from the peer's only if
trust is on, the peer has an IP, and the effective list is unset/allProxies or one of its items is a
CIDR that contains the peer — `Spec.mayDiffer` evaluated on the effective configuration.
Core Lean only.
-/
import Pithos.Model.ProxySettings
import Pithos.Spec.ProxyTrust

namespace Pithos.ProxySettings.Spec
open Pithos.Ascii Pithos.NetParse Pithos.ProxyTrust Pithos.ProxySettings

inductive ListSetting where
  | unset
  | allProxies
  | configured (items : List (List Char))
  deriving Repr, DecidableEq

def classify : Option (List Char) → ListSetting
  | none => .unset
  | some raw => if (trimSpace raw).isEmpty then .allProxies else .configured (splitItems raw)

/-- Highest-precedence layer that is not `unset` (layers in increasing precedence). -/
def effectiveList (layers : List ListSetting) : ListSetting :=
  (layers.reverse.find? (· != .unset)).getD .unset

def effectiveTrust (layers : List (Option Bool)) : Bool :=
  ((layers.reverse.find? (·.isSome)).getD none).getD false

/-- May the exposed client IP / scheme differ from the peer's, given what was configured? -/
def mayDiffer (trust : Bool) (eff : ListSetting) (peer : Option Ip) : Bool :=
  trust && match peer with
    | none => false
    | some a =>
      match eff with
      | .unset => true
      | .allProxies => true
      | .configured items => items.any fun e => ProxyTrust.Spec.entryAdmits a (parseCidr e)

end Pithos.ProxySettings.Spec
