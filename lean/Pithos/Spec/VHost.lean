/-
Spec for C33.

(1) "A request sent virtual-hosted style acts on exactly the same bucket and key as the same
    request sent path style": the two observations (status, the recorded storage calls with their
    bucket and key) are equal — no modelling involved, see `Driver/C33.lean`.
(2) "Requests to the website endpoint or custom domains never change state": every storage.Storage
    method such a request reaches is read-only. The classification of the storage.Storage method
    set is written here by hand as an ALLOW-list: a method that is not listed as read-only counts
    as state-changing, so a method added to the interface later fails closed.
Core Lean only.
-/
import Pithos.Model.VHost

namespace Pithos.VHost.Spec
open Pithos.Ascii Pithos.VHost

/-- storage.Storage methods that only read. -/
def readOnlyStorageMethods : List String := [
  "ListBuckets", "HeadBucket",
  "GetBucketWebsiteConfiguration", "GetBucketCORSConfiguration", "GetBucketLifecycleConfiguration",
  "GetBucketNotificationConfiguration", "GetBucketVersioningConfiguration",
  "GetObjectTagging", "ListObjects", "ListObjectVersions", "HeadObject", "GetObject",
  "ListMultipartUploads", "ListParts"]

/-- storage.Storage methods that change state (bucket set, configurations, objects, uploads, tags,
storage class, or the storage's own lifecycle). -/
def mutatingStorageMethods : List String := [
  "Start", "Stop", "CreateBucket", "DeleteBucket",
  "PutBucketWebsiteConfiguration", "DeleteBucketWebsiteConfiguration",
  "PutBucketCORSConfiguration", "DeleteBucketCORSConfiguration",
  "PutBucketLifecycleConfiguration", "DeleteBucketLifecycleConfiguration",
  "PutBucketNotificationConfiguration", "PutBucketVersioningConfiguration",
  "PutObjectTagging", "DeleteObjectTagging",
  "PutObject", "CopyObject", "AppendObject", "DeleteObject", "DeleteObjects",
  "TransitionObjectStorageClass",
  "CreateMultipartUpload", "UploadPart", "UploadPartCopy", "CompleteMultipartUpload", "AbortMultipartUpload"]

def isReadOnly (m : String) : Bool := readOnlyStorageMethods.contains m

/-- The methods a website / custom-domain mux may register. -/
def safeHttpMethods : List String := ["GET", "HEAD"]

/-- **Which hosts are the S3 API**: the configured API endpoint itself or a true subdomain of it
(the host without its port ends in "." ++ endpoint). Every other host — the website endpoint's
subdomains, custom domains, hosts that merely CONTAIN or START WITH the endpoint, other letter
case, a trailing dot, IP literals — is a website host and must never change state. -/
def isApiHost (apiEp host : List Char) : Bool :=
  let h := stripPort host
  h == apiEp || (dotted apiEp).isSuffixOf h

end Pithos.VHost.Spec
