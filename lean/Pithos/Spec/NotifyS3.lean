/-
Spec for C22: which S3 event a committed object mutation stands for, and when a notification
rule selects an event (S3 "Event notification types and destinations" / "Configuring event
notifications using object key name filtering"):

* an event type in a rule is either a full name (`s3:ObjectCreated:Put`) or a family wildcard
  `base:*` that stands for every event whose name starts with `base:`;
* `prefix` / `suffix` filter rules restrict the object key; a rule selects an event iff one of
  its event types covers the event name and every filter rule holds;
* exactly one notification is due per selecting rule and committed mutation, none for a
  mutation that did not commit.
-/
import Pithos.Model.Notify

namespace Pithos.NotifyS3
open Pithos.Notify

/-- the object mutations of the storage API (the property's "object mutation") -/
inductive Mutation where
  | put | copy | completeMultipart | append
  | delete               -- an object (version) is removed
  | deleteMarkerCreated  -- a key-only delete in a versioned bucket
  | taggingPut | taggingDelete
  deriving Repr, DecidableEq

/-- the S3 event a committed mutation stands for. AppendObject is S3's PutObject with a write
offset; it creates or extends an object, so it is an ObjectCreated:Put. -/
def eventName : Mutation → Str
  | .put => evCreatedPut
  | .append => evCreatedPut
  | .copy => evCreatedCopy
  | .completeMultipart => evCreatedComplete
  | .delete => evRemovedDelete
  | .deleteMarkerCreated => evRemovedMarker
  | .taggingPut => evTaggingPut
  | .taggingDelete => evTaggingDelete

/-- what a call mutates: the objects (bucket, key) whose state changes, with the kind of change.
A copy mutates its DESTINATION only. -/
def mutated : Call → List (Mutation × Target)
  | .put t => [(.put, t)]
  | .copy _ dst => [(.copy, dst)]
  | .complete t => [(.completeMultipart, t)]
  | .delete t m => [(if m then .deleteMarkerCreated else .delete, t)]
  | .deleteObjects b ks _ => ks.map fun k => (if k.2 then .deleteMarkerCreated else .delete, { bucket := b, key := k.1 })   -- refused entries mutate nothing
  | .tagPut t => [(.taggingPut, t)]
  | .tagDel t => [(.taggingDelete, t)]
  | .append t => [(.append, t)]

/-- the events S3 semantics attach to a call: one per mutated object, named after the mutation,
addressed to — and evaluated against the notification configuration of — the bucket that was mutated -/
def specEvents (c : Call) : List Event :=
  (mutated c).map fun mt => { name := eventName mt.1, bucket := mt.2.bucket, key := mt.2.key }

/-- a configured event type covers an event name -/
def Covers (configured name : Str) : Prop :=
  configured = name ∨ ∃ base, configured = base ++ [':', '*'] ∧ (base ++ [':']) <+: name

/-- a rule selects an event -/
def Selects (r : Rule) (e : Event) : Prop :=
  (∃ c ∈ r.events, Covers c e.name) ∧
  ∀ f ∈ r.filters, (f.name = prefixName → f.value <+: e.key) ∧ (f.name = suffixName → f.value <:+ e.key)

/-- the rows S3 semantics demand for one mutation: one per selecting rule (plus the EventBridge
row of an EventBridge-enabled bucket) if it committed, none otherwise -/
def demanded (cfgOf : Str → Config) (committed : Bool) (e : Event) : List Row :=
  if committed then entriesFor (cfgOf e.bucket) e else []

end Pithos.NotifyS3
