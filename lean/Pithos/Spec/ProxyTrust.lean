/-
Spec for C32: when the client IP / scheme shown to the authorizer MAY differ from the TCP peer's.

"The client IP and scheme exposed to the authorizer differ from the TCP peer's only when forwarded
headers are trusted and the peer lies inside a configured trusted-proxy CIDR, or no CIDR list was
configured at all; a configured but unusable CIDR list never causes every peer to be trusted."

Read as: differ ⇒ trust ∧ the peer has an IP ∧ (no list configured ∨ some configured entry is a
valid CIDR that contains the peer). "Inside" is plain numeric prefix agreement in the 128-bit
space with IPv4 a.b.c.d = ::ffff:a.b.c.d, the most liberal reading (so the judge never demands
more than the statement): Go's `IPNet.Contains` is at least as strict (`contains_inside`).
Core Lean only.
-/
import Pithos.Model.ProxyTrust

namespace Pithos.ProxyTrust.Spec
open Pithos.NetParse Pithos.ProxyTrust

/-- The first `c.bits` of the 128 bits of `a` are those of the network number. -/
def inside (c : Cidr) (a : Ip) : Bool :=
  a / 2 ^ (128 - c.bits) == c.base / 2 ^ (128 - c.bits)

def entryAdmits (a : Ip) : Option Cidr → Bool
  | some c => inside c a
  | none => false

/-- May the exposed client IP / scheme differ from the peer's? -/
def mayDiffer (cfg : Config) (peer : Option Ip) : Bool :=
  cfg.trust && match peer with
    | none => false
    | some a => cfg.cidrs.isEmpty || cfg.cidrs.any (entryAdmits a)

/-- A list was configured, and not one entry of it is a CIDR. -/
def unusableList (cfg : Config) : Bool :=
  !cfg.cidrs.isEmpty && cfg.cidrs.all (·.isNone)

/-- The liberal reading used by the judge for entries that are not CIDRs: a bare address names at
most that single host (an implementation accepting it as such is not faulted; one that turns it
into a wider network is). The code as it stands ignores such entries, which is stricter. -/
def bareHostAdmits (entries : List (List Char)) (peer : Option Ip) : Bool :=
  match peer with
  | none => false
  | some a => entries.any fun e => (parseCidr e).isNone && parseIP e == some a

end Pithos.ProxyTrust.Spec
