/-
The specification C04 speaks of: an object store at the *byte level* in which every ETag and
checksum value is, by definition, the corresponding function of the object's current content.

  single part (PutObject, ranged CopyObject)   ETag = md5(content); all five checksums of the content
  multipart FULL_OBJECT                        ETag = md5(md5(p₁) ‖ … ‖ md5(p_N))-N;
                                               CRC32 / CRC32C / CRC64NVME of the concatenation
  multipart COMPOSITE                          same ETag; alg(alg(p₁) ‖ … ‖ alg(p_N))-N for
                                               CRC32, CRC32C, SHA-1, SHA-256
  appended                                     ETag = md5(md5(p₁) ‖ … ‖ md5(p_N))-N; no checksums
  a supplied checksum / Content-MD5 that differs from the computed value fails the write.

`lower` maps a byte-level request to the digest-level request the code model
(`Pithos.Model.ObjectChecksums`) sees. Core Lean only.
-/
import Pithos.Model.ObjectChecksums

namespace Pithos.ObjSums

inductive Kind where
  | single | multiFull | multiComposite | appended
  deriving DecidableEq, Repr

/-- An object as the spec sees it: the bytes of its parts, in order, and how it came to be. -/
structure GObj where
  parts : List Bytes
  kind  : Kind
  /-- assembled in place by CompleteMultipartUpload (see `Obj.oneBased`); only matters for which
  appends the code refuses -/
  oneBased : Bool := false
  deriving Repr

def GObj.content (g : GObj) : Bytes := g.parts.flatten

/-- `md5(md5(p₁) ‖ … ‖ md5(p_N))-N`. -/
def etagOfParts (H : Hashes) (parts : List Bytes) : Sum :=
  ⟨H.md5 (parts.flatMap H.md5), some parts.length⟩

/-- **The statement of C04 as a function**: the values an object must show, from its content. -/
def specVals (H : Hashes) (g : GObj) : Values :=
  match g.kind with
  | .single => (digestsOf H g.content).values
  | .multiFull =>
    if g.parts.isEmpty then { etag := some (etagOfParts H g.parts) } else
    { etag := some (etagOfParts H g.parts)
      crc32 := some ⟨Checksum.sumBE Checksum.crc32IEEE g.content, none⟩
      crc32c := some ⟨Checksum.sumBE Checksum.crc32C g.content, none⟩
      crc64 := some ⟨Checksum.sumBE Checksum.crc64NVME g.content, none⟩ }
  | .multiComposite =>
    { etag := some (etagOfParts H g.parts)
      crc32 := some ⟨Checksum.sumBE Checksum.crc32IEEE (g.parts.flatMap (Checksum.sumBE Checksum.crc32IEEE)), some g.parts.length⟩
      crc32c := some ⟨Checksum.sumBE Checksum.crc32C (g.parts.flatMap (Checksum.sumBE Checksum.crc32C)), some g.parts.length⟩
      sha1 := some ⟨H.sha1 (g.parts.flatMap H.sha1), some g.parts.length⟩
      sha256 := some ⟨H.sha256 (g.parts.flatMap H.sha256), some g.parts.length⟩ }
  | .appended => { etag := some (etagOfParts H g.parts) }

def specCType (g : GObj) : CType :=
  match g.kind with
  | .multiComposite => .composite
  | _ => .fullObject

structure GUpload where
  key   : Nat
  ctype : CType
  parts : List (Nat × Bytes)
  deriving Repr

structure GState where
  versioned : Bool := false
  objects : List (Nat × GObj) := []
  uploads : List (Nat × GUpload) := []
  deriving Repr

/-- Byte-level requests. -/
inductive BOp where
  | put (key : Nat) (body : Bytes) (input : Option Input)
  | create (uid key : Nat) (ct : CType)
  | uploadPart (uid n : Nat) (body : Bytes) (input : Option Input)
  | uploadPartCopy (uid n src start stop : Nat)
  | complete (uid : Nat) (input : Option Input)
  | append (key : Nat) (body : Bytes) (input : Option Input)
  | copy (src dst : Nat)
  | copyRange (src dst start stop : Nat)
  | head (key : Nat)
  | delete (key : Nat)
  deriving Repr

def slice (b : Bytes) (start stop : Nat) : Bytes := (b.drop start).take (stop - start)

def insertBody (n : Nat) (b : Bytes) : List (Nat × Bytes) → List (Nat × Bytes)
  | [] => [(n, b)]
  | (k, v) :: rest =>
    if n < k then (n, b) :: (k, v) :: rest
    else if n = k then (n, b) :: rest
    else (k, v) :: insertBody n b rest

def contiguousBodies (i : Nat) : List (Nat × Bytes) → Bool
  | [] => true
  | (k, _) :: rest => k == i && contiguousBodies (i + 1) rest

def kindOf : CType → Kind
  | .composite => .multiComposite
  | _ => .multiFull

def gAppendCollides (versioned : Bool) (old : Option GObj) : Bool :=
  !versioned && (match old with
    | some o => o.oneBased && !o.parts.isEmpty
    | none => false)

/-- The spec's transition: what each request does to contents, and what it answers. -/
def gstep (H : Hashes) (strict : Bool) (g : GState) : BOp → GState × Out
  | .put key body input =>
    let o : GObj := ⟨[body], .single, false⟩
    if badDigest strict input (specVals H o) then (g, .err .badDigest) else
    ({ g with objects := setKey key o g.objects }, .ok (specVals H o) none none)
  | .create uid key ct =>
    ({ g with uploads := setKey uid ⟨key, ct, []⟩ g.uploads }, .ok {} none none)
  | .uploadPart uid n body input =>
    match lookup uid g.uploads with
    | none => (g, .err .noSuchUpload)
    | some u =>
      if badDigest strict input (digestsOf H body).values then (g, .err .badDigest) else
      ({ g with uploads := setKey uid { u with parts := insertBody n body u.parts } g.uploads },
        .ok (digestsOf H body).values none none)
  | .uploadPartCopy uid n src start stop =>
    match lookup src g.objects with
    | none => (g, .err .noSuchKey)
    | some so =>
      if ¬ (start < stop ∧ stop ≤ so.content.length) then (g, .err .invalidRange) else
      match lookup uid g.uploads with
      | none => (g, .err .noSuchUpload)
      | some u =>
        let body := slice so.content start stop
        ({ g with uploads := setKey uid { u with parts := insertBody n body u.parts } g.uploads },
          .ok { etag := some ⟨H.md5 body, none⟩ } none none)
  | .complete uid input =>
    match lookup uid g.uploads with
    | none => (g, .err .noSuchUpload)
    | some u =>
      if ¬ contiguousBodies 1 u.parts then (g, .err .invalidSequence) else
      let o : GObj := ⟨u.parts.map (·.2), kindOf u.ctype, true⟩
      if badDigest strict input (specVals H o) then (g, .err .badDigest) else
      ({ g with objects := setKey u.key o g.objects, uploads := remove uid g.uploads },
        .ok (specVals H o) (some u.ctype) none)
  | .append key body input =>
    if badDigest strict input (digestsOf H body).values then (g, .err .badDigest) else
    -- a refusal of the code as it is (a defect of AppendObject, not of the values): see
    -- `appendCollides` in the model
    if gAppendCollides g.versioned (lookup key g.objects) then (g, .err .internal) else
    let oldParts := match lookup key g.objects with | some o => o.parts | none => []
    let o : GObj := ⟨oldParts ++ [body], .appended, false⟩
    ({ g with objects := setKey key o g.objects },
      .ok { etag := (specVals H o).etag } none (some o.content.length))
  | .copy src dst =>
    match lookup src g.objects with
    | none => (g, .err .noSuchKey)
    | some so =>
      ({ g with objects := setKey dst { so with oneBased := false } g.objects }, .ok { etag := (specVals H so).etag } none none)
  | .copyRange src dst start stop =>
    match lookup src g.objects with
    | none => (g, .err .noSuchKey)
    | some so =>
      let o : GObj := ⟨[slice so.content start stop], .single, false⟩
      ({ g with objects := setKey dst o g.objects }, .ok { etag := (specVals H o).etag } none none)
  | .head key =>
    match lookup key g.objects with
    | none => (g, .err .noSuchKey)
    | some o => (g, .ok (specVals H o) (some (specCType o)) (some o.content.length))
  | .delete key => ({ g with objects := remove key g.objects }, .ok {} none none)

/-- The digest-level request the code sees for a byte-level request (bodies are streamed through
`CalculateChecksumsStreaming`; copies stream the source range). -/
def lower (H : Hashes) (g : GState) : BOp → Op
  | .put key body input => .put key (digestsOf H body) input
  | .create uid key ct => .create uid key ct
  | .uploadPart uid n body input => .uploadPart uid n (digestsOf H body) input
  | .uploadPartCopy uid n src start stop =>
    let c := match lookup src g.objects with | some so => so.content | none => []
    .uploadPartCopy uid n src start stop (digestsOf H (slice c start stop))
  | .complete uid input => .complete uid input
  | .append key body input => .append key (digestsOf H body) input
  | .copy src dst => .copy src dst
  | .copyRange src dst start stop =>
    let c := match lookup src g.objects with | some so => so.content | none => []
    .copyRange src dst (digestsOf H (slice c start stop))
  | .head key => .head key
  | .delete key => .delete key

/-- How a spec object is stored by the code: part rows carry the part digests, the object row the
spec values. -/
def absObj (H : Hashes) (g : GObj) : Obj :=
  { vals := specVals H g, ctype := specCType g, size := g.content.length,
    parts := g.parts.map (fun b => (digestsOf H b).partMeta), oneBased := g.oneBased }

def absUpload (H : Hashes) (u : GUpload) : Upload :=
  { key := u.key, ctype := u.ctype, parts := u.parts.map fun p => (p.1, (digestsOf H p.2).partMeta) }

def absState (H : Hashes) (g : GState) : State :=
  { versioned := g.versioned
    objects := g.objects.map fun p => (p.1, absObj H p.2),
    uploads := g.uploads.map fun p => (p.1, absUpload H p.2) }

/-- Run a history on the code model and on the spec side by side. -/
def runBoth (H : Hashes) (strict : Bool) : State × GState → List BOp → List (Out × Out)
  | _, [] => []
  | (s, g), bop :: rest =>
    let r := step H strict s (lower H g bop)
    let q := gstep H strict g bop
    (r.2, q.2) :: runBoth H strict (r.1, q.1) rest

/-- The stored state and the contents after a history. -/
def finalBoth (H : Hashes) (strict : Bool) : State × GState → List BOp → State × GState
  | sg, [] => sg
  | (s, g), bop :: rest =>
    finalBoth H strict ((step H strict s (lower H g bop)).1, (gstep H strict g bop).1) rest

def Out.isOk : Out → Bool
  | .ok .. => true
  | .err _ => false

end Pithos.ObjSums
