/-
Spec for C31 — which operation name may stand for which effect.

Hand-written and short on purpose: this file is the *meaning* of "an operation name that covers
that effect". It refers to the two enumerations regenerated from /repo (`Op` = the
`authorization.Operation*` constants, `SM` = the methods of `storage.Storage`); every function is a
total `match` without a catch-all on the classifying side, so a new storage method or operation in
/repo stops this file from compiling until somebody has decided what it means.
-/
import Pithos.Gen.Routes

namespace Pithos.Authz
open Pithos.Gen.Routes

/-- Storage methods that change state. -/
def mutating : SM → Bool
  | .CreateBucket | .DeleteBucket => true
  | .PutBucketVersioningConfiguration => true
  | .PutBucketWebsiteConfiguration | .DeleteBucketWebsiteConfiguration => true
  | .PutBucketCORSConfiguration | .DeleteBucketCORSConfiguration => true
  | .PutBucketLifecycleConfiguration | .DeleteBucketLifecycleConfiguration => true
  | .PutBucketNotificationConfiguration => true
  | .PutObject | .CopyObject | .AppendObject | .DeleteObject | .DeleteObjects => true
  | .TransitionObjectStorageClass => true
  | .CreateMultipartUpload | .UploadPart | .UploadPartCopy | .CompleteMultipartUpload
  | .AbortMultipartUpload => true
  | .PutObjectTagging | .DeleteObjectTagging => true
  | .ListBuckets | .HeadBucket | .GetBucketVersioningConfiguration
  | .GetBucketWebsiteConfiguration | .GetBucketCORSConfiguration
  | .GetBucketLifecycleConfiguration | .GetBucketNotificationConfiguration
  | .ListObjects | .ListObjectVersions | .HeadObject | .GetObject
  | .ListMultipartUploads | .ListParts | .GetObjectTagging => false

/-- Storage methods that read object *data* (content bytes): GetObject, and the read side of the
two server-side copies. Metadata, listings, tags and bucket configuration are not object data. -/
def readsObjectData : SM → Bool
  | .GetObject | .CopyObject | .UploadPartCopy => true
  | .CreateBucket | .DeleteBucket | .ListBuckets | .HeadBucket
  | .GetBucketVersioningConfiguration | .PutBucketVersioningConfiguration
  | .GetBucketWebsiteConfiguration | .PutBucketWebsiteConfiguration | .DeleteBucketWebsiteConfiguration
  | .GetBucketCORSConfiguration | .PutBucketCORSConfiguration | .DeleteBucketCORSConfiguration
  | .GetBucketLifecycleConfiguration | .PutBucketLifecycleConfiguration | .DeleteBucketLifecycleConfiguration
  | .GetBucketNotificationConfiguration | .PutBucketNotificationConfiguration
  | .ListObjects | .ListObjectVersions | .HeadObject | .PutObject | .AppendObject
  | .DeleteObject | .DeleteObjects | .TransitionObjectStorageClass
  | .CreateMultipartUpload | .UploadPart | .CompleteMultipartUpload | .AbortMultipartUpload
  | .ListMultipartUploads | .ListParts
  | .GetObjectTagging | .PutObjectTagging | .DeleteObjectTagging => false

/-- The effects the property speaks of: "reads object data or changes any state". -/
def effectful (m : SM) : Bool := mutating m || readsObjectData m

/-- `coversV op m versioned`: a request authorized as `op` may perform storage method `m`;
`versioned` = the call addresses an explicit object version (a VersionID option is passed).
The six `…Version…` operations cover exactly the calls that name a version, their plain
counterparts exactly those that do not. A copy is ONE operation covering ONE storage method, which
acts on destination and source: both must be in the request that was authorized (checked next to
this table, by argument equality). -/
def coversV : Op → SM → Bool → Bool
  | .ListBuckets, .ListBuckets, _ => true
  | .HeadBucket, .HeadBucket, _ => true
  | .CreateBucket, .CreateBucket, _ => true
  | .DeleteBucket, .DeleteBucket, _ => true
  | .ListObjects, .ListObjects, _ => true
  | .ListObjectVersions, .ListObjectVersions, _ => true
  | .ListMultipartUploads, .ListMultipartUploads, _ => true
  | .ListParts, .ListParts, _ => true
  | .HeadObject, .HeadObject, false => true
  | .HeadObjectVersion, .HeadObject, true => true
  | .GetObject, .GetObject, false => true
  | .GetObjectVersion, .GetObject, true => true
  | .PutObject, .PutObject, _ => true
  | .CopyObject, .CopyObject, _ => true
  | .AppendObject, .AppendObject, _ => true
  | .DeleteObject, .DeleteObject, false => true
  | .DeleteObjectVersion, .DeleteObject, true => true
  | .DeleteObjects, .DeleteObjects, _ => true
  | .CreateMultipartUpload, .CreateMultipartUpload, _ => true
  | .UploadPart, .UploadPart, _ => true
  | .UploadPartCopy, .UploadPartCopy, _ => true
  | .CompleteMultipartUpload, .CompleteMultipartUpload, _ => true
  | .AbortMultipartUpload, .AbortMultipartUpload, _ => true
  | .GetBucketCORS, .GetBucketCORSConfiguration, _ => true
  | .PutBucketCORS, .PutBucketCORSConfiguration, _ => true
  | .DeleteBucketCORS, .DeleteBucketCORSConfiguration, _ => true
  | .GetBucketWebsite, .GetBucketWebsiteConfiguration, _ => true
  | .PutBucketWebsite, .PutBucketWebsiteConfiguration, _ => true
  | .DeleteBucketWebsite, .DeleteBucketWebsiteConfiguration, _ => true
  | .GetBucketVersioning, .GetBucketVersioningConfiguration, _ => true
  | .PutBucketVersioning, .PutBucketVersioningConfiguration, _ => true
  | .GetBucketLifecycle, .GetBucketLifecycleConfiguration, _ => true
  | .PutBucketLifecycle, .PutBucketLifecycleConfiguration, _ => true
  | .DeleteBucketLifecycle, .DeleteBucketLifecycleConfiguration, _ => true
  | .GetBucketNotification, .GetBucketNotificationConfiguration, _ => true
  | .PutBucketNotification, .PutBucketNotificationConfiguration, _ => true
  | .GetObjectTagging, .GetObjectTagging, false => true
  | .GetObjectVersionTagging, .GetObjectTagging, true => true
  | .PutObjectTagging, .PutObjectTagging, false => true
  | .PutObjectVersionTagging, .PutObjectTagging, true => true
  | .DeleteObjectTagging, .DeleteObjectTagging, false => true
  | .DeleteObjectVersionTagging, .DeleteObjectTagging, true => true
  | _, _, _ => false

/-- The version-blind table used on the static route table (which cannot see whether a VersionID
option is passed; the driver checks the versioned form on what really happened). -/
def covers (op : Op) (m : SM) : Bool := coversV op m false || coversV op m true

/-- The operations that exist only to address an explicit version. -/
def versionOp : Op → Bool
  | .HeadObjectVersion | .GetObjectVersion | .DeleteObjectVersion
  | .GetObjectVersionTagging | .PutObjectVersionTagging | .DeleteObjectVersionTagging => true
  | _ => false

/-- `isReadOnly` exactly as the Lua authorizer computes it: `true` for the operations of the
`true` case of its switch (regenerated into `luaReadOnlyTrue`), `false` for everything else. -/
def isReadOnly (op : Op) : Bool := luaReadOnlyTrue.contains op

/-- Which per-item hook is responsible for the items a storage listing / bulk call produces. -/
def itemHookOf : SM → Option Hook
  | .ListBuckets => some .listBucket
  | .ListObjects => some .listObject
  | .ListObjectVersions => some .listObject   -- the listed things are object keys
  | .ListMultipartUploads => some .listMultipartUpload
  | .ListParts => some .listPart
  | .DeleteObjects => some .deleteObjectEntry
  | _ => none

end Pithos.Authz
