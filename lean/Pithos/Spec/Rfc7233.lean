/-
RFC 7233 (HTTP/1.1 Range Requests) — the byte-range semantics property C05 speaks about,
written on plain lists (core Lean only).

  Range            = "bytes=" byte-range-set
  byte-range-set   = 1#( byte-range-spec / suffix-byte-range-spec )      (RFC 7230 §7 list rule,
                     sender form: elements separated by  OWS "," OWS, no empty elements)
  byte-range-spec  = first-byte-pos "-" [ last-byte-pos ]                  (1*DIGIT each, unbounded)
  suffix-byte-range-spec = "-" suffix-length

§2.1: a byte-range-spec whose last-byte-pos is present and less than its first-byte-pos is
*syntactically invalid*; a header with such a member is not a valid Range header.
`parseHeader h = some specs` is the formal meaning of "h is a syntactically valid Range header"
used by C05; every other header value (other units, the case variants of the unit, empty list
elements a lenient recipient would skip, signs, …) is outside the property and is not judged.

Semantics (§2.1, §4.1, §4.4) on a representation `content` of length `size`:
  a-b  selects [a, min b (size-1)],  a-  selects [a, size-1],  -n  selects the last min n size bytes;
  a-b / a- is satisfiable iff a < size;  -n iff n > 0 (and, see `satisfiable`, size > 0);
  no member satisfiable ⇒ 416; otherwise 206 with the satisfiable members in request order
  (a single part: Content-Range + body; several: multipart/byteranges, one Content-Range each).
-/
namespace Pithos.Rfc7233

/-! ## tokenisers (shared with the model of the Go code, which uses `strings.Split` & co.) -/

/-- Text before and after the FIRST `sep`; `none` when `sep` does not occur. -/
def splitFirst (sep : Char) : List Char → Option (List Char × List Char)
  | [] => none
  | c :: cs =>
    if c = sep then some ([], cs)
    else match splitFirst sep cs with
      | none => none
      | some (a, b) => some (c :: a, b)

/-- All pieces between occurrences of `sep` (always at least one piece). -/
def splitOn (sep : Char) : List Char → List (List Char)
  | [] => [[]]
  | c :: cs =>
    if c = sep then [] :: splitOn sep cs
    else match splitOn sep cs with
      | [] => [[c]]
      | p :: ps => (c :: p) :: ps

def trimLeft (p : Char → Bool) (l : List Char) : List Char := l.dropWhile p
def trimRight (p : Char → Bool) (l : List Char) : List Char := (l.reverse.dropWhile p).reverse
/-- Remove the longest prefix and suffix whose characters satisfy `p`. -/
def trim (p : Char → Bool) (l : List Char) : List Char := trimRight p (trimLeft p l)

def isDigit (c : Char) : Bool := decide (48 ≤ c.toNat) && decide (c.toNat ≤ 57)

def digitVal (c : Char) : Nat := c.toNat - 48

/-- Value of a digit string, most significant digit first. -/
def decimal (ds : List Char) : Nat := ds.foldl (fun n c => n * 10 + digitVal c) 0

/-- `1*DIGIT`. -/
def allDigits (s : List Char) : Bool := !s.isEmpty && s.all isDigit

example : splitFirst '-' ['1', '2', '-', '3', '-', '4'] = some (['1', '2'], ['3', '-', '4']) := by decide
example : splitFirst '-' ['1', '2'] = none := by decide
example : splitOn ',' ['a', ',', ',', 'b'] = [['a'], [], ['b']] := by decide
example : splitOn ',' [] = [[]] := by decide
example : trim (· = ' ') [' ', 'a', ' ', 'b', ' ', ' '] = ['a', ' ', 'b'] := by decide
example : decimal ['0', '1', '2', '0'] = 120 := by decide

/-! ## syntax -/

/-- Optional whitespace: SP / HTAB. -/
def isOWS (c : Char) : Bool := c = ' ' || c = '\t'

inductive RangeSpec where
  /-- `a-b` (valid only when a ≤ b) -/
  | fromTo (a b : Nat)
  /-- `a-` -/
  | from_ (a : Nat)
  /-- `-n` -/
  | suffix (n : Nat)
  deriving Repr, DecidableEq

def digits? (s : List Char) : Option Nat := if allDigits s then some (decimal s) else none

/-- One list element, surrounding OWS removed. -/
def parseElem (e : List Char) : Option RangeSpec :=
  match splitFirst '-' (trim isOWS e) with
  | none => none
  | some (s0, s1) =>
    if s0.isEmpty then
      match digits? s1 with
      | some n => some (.suffix n)
      | none => none
    else
      match digits? s0 with
      | none => none
      | some a =>
        if s1.isEmpty then some (.from_ a)
        else match digits? s1 with
          | none => none
          | some b => if a ≤ b then some (.fromTo a b) else none

def mapMOpt {β γ : Type} (f : β → Option γ) : List β → Option (List γ)
  | [] => some []
  | x :: xs =>
    match f x with
    | none => none
    | some y => match mapMOpt f xs with
      | none => none
      | some ys => some (y :: ys)

def bytesUnit : List Char := ['b', 'y', 't', 'e', 's']

/-- The byte-range-set neither starts nor ends with whitespace (OWS is only allowed around the
commas). -/
def edgeOK (set : List Char) : Bool :=
  match set.head?, set.getLast? with
  | some a, some b => !isOWS a && !isOWS b
  | _, _ => false

/-- `some specs` iff `h` is a syntactically valid `Range: bytes=…` header value. -/
def parseHeader (h : List Char) : Option (List RangeSpec) :=
  match splitFirst '=' h with
  | none => none
  | some (u, set) =>
    if u = bytesUnit && edgeOK set then mapMOpt parseElem (splitOn ',' set) else none

def validSyntax (h : List Char) : Bool := (parseHeader h).isSome

/-! ## semantics -/

/-- §2.1. For `-n` on an empty representation the RFC text calls the set satisfiable although no
`Content-Range` can describe an empty slice; C05 reads every byte range on a 0-length
representation as unsatisfiable (the judge abstains on exactly this corner). With this reading a
satisfiable range always selects at least one byte. -/
def satisfiable (size : Nat) : RangeSpec → Bool
  | .fromTo a _ => decide (a < size)
  | .from_ a => decide (a < size)
  | .suffix n => decide (0 < n) && decide (0 < size)

/-- First and last byte position (inclusive) selected by a satisfiable range. -/
def resolve (size : Nat) : RangeSpec → Nat × Nat
  | .fromTo a b => (a, min b (size - 1))
  | .from_ a => (a, size - 1)
  | .suffix n => (size - min n size, size - 1)

/-- The bytes at positions first … last (inclusive). -/
def slice {α : Type} (content : List α) (first last : Nat) : List α :=
  (content.drop first).take (last + 1 - first)

/-- One delivered range: `Content-Range: bytes first-last/total` and its bytes. -/
structure Part (α : Type) where
  first : Nat
  last : Nat
  total : Nat
  body : List α
  deriving Repr, DecidableEq

inductive Response (α : Type) where
  /-- 416 Range Not Satisfiable -/
  | unsatisfiable
  /-- 206 Partial Content with these parts (one ⇒ single-part response) -/
  | partialContent (parts : List (Part α))
  deriving Repr, DecidableEq

def mkPart {α : Type} (content : List α) (s : RangeSpec) : Part α :=
  let r := resolve content.length s
  ⟨r.1, r.2, content.length, slice content r.1 r.2⟩

/-- The response RFC 7233 prescribes for a valid range set on `content`: unsatisfiable members
are dropped; 416 iff none is left. -/
def eval {α : Type} (specs : List RangeSpec) (content : List α) : Response α :=
  let sat := specs.filter (satisfiable content.length)
  if sat.isEmpty then .unsatisfiable else .partialContent (sat.map (mkPart content))

example : parseHeader ['b', 'y', 't', 'e', 's', '=', '0', '-', '1', ' ', ',', '\t', '-', '5', ',', '7', '-'] =
    some [.fromTo 0 1, .suffix 5, .from_ 7] := by decide
example : parseHeader ['b', 'y', 't', 'e', 's', '=', '5', '-', '2'] = none := by decide
example : parseHeader ['b', 'y', 't', 'e', 's', '=', '0', '-', '1', ',', ','] = none := by decide
example : eval [.fromTo 2 100, .from_ 9, .suffix 2] [10, 11, 12, 13, 14] =
    .partialContent [⟨2, 4, 5, [12, 13, 14]⟩, ⟨3, 4, 5, [13, 14]⟩] := by decide
example : eval [.from_ 5, .suffix 0] [10, 11, 12, 13, 14] = .unsatisfiable := by decide

end Pithos.Rfc7233
