/-
Spec for C25: when S3 lifecycle semantics allow an action.

This file does not look at how the reconciler finds its candidates. It says, for a *true* version
history of one key (newest first, each version with its true creation instant), a rule set and a
clock, whether an action on a given version is due:

* filters: a rule selects an object iff EVERY predicate present in it holds — key prefix(es), all
  tag predicates, size strictly greater than `ObjectSizeGreaterThan`, strictly less than
  `ObjectSizeLessThan`;
* `Expiration.Days = n`: the current version becomes eligible at the first midnight UTC strictly
  after `created + n days`; `Expiration.Date = d`: at `d`;
* `Transition` likewise, towards its `StorageClass`;
* a version is *noncurrent* from the instant its successor (the next newer version or delete
  marker of the key) was created; `NoncurrentDays = n` makes it eligible at the first midnight UTC
  strictly after `successor.created + n days`; `NewerNoncurrentVersions = N` additionally requires
  at least `N` noncurrent versions newer than it (those `N` are retained);
* `ExpiredObjectDeleteMarker`: a current delete marker with zero noncurrent versions (it is the
  only version of its key) is eligible at once;
* `AbortIncompleteMultipartUpload.DaysAfterInitiation = n`: first midnight UTC strictly after
  `initiated + n days`; only the prefix selects uploads.
Disabled rules never make anything eligible.
-/
import Pithos.Model.Lifecycle

namespace Pithos.LifecycleS3
open Pithos.Lifecycle

/-- first midnight UTC strictly after `t + n days` (time in ns) — stated independently of the model -/
def s3Due (t n : Int) : Int := ((t + n * 86400000000000) / 86400000000000 + 1) * 86400000000000

/-- every prefix mentioned by the rule -/
def rulePrefixes (r : Rule) : List Bytes :=
  r.pfx.toList ++
  (match r.filter with
   | none => []
   | some f => f.pfx.toList ++ (match f.and with | some a => a.pfx.toList | none => []))

def ruleGts (r : Rule) : List Int :=
  match r.filter with
  | none => []
  | some f => f.gt.toList ++ (match f.and with | some a => a.gt.toList | none => [])

def ruleLts (r : Rule) : List Int :=
  match r.filter with
  | none => []
  | some f => f.lt.toList ++ (match f.and with | some a => a.lt.toList | none => [])

def ruleTags (r : Rule) : Tags :=
  match r.filter with
  | none => []
  | some f => f.tag.toList ++ (match f.and with | some a => a.tags | none => [])

def prefixSelects (r : Rule) (key : Bytes) : Bool := (rulePrefixes r).all (·.isPrefixOf key)

/-- S3 filter semantics: every predicate present must hold. -/
def selects (r : Rule) (key : Bytes) (size : Int) (tags : Tags) : Bool :=
  prefixSelects r key &&
  (ruleGts r).all (fun g => g < size) &&
  (ruleLts r).all (fun l => size < l) &&
  (ruleTags r).all (fun t => tagLookup tags t.1 == some t.2)

/-- a version of the true history -/
structure TVer where
  vid : Bytes
  dm : Bool
  created : Int
  size : Int
  etag : Bytes
  cls : Bytes
  tags : Tags
  deriving Repr, DecidableEq

/-- current-version expiration of a (non-delete-marker) current version created at `created` -/
def expirationDueBy (r : Rule) (now created : Int) : Bool :=
  match r.expiration with
  | none => false
  | some e =>
    (match e.date with | some d => d ≤ now | none => false) ||
    (match e.days with | some n => s3Due created n ≤ now | none => false)

def expireJustified (rules : List Rule) (now : Int) (key : Bytes) (size : Int) (tags : Tags) (created : Int) : Bool :=
  rules.any fun r => r.enabled && selects r key size tags && expirationDueBy r now created

def transitionDueBy (t : Transition) (now created : Int) : Bool :=
  (match t.date with | some d => d ≤ now | none => false) ||
  (match t.days with | some n => s3Due created n ≤ now | none => false)

def transitionJustified (rules : List Rule) (now : Int) (key : Bytes) (size : Int) (tags : Tags)
    (created : Int) (target : Bytes) : Bool :=
  rules.any fun r => r.enabled && selects r key size tags &&
    r.transitions.any fun t => t.cls == target && transitionDueBy t now created

/-- `since` = creation instant of the successor, `newer` = number of noncurrent versions newer -/
def ncExpirationDueBy (r : Rule) (now since : Int) (newer : Nat) : Bool :=
  match r.ncExpiration with
  | none => false
  | some e =>
    (match e.days with | some n => s3Due since n ≤ now | none => false) &&
    (match e.newer with | some k => k ≤ (newer : Int) | none => true)

def ncExpireJustified (rules : List Rule) (now : Int) (key : Bytes) (size : Int) (tags : Tags)
    (since : Int) (newer : Nat) : Bool :=
  rules.any fun r => r.enabled && selects r key size tags && ncExpirationDueBy r now since newer

def ncTransitionDueBy (t : NcTransition) (now since : Int) (newer : Nat) : Bool :=
  (match t.days with | some n => s3Due since n ≤ now | none => false) &&
  (match t.newer with | some k => k ≤ (newer : Int) | none => true)

def ncTransitionJustified (rules : List Rule) (now : Int) (key : Bytes) (size : Int) (tags : Tags)
    (since : Int) (newer : Nat) (target : Bytes) : Bool :=
  rules.any fun r => r.enabled && selects r key size tags &&
    r.ncTransitions.any fun t => t.cls == target && ncTransitionDueBy t now since newer

/-- expired object delete marker: the rule part (the "only version of its key" part is a fact
about the history, checked by the caller) -/
def dmJustified (rules : List Rule) (key : Bytes) : Bool :=
  rules.any fun r => r.enabled && prefixSelects r key &&
    (match r.expiration with | some e => e.dm == some true | none => false)

def abortJustified (rules : List Rule) (now : Int) (key : Bytes) (initiated : Int) : Bool :=
  rules.any fun r => r.enabled && prefixSelects r key &&
    (match r.abort with | some (some n) => s3Due initiated n ≤ now | _ => false)

/-! ### shape of a rule as `ValidateBucketLifecycleConfiguration` accepts it (filter part only) -/

def optCount {α} (o : Option α) : Nat := if o.isSome then 1 else 0

/-- "Rule cannot specify both Filter and Prefix"; "Filter must have exactly one of …" -/
def filterWellFormed (r : Rule) : Bool :=
  match r.filter with
  | none => true
  | some f => r.pfx.isNone &&
      optCount f.pfx + optCount f.tag + optCount f.gt + optCount f.lt + optCount f.and ≤ 1

end Pithos.LifecycleS3
