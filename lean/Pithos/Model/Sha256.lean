/-
SHA-256 (FIPS 180-4), executable; used by the C17 driver to check frame hashes the way
erasurecoding.go does (`sha256.Sum256(payload)`). The theorems treat the hash as a parameter.
Core Lean only.
-/
namespace Pithos.Sha256

def k : Array UInt32 := #[
  0x428a2f98, 0x71374491, 0xb5c0fbcf, 0xe9b5dba5, 0x3956c25b, 0x59f111f1, 0x923f82a4, 0xab1c5ed5,
  0xd807aa98, 0x12835b01, 0x243185be, 0x550c7dc3, 0x72be5d74, 0x80deb1fe, 0x9bdc06a7, 0xc19bf174,
  0xe49b69c1, 0xefbe4786, 0x0fc19dc6, 0x240ca1cc, 0x2de92c6f, 0x4a7484aa, 0x5cb0a9dc, 0x76f988da,
  0x983e5152, 0xa831c66d, 0xb00327c8, 0xbf597fc7, 0xc6e00bf3, 0xd5a79147, 0x06ca6351, 0x14292967,
  0x27b70a85, 0x2e1b2138, 0x4d2c6dfc, 0x53380d13, 0x650a7354, 0x766a0abb, 0x81c2c92e, 0x92722c85,
  0xa2bfe8a1, 0xa81a664b, 0xc24b8b70, 0xc76c51a3, 0xd192e819, 0xd6990624, 0xf40e3585, 0x106aa070,
  0x19a4c116, 0x1e376c08, 0x2748774c, 0x34b0bcb5, 0x391c0cb3, 0x4ed8aa4a, 0x5b9cca4f, 0x682e6ff3,
  0x748f82ee, 0x78a5636f, 0x84c87814, 0x8cc70208, 0x90befffa, 0xa4506ceb, 0xbef9a3f7, 0xc67178f2]

def rotr (x : UInt32) (n : UInt32) : UInt32 := (x >>> n) ||| (x <<< (32 - n))

def processBlock (h : Array UInt32) (blk : Array UInt8) : Array UInt32 := Id.run do
  let mut w : Array UInt32 := Array.mkEmpty 64
  for i in [0:16] do
    let b0 := (blk.getD (4*i) 0).toUInt32
    let b1 := (blk.getD (4*i+1) 0).toUInt32
    let b2 := (blk.getD (4*i+2) 0).toUInt32
    let b3 := (blk.getD (4*i+3) 0).toUInt32
    w := w.push ((b0 <<< 24) ||| (b1 <<< 16) ||| (b2 <<< 8) ||| b3)
  for i in [16:64] do
    let w15 := w.getD (i-15) 0
    let w2 := w.getD (i-2) 0
    let s0 := rotr w15 7 ^^^ rotr w15 18 ^^^ (w15 >>> 3)
    let s1 := rotr w2 17 ^^^ rotr w2 19 ^^^ (w2 >>> 10)
    w := w.push (w.getD (i-16) 0 + s0 + w.getD (i-7) 0 + s1)
  let mut a := h.getD 0 0
  let mut b := h.getD 1 0
  let mut c := h.getD 2 0
  let mut d := h.getD 3 0
  let mut e := h.getD 4 0
  let mut f := h.getD 5 0
  let mut g := h.getD 6 0
  let mut hh := h.getD 7 0
  for i in [0:64] do
    let s1 := rotr e 6 ^^^ rotr e 11 ^^^ rotr e 25
    let ch := (e &&& f) ^^^ ((~~~ e) &&& g)
    let t1 := hh + s1 + ch + k.getD i 0 + w.getD i 0
    let s0 := rotr a 2 ^^^ rotr a 13 ^^^ rotr a 22
    let mj := (a &&& b) ^^^ (a &&& c) ^^^ (b &&& c)
    let t2 := s0 + mj
    hh := g; g := f; f := e; e := d + t1; d := c; c := b; b := a; a := t1 + t2
  return #[h.getD 0 0 + a, h.getD 1 0 + b, h.getD 2 0 + c, h.getD 3 0 + d,
           h.getD 4 0 + e, h.getD 5 0 + f, h.getD 6 0 + g, h.getD 7 0 + hh]

def sum (msg : List UInt8) : List UInt8 := Id.run do
  let m := msg.toArray
  let bitLen : Nat := m.size * 8
  let mut p := m.push 0x80
  while p.size % 64 != 56 do p := p.push 0
  for i in [0:8] do
    p := p.push (UInt8.ofNat (bitLen >>> (8 * (7 - i))))
  let mut h : Array UInt32 := #[0x6a09e667, 0xbb67ae85, 0x3c6ef372, 0xa54ff53a, 0x510e527f, 0x9b05688c, 0x1f83d9ab, 0x5be0cd19]
  for b in [0:p.size / 64] do
    h := processBlock h (p.extract (64*b) (64*b+64))
  return h.toList.flatMap fun (x : UInt32) => [(x >>> 24).toUInt8, (x >>> 16).toUInt8, (x >>> 8).toUInt8, x.toUInt8]

end Pithos.Sha256
