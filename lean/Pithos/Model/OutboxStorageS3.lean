/-
The storage outbox over the S3 storage model: the `Inner` instance (inner storage =
`Pithos.S3.step`) and the `Policy` read off a table of the shape of the T1 table
`Pithos.Gen.OutboxStorage` (which wait function every overridden method calls, whether it has a
queue path). The table is a parameter, so the same definitions serve the code as it is
(`Gen.OutboxStorage.methods`) and hypothetical variants (the negation witness in Props/C21).
-/
import Pithos.Model.OutboxStorage
import Pithos.Model.S3
import Pithos.Gen.OutboxStorage

namespace Pithos.OutboxStorage
open Pithos.S3

abbrev Method := Pithos.Gen.OutboxStorage.Method

/-- The storage.Storage method an S3-model operation goes through. -/
def methodOf : S3.Op → String
  | .mkb _ => "CreateBucket"
  | .rmb _ => "DeleteBucket"
  | .setVer .. => "PutBucketVersioningConfiguration"
  | .put .. => "PutObject"
  | .get .. => "GetObject"
  | .head .. => "HeadObject"
  | .del .. => "DeleteObject"
  | .copy .. => "CopyObject"
  | .append .. => "AppendObject"
  | .mpu .. => "CreateMultipartUpload"
  | .uploadPart .. => "UploadPart"
  | .complete .. => "CompleteMultipartUpload"
  | .abort .. => "AbortMultipartUpload"
  | .getTags .. => "GetObjectTagging"
  | .putTags .. => "PutObjectTagging"
  | .delTags .. => "DeleteObjectTagging"
  | .transition .. => "TransitionObjectStorageClass"
  | .list _ => "ListObjects"
  | .listVersions _ => "ListObjectVersions"
  | .listBuckets => "ListBuckets"

/-- (bucket, key) an operation addresses; `src` selects the copy source. Bucket-lifecycle
operations have key "". -/
def addrOf (src : Bool) : S3.Op → String × String
  | .mkb b => (b, "")
  | .rmb b => (b, "")
  | .setVer b _ => (b, "")
  | .put b k .. => (b, k)
  | .get b k _ => (b, k)
  | .head b k _ => (b, k)
  | .del b k .. => (b, k)
  | .copy sb sk _ db dk .. => if src then (sb, sk) else (db, dk)
  | .append b k .. => (b, k)
  | .mpu b k _ => (b, k)
  | .uploadPart b k .. => (b, k)
  | .complete b k .. => (b, k)
  | .abort b k _ => (b, k)
  | .getTags b k _ => (b, k)
  | .putTags b k .. => (b, k)
  | .delTags b k _ => (b, k)
  | .transition b k .. => (b, k)
  | .list b => (b, "")
  | .listVersions b => (b, "")
  | .listBuckets => ("", "")

/-- One wait call of the table as a scope for the given operation; `none` = unrecognised. -/
def scopeOfWait (op : S3.Op) (w : String × String) : Option Scope :=
  let src := w.2.startsWith "src"
  let a := addrOf src op
  match w.1 with
  | "waitForAllOutboxEntriesOfBucketAndKeyIncludingGlobal" =>
    if w.2 == "bucketName, key" || w.2 == "srcBucket, srcKey" || w.2 == "dstBucket, dstKey"
    then some (.keyAndGlobal a.1 a.2) else none
  | "waitForAllOutboxEntriesOfBucket" => if w.2 == "bucketName" then some (.bucket a.1) else none
  | "waitForGlobalOutboxEntriesOfBucket" => if w.2 == "bucketName" then some (.bucketGlobal a.1) else none
  | "waitForGlobalOutboxEntries" => if w.2 == "" then some .global else none
  | _ => none

def recognisedWait (w : String × String) : Bool := (scopeOfWait .listBuckets w).isSome

def findMethod (tbl : List Method) (name : String) : Option Method := tbl.find? (·.name == name)

def scopesOf (tbl : List Method) (op : S3.Op) : List Scope :=
  match findMethod tbl (methodOf op) with
  | some m => m.waits.filterMap (scopeOfWait op)
  | none => []

def hasQueuePath (tbl : List Method) (name : String) : Bool :=
  match findMethod tbl name with
  | some m => !m.queueOps.isEmpty
  | none => false

def alwaysQueues (tbl : List Method) (name : String) : Bool :=
  match findMethod tbl name with
  | some m => !m.queueOps.isEmpty && !m.through
  | none => false

def verOf (st : S3.State) (b : String) : Option Versioning := (findBucket st b).map (·.ver)

/-- Is the operation queued? Mirrors outbox.go:
  CreateBucket / DeleteBucket: always;
  PutObject: unless `opts.IfNoneMatchStar || opts.IfMatchETag != nil`, and unless the inner bucket's
    versioning status — read without waiting — is Enabled (a missing bucket queues);
  DeleteObject: unless `opts.IfMatchETag != nil`, and unless the inner bucket has any versioning
    status (Enabled or Suspended). -/
def queuesS3 (tbl : List Method) (st : S3.State) : S3.Op → Bool
  | .mkb _ => alwaysQueues tbl "CreateBucket"
  | .rmb _ => alwaysQueues tbl "DeleteBucket"
  | .put b _ _ _ inm im =>
    hasQueuePath tbl "PutObject" && !(inm || im != .none) && !(verOf st b == some .enabled)
  | .del b _ _ im =>
    hasQueuePath tbl "DeleteObject" && im == .none &&
      !(verOf st b == some .enabled || verOf st b == some .suspended)
  | _ => false

/-- What a queued operation answers at once. -/
def ackS3 : S3.Op → S3.Out
  | .put _ _ body .. => .wrote none (singleETag body)
  | .del _ _ vid _ => .deleted vid false
  | _ => .unit

/-- An operation as the outbox sees it: the storage operation plus whether the outbox layer's own
validation of the call fails (`bad`): the client-supplied checksum / ETag does not match the
received body, or the body cannot be read to its end. The S3 model has no checksums; a `bad`
operation is rejected by whichever layer validates it (the outbox on the queue path, the inner
storage on the write-through path) and leaves no trace. -/
structure COp where
  op : S3.Op
  bad : Bool := false
  deriving Inhabited

def ok (op : S3.Op) : COp := { op := op }

def innerS3 (q : Quirks) : Inner S3.State COp S3.Out :=
  { step := fun t c => if c.bad then (t, .err .other) else S3.step q t c.op
    addr := fun c => addrOf false c.op
    ack := fun c => ackS3 c.op
    rejected := fun _ => .err .other }

def policyS3 (tbl : List Method) : Policy S3.State COp :=
  { queues := fun st c => queuesS3 tbl st c.op
    scopes := fun c => scopesOf tbl c.op
    rejects := fun c => c.bad }

/-- The code as it is. -/
def policyCode : Policy S3.State COp := policyS3 Pithos.Gen.OutboxStorage.methods

-- ---------------------------------------------------------------- required scopes (specification side)

/-- Scope kinds, ordered by what they cover. -/
inductive Kind where
  | keyAndGlobal | bucket | bucketGlobal | global
  deriving Repr, DecidableEq

def kindOfWait (w : String × String) : Option Kind :=
  match w.1 with
  | "waitForAllOutboxEntriesOfBucketAndKeyIncludingGlobal" => some .keyAndGlobal
  | "waitForAllOutboxEntriesOfBucket" => some .bucket
  | "waitForGlobalOutboxEntriesOfBucket" => some .bucketGlobal
  | "waitForGlobalOutboxEntries" => some .global
  | _ => none

/-- `covers have need`: waiting for `have` (same bucket/key) also waits for everything in `need`. -/
def covers : Kind → Kind → Bool
  | .bucket, .bucket | .bucket, .keyAndGlobal | .bucket, .bucketGlobal => true
  | .keyAndGlobal, .keyAndGlobal | .keyAndGlobal, .bucketGlobal => true
  | .bucketGlobal, .bucketGlobal => true
  | .global, .global | .global, .bucketGlobal => true
  | _, _ => false

/-- What a written-through method must wait for so that it commutes with every queued entry it
does not wait for — from the S3 semantics of the four queued operations (CreateBucket /
DeleteBucket address (bucket, ''), PutObject / DeleteObject address (bucket, key)):
  * anything that reads or writes one object: that key's entries and the bucket's lifecycle entries;
  * listings of a bucket's objects and `PutBucketVersioningConfiguration` (it changes how every
    queued put/delete of the bucket replays): all entries of the bucket;
  * multi-key deletes: all entries of the bucket;
  * what depends only on the bucket's existence or configuration: the bucket's lifecycle entries;
  * the bucket list: all lifecycle entries.
Each requirement is per addressed (bucket, key): copy-like methods need it for source and destination. -/
def requiredKinds : String → List Kind
  | "ListBuckets" => [.global]
  | "PutBucketVersioningConfiguration" | "ListObjects" | "ListObjectVersions" | "DeleteObjects" => [.bucket]
  | "CopyObject" | "UploadPartCopy" => [.keyAndGlobal, .keyAndGlobal]
  | "HeadBucket" | "GetBucketVersioningConfiguration" | "ListMultipartUploads"
  | "GetBucketWebsiteConfiguration" | "PutBucketWebsiteConfiguration" | "DeleteBucketWebsiteConfiguration"
  | "GetBucketCORSConfiguration" | "PutBucketCORSConfiguration" | "DeleteBucketCORSConfiguration"
  | "GetBucketLifecycleConfiguration" | "PutBucketLifecycleConfiguration" | "DeleteBucketLifecycleConfiguration"
  | "GetBucketNotificationConfiguration" | "PutBucketNotificationConfiguration" => [.bucketGlobal]
  | _ => [.keyAndGlobal]

/-- The table's waits of a method cover the requirement position by position. -/
def methodCovered (m : Method) : Bool :=
  if !m.through then true else
  let have_ := m.waits.filterMap kindOfWait
  let need := requiredKinds m.name
  have_.length == m.waits.length && have_.length == need.length &&
    (have_.zip need).all fun (h, n) => covers h n

end Pithos.OutboxStorage
