/-
Executable Reed–Solomon code over GF(2^8) as used by erasurecoding.go through
github.com/klauspost/reedsolomon with default options (`reedsolomon.New(d, p)`): field polynomial
x^8+x^4+x^3+x^2+1 (0x11D), encoding matrix = Vandermonde(d+p, d) · (its top d×d square)⁻¹, so the first
`d` rows are the identity (systematic code). `ReconstructData` takes the first `d` present shards (in
index order), inverts the corresponding rows of the matrix and recomputes the missing data shards.

Used by the C17 driver only (the theorems are about an abstract `EC.Code` with an MDS hypothesis).
Core Lean only.
-/
import Pithos.Model.ErasureCoding

namespace Pithos.RS
open Pithos.Codec

/-- carry-less multiplication modulo 0x11D -/
def gfMul (a b : Nat) : Nat := Id.run do
  let mut r := 0
  let mut x := a
  let mut y := b
  for _ in [0:8] do
    if y % 2 == 1 then r := r ^^^ x
    y := y / 2
    x := x * 2
    if x ≥ 256 then x := x ^^^ 0x11D
  return r

def gfPow (a n : Nat) : Nat := Id.run do
  let mut r := 1
  for _ in [0:n] do r := gfMul r a
  return r

def gfInv (a : Nat) : Nat := gfPow a 254

abbrev Matrix := Array (Array Nat)

def identity (n : Nat) : Matrix := (Array.range n).map fun r => (Array.range n).map fun c => if r == c then 1 else 0

def vandermonde (rows cols : Nat) : Matrix :=
  (Array.range rows).map fun r => (Array.range cols).map fun c => if c == 0 then 1 else if r == 0 then 0 else gfPow r c

def matMul (a b : Matrix) : Matrix :=
  a.map fun row =>
    (Array.range ((b.getD 0 #[]).size)).map fun c =>
      (Array.range row.size).foldl (fun acc k => acc ^^^ gfMul (row.getD k 0) ((b.getD k #[]).getD c 0)) 0

/-- Gauss–Jordan inversion; `none` for a singular matrix. -/
def invert (m : Matrix) : Option Matrix := Id.run do
  let n := m.size
  let mut w : Matrix := (Array.range n).map fun r => (m.getD r #[]) ++ ((identity n).getD r #[])
  for r in [0:n] do
    if (w.getD r #[]).getD r 0 == 0 then
      let mut found := false
      for rb in [r+1:n] do
        if !found && (w.getD rb #[]).getD r 0 != 0 then
          let tmp := w.getD r #[]
          w := (w.set! r (w.getD rb #[])).set! rb tmp
          found := true
    let piv := (w.getD r #[]).getD r 0
    if piv == 0 then return none
    let s := gfInv piv
    w := w.set! r ((w.getD r #[]).map fun x => gfMul x s)
    for rb in [0:n] do
      if rb != r then
        let f := (w.getD rb #[]).getD r 0
        if f != 0 then
          let pr := w.getD r #[]
          w := w.set! rb (((w.getD rb #[]).zip pr).map fun (x, y) => x ^^^ gfMul f y)
  return some (w.map fun row => row.extract n (2 * n))

def encMatrix (d n : Nat) : Matrix :=
  let vm := vandermonde n d
  match invert (vm.extract 0 d) with
  | some ti => matMul vm ti
  | none => vm

/-- one output shard = Σ_c coef[c] · input[c], bytewise -/
def combine (coef : Array Nat) (inputs : List Bytes) : Bytes :=
  let len := (inputs.headD []).length
  let ins : List (Nat × Array UInt8) := List.zip coef.toList (inputs.map List.toArray)
  -- multiplication tables of the coefficients (256 entries each) instead of a bit loop per byte
  let tabs : List (Array Nat × Array UInt8) := ins.map fun (c, a) => ((Array.range 256).map (gfMul c), a)
  (List.range len).map fun i =>
    UInt8.ofNat (tabs.foldl (fun acc (t, a) => acc ^^^ t.getD (a.getD i 0).toNat 0) 0)

def parity (d p : Nat) (data : List Bytes) : List Bytes :=
  let m := encMatrix d (d + p)
  (List.range p).map fun i => combine (m.getD (d + i) #[]) data

/-- all `d` data shards from the first `d` present shards (`none`: fewer than `d` present / singular) -/
def reconstruct (d p : Nat) (shards : List (Option Bytes)) : Option (List Bytes) :=
  let m := encMatrix d (d + p)
  let present := ((List.zip (List.range (d + p)) shards).filterMap fun (k, s) => s.map fun b => (k, b)).take d
  if present.length < d then none else
  let sub : Matrix := (present.map fun (k, _) => m.getD k #[]).toArray
  match invert sub with
  | none => none
  | some inv =>
    some ((List.range d).map fun i =>
      match shards.getD i none with
      | some b => b
      | none => combine (inv.getD i #[]) (present.map (·.2)))

def reconstructAll (d p : Nat) (shards : List (Option Bytes)) : Option (List Bytes) :=
  (reconstruct d p shards).map fun data => data ++ parity d p data

def code : EC.Code := { parity := parity, reconstruct := reconstruct, reconstructAll := reconstructAll }

end Pithos.RS
