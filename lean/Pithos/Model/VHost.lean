/-
M9 (C33): how a request's Host and request-target become the (bucket, key) the S3 API handlers
act on — path style vs virtual-hosted style — and which handler family a host reaches.

Mirrors (repo code)
  /repo/internal/http/middleware/virtualhostbucketaddressing.go   `rewrite`
  /repo/internal/http/middleware/hostrouting.go                   `route`
  /repo/internal/http/server/server.go  SetupServer: the custom-domain fallback handler, and the
      shapes of the registered ServeMux patterns (`/`, `/{bucket}`, `/{bucket}/{key...}`; tied by
      the T1 table Pithos.Gen.C33Routes)
and re-describes (Go standard library, trusted; validated by the C33 differential run)
  net/url        setPath / EscapedPath / escape / unescape / validEncoded  (mode encodePath)
  net/http       ServeMux: a request whose escaped path is not its own cleaned form is answered
                 with a redirect; otherwise `{bucket}` is the first segment and `{key...}` the rest
                 of the ESCAPED path, each percent-decoded.

Strings are byte strings held as `List Char` (every char < 256).
`repaired = false`: the rewrite as it stands — `TrimSuffix("/"+bucket+Path, "/")`, RawPath left
stale. `repaired = true`: fixes/C33-vhost-keep-trailing-slash.patch — only the bare "/" maps to the
bucket itself, the key's trailing slash is kept and RawPath is prefixed too.
Core Lean only.
-/
import Pithos.Model.AsciiStr

namespace Pithos.VHost
open Pithos.Ascii

/-! ### net/url, mode encodePath -/

def isAlnum (c : Char) : Bool :=
  let n := c.toNat
  (n ≥ 48 && n ≤ 57) || (n ≥ 65 && n ≤ 90) || (n ≥ 97 && n ≤ 122)

/-- `!shouldEscape(c, encodePath)`: alphanumerics and `$ & + , - . / : ; = @ _ ~`. -/
def keepPath (c : Char) : Bool :=
  isAlnum c || "$&+,-./:;=@_~".toList.contains c

def hexd (n : Nat) : Char :=
  if n < 10 then Char.ofNat (48 + n) else Char.ofNat (55 + n)

def hexVal? (c : Char) : Option Nat :=
  let n := c.toNat
  if n ≥ 48 && n ≤ 57 then some (n - 48)
  else if n ≥ 97 && n ≤ 102 then some (n - 87)
  else if n ≥ 65 && n ≤ 70 then some (n - 55)
  else none

def escChar (c : Char) : List Char :=
  if keepPath c then [c] else ['%', hexd (c.toNat / 16), hexd (c.toNat % 16)]

/-- `escape(s, encodePath)`. -/
def esc (s : List Char) : List Char := s.flatMap escChar

/-- Scanner state of `unescape`: plain text, just after a '%', after '%' and one hex digit. -/
inductive USt where
  | normal
  | pct
  | hi (x : Nat)
  deriving Repr, DecidableEq

def unescGo : USt → List Char → Option (List Char)
  | .normal, [] => some []
  | .pct, [] => none
  | .hi _, [] => none
  | .normal, c :: r =>
    if c == '%' then unescGo .pct r else (unescGo .normal r).map (c :: ·)
  | .pct, a :: r =>
    match hexVal? a with
    | some x => unescGo (.hi x) r
    | none => none
  | .hi x, b :: r =>
    match hexVal? b with
    | some y => (unescGo .normal r).map (Char.ofNat (16 * x + y) :: ·)
    | none => none

/-- `unescape(s, encodePath)`: every '%' must be followed by two hex digits. -/
def unesc (s : List Char) : Option (List Char) := unescGo .normal s

/-- `validEncoded(s, encodePath)`. -/
def validEncoded (s : List Char) : Bool :=
  s.all fun c => "!$&'()*+,;=:@[]%".toList.contains c || keepPath c

/-- The two fields of `http.Request.URL` that matter here. -/
structure Url where
  path : List Char      -- URL.Path (decoded)
  rawPath : List Char   -- URL.RawPath ("" = the default encoding of Path is the raw form)
  deriving Repr, DecidableEq

/-- `URL.setPath` as applied by net/http to the path of the request-target (none = 400). -/
def parseTarget (raw : List Char) : Option Url :=
  match unesc raw with
  | none => none
  | some p => some { path := p, rawPath := if raw == esc p then [] else raw }

/-- `URL.EscapedPath`. -/
def escapedPath (u : Url) : List Char :=
  if !u.rawPath.isEmpty && validEncoded u.rawPath && unesc u.rawPath == some u.path then u.rawPath
  else if u.path == ['*'] then ['*']
  else esc u.path

/-! ### the repo's middlewares -/

/-- Host without port: `LastIndex(":")`, unless a `]` comes after it. -/
def stripPort (h : List Char) : List Char :=
  match lastIdx ':' h with
  | none => h
  | some ci =>
    match lastIdx ']' h with
    | none => h.take ci
    | some bi => if bi < ci then h.take ci else h

def dotted (ep : List Char) : List Char := '.' :: ep

/-- `MakeVirtualHostBucketAddressingMiddleware`: the URL the API mux then sees. -/
def rewrite (repaired : Bool) (apiEp : List Char) (host : List Char) (u : Url) : Url :=
  let hn := stripPort host
  if hn != apiEp && (dotted apiEp).isSuffixOf hn then
    let bucket := trimSuffix hn (dotted apiEp)
    if bucket.isEmpty then u
    else
      let pre := '/' :: bucket
      if repaired then
        if u.path == ['/'] || u.path.isEmpty then { path := pre, rawPath := [] }
        else { path := pre ++ u.path, rawPath := if u.rawPath.isEmpty then [] else pre ++ u.rawPath }
      else { u with path := trimSuffix (pre ++ u.path) ['/'] }
  else u


/-! ### host tests, as data (regenerated from the Go sources by the T1 extractor) -/

/-- The shape of a host test in hostrouting.go / virtualhostbucketaddressing.go. `ep` names the
endpoint parameter ("api" / "website"). `other` = a source shape the extractor does not know. -/
inductive HostExpr where
  | eq (ep : String)              -- host == <ep>
  | ne (ep : String)              -- host != <ep>
  | hasSuffixDot (ep : String)    -- strings.HasSuffix(host, "." + <ep>)
  | hasPrefixDot (ep : String)    -- strings.HasPrefix(host, "." + <ep>)
  | containsDot (ep : String)     -- strings.Contains(host, "." + <ep>)
  | or (a b : HostExpr)
  | and (a b : HostExpr)
  | other (src : String)
  deriving Repr, DecidableEq

/-- What a host test computes; `eps` resolves the endpoint names. `other` is never true. -/
def HostExpr.eval (eps : String → List Char) (h : List Char) : HostExpr → Bool
  | .eq ep => h == eps ep
  | .ne ep => h != eps ep
  | .hasSuffixDot ep => ('.' :: eps ep).isSuffixOf h
  | .hasPrefixDot ep => ('.' :: eps ep).isPrefixOf h
  | .containsDot ep => (List.range (h.length + 1)).any fun i => ('.' :: eps ep).isPrefixOf (h.drop i)
  | .or a b => a.eval eps h || b.eval eps h
  | .and a b => a.eval eps h && b.eval eps h
  | .other _ => false

/-- Is the (port-stripped) host an API host? — the test of `MakeHostnameRoutingHandler`. -/
def isApiHost (apiEp h : List Char) : Bool := h == apiEp || (dotted apiEp).isSuffixOf h

inductive Family where
  | api                               -- the S3 API mux (after `rewrite`)
  | website (bucket : List Char)      -- <bucket>.<website endpoint>
  | custom (bucket : List Char)       -- any other host: the host name is the bucket
  deriving Repr, DecidableEq

/-- `MakeHostnameRoutingHandler` + the fallback handler of SetupServer. -/
def route (apiEp webEp host : List Char) : Family :=
  let h := stripPort host
  if isApiHost apiEp h then .api
  else if (dotted webEp).isSuffixOf h && !(trimSuffix h (dotted webEp)).isEmpty then
    .website (trimSuffix h (dotted webEp))
  else .custom h

/-! ### net/http ServeMux on the patterns `/`, `/{bucket}`, `/{bucket}/{key...}` -/

def dot : List Char := ['.']
def dotdot : List Char := ['.', '.']

/-- `cleanPath(e) == e`: no empty segment (one trailing slash is fine), no `.` or `..` segment. -/
def isClean (e : List Char) : Bool :=
  match e with
  | '/' :: rest =>
    if rest.isEmpty then true
    else
      let ss := splitOn '/' rest
      let body := if ss.getLast? == some [] then ss.dropLast else ss
      !body.isEmpty && body.all fun s => !s.isEmpty && s != dot && s != dotdot
  | _ => false

inductive Target where
  | root                                      -- `/`
  | bucket (b : List Char)                    -- `/{bucket}`
  | object (b k : List Char)                  -- `/{bucket}/{key...}` (k may be empty)
  deriving Repr, DecidableEq

inductive Outcome where
  | redirect                                  -- the mux answers with a redirect to the cleaned path
  | target (t : Target)
  deriving Repr, DecidableEq

def unescD (s : List Char) : List Char := (unesc s).getD s   -- `pathUnescape`

/-- Which pattern an escaped path selects and with which wildcard values. -/
def muxResolve (e : List Char) : Outcome :=
  if !isClean e then .redirect
  else
    let rest := e.drop 1
    if rest.isEmpty then .target .root
    else if rest.contains '/' then
      .target (.object (unescD (rest.takeWhile (· != '/'))) (unescD ((rest.dropWhile (· != '/')).drop 1)))
    else .target (.bucket (unescD rest))

/-- What an API-family request (host, parsed URL) resolves to. -/
def apiResolve (repaired : Bool) (apiEp host : List Char) (u : Url) : Outcome :=
  muxResolve (escapedPath (rewrite repaired apiEp host u))

/-- The website / custom-domain handlers see `"/" + bucket + Path` (RawPath left alone). -/
def siteUrl (bucket : List Char) (u : Url) : Url := { u with path := ('/' :: bucket) ++ u.path }

def siteResolve (bucket : List Char) (u : Url) : Outcome := muxResolve (escapedPath (siteUrl bucket u))

/-! ### "the same request, sent both ways" -/

/-- Path style: `Host: <endpoint>`, target `/<bucket>/<encoded key>`. -/
def pathObjTarget (b ek : List Char) : List Char := '/' :: b ++ '/' :: ek
/-- Virtual-hosted style: `Host: <bucket>.<endpoint>`, target `/<encoded key>`. -/
def vhostObjTarget (ek : List Char) : List Char := '/' :: ek
def vhostHost (b apiEp : List Char) : List Char := b ++ dotted apiEp

def resolveTarget (repaired : Bool) (apiEp host raw : List Char) : Option Outcome :=
  (parseTarget raw).map (apiResolve repaired apiEp host)

end Pithos.VHost
