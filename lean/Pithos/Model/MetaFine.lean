/-
`Meta.Fine` — a statement-level model of the optimistic-lock protocol that protects the current
row of ONE key of an unversioned bucket (/repo/internal/storage/metadatapart/object_write.go,
metadatastore/sql/{object_write,delete,multipart}.go, sqlite/repository/object/sqlite.go).

On SQLite every storage call is one serialised write transaction (Gen/TxFacts), so none of the
interleavings below can happen there. They matter for a database that runs write transactions
concurrently under READ COMMITTED: a plain SELECT sees the last committed row; the first
UPDATE/DELETE/INSERT of a transaction takes the row (or unique-index) lock, re-evaluates its WHERE
clause on the latest committed row, and holds the lock until COMMIT — so "guarded statement …
COMMIT" is one atomic step with respect to every other transaction's reads and writes. The atomic
steps of a writer are therefore its reads (one per SELECT) and its commit step.

  row   = the objects-table row of the key that is `is_latest` (at most one: the unique index
          `objects_completed_latest_unique`, Gen/TxFacts.latestUniqueIndex), with its id, its
          `optimistic_lock_version` and its part rows (ids in sequence order). The ETag of a row is
          a function of its part list, so "has that ETag" is "has those parts".
  put   = PutObject / CompleteMultipartUpload (`parts` = the new part list; a completed upload may
          have none): read the latest row; check If-Match / If-None-Match; commit: conditional
          writers first "lock" the row with `UPDATE … WHERE id = ? AND optimistic_lock_version = ?`
          (0 rows ⇒ PreconditionFailed), an insert that hits the unique index under If-None-Match ⇒
          PreconditionFailed; unconditional writers update by id without a guard.
  del   = DeleteObject, with If-Match: guarded UPDATE then `DELETE … WHERE id = ? AND
          optimistic_lock_version = ?`; without: DELETE by id.
  append= AppendObject: read 1 (storage layer, HeadObject: parts and size → offset check and the
          new part list `old ++ [new]`), read 2 (metadata store: the latest row, its version), read 3
          (its part rows) and the prefix check "existing part rows are a prefix of the new list",
          commit: `UPDATE … WHERE id = ? AND optimistic_lock_version = ?` (0 rows ⇒ ErrCASFailure ⇒
          InvalidWriteOffset) and insertion of the part rows beyond the existing ones; when read 2
          found no row, an unguarded INSERT of a new row holding the whole new list.
Core Lean only.
-/
namespace Pithos.MetaFine

abbrev PartId := Nat

/-- The latest row of the key. -/
structure Cell where
  id    : Nat
  ver   : Nat
  parts : List PartId
  deriving Repr, DecidableEq

structure Db where
  row    : Option Cell := none
  nextId : Nat := 0          -- row ids (ULIDs) are fresh
  deriving Repr, DecidableEq

inductive Cond where
  | none
  | inm                              -- If-None-Match: *
  | im (parts : List PartId)         -- If-Match: the ETag of the object with these parts
  deriving Repr, DecidableEq

inductive Prog where
  | put (new : List PartId) (c : Cond)
  | del (im : Option (List PartId))
  | append (new : PartId) (off : Option Nat)
  deriving Repr, DecidableEq

inductive Res where
  | ok                     -- acknowledged
  | okAt (offset : Nat)    -- acknowledged append: the offset it was accepted for (returned size − own size)
  | precondition           -- PreconditionFailed
  | invalidOffset          -- InvalidWriteOffset (offset check, or the lost version race)
  | internal               -- an internal error: not acknowledged, no effect
  deriving Repr, DecidableEq

/-- Where a writer is in its program, with what it has read so far. -/
inductive Loc where
  | start
  | seen (c : Option Cell)                                   -- put/del after their read
  | r1 (c1 : Option Cell)                                    -- append after read 1
  | r2 (c1 c2 : Option Cell)                                 -- append after read 2
  | r3 (c1 : Option Cell) (c2 : Cell) (p3 : List PartId)     -- append after read 3 and the prefix check
  | done (r : Res)
  deriving Repr, DecidableEq

structure Thread where
  prog : Prog
  loc  : Loc := .start
  deriving Repr, DecidableEq

/-- A commit that changed the row: who, what was replaced, what is there now. -/
structure Commit where
  tid    : Nat
  before : Option Cell
  after  : Option Cell
  deriving Repr, DecidableEq

structure State where
  db      : Db
  threads : List Thread
  log     : List Commit := []     -- ghost: commits in the order they happened
  deriving Repr, DecidableEq

/-- Part sizes are a parameter (`sz`); the size of an object is the sum over its parts. -/
def sizeOf (sz : PartId → Nat) (ps : List PartId) : Nat := (ps.map sz).sum

def partsOf : Option Cell → List PartId
  | some c => c.parts
  | none => []

/-- `guard c d`: the guarded statement `… WHERE id = c.id AND optimistic_lock_version = c.ver`
matches the committed row. -/
def guard (c : Cell) (d : Db) : Bool :=
  match d.row with
  | some r => r.id == c.id && r.ver == c.ver
  | none => false

/-- One atomic step of thread `t` (index `tid`) on database `d`:
the new database, the thread's new location, and the row change if it committed one. -/
def stepThread (sz : PartId → Nat) (tid : Nat) (d : Db) (t : Thread) : Db × Loc × Option Commit :=
  match t.prog, t.loc with
  -- ---------------- put / complete
  | .put _ c, .start =>
    -- SELECT the latest row, evaluate the precondition on it
    match c, d.row with
    | .im _, none => (d, .done .precondition, none)
    | .im e, some r => if r.parts == e then (d, .seen (some r), none) else (d, .done .precondition, none)
    | .inm, some _ => (d, .done .precondition, none)
    | _, row => (d, .seen row, none)
  | .put new c, .seen s =>
    match s with
    | some sc =>
      if c != .none then
        -- lock: UPDATE … WHERE id AND optimistic_lock_version (bump), clear is_latest (UPDATE by id,
        -- bump), write the new content into the row (UPDATE by id, bump)
        if guard sc d then
          let r' : Cell := { id := sc.id, ver := sc.ver + 3, parts := new }
          ({ d with row := some r' }, .done .ok, some ⟨tid, d.row, some r'⟩)
        else (d, .done .precondition, none)
      else
        -- unconditional: two UPDATE … WHERE id = ? (is_latest, content) — whatever version the row has now
        match d.row with
        | some r =>
          if r.id == sc.id then
            let r' : Cell := { id := r.id, ver := r.ver + 2, parts := new }
            ({ d with row := some r' }, .done .ok, some ⟨tid, d.row, some r'⟩)
          else (d, .done .internal, none)   -- the row it read is gone: 0 rows updated, part rows fail
        | none => (d, .done .internal, none)
    | none =>
      -- INSERT; the unique index on the latest row of the key rejects a second one
      match d.row with
      | none =>
        let r' : Cell := { id := d.nextId, ver := 1, parts := new }
        ({ row := some r', nextId := d.nextId + 1 }, .done .ok, some ⟨tid, none, some r'⟩)
      | some _ => (d, .done (if c == .inm then .precondition else .internal), none)
  -- ---------------- delete
  | .del im, .start =>
    match im, d.row with
    | some _, none => (d, .done .precondition, none)
    | some e, some r => if r.parts == e then (d, .seen (some r), none) else (d, .done .precondition, none)
    | none, none => (d, .done .ok, none)               -- nothing to delete: success
    | none, some r => (d, .seen (some r), none)
  | .del im, .seen s =>
    match s with
    | some sc =>
      if im.isSome then
        if guard sc d then ({ d with row := none }, .done .ok, some ⟨tid, d.row, none⟩)
        else (d, .done .precondition, none)
      else
        match d.row with
        | some r => if r.id == sc.id then ({ d with row := none }, .done .ok, some ⟨tid, d.row, none⟩)
                    else (d, .done .ok, none)           -- DELETE by id matched nothing
        | none => (d, .done .ok, none)
    | none => (d, .done .ok, none)
  -- ---------------- append
  | .append _ off, .start =>
    -- read 1 (HeadObject in the storage layer) and the write-offset check
    let okOff := match off with
      | none => true
      | some n => n == sizeOf sz (partsOf d.row)
    if okOff then (d, .r1 d.row, none) else (d, .done .invalidOffset, none)
  | .append _ _, .r1 c1 => (d, .r2 c1 d.row, none)          -- read 2: the latest row again
  | .append new _, .r2 c1 c2 =>
    match c2 with
    | some sc =>
      -- read 3: the part rows of that row id, as committed now; then the prefix check
      let p3 := match d.row with
        | some r => if r.id == sc.id then r.parts else []
        | none => []
      let all := partsOf c1 ++ [new]
      if p3.isPrefixOf all then (d, .r3 c1 sc p3, none) else (d, .done .internal, none)
    | none =>
      -- no row: INSERT a new one holding the whole list computed from read 1
      match d.row with
      | none =>
        let r' : Cell := { id := d.nextId, ver := 1, parts := partsOf c1 ++ [new] }
        ({ row := some r', nextId := d.nextId + 1 }, .done (.okAt (sizeOf sz (partsOf c1))), some ⟨tid, none, some r'⟩)
      | some _ => (d, .done .internal, none)
  | .append new _, .r3 c1 sc p3 =>
    if guard sc d then
      let all := partsOf c1 ++ [new]
      let r' : Cell := { id := sc.id, ver := sc.ver + 1, parts := partsOf d.row ++ all.drop p3.length }
      ({ d with row := some r' }, .done (.okAt (sizeOf sz (partsOf c1))), some ⟨tid, d.row, some r'⟩)
    else (d, .done .invalidOffset, none)
  -- ---------------- finished threads, ill-formed combinations: no step
  | _, l => (d, l, none)

def setThread (ts : List Thread) (i : Nat) (l : Loc) : List Thread :=
  ts.mapIdx fun j t => if j == i then { t with loc := l } else t

/-- Schedule step: thread `i` performs its next atomic step (out-of-range: nothing happens). -/
def step (sz : PartId → Nat) (s : State) (i : Nat) : State :=
  match s.threads[i]? with
  | none => s
  | some t =>
    let (d', l', c) := stepThread sz i s.db t
    { db := d', threads := setThread s.threads i l', log := s.log ++ c.toList }

/-- Run a schedule: any list of thread indices, i.e. any interleaving of the atomic steps. -/
def exec (sz : PartId → Nat) (s : State) (sched : List Nat) : State := sched.foldl (step sz) s

def init (row : Option Cell) (nextId : Nat) (progs : List Prog) : State :=
  { db := { row := row, nextId := nextId }, threads := progs.map fun p => { prog := p } }

/-- Part ids a program brings in. -/
def Prog.news : Prog → List PartId
  | .put new _ => new
  | .del _ => []
  | .append new _ => [new]

end Pithos.MetaFine
